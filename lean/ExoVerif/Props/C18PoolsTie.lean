import ExoVerif.Props.C18Pools
import ExoVerif.Generated.Facts
/-!
# C18 — tie: the collection exporters of x/assets and x/delegation skip nothing

`Model/GenesisAssets.exportAssets` (and the verbatim export of the delegation rows) append EVERY entry of the prefix store
they walk; `Props/C18Pools.lean` proves what an exporter that skips rows costs (`C18_assets_filtered_export_roundtrip_iff`:
the round trip reproduces the state iff no row is skipped; `C18_assets_filtered_reexport_same`: the documents cannot show it).
The regenerated fact counts, per exporter, the loops, the `continue` / `break` / `goto` statements and the append calls that
sit under an `if` inside a loop (or inside the callback handed to an Iterate… helper). The only guarded appends of the code
as it is are the two that open a new group in AllDeposits / AllOperatorAssets (pinned statement by statement by
`C18_tie_assets_export_loops`). A filter in an exporter loop changes a count and breaks this theorem.
-/
namespace ExoVerif.Genesis
open ExoVerif.Gen

theorem C18_tie_export_loops_skip_nothing : exportLoopsSkipNothing = [
  ("IterateAllClientChains", 1, 0, 0),
  ("GetAllClientChainInfo", 0, 0, 0),
  ("GetAllStakingAssetsInfo", 1, 0, 0),
  ("AllDeposits", 1, 0, 1),
  ("AllOperatorAssets", 1, 0, 1),
  ("GetAllAssociations", 1, 0, 0),
  ("AllDelegationStates", 1, 0, 0),
  ("AllStakerList", 1, 0, 0),
  ("AllUndelegations", 1, 0, 0)] := by decide

end ExoVerif.Genesis
