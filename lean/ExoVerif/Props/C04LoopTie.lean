import ExoVerif.Generated.Facts
import ExoVerif.Props.C04
/-!
# C04 tie — the iteration that reaches "each pending undelegation started at or after the infraction height"

`SlashAssets` slashes the pending undelegations through
`delegationKeeper.IterateUndelegationsByOperator(ctx, operator, &heightFilter, true, opFunc)`
(x/delegation/keeper/un_delegation_state.go). The model's `slashRecords` visits every record of the
store and cuts exactly those with `k.op = o ∧ infraction ≤ k.height` (`C04_records_frame`). That is the Go
loop as long as, in source order: the iterator runs over the record store with the operator as prefix; a
record whose key start height is `<` the filter is *skipped* (`continue`: the iteration goes on with the
next key — store keys are ordered by the hex text of the height, so records below and above the filter
interleave); the closure runs on every other record; the record is written back under its own key.
The regenerated skeleton is compared with the literal the model was transcribed from.
-/
namespace ExoVerif.Ledger
open ExoVerif ExoVerif.KV

theorem C04_tie_undelegationLoop : Gen.slashRecordLoopSkeleton = [
    "assign store := prefix.NewStore(ctx.KVStore(k.storeKey),types.KeyPrefixUndelegationInfo)",
    "assign iterator := sdk.KVStorePrefixIterator(store,[]byte(operator))",
    "if heightFilter!=nil",
    "call ParseUndelegationRecordKey(iterator.Key())",
    "if keyFields.BlockHeight<*heightFilter",
    "continue",
    "call opFunc(&undelegation)",
    "if isUpdate",
    "call Set(iterator.Key(),bz)",
    "return nil"] := by decide

/-- what the pinned loop shape buys: whatever the position of a record in the store (records of other
operators or below the filter before it), an at-risk record of the slashed operator is cut and a record
below the filter is not — `slashRecords` on a store that starts with a skipped record continues with the rest -/
theorem C04_skipped_record_does_not_end_iteration (k : RecKey) (r : URec) (rest : List (RecKey × URec))
    (o : OID) (inf : Nat) (p : Dec) (hskip : ¬ (k.op = o ∧ inf ≤ k.height)) :
    (slashRecords ((k, r) :: rest) o inf p).1 = (k, r) :: (slashRecords rest o inf p).1 := by
  simp only [slashRecords, hskip, if_false]

/-- a concrete store in byte order of its keys: a record started before the infraction (height 5) precedes
one started after it (height 7); the second one is cut although the first is skipped -/
example :
    let r5 : URec := ⟨"s", "a", "op", "h1", 1, 5, 15, 100, 100⟩
    let r7 : URec := ⟨"s", "a", "op", "h2", 2, 7, 17, 100, 100⟩
    ((slashRecords [(r5.key, r5), (r7.key, r7)] "op" 6 ⟨500000000000000000⟩).1.map (·.2.actual)) = [100, 50] := by
  decide

end ExoVerif.Ledger
