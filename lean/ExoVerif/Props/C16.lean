import ExoVerif.Props.C07
/-!
# C16 — epoch-scheduled unbonding queues drain completely, exactly on time

Same model as C07 (`ExoVerif.ConsKeys`): the three per-epoch queues (opt-outs to finish, consensus
addresses to prune, undelegations to mature), the three pending lists, the reverse lookups and
the hold counts. "Epoch e ends" is the `epochEnd e` operation = dogfood's AfterEpochEnd hook,
which by C15 (`C15_hooks_exactly_once_in_order`) is delivered exactly once per number, in
increasing order, one per block.
-/
namespace ExoVerif.ConsKeys
open ExoVerif.VMap ExoVerif.ValSet

/-! ## registration: the slot is `current epoch + EpochsUntilUnbonded` -/

/-- an opt-out of an operator whose key is in the validator set is queued for epoch e + N and its
finish epoch is stored -/
theorem C16_optout_slot (s : St) (op key : Nat) (hreg : s.registered op = true)
    (hact : s.optedIn op = true ∧ s.jailed op = false) (hf : s.fwd op = some key)
    (hval : has s.vs.vals key = true) :
    op ∈ (optOut s op).2.optOutsToFinish (s.epoch + s.nUnb) ∧
    (optOut s op).2.optOutFinishEpoch op = some (s.epoch + s.nUnb) ∧ (optOut s op).2.removing op = true := by
  simp [optOut, hreg, hact.1, hact.2, hf, hval, setOptOutInformation, completionEpoch, upd_apply]

/-- an undelegation from a validating operator (current or previous key in the set) is held and
queued for epoch e + N -/
theorem C16_undelegation_slot (s : St) (op rec k : Nat) (hnr : s.removing op = false)
    (hreg : s.registered op = true) (hf : s.fwd op = some k) (hval : has s.vs.vals k = true) :
    rec ∈ (undelegationStarted s op rec).2.undelToMature (s.epoch + s.nUnb) ∧
    (undelegationStarted s op rec).2.undelMaturity rec = some (s.epoch + s.nUnb) ∧
    (undelegationStarted s op rec).2.holds rec = s.holds rec + 1 := by
  simp [undelegationStarted, hnr, hreg, hf, hval, completionEpoch, upd_apply]

/-- An undelegation from an operator whose current and previous keys are not in the validator
set (and which is not opting out) is not held at all: nothing changes. -/
theorem C16_not_held_if_not_validator (s : St) (op rec : Nat) (hnr : s.removing op = false)
    (hcur : ∀ k, s.fwd op = some k → has s.vs.vals k = false)
    (hprev : ∀ k, s.prevKey op = some k → has s.vs.vals k = false) :
    undelegationStarted s op rec = (.ok, s) := by
  unfold undelegationStarted
  simp only [hnr, Bool.false_eq_true, if_false]
  split
  · rfl
  · cases hf : s.fwd op with
    | none => rfl
    | some k =>
      simp only [hcur k hf, Bool.false_or]
      cases hp : s.prevKey op with
      | none => simp
      | some pk => simp [hprev pk hp]

/-- One from an operator that is opting out matures together with the opt-out: while the
opt-out's finish epoch `f` is stored it is held and queued for `f` — whatever the current value
of EpochsUntilUnbonded is (it may have been lowered since the opt-out). -/
theorem C16_matures_with_optout (s : St) (op rec : Nat) (f : Int) (hr : s.removing op = true)
    (hfin : s.optOutFinishEpoch op = some f) :
    (undelegationStarted s op rec).1 = .ok ∧
    rec ∈ (undelegationStarted s op rec).2.undelToMature f ∧
    (undelegationStarted s op rec).2.undelMaturity rec = some f ∧
    (undelegationStarted s op rec).2.holds rec = s.holds rec + 1 := by
  simp [undelegationStarted, hr, hfin, upd_apply]

/-- In the block whose BeginBlock ended the finish epoch (the hook consumed the finish epoch, the
operator is pending, EndBlock has not run yet) the unbonding period is over: the undelegation
is accepted and not held at all — it neither panics nor matures late. -/
theorem C16_undelegation_in_closing_block (s : St) (op rec : Nat) (hr : s.removing op = true)
    (hfin : s.optOutFinishEpoch op = none) : undelegationStarted s op rec = (.ok, s) := by
  simp [undelegationStarted, hr, hfin]

/-- the full statement: in every history an undelegation from an opting-out operator is accepted,
and it either matures with the opt-out (finish epoch stored) or — finish epoch already consumed —
is not held -/
def C16_full : Prop :=
  ∀ (ops : List Op) (op rec : Nat),
    let s := run (St.init 3 6 1 2) ops
    s.removing op = true →
      (undelegationStarted s op rec).1 = .ok ∧
      (match s.optOutFinishEpoch op with
       | some f => rec ∈ (undelegationStarted s op rec).2.undelToMature f ∧
                   (undelegationStarted s op rec).2.undelMaturity rec = some f
       | none => (undelegationStarted s op rec).2 = s)

theorem C16_full_holds : C16_full := by
  intro ops op rec s hr
  cases hf : s.optOutFinishEpoch op with
  | some f =>
    have := C16_matures_with_optout s op rec f hr hf
    exact ⟨this.1, this.2.1, this.2.2.1⟩
  | none =>
    have := C16_undelegation_in_closing_block s op rec hr hf
    simp [this]

/-- the epoch-end hook is the only thing that consumes a finish epoch, and it makes the operator
pending in the same step: so "removing without finish epoch" is exactly "pending in the closing
block" for a scheduled opt-out -/
theorem C16_finish_epoch_consumed_iff_pending (s : St) (e : Int) (op : Nat) (f : Int)
    (hf : s.optOutFinishEpoch op = some f) :
    ((epochEndHook s e).optOutFinishEpoch op = none ↔ op ∈ (epochEndHook s e).pendingOptOuts) := by
  simp only [epochEndHook]
  by_cases hm : op ∈ s.optOutsToFinish e
  · simp [hm]
  · simp [hm, hf]

/-! ## regression: the pre-fix hooks (findings F-07a, F-16a) -/

private def pw16 : Nat → Int := fun _ => 100

/-- F-16a before the fix: opt in, become active, opt out at epoch 2 (N = 2), epochs 2, 3 end,
epoch 4 ends: in that block, before EndBlock, the operator is still removing and has no finish
epoch; the pre-fix hook panics, the repaired one accepts and does not hold -/
example :
    let s := run (St.init 3 6 1 2) [.register 0, .optIn 0 5 true, .epochEnd 1, .endBlock pw16 5, .optOut 0,
      .epochEnd 2, .endBlock pw16 5, .epochEnd 3, .endBlock pw16 5, .epochEnd 4]
    s.removing 0 = true ∧ s.optOutFinishEpoch 0 = none ∧ s.pendingOptOuts = [0] ∧
    (undelegationStartedPreFix s 0 0).1 = .panic ∧
    (undelegationStarted s 0 0).1 = .ok ∧ (undelegationStarted s 0 0).2.holds 0 = 0 := by decide

/-- F-07a before the fix, seen from C16: the pre-fix opt-out leaves a marker without finish epoch
forever and every later undelegation panics -/
example :
    let s := runPreFix (St.init 3 6 1 2) (f07aWitness ++ [.epochEnd 1, .endBlock pw16 5, .epochEnd 2, .endBlock pw16 5,
      .epochEnd 3, .endBlock pw16 5, .epochEnd 4, .endBlock pw16 5])
    s.removing 0 = true ∧ (undelegationStartedPreFix s 0 0).1 = .panic := by decide

/-- EpochsUntilUnbonded lowered (2 → 1) between the opt-out and the undelegation: the undelegation
still matures with the opt-out (slot 4 = opt-out's finish epoch), not at current + new N = 3 -/
example :
    let s := run (St.init 3 6 1 2) [.register 0, .optIn 0 5 true, .epochEnd 1, .endBlock pw16 5, .optOut 0,
      .setUnbonding 1, .undelegate 0 0]
    s.optOutFinishEpoch 0 = some 4 ∧ s.undelMaturity 0 = some 4 ∧ s.undelToMature 4 = [0] ∧ s.undelToMature 3 = [] := by decide

/-! ## not earlier: an entry stays in its slot until that epoch ends -/

theorem hookReplaced_queues (t : St) (old : Nat) :
    (hookReplaced t old).undelToMature = t.undelToMature ∧ (hookReplaced t old).optOutsToFinish = t.optOutsToFinish := by
  unfold hookReplaced; split <;> exact ⟨rfl, rfl⟩

theorem setKeyCore_queues (t : St) (op key : Nat) :
    (setKeyCore t op key).2.undelToMature = t.undelToMature ∧ (setKeyCore t op key).2.optOutsToFinish = t.optOutsToFinish := by
  unfold setKeyCore
  split
  · exact ⟨rfl, rfl⟩
  · split
    · exact ⟨rfl, rfl⟩
    · cases t.fwd op with
      | none => exact ⟨rfl, rfl⟩
      | some pk =>
        simp only []
        split
        · exact ⟨rfl, rfl⟩
        · split
          · exact ⟨rfl, rfl⟩
          · exact hookReplaced_queues _ pk

theorem foldl_completeRemoval_queues (l : List Nat) (t : St) :
    (l.foldl completeRemoval t).undelToMature = t.undelToMature ∧
    (l.foldl completeRemoval t).optOutsToFinish = t.optOutsToFinish := by
  induction l generalizing t with
  | nil => exact ⟨rfl, rfl⟩
  | cons a rest ih =>
    simp only [List.foldl_cons]
    have h1 := ih (completeRemoval t a)
    have h2 : (completeRemoval t a).undelToMature = t.undelToMature ∧ (completeRemoval t a).optOutsToFinish = t.optOutsToFinish := by
      unfold completeRemoval
      repeat' split
      all_goals exact ⟨rfl, rfl⟩
    exact ⟨h1.1.trans h2.1, h1.2.trans h2.2⟩

theorem foldl_releaseUndel_queues (l : List Nat) (t : St) :
    (l.foldl releaseUndel t).undelToMature = t.undelToMature ∧
    (l.foldl releaseUndel t).optOutsToFinish = t.optOutsToFinish := by
  induction l generalizing t with
  | nil => exact ⟨rfl, rfl⟩
  | cons a rest ih => simp only [List.foldl_cons]; exact ih (releaseUndel t a)

/-- An undelegation / opt-out entry stays in its slot under every operation except the end of
that epoch (entries are only ever appended; a slot is emptied only by its own epoch end). -/
theorem C16_slot_persists (s : St) (o : Op) (e : Int) (ho : ∀ e', o = .epochEnd e' → e' ≠ e) :
    (∀ x, x ∈ s.undelToMature e → x ∈ (step s o).2.undelToMature e) ∧
    (∀ x, x ∈ s.optOutsToFinish e → x ∈ (step s o).2.optOutsToFinish e) := by
  cases o with
  | register op => exact ⟨fun _ h => h, fun _ h => h⟩
  | optIn op key ok =>
    simp only [step, optIn]
    split
    · exact ⟨fun _ h => h, fun _ h => h⟩
    · split
      · exact ⟨fun _ h => h, fun _ h => h⟩
      · split
        · exact ⟨fun _ h => h, fun _ h => h⟩
        · have := setKeyCore_queues { s with hasInfo := upd s.hasInfo op true, optedIn := upd s.optedIn op true, jailed := upd s.jailed op false } op key
          revert this
          generalize setKeyCore _ op key = r
          intro this
          obtain ⟨o, s2⟩ := r
          cases o <;> first
            | exact ⟨fun _ h => h, fun _ h => h⟩
            | (simp only [] at this ⊢; rw [this.1, this.2]; exact ⟨fun _ h => h, fun _ h => h⟩)
  | setKey op key =>
    simp only [step, setKey]
    split
    · exact ⟨fun _ h => h, fun _ h => h⟩
    · have := setKeyCore_queues s op key
      rw [this.1, this.2]; exact ⟨fun _ h => h, fun _ h => h⟩
  | optOut op =>
    simp only [step, optOut]
    split
    · exact ⟨fun _ h => h, fun _ h => h⟩
    · split
      · exact ⟨fun _ h => h, fun _ h => h⟩
      · cases s.fwd op with
        | none => exact ⟨fun _ h => h, fun _ h => h⟩
        | some key =>
          have hsched : ∀ x, x ∈ s.optOutsToFinish e →
              x ∈ (setOptOutInformation { s with optedIn := upd s.optedIn op false, removing := upd s.removing op true } op).optOutsToFinish e := by
            intro x h
            simp only [setOptOutInformation, upd_apply]
            split
            · rename_i he; rw [he] at h; exact List.mem_append_left _ h
            · exact h
          simp only []
          repeat' split
          all_goals first
            | exact ⟨fun _ h => h, hsched⟩
            | (refine ⟨fun x h => ?_, fun x h => ?_⟩
               · show x ∈ (completeRemoval _ op).undelToMature e
                 rw [(completeRemoval_fields _ op).2.2.1]; exact h
               · show x ∈ (completeRemoval _ op).optOutsToFinish e
                 rw [(completeRemoval_fields _ op).2.2.2.1]; exact h)
  | jail key b =>
    simp only [step, setJailed]
    repeat' split
    all_goals exact ⟨fun _ h => h, fun _ h => h⟩
  | undelegate op rec =>
    have happ : ∀ slot x, x ∈ s.undelToMature e → x ∈ upd s.undelToMature slot (s.undelToMature slot ++ [rec]) e := by
      intro slot x h
      simp only [upd_apply]
      split
      · rename_i he; subst he; exact List.mem_append_left _ h
      · exact h
    simp only [step, undelegationStarted]
    repeat' split
    all_goals first
      | exact ⟨fun _ h => h, fun _ h => h⟩
      | exact ⟨fun x h => happ _ x h, fun _ h => h⟩
  | setUnbonding n => exact ⟨fun _ h => h, fun _ h => h⟩
  | epochEnd e' =>
    have hne := ho e' rfl
    have : ¬ e = e' := fun x => hne x.symm
    simp only [step, epochEndHook, upd_apply, this, if_false]
    exact ⟨fun _ h => h, fun _ h => h⟩
  | endBlock power maxVals =>
    simp only [step, endBlock]
    split
    · exact ⟨fun _ h => h, fun _ h => h⟩
    · simp only []
      have h1 := foldl_releaseUndel_queues s.pendingUndel { s with prevKey := fun _ => none }
      constructor
      · intro x hx
        show x ∈ (List.foldl completeRemoval _ _).undelToMature e
        rw [(foldl_completeRemoval_queues _ _).1]
        show x ∈ (List.foldl releaseUndel _ _).undelToMature e
        rw [h1.1]; exact hx
      · intro x hx
        show x ∈ (List.foldl completeRemoval _ _).optOutsToFinish e
        rw [(foldl_completeRemoval_queues _ _).2]
        show x ∈ (List.foldl releaseUndel _ _).optOutsToFinish e
        rw [h1.2]; exact hx

/-- … over any sequence of operations that does not contain the end of epoch `e`. -/
theorem C16_not_released_before (s : St) (ops : List Op) (e : Int) (ho : ∀ o ∈ ops, ∀ e', o = .epochEnd e' → e' ≠ e) :
    (∀ x, x ∈ s.undelToMature e → x ∈ (run s ops).undelToMature e) ∧
    (∀ x, x ∈ s.optOutsToFinish e → x ∈ (run s ops).optOutsToFinish e) ∧
    (∀ x, x ∈ s.addrsToPrune e → x ∈ (run s ops).addrsToPrune e) := by
  induction ops generalizing s with
  | nil => exact ⟨fun _ h => h, fun _ h => h, fun _ h => h⟩
  | cons o rest ih =>
    simp only [run, List.foldl_cons]
    have h1 := C16_slot_persists s o e (ho o (List.mem_cons_self ..))
    have h2 := ih (step s o).2 (fun o' ho' => ho o' (List.mem_cons_of_mem _ ho'))
    exact ⟨fun x hx => h2.1 x (h1.1 x hx), fun x hx => h2.2.1 x (h1.2 x hx),
      fun x hx => h2.2.2 x (C07_prune_slot_persists s o e x hx (ho o (List.mem_cons_self ..)))⟩

/-! ## exactly then, all of them, once: the block whose BeginBlock ends epoch `e` -/

/-- The end of epoch `e` moves *exactly* the three lists of slot `e` to the pending lists, empties
the slot (so nothing is released twice, nothing is left behind) and forgets the finish epochs. -/
theorem C16_epoch_end_moves_slot (s : St) (e : Int) :
    (epochEndHook s e).pendingOptOuts = s.optOutsToFinish e ∧
    (epochEndHook s e).pendingAddrs = s.addrsToPrune e ∧
    (epochEndHook s e).pendingUndel = s.undelToMature e ∧
    (epochEndHook s e).optOutsToFinish e = [] ∧ (epochEndHook s e).addrsToPrune e = [] ∧
    (epochEndHook s e).undelToMature e = [] ∧ (epochEndHook s e).epochEnd = true ∧
    (∀ e', e' ≠ e → (epochEndHook s e).optOutsToFinish e' = s.optOutsToFinish e' ∧
       (epochEndHook s e).addrsToPrune e' = s.addrsToPrune e' ∧ (epochEndHook s e).undelToMature e' = s.undelToMature e') := by
  simp only [epochEndHook, upd_same, true_and]
  intro e' he'
  simp [upd_apply, he']

theorem foldl_releaseUndel_maturity (l : List Nat) (t : St) (r : Nat) (h : r ∈ l) :
    (l.foldl releaseUndel t).undelMaturity r = none := by
  induction l generalizing t with
  | nil => cases h
  | cons a rest ih =>
    simp only [List.foldl_cons]
    by_cases hr : r ∈ rest
    · exact ih _ hr
    · have : r = a := by
        rcases List.mem_cons.1 h with h | h
        · exact h
        · exact absurd h hr
      subst this
      have keep : ∀ (l : List Nat) (u : St), u.undelMaturity r = none → (l.foldl releaseUndel u).undelMaturity r = none := by
        intro l
        induction l with
        | nil => intro u hu; exact hu
        | cons b l ihl =>
          intro u hu
          simp only [List.foldl_cons]
          apply ihl
          simp only [releaseUndel, upd_apply]
          split
          · rfl
          · exact hu
      apply keep
      simp [releaseUndel]

theorem foldl_completeRemoval_pendingUndel (l : List Nat) (t : St) :
    (l.foldl completeRemoval t).pendingUndel = t.pendingUndel := by
  induction l generalizing t with
  | nil => rfl
  | cons a rest ih =>
    simp only [List.foldl_cons]
    rw [ih]
    unfold completeRemoval
    repeat' split
    all_goals rfl

/-- The EndBlock of that block applies and clears the pending lists: every pending undelegation
loses its maturity entry (its hold is decremented by `releaseUndel`), every pending address
loses its reverse lookup, every pending opt-out is completed, and all three lists are empty
afterwards, as is the epoch-end marker. -/
theorem C16_end_block_applies_and_clears (t : St) (power : Nat → Int) (maxVals : Nat) (he : t.epochEnd = true) :
    (endBlock t power maxVals).pendingOptOuts = [] ∧ (endBlock t power maxVals).pendingAddrs = [] ∧
    (endBlock t power maxVals).pendingUndel = [] ∧ (endBlock t power maxVals).epochEnd = false ∧
    (∀ r ∈ t.pendingUndel, (endBlock t power maxVals).undelMaturity r = none) ∧
    (∀ k ∈ t.pendingAddrs, (endBlock t power maxVals).rev k = none) := by
  refine ⟨?_, ?_, ?_, ?_, ?_, ?_⟩
  · simp [endBlock, he]
  · simp [endBlock, he]
  · unfold endBlock
    simp only [he, Bool.not_true, Bool.false_eq_true, if_false]
    show (List.foldl completeRemoval _ _).pendingUndel = []
    rw [foldl_completeRemoval_pendingUndel]
  · simp [endBlock, he]
  · intro r hr
    unfold endBlock
    simp only [he, Bool.not_true, Bool.false_eq_true, if_false]
    have h2 : ∀ (l : List Nat) (u : St), (l.foldl completeRemoval u).undelMaturity = u.undelMaturity := by
      intro l
      induction l with
      | nil => intro u; rfl
      | cons a rest ih =>
        intro u
        simp only [List.foldl_cons]
        rw [ih]
        unfold completeRemoval
        repeat' split
        all_goals rfl
    show (List.foldl completeRemoval _ _).undelMaturity r = none
    rw [h2]
    show (List.foldl releaseUndel _ _).undelMaturity r = none
    exact foldl_releaseUndel_maturity _ _ r hr
  · intro k hk
    exact (endBlock_prunes t power maxVals he k hk).1

/-- **Released exactly at e + N.** An entry that sits in slot `e` (where registration put it:
`C16_optout_slot`, `C16_undelegation_slot`, `C07_replacement_schedules_old_key`) is still there
after any operations that do not end epoch `e` (not earlier), is pending in the block whose
BeginBlock ends epoch `e`, and after that block's EndBlock no queue or pending list mentions it
(not later, nothing left behind; the slot is empty so it cannot be released again). -/
theorem C16_released_exactly_at (s : St) (ops : List Op) (e : Int) (x : Nat) (power : Nat → Int) (maxVals : Nat)
    (hx : x ∈ s.undelToMature e) (ho : ∀ o ∈ ops, ∀ e', o = .epochEnd e' → e' ≠ e) :
    x ∈ (run s ops).undelToMature e ∧
    x ∈ (run s (ops ++ [.epochEnd e])).pendingUndel ∧
    (run s (ops ++ [.epochEnd e])).undelToMature e = [] ∧
    (run s (ops ++ [.epochEnd e, .endBlock power maxVals])).pendingUndel = [] ∧
    (run s (ops ++ [.epochEnd e, .endBlock power maxVals])).undelMaturity x = none := by
  have h1 := (C16_not_released_before s ops e ho).1 x hx
  have hrun1 : run s (ops ++ [.epochEnd e]) = epochEndHook (run s ops) e := by
    simp [run, List.foldl_append, step]
  have hrun2 : run s (ops ++ [.epochEnd e, .endBlock power maxVals]) = endBlock (epochEndHook (run s ops) e) power maxVals := by
    simp [run, List.foldl_append, step]
  have hm := C16_epoch_end_moves_slot (run s ops) e
  have hc := C16_end_block_applies_and_clears (epochEndHook (run s ops) e) power maxVals hm.2.2.2.2.2.2.1
  refine ⟨h1, ?_, ?_, ?_, ?_⟩
  · rw [hrun1, hm.2.2.1]; exact h1
  · rw [hrun1]; exact hm.2.2.2.2.2.1
  · rw [hrun2]; exact hc.2.2.1
  · rw [hrun2]; exact hc.2.2.2.2.1 x (by rw [hm.2.2.1]; exact h1)

/-! ## non-vacuity -/

private def h16 : List Op :=
  [.register 0, .optIn 0 5 true, .epochEnd 1, .endBlock pw16 5,     -- key 5 active
   .undelegate 0 0,                                                 -- epoch 2, N = 2 ⇒ slot 4
   .setUnbonding 1, .undelegate 0 1,                                -- N changed ⇒ slot 3
   .epochEnd 2, .endBlock pw16 5, .epochEnd 3, .endBlock pw16 5]
example : (run (St.init 1 6 1 2) (h16.take 7)).undelToMature 4 = [0] ∧
          (run (St.init 1 6 1 2) (h16.take 7)).undelToMature 3 = [1] := by decide
example : (run (St.init 1 6 1 2) h16).holds 1 = 0 ∧ (run (St.init 1 6 1 2) h16).holds 0 = 1 ∧
          (run (St.init 1 6 1 2) h16).undelToMature 3 = [] := by decide

end ExoVerif.ConsKeys
