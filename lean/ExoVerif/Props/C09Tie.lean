import ExoVerif.Generated.Facts
import ExoVerif.Model.Atomic
/-!
# C09 tie: the order of checks and writes assumed by `Model/Atomic.lean` is the order in the Go source

`ExoVerif.Gen.*` is regenerated from the repository on every run (tools/exofacts/facts_atomic.go).
Moving a check behind a write, dropping or adding a `CacheContext`, or making a precompile `Run` return
its error instead of `false` changes a generated list and breaks one of these `decide`s.
-/
namespace ExoVerif.Atomic
open ExoVerif.Gen

/-- the marker names the interpreter's cache steps stand for -/
def stepName : Step → String
  | .check n => n
  | .write n => n
  | .call n => n
  | .openC => "CacheContext"
  | .closeC => "writeFunc"

/-- every CacheContext in the application code; the model's `openC … closeC` blocks are the entries of
x/delegation (EndBlock, both msg handlers), x/operator (UpdateVotingPower, both msg handlers, Slash), precompiles/assets (DepositOrWithdraw, RegisterToken),
x/oracle UpdateNSTByBalanceChange and x/evm ApplyTransaction (the EVM tx wrapper) -/
theorem C09_tie_cache_sites :
    cacheContextSites =
      ["app/ante/utils/claim_rewards.go:ClaimSufficientStakingRewards",
       "precompiles/assets/tx.go:DepositOrWithdraw",
       "precompiles/assets/tx.go:RegisterToken",
       "x/appchain/coordinator/keeper/ibc_client.go:CreateClientForSubscriberInCachedCtx",
       "x/avs/keeper/avs.go:RegisterAVSWithChainID",
       "x/delegation/keeper/abci.go:EndBlock",
       "x/delegation/keeper/msg_server.go:DelegateAssetToOperator",
       "x/delegation/keeper/msg_server.go:UndelegateAssetFromOperator",
       "x/dogfood/keeper/validators.go:ApplyValidatorChanges",
       "x/dogfood/keeper/validators.go:ApplyValidatorChanges",
       "x/dogfood/keeper/validators.go:ApplyValidatorChanges",
       "x/evm/keeper/grpc_query.go:EstimateGasInternal",
       "x/evm/keeper/state_transition.go:ApplyTransaction",
       "x/operator/keeper/abci.go:UpdateVotingPower",
       "x/operator/keeper/msg_server.go:OptIntoAVS",
       "x/operator/keeper/msg_server.go:OptOutOfAVS",
       "x/operator/keeper/slash.go:Slash",
       "x/oracle/keeper/native_token.go:UpdateNSTByBalanceChange"] := by decide

/-- every transaction method of the four precompiles turns its error into `false` (this is what makes
`precompileCall` the right wrapper); the four AVS queries do not -/
theorem C09_tie_run_swallows :
    precompileRunSwallow =
      [("assets.MethodDepositLST", true), ("assets.MethodDepositNST", true), ("assets.MethodGetClientChains", true),
       ("assets.MethodIsRegisteredClientChain", true), ("assets.MethodRegisterOrUpdateClientChain", true),
       ("assets.MethodRegisterToken", true), ("assets.MethodUpdateToken", true), ("assets.MethodWithdrawLST", true),
       ("assets.MethodWithdrawNST", true), ("avs.MethodChallenge", true), ("avs.MethodCreateAVSTask", true),
       ("avs.MethodDeregisterAVS", true), ("avs.MethodDeregisterOperatorFromAVS", true), ("avs.MethodGetAVSUSDValue", false),
       ("avs.MethodGetOperatorOptedUSDValue", false), ("avs.MethodGetOptinOperators", false),
       ("avs.MethodGetRegisteredPubkey", false), ("avs.MethodRegisterAVS", true), ("avs.MethodRegisterBLSPublicKey", true),
       ("avs.MethodRegisterOperatorToAVS", true), ("avs.MethodUpdateAVS", true),
       ("delegation.MethodAssociateOperatorWithStaker", true), ("delegation.MethodDelegate", true),
       ("delegation.MethodDissociateOperatorFromStaker", true), ("delegation.MethodUndelegate", true),
       ("reward.MethodReward", true)] := by decide

def slashRelevant : List String :=
  ["CheckSlashParameter", "CacheContext", "SlashAssets", "writeFunc", "UpdateOperatorSlashInfo"]

/-- Slash: parameter check, cache context opened, SlashAssets, UpdateOperatorSlashInfo, **then writeFunc** —
the first three steps of the model's `slash`, the inlined slash-info steps, and `closeC` last -/
theorem C09_tie_slash_order :
    callSeqSlash.filter (· ∈ slashRelevant) =
      (slash.take 3).map stepName ++ ["UpdateOperatorSlashInfo", "writeFunc"] ∧
    slash.getLast? = some .closeC ∧ (slash.drop 3).dropLast.all (fun st => st != .openC && st != .closeC) = true := by decide

/-- UpdateOperatorSlashInfo: all its checks precede its single write -/
theorem C09_tie_slashInfo_order :
    callSeqUpdateOperatorSlashInfo.filter (· ∈ ["AccAddressFromBech32", "Has", "GetAVSSlashContract", "GT", "Set"]) =
      ["AccAddressFromBech32", "Has", "GetAVSSlashContract", "GT", "Set"] := by decide

/-- RegisterToken: one cache context; the asset is validated and stored first, then the oracle token/feeder
is registered (whose last step touches the oracle's in-memory cache), `writeFunc()` last — the order of the
model's `registerToken` (fix of F-09b; the old order was Register…, SetStakingAssetInfo without a cache context) -/
theorem C09_tie_registerToken_order :
    callSeqRegisterToken.filter (· ∈ ["CheckExocoreGatewayAddr", "TokenFromInputs", "IsStakingAsset", "CacheContext",
        "RegisterNewTokenAndSetTokenFeeder", "SetStakingAssetInfo", "writeFunc"]) =
      ["CheckExocoreGatewayAddr", "TokenFromInputs", "IsStakingAsset", "CacheContext", "SetStakingAssetInfo",
       "RegisterNewTokenAndSetTokenFeeder", "writeFunc"] ∧
    (registerToken.take 4).map stepName =
      ["CheckExocoreGatewayAddr", "TokenFromInputs", "IsStakingAsset(already)", "CacheContext"] ∧
    registerToken.getLast? = some .closeC := by decide

/-- DepositOrWithdraw: cache context opened after argument parsing; booking, oracle validator-list update and
the final read run on it; `writeFunc()` last (fix of F-09a) -/
theorem C09_tie_depositWithdraw_order :
    callSeqDepositOrWithdraw.filter (· ∈ ["CheckExocoreGatewayAddr", "DepositWithdrawParams", "CacheContext",
        "PerformDepositOrWithdraw", "UpdateNSTValidatorListForStaker", "GetStakerSpecifiedAssetInfo", "writeFunc"]) =
      ["CheckExocoreGatewayAddr", "DepositWithdrawParams", "CacheContext", "PerformDepositOrWithdraw",
       "UpdateNSTValidatorListForStaker", "GetStakerSpecifiedAssetInfo", "writeFunc"] ∧
    callSeqPerformDepositOrWithdraw.filter (· ∈ ["IsNegative", "IsStakingAsset", "UpdateStakerAssetState",
        "UpdateStakingAssetTotalAmount"]) =
      ["IsNegative", "IsStakingAsset", "UpdateStakerAssetState", "UpdateStakingAssetTotalAmount"] ∧
    (assetsDepositWithdrawNST.take 3).map stepName = ["CheckExocoreGatewayAddr", "DepositWithdrawParams", "CacheContext"] ∧
    assetsDepositWithdrawNST.getLast? = some .closeC ∧ assetsDepositWithdrawLST.getLast? = some .closeC := by decide

/-- delegateTo: the staker's record is written before CalculateShare and the operator/delegation updates -/
theorem C09_tie_delegateTo_order :
    callSeqDelegateTo.filter (· ∈ ["IsPositive", "IsOperator", "IsOperatorFrozen", "GetStakerSpecifiedAssetInfo", "LT",
        "UpdateStakerAssetState", "CalculateShare", "GetAssociatedOperator", "UpdateOperatorAssetState",
        "UpdateDelegationState", "AppendStakerForOperator", "AfterDelegation"]) =
      ["IsPositive", "IsOperator", "IsOperatorFrozen", "GetStakerSpecifiedAssetInfo", "LT", "UpdateStakerAssetState",
       "CalculateShare", "GetAssociatedOperator", "UpdateOperatorAssetState", "UpdateDelegationState",
       "AppendStakerForOperator", "AfterDelegation"] := by decide

/-- UndelegateFrom: validation, share removal, record, hook (whose error is returned last) -/
theorem C09_tie_undelegateFrom_order :
    callSeqUndelegateFrom.filter (· ∈ ["IsPositive", "IsOperator", "ValidateUndelegationAmount", "RemoveShare",
        "SetUndelegationRecords", "AfterUndelegationStarted"]) =
      ["IsPositive", "IsOperator", "ValidateUndelegationAmount", "RemoveShare", "SetUndelegationRecords",
       "AfterUndelegationStarted"] := by decide

/-- UpdateNSTByBalanceChange: the cache context is opened after the raw data was parsed and before the
per-staker loop; the loop's delegation update and store write run on it; `writeFunc()` after the loop (fix of F-09d) -/
theorem C09_tie_nstBalanceChange_order :
    callSeqUpdateNSTByBalanceChange.filter (· ∈ ["parseBalanceChange", "CacheContext", "getDecimal", "UpdateNSTBalance", "Set", "writeFunc"]) =
      ["parseBalanceChange", "CacheContext", "getDecimal", "UpdateNSTBalance", "Set", "writeFunc"] ∧
    (updateNSTByBalanceChange2.take 4).map stepName =
      ["len(rawData)<32", "len(StakerAddrs)==0", "parseBalanceChange", "CacheContext"] ∧
    updateNSTByBalanceChange2.getLast? = some .closeC := by decide

/-- the commit decision of every cache context: either `writeFunc()` is called in straight-line code after
every failing path has returned (`inline`), or it sits in a deferred closure under `if err == nil` — and then
`err` must be the function's NAMED RESULT (every `return …, e` assigns it before the closure runs; a `:=`
inside the body cannot hide it from a return). A deferred decision on a *local* variable is only sound
without any `:=` redeclaration of it and without returns that bypass it; none exists on the unchanged tree.
(RegisterAVSWithChainID redeclares `err` twice inside `if err := …; err != nil { return …, err }` — harmless
there because `err` is a named result.) -/
theorem C09_tie_cache_commit_decisions :
    cacheCommitDecisions =
      [("app/ante/utils/claim_rewards.go:ClaimSufficientStakingRewards", "inline:1"),
       ("precompiles/assets/tx.go:DepositOrWithdraw", "inline:1"),
       ("precompiles/assets/tx.go:RegisterToken", "inline:1"),
       ("x/appchain/coordinator/keeper/ibc_client.go:CreateClientForSubscriberInCachedCtx", "inline:0"),
       ("x/avs/keeper/avs.go:RegisterAVSWithChainID", "deferred:err:named-result:shadows=2:bare-returns=0"),
       ("x/delegation/keeper/abci.go:EndBlock", "inline:2"),
       ("x/delegation/keeper/msg_server.go:DelegateAssetToOperator", "inline:1"),
       ("x/delegation/keeper/msg_server.go:UndelegateAssetFromOperator", "inline:1"),
       ("x/dogfood/keeper/validators.go:ApplyValidatorChanges", "inline:3"),
       ("x/dogfood/keeper/validators.go:ApplyValidatorChanges", "inline:2"),
       ("x/dogfood/keeper/validators.go:ApplyValidatorChanges", "inline:1"),
       ("x/evm/keeper/grpc_query.go:EstimateGasInternal", "discarded"),
       ("x/evm/keeper/state_transition.go:ApplyTransaction", "inline:1"),
       ("x/operator/keeper/abci.go:UpdateVotingPower", "inline:1"),
       ("x/operator/keeper/msg_server.go:OptIntoAVS", "deferred:err:named-result:shadows=0:bare-returns=0"),
       ("x/operator/keeper/msg_server.go:OptOutOfAVS", "deferred:err:named-result:shadows=0:bare-returns=0"),
       ("x/operator/keeper/slash.go:Slash", "inline:1"),
       ("x/oracle/keeper/native_token.go:UpdateNSTByBalanceChange", "inline:1")] := by decide

/-- no cache context commits on a local variable that a `:=` hides or a return bypasses -/
theorem C09_tie_no_shadowed_commit :
    cacheCommitDecisions.all (fun d =>
      d.2 ∈ ["discarded", "inline:0", "inline:1", "inline:2", "inline:3",
             "deferred:err:named-result:shadows=0:bare-returns=0", "deferred:err:named-result:shadows=2:bare-returns=0",
             "deferred:err:local:shadows=0:bare-returns=0"]) = true := by decide

/-- which callees actually receive the cache context (a `CacheContext()` whose result is not passed on
protects nothing): Slash, DepositOrWithdraw, RegisterToken, UpdateNSTByBalanceChange -/
theorem C09_tie_cache_ctx_calls :
    cacheCtxCalls =
      [("Slash", ["SlashAssets", "UpdateOperatorSlashInfo"]),
       ("DepositOrWithdraw", ["PerformDepositOrWithdraw", "UpdateNSTValidatorListForStaker", "GetStakerSpecifiedAssetInfo"]),
       ("RegisterToken", ["SetStakingAssetInfo", "RegisterNewTokenAndSetTokenFeeder"]),
       ("UpdateNSTByBalanceChange", ["KVStore", "getDecimal", "UpdateNSTBalance"])] := by decide

/-- UpdateVotingPower: reads, then one cache context around the iteration and the AVS total -/
theorem C09_tie_updateVotingPower_order :
    callSeqUpdateVotingPower.filter (· ∈ ["GetAVSSupportedAssets", "DeleteAllOperatorsUSDValueForAVS", "DeleteAVSUSDValue",
        "GetAssetsDecimal", "GetMultipleAssetsPrices", "GetAVSMinimumSelfDelegation", "CacheContext",
        "IterateOperatorsForAVS", "SetAVSUSDValue", "writeFunc"]) =
      ["GetAVSSupportedAssets", "DeleteAllOperatorsUSDValueForAVS", "DeleteAVSUSDValue", "GetAssetsDecimal",
       "GetMultipleAssetsPrices", "GetAVSMinimumSelfDelegation", "CacheContext", "IterateOperatorsForAVS",
       "SetAVSUSDValue", "writeFunc"] := by decide

/-- delegation EndBlock: the cache context is opened before anything is done for a record and written
after the record was deleted -/
theorem C09_tie_endBlock_order :
    callSeqDelegationEndBlock.filter (· ∈ ["CacheContext", "UpdateDelegationState", "UpdateStakerAssetState",
        "UpdateOperatorAssetState", "DeleteUndelegationRecord", "SetUndelegationRecords", "writeCache"]) =
      ["CacheContext", "DeleteUndelegationRecord", "SetUndelegationRecords", "writeCache", "UpdateDelegationState",
       "UpdateStakerAssetState", "UpdateOperatorAssetState", "DeleteUndelegationRecord", "writeCache"] := by decide

/-- OptIn / OptOut (reached without a cache context from the AVS precompile) -/
theorem C09_tie_opt_order :
    callSeqOptIn.filter (· ∈ ["IsOperator", "IsAVS", "IsOptedIn", "GetOrCalculateOperatorUSDValues",
        "GetAVSMinimumSelfDelegation", "IsOperatorFrozen", "InitOperatorUSDValue", "GetAVSSlashContract", "SetOptedInfo"]) =
      ["IsOperator", "IsAVS", "IsOptedIn", "GetOrCalculateOperatorUSDValues", "GetAVSMinimumSelfDelegation",
       "IsOperatorFrozen", "InitOperatorUSDValue", "GetAVSSlashContract", "SetOptedInfo"] ∧
    callSeqOptOut.filter (· ∈ ["IsOperator", "IsAVS", "IsActive", "IsOperatorFrozen", "DeleteOperatorUSDValue", "HandleOptedInfo"]) =
      ["IsOperator", "IsAVS", "IsActive", "IsOperatorFrozen", "DeleteOperatorUSDValue", "HandleOptedInfo"] := by decide

/-- CreateAVSTask: GetTaskID (which stores the bumped counter) comes after every refusing check and
directly before SetTaskInfo; the precompile emits its event after the keeper call -/
theorem C09_tie_createTask_order :
    callSeqCreateAVSTask.filter (· ∈ ["GetAVSInfoByTaskAddress", "Contains", "GetAVSUSDValue", "GetEpochInfo", "IsExistTask",
        "GetOptInOperators", "GetTaskID", "SetTaskInfo"]) =
      ["GetAVSInfoByTaskAddress", "Contains", "GetAVSUSDValue", "GetEpochInfo", "IsExistTask", "GetOptInOperators",
       "GetTaskID", "SetTaskInfo"] ∧
    callSeqPrecompileCreateAVSTask.filter (· ∈ ["GetTaskParamsFromInputs", "CreateAVSTask", "EmitCreateAVSTaskEvent"]) =
      ["GetTaskParamsFromInputs", "CreateAVSTask", "EmitCreateAVSTaskEvent"] ∧
    precompileCreateTask.map stepName =
      ["GetTaskParamsFromInputs", "GetAVSInfoByTaskAddress", "owner contains caller", "GetAVSUSDValue>0", "GetEpochInfo",
       "IsExistTask", "GetOptInOperators", "GetTaskID(Set latest)", "IsHexAddress(task)", "Set(taskInfo)",
       "EmitCreateAVSTaskEvent"] := by decide

/-- the msg handlers open their cache context before calling the keeper -/
theorem C09_tie_msg_order :
    callSeqMsgOptIntoAVS.filter (· ∈ ["CacheContext", "OptIn", "OptInWithConsKey"]) = ["CacheContext", "OptIn", "OptInWithConsKey"] ∧
    callSeqMsgDelegate.filter (· ∈ ["GetSequence", "CacheContext", "DelegateTo", "writeFunc"]) =
      ["GetSequence", "CacheContext", "DelegateTo", "writeFunc"] := by decide

end ExoVerif.Atomic
