import ExoVerif.Generated.Facts
import ExoVerif.Model.Ledger
/-!
# C01 tie for the native-restaking balance adjustment

`nstUpdate` and its phases (Model/Ledger.lean) are a hand transcription of
x/delegation/keeper/update_native_restaking_balance.go: UpdateNSTBalance and of the two store loops it
drives. tools/exofacts (facts_nst.go) re-reads those Go functions on every run and renders their
control skeleton — every `if` condition, every assignment to the amounts the function juggles, every
keeper call with the arguments that matter, loop exits — in source order. The theorems below compare the
regenerated skeletons with the ones the model was transcribed from; any edit of the Go code that changes
the shape (a dropped cap, a forgotten TotalDepositAmount, reordered phases, another isUndelegation flag,
the write-back moved behind the break, a prefix without separator) breaks them, and the correspondence
run (`ledger.nstadjust`) then looks for a concrete diverging history.
-/
namespace ExoVerif.Ledger
open ExoVerif.Gen

/-- the cap of the slash proportion (`nstProportion`) -/
theorem C01_tie_nstMaxSlashProportion : Gen.nstMaxSlashProportion = Ledger.nstMaxSlashProportion := by decide

/-- UpdateNSTBalance as transcribed, with the model definition each line went into -/
def nstUpdateTranscribed : List String := [
  -- nstUpdate: positive branch = updStaker s st a x x 0 (total and withdrawable only)
  "if amount.IsPositive()",
  "call UpdateStakerAssetState(stakerID,assetID,{TotalDepositAmount=amount,WithdrawableAmount=amount})",
  "if amount.IsNegative()",
  -- nstDecrease: first phase
  "call GetStakerSpecifiedAssetInfo(stakerID,assetID)",
  "assign slashFromWithdrawable := amount.Neg()",
  "assign pendingSlashAmount := slashFromWithdrawable.Sub(assetInfo.WithdrawableAmount)",
  "if pendingSlashAmount.IsPositive()",
  "assign slashFromWithdrawable = assetInfo.WithdrawableAmount",
  "call UpdateStakerAssetState(stakerID,assetID,{TotalDepositAmount=slashFromWithdrawable.Neg(),WithdrawableAmount=slashFromWithdrawable.Neg()})",
  -- second phase: nstSlashRecords (the closure, then the loop that runs it with isUpdate = true)
  "if pendingSlashAmount.IsPositive()",
  "assign slashAmount := pendingSlashAmount",
  "assign pendingSlashAmount = slashAmount.Sub(undelegation.ActualCompletedAmount)",
  "if pendingSlashAmount.IsPositive()",
  "assign slashAmount = undelegation.ActualCompletedAmount",
  "assign undelegation.ActualCompletedAmount = undelegation.ActualCompletedAmount.Sub(slashAmount)",
  "call UpdateStakerAssetState(stakerID,assetID,{TotalDepositAmount=slashAmount.Neg()})",
  "if !pendingSlashAmount.IsPositive()",
  "return true,nil",
  "return false,nil",
  "call IterateUndelegationsByStakerAndAsset(stakerID,assetID,true,opFunc)",
  -- third phase: nstSlashDelegated (totalDelegated, nstProportion with the cap, nstSlashShares)
  "if pendingSlashAmount.IsPositive()",
  "assign totalDelegatedAmount := k.TotalDelegatedAmountForStakerAsset(ctx,stakerID,assetID)",
  "call TotalDelegatedAmountForStakerAsset(stakerID,assetID)",
  "if !totalDelegatedAmount.IsZero()",
  "assign slashProportion := sdkmath.LegacyNewDecFromBigInt(pendingSlashAmount.BigInt()).Quo(sdkmath.LegacyNewDecFromBigInt(totalDelegatedAmount.BigInt()))",
  "if slashProportion.GT(sdkmath.LegacyNewDec(MaxSlashProportion))",
  "assign slashProportion = sdkmath.LegacyNewDec(MaxSlashProportion)",
  "assign slashShare := delegationAmount.UndelegatableShare.Mul(slashProportion)",
  "call RemoveShare(false,stakerID,assetID,slashShare)",
  "call UpdateStakerAssetState(stakerID,assetID,{TotalDepositAmount=actualSlashAmount.Neg()})",
  "assign pendingSlashAmount = pendingSlashAmount.Sub(actualSlashAmount)",
  "return false,nil",
  "call IterateDelegationsForStakerAndAsset(stakerID,assetID,opFunc)",
  -- what is left over is only logged
  "if pendingSlashAmount.IsPositive()",
  "return nil"]

/-- the three phases, their order, `isUndelegation = false`, the cap constant, and that the positive
branch touches total and withdrawable only -/
theorem C01_tie_nstUpdateSkeleton : Gen.nstUpdateSkeleton = nstUpdateTranscribed := by
  unfold Gen.nstUpdateSkeleton nstUpdateTranscribed
  rfl

/-- IterateUndelegationsByStakerAndAsset: staker-index store, prefix stakerID/assetID/, record read through
the index value (missing ⇒ error), opFunc, write-back when isUpdate BEFORE the break (`nstSlashRecords`
writes the record of the entry where the decrease ends) -/
theorem C01_tie_nstRecordLoop : Gen.nstRecordLoopSkeleton = [
    "assign store := prefix.NewStore(ctx.KVStore(k.storeKey),types.KeyPrefixStakerUndelegationInfo)",
    "assign iterator := sdk.KVStorePrefixIterator(store,types.IteratorPrefixForStakerAsset(stakerID,assetID))",
    "call IteratorPrefixForStakerAsset(stakerID,assetID)",
    "assign undelegationInfoStore := prefix.NewStore(ctx.KVStore(k.storeKey),types.KeyPrefixUndelegationInfo)",
    "assign infoValue := undelegationInfoStore.Get(iterator.Value())",
    "if infoValue==nil",
    "call opFunc(string(iterator.Value()),&undelegation)",
    "if isUpdate",
    "call Set(iterator.Value())",
    "if isBreak",
    "break",
    "return nil"] := by decide

/-- IterateDelegationsForStakerAndAsset: delegation-state store, same prefix, opFunc per entry, no write-back
by the loop itself (`nstDelegations`, `nstSlashShares`) -/
theorem C01_tie_nstDelegationLoop : Gen.nstDelegationLoopSkeleton = [
    "return k.IterateDelegations(ctx,delegationtype.IteratorPrefixForStakerAsset(stakerID,assetID),opFunc)",
    "call IterateDelegations(delegationtype.IteratorPrefixForStakerAsset(stakerID,assetID),opFunc)",
    "call IteratorPrefixForStakerAsset(stakerID,assetID)",
    "assign store := prefix.NewStore(ctx.KVStore(k.storeKey),delegationtype.KeyPrefixRestakerDelegationInfo)",
    "assign iterator := sdk.KVStorePrefixIterator(store,iteratorPrefix)",
    "call opFunc(keys,&amounts)",
    "if isBreak",
    "break",
    "return nil"] := by decide

/-- the iterator prefix is `stakerID/assetID/` — the separator is part of it, so the candidates of the model
(`nstRecordKeys`, `nstDelegations`: staker and asset components equal) are exactly the iterated keys -/
theorem C01_tie_nstIteratorPrefix : Gen.nstIteratorPrefix =
    ["tmp:=[]byte(strings.Join([]string{stakerID,assetID},\"/\"))", "tmp=append(tmp,'/')", "returntmp"] := by decide

end ExoVerif.Ledger
