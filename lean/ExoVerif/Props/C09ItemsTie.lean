import ExoVerif.Generated.Facts
import ExoVerif.Model.AtomicItems
/-!
# C09 tie, second sentence: the cache context of the undelegation loop stands inside the loop body

`ExoVerif.Gen.blockLoopCacheScope` is regenerated from the repository on every run
(tools/exofacts/facts_atomic_items.go).  `Model/AtomicItems.lean: Items.loops` gives the matured-undelegation
loop the discipline `perItemCache` (`Atomic.runItems`, item program `endBlockRecord` = `.openC … .closeC`) and the two
epoch-hook loops the discipline `plain` (`Items.runItemsPlain`).  Hoisting `originalCtx.CacheContext()` out of
`for i := range records` turns the first loop into `Items.runItemsShared`, which does not isolate a failing record
(`C09_shared_cache_not_isolating`): it moves the call from "in-body" to "before-loop" and the binding of `cc` /
`writeCache` with it, and breaks the `decide` below (as well as `C09_tie_block_loop_shapes`, which counts the calls
inside the body).
-/
namespace ExoVerif.Atomic
open ExoVerif.Gen Items

/-- matured undelegations: exactly one CacheContext call, inside the loop body, none before or after the loop; the
context handed to every store-writing callee of the body (`cc`) and the commit function (`writeCache`) are bound in
the body, i.e. afresh for every record.  The two epoch-hook loops create no cache context and hand the block's
context (the hook's parameter) to the item. -/
theorem C09_tie_block_loop_cache_scope :
    blockLoopCacheScope =
      [("delegation.EndBlock.records",
        ["cache-in-body=1", "cache-before-loop=0", "cache-after-loop=0", "item-ctx=cc:body", "commit=writeCache:body"]),
       ("operator.AfterEpochEnd.avsList",
        ["cache-in-body=0", "cache-before-loop=0", "cache-after-loop=0", "item-ctx=ctx:param"]),
       ("avs.AfterEpochEnd.groupedTasks",
        ["cache-in-body=0", "cache-before-loop=0", "cache-after-loop=0", "item-ctx=ctx:param"])] := by decide

/-- the model's loop table assigns the disciplines the fact shows: per-item cache ⇔ the item program opens and
closes a cache context itself; the loops named by the fact are loops of the table, in its order -/
theorem C09_tie_loop_disciplines :
    (Items.loops.map (fun l => (l.1, l.2.1))) =
      [("delegation.EndBlock.records", Discipline.perItemCache), ("operator.AfterEpochEnd.avsList", .plain),
       ("sdk.BeginBlock.slash", .plain), ("avs.AfterEpochEnd.groupedTasks", .plain)] ∧
    (blockLoopCacheScope.map (·.1)) = ((Items.loops.filter (fun l => l.1 != "sdk.BeginBlock.slash")).map (·.1)) ∧
    (Items.loops.all (fun l => (l.2.1 == .perItemCache) == (l.2.2.head? == some .openC && l.2.2.getLast? == some .closeC))) = true := by
  decide

end ExoVerif.Atomic
