import ExoVerif.Generated.Facts
import ExoVerif.Model.AtomicValues
/-!
# C09 tie, value level: the failure causes and key expressions assumed by `Model/AtomicValues.lean` are those of the Go source

`ExoVerif.Gen.*` is regenerated from the repository on every run (tools/exofacts/facts_atomic_values.go).
Adding an error path to a callee the model treats as infallible, a new failure cause to a late callee,
reading the AVS or the opted record under a different key than the early check, changing the type of an
event argument, or turning a logged per-item error into a `return` / `break` changes a generated list and
breaks one of these `decide`s.  (The *order* of the steps is tied in `Props/C09Tie.lean`.)
-/
namespace ExoVerif.Atomic
open ExoVerif.Gen ExoVerif.AtomicValues

/-- the callees `Delegate.chk` / `Items.NoAssetsInfallible` give no error path have none: every `return` of
GetAssociatedOperator, AppendStakerForOperator, DeleteAllOperatorsUSDValueForAVS, DeleteAVSUSDValue and IsAVS
returns a nil error -/
theorem C09_tie_infallible_callees :
    infallibleErrReturns =
      [("GetAssociatedOperator", []), ("AppendStakerForOperator", []), ("DeleteAllOperatorsUSDValueForAVS", []),
       ("DeleteAVSUSDValue", []), ("IsAVS", [])] := by decide

/-- every way the callees behind the late checks can fail, in source order — exactly the causes the model's
named checks enumerate:
* CalculateShare: GetOperatorSpecifiedAssetInfo (reached only after IsOperatorAssetExist) or SharesFromTokens,
  whose only error is "totalAmount is zero" (with non-zero shares) — `Ledger.calculateShare`;
* UpdateOperatorAssetState: its four UpdateAsset(Dec)Value, which fail on nil pointers (never passed) or on a
  subtraction below zero — `Ledger.upd` / `updDec`;
* UpdateDelegationState: nil delta (never passed), the bech32 decoding of the operator string, the two updates;
* GetAVSSlashContract / GetAVSMinimumSelfDelegation: GetAVSInfo, whose only error is a missing store key;
* SetOptedInfo: the bech32 decoding; HandleOptedInfo / GetOptedInfo: the decoding or a missing record;
* InitOperatorUSDValue: empty operator or key present (both before its Set);
* SetTaskInfo: the task address is not a hex address; EmitCreateAVSTaskEvent: ABI packing. -/
theorem C09_tie_late_callee_error_paths :
    errPathsLateCallees =
      [("CalculateShare", ["err:GetOperatorSpecifiedAssetInfo", "err:SharesFromTokens"]),
       ("SharesFromTokens", ["if:totalAmount.IsZero()"]),
       ("UpdateOperatorAssetState", ["err:UpdateAssetValue", "err:UpdateAssetValue", "err:UpdateAssetDecValue", "err:UpdateAssetDecValue"]),
       ("UpdateAssetValue", ["if:valueToUpdate == nil || changeValue == nil", "if:valueToUpdate.LT(changeValue.Neg())"]),
       ("UpdateAssetDecValue", ["if:valueToUpdate == nil || changeValue == nil", "if:valueToUpdate.LT(changeValue.Neg())"]),
       ("UpdateDelegationState", ["if:deltaAmounts == nil", "err:AccAddressFromBech32", "err:UpdateAssetValue", "err:UpdateAssetDecValue"]),
       ("InitOperatorUSDValue", ["if:operatorAddr == \"\"", "if:store.Has(key)"]),
       ("GetAVSSlashContract", ["err:GetAVSInfo"]),
       ("GetAVSMinimumSelfDelegation", ["err:GetAVSInfo"]),
       ("GetAVSInfo", ["if:value == nil"]),
       ("SetOptedInfo", ["err:AccAddressFromBech32"]),
       ("HandleOptedInfo", ["err:AccAddressFromBech32", "if:value == nil"]),
       ("GetOptedInfo", ["err:AccAddressFromBech32", "if:value == nil"]),
       ("SetTaskInfo", ["if:!common.IsHexAddress(task.TaskContractAddress)"]),
       ("EmitCreateAVSTaskEvent", ["err:Pack"])] := by decide

/-- IsAVS tests and GetAVSInfo reads the *same* key derived from the *same* argument: `Opt.Req.avsKey` -/
theorem C09_tie_avs_store_key :
    avsInfoStoreKeys =
      [("IsAVS.store.Has", "common.HexToAddress(addr).Bytes()"), ("GetAVSInfo.store.Get", "common.HexToAddress(addr).Bytes()")] ∧
    (optedInfoKeyArgs.filter (fun p => p.1 ∈ ["OptIn→IsAVS", "OptIn→GetAVSMinimumSelfDelegation", "OptIn→GetAVSSlashContract", "OptOut→IsAVS"])).map (·.2) =
      ["avsAddr", "avsAddr", "avsAddr", "avsAddr"] := by decide

/-- the opted record: one key expression for Get / Handle / Set, and every call site of OptIn / OptOut passes
the operator's canonical rendering `operatorAddress.String()` and the AVS string as given
(`Opt.Req.op`, `Opt.Req.avs`); the USD-value record is keyed (avs, operator) with the same two strings -/
theorem C09_tie_opted_info_key :
    optedInfoKeyArgs =
      [("GetOptedInfo.infoKey", "assetstype.GetJoinedStoreKey(operatorAddr, avsAddr)"),
       ("HandleOptedInfo.infoKey", "assetstype.GetJoinedStoreKey(operatorAddr, avsAddr)"),
       ("SetOptedInfo.infoKey", "assetstype.GetJoinedStoreKey(operatorAddr, avsAddr)"),
       ("IsOptedIn→GetOptedInfo", "operatorAddr, avsAddr"),
       ("IsActive→GetOptedInfo", "operatorAddr.String(), avsAddr"),
       ("OptIn→IsOptedIn", "operatorAddress.String(), avsAddr"),
       ("OptIn→GetAVSMinimumSelfDelegation", "avsAddr"),
       ("OptIn→InitOperatorUSDValue", "avsAddr, operatorAddress.String()"),
       ("OptIn→GetAVSSlashContract", "avsAddr"),
       ("OptIn→SetOptedInfo", "operatorAddress.String(), avsAddr"),
       ("OptIn→IsAVS", "avsAddr"),
       ("OptOut→IsAVS", "avsAddr"),
       ("OptOut→IsActive", "operatorAddress, avsAddr"),
       ("OptOut→DeleteOperatorUSDValue", "avsAddr, operatorAddress.String()"),
       ("OptOut→HandleOptedInfo", "operatorAddress.String(), avsAddr")] := by decide

/-- createTask's request: the task address and the AVS / operator strings of the opt methods are renderings of
20-byte addresses the EVM supplies (`contract.CallerAddress.String()`, `sdk.AccAddress(callerAddress[:]).String()`),
never free text: `Task.isHexAddress r.taskAddr`, `Opt.Req.opValid` hold for requests built by the precompile -/
theorem C09_tie_createTask_request_sources :
    avsAuthReads.filter (fun p => p.1 ∈ ["CreateAVSTask.TaskContractAddress", "BindOperatorToAVS.OperatorAddress",
        "BindOperatorToAVS.AvsAddress", "UnbindOperatorToAVS.OperatorAddress", "UnbindOperatorToAVS.AvsAddress"]) =
      [("BindOperatorToAVS.OperatorAddress", "args[0]"), ("BindOperatorToAVS.AvsAddress", "contract.CallerAddress"),
       ("UnbindOperatorToAVS.OperatorAddress", "args[0]"), ("UnbindOperatorToAVS.AvsAddress", "contract.CallerAddress"),
       ("CreateAVSTask.TaskContractAddress", "contract.CallerAddress")] := by decide

/-- ABI type ↔ Go type pairs for which go-ethereum's `Arguments.Pack` cannot refuse a value -/
def packCompatible : List (String × String) :=
  [("uint64", "uint64"), ("string", "string"), ("bytes", "[]byte"), ("address", "common.Address"), ("bool", "bool"),
   ("uint32", "uint32"), ("uint8", "uint8")]

/-- EmitCreateAVSTaskEvent packs the first eight inputs of TaskCreated, each with a Go value of the matching
type: `Task.Req.packOk` holds for every request -/
theorem C09_tie_createTask_event_types :
    taskCreatedEventTypes.take 2 = [("event", "p.ABI.Events[EventTypeRegisterAVSTask]"), ("arguments", "event.Inputs[0:8]")] ∧
    (taskCreatedEventTypes.drop 2).length = 8 ∧
    (taskCreatedEventTypes.drop 2).all (fun p => packCompatible.contains p) = true := by decide

/-- the three in-repository per-item loops:
* matured undelegations — one CacheContext per record inside the loop body, committed on the two success paths
  only; all nine error branches `continue`; nothing returns, breaks or panics inside the loop;
* voting power per AVS — the item is the single call UpdateVotingPower; its error is logged and the loop continues;
* task statistics — the only store writer of the body is SetTaskInfo and nothing but logging follows it;
  the error branches before it either skip the group (`continue`) or log and go on; no return / break / panic. -/
theorem C09_tie_block_loop_shapes :
    blockLoopShapes =
      [("delegation.EndBlock.records",
        ["cache=1", "commit=2", "continue=10", "return=0", "break=0", "panic=0", "goto=0", "errBranch:continue=9",
         "writer:DeleteUndelegationRecord", "writer:SetUndelegationRecords", "writer:UpdateDelegationState",
         "writer:UndelegateCoinsFromModuleToAccount", "writer:UpdateStakerAssetState", "writer:UpdateOperatorAssetState",
         "writer:DeleteUndelegationRecord", "after:AccAddress", "after:BlockHeight", "after:Decode", "after:Error", "after:Neg",
         "after:NewCoin", "after:NewCoins", "after:ParseID", "after:uint64", "after:writeCache"]),
       ("operator.AfterEpochEnd.avsList",
        ["cache=0", "commit=0", "continue=1", "return=0", "break=0", "panic=0", "goto=0", "errBranch:continue=1",
         "writer:UpdateVotingPower", "after:Error", "after:Logger"]),
       ("avs.AfterEpochEnd.groupedTasks",
        ["cache=0", "commit=0", "continue=2", "return=0", "break=0", "panic=0", "goto=0", "errBranch:continue=1",
         "errBranch:falls-through=3", "writer:SetTaskInfo", "after:Error", "after:Logger"])] := by decide

/-- one slash: SlashWithInfractionReason has no error result and no panic; the error of `k.Slash` is logged
and a value returned, so the SDK's evidence / slashing loops go on with the next validator -/
theorem C09_tie_slash_error_swallowed :
    slashErrorSwallowed =
      [("operator.results", "sdkmath.Int"), ("operator.panics", "0"),
       ("operator.errBranchOfSlash", "call:Error;return sdkmath.NewInt(0)"),
       ("dogfood.results", "math.Int"), ("dogfood.panics", "0")] := by decide

/-- the model's item programs are what those loops run: the task-statistic item has its single write last,
and the cache-context marker of the undelegation item opens it -/
theorem C09_tie_item_programs :
    Items.taskStatisticItem.getLast? = some (.write "Set(taskInfo)") ∧
    (Items.taskStatisticItem.dropLast.all (fun st => match st with | .check _ => true | _ => false)) = true ∧
    endBlockRecord.head? = some .openC ∧ endBlockRecord.getLast? = some .closeC := by decide

end ExoVerif.Atomic
