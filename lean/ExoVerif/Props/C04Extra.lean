import ExoVerif.Props.C04
/-!
# C04 — "the recorded execution (per pool and per undelegation) equals the actual reductions"

`SlashAssets` (x/operator/keeper/slash.go) returns a `SlashExecutionInfo` that `Slash` stores in the
`OperatorSlashInfo` of the event:
  * `SlashUndelegations`: one entry {StakerID, AssetID, Amount} per pending undelegation visited by
    IterateUndelegationsByOperator (operator = the slashed one, start height ≥ infraction height, only when
    infraction height < current height) for which `SlashFromUndelegation` does not return nil, i.e. whose
    ActualCompletedAmount is not 0; `Amount` = what SlashFromUndelegation took;
  * `SlashAssetsPool`: one entry {AssetID, Amount} per pool of the operator visited by
    IterateAssetsForOperator; `Amount` = trunc(p · TotalAmount).
`execUndelegations` / `execPools` restate that record, keyed by the store key of the item.

Theorems (for ALL states with duplicate-free stores, all operators, heights and proportions - no range
assumption on `p` is needed):
  * `C04_execution_undelegation_exact`: every recorded undelegation entry names a stored record, and its
    Amount is exactly what that record's ActualCompletedAmount lost;
  * `C04_execution_undelegation_complete`: every record whose ActualCompletedAmount changed in the slash has its
    entry, with exactly the reduction as Amount; so Σ recorded = Σ actual, per item and in total;
  * `C04_execution_pool_exact` / `C04_execution_pool_complete`: the same for the operator's pools.
The harness compares the stored `ExecutionInfo` of every executed slash with the before/after snapshots
(monitors C04.slash: execution-info-pool / execution-info-undelegation).
-/
namespace ExoVerif.Ledger
open ExoVerif ExoVerif.KV ExoVerif.Dec

/-- ExecutionInfo.SlashUndelegations of `SlashAssets`, keyed by record key -/
def execUndelegations (s : L) (o : OID) (inf : Nat) (p : Dec) : List (RecKey × Int) :=
  if inf < s.height then
    (s.recs.filter (fun e => decide (e.1.op = o ∧ inf ≤ e.1.height) && decide (e.2.actual ≠ 0))).map
      (fun e => (e.1, (slashFromUndelegation e.2 p).2))
  else []

/-- ExecutionInfo.SlashAssetsPool of `SlashAssets`, keyed by pool key -/
def execPools (s : L) (o : OID) (p : Dec) : List ((OID × AID) × Int) :=
  (s.pools.filter (fun e => decide (e.1.1 = o))).map (fun e => (e.1, (cutPool e.2 p (has s.slist e.1)).2))

/-- SlashFromUndelegation lowers ActualCompletedAmount by exactly the amount it reports, whatever `p` -/
theorem slashFromUndelegation_exact (r : URec) (p : Dec) :
    (slashFromUndelegation r p).1 = { r with actual := r.actual - (slashFromUndelegation r p).2 } ∧
    (r.actual = 0 → (slashFromUndelegation r p).2 = 0) := by
  unfold slashFromUndelegation
  split
  · rename_i h0
    refine ⟨?_, fun _ => rfl⟩
    simp only [Int.sub_zero]
  · rename_i h0
    simp only []
    split
    · exact ⟨by simp, fun h => absurd h h0⟩
    · exact ⟨rfl, fun h => absurd h h0⟩

/-- the pool body of SlashAssets lowers TotalAmount by exactly the amount it reports, whatever `p` -/
theorem cutPool_exact (pl : Pool) (p : Dec) (hl : Bool) :
    (cutPool pl p hl).1.amount = pl.amount - (cutPool pl p hl).2 := by
  unfold cutPool
  simp only []
  split <;> rfl

theorem cutPool_pending_same (pl : Pool) (p : Dec) (hl : Bool) : (cutPool pl p hl).1.pending = pl.pending := by
  unfold cutPool
  simp only []
  split <;> rfl

/-- the pools after a slash, by key -/
theorem slash_pools_find (s : L) (o : OID) (inf : Nat) (p : Dec) (k : OID × AID) :
    find? (slashAssets s o inf p).pools k =
      (find? s.pools k).map (fun pl => if k.1 = o then (cutPool pl p (has s.slist k)).1 else pl) := by
  unfold slashAssets
  simp only []
  generalize s.pools = pools
  induction pools with
  | nil => rfl
  | cons e rest ih =>
    obtain ⟨ek, ev⟩ := e
    by_cases he : ek = k
    · subst he
      by_cases ho : ek.1 = o
      · simp only [List.map_cons, ho, if_true, find?, Option.map]
      · simp only [List.map_cons, ho, if_false, find?, if_true, Option.map]
    · by_cases ho : ek.1 = o
      · simp only [List.map_cons, ho, if_true, find?, he, if_false]; exact ih
      · simp only [List.map_cons, ho, if_false, find?, he]; exact ih

/-- **recorded undelegation entries are exact**: each entry names a stored record, at risk and still owing
something, and its Amount is exactly what the record's ActualCompletedAmount lost in the slash. -/
theorem C04_execution_undelegation_exact (s : L) (o : OID) (inf : Nat) (p : Dec) (hnd : NoDup s.recs)
    (k : RecKey) (amt : Int) (hmem : (k, amt) ∈ execUndelegations s o inf p) :
    ∃ r r', find? s.recs k = some r ∧ find? (slashAssets s o inf p).recs k = some r' ∧
      amt = r.actual - r'.actual ∧ r'.amount = r.amount ∧ r'.staker = r.staker ∧ r'.asset = r.asset ∧
      inf < s.height ∧ k.op = o ∧ inf ≤ k.height ∧ r.actual ≠ 0 := by
  unfold execUndelegations at hmem
  split at hmem
  · rename_i hh
    obtain ⟨e, he, heq⟩ := List.mem_map.1 hmem
    obtain ⟨hin, hc⟩ := List.mem_filter.1 he
    obtain ⟨ek, er⟩ := e
    simp only [Bool.and_eq_true, decide_eq_true_eq] at hc
    injection heq with h1 h2
    subst h1
    have hf : find? s.recs ek = some er := find?_of_mem _ _ _ hnd hin
    have hfr := C04_records_frame s o inf p ek
    rw [hf] at hfr
    simp only [Option.map, hh, hc.1.1, hc.1.2, and_self, if_true] at hfr
    obtain ⟨e1, _⟩ := slashFromUndelegation_exact er p
    refine ⟨er, _, hf, hfr, ?_, ?_, ?_, ?_, hh, hc.1.1, hc.1.2, hc.2⟩
    · rw [e1, ← h2]; simp only []; omega
    · rw [e1]
    · rw [e1]
    · rw [e1]
  · cases hmem

/-- **every actual reduction of a pending undelegation is recorded**, with exactly its size -/
theorem C04_execution_undelegation_complete (s : L) (o : OID) (inf : Nat) (p : Dec) (k : RecKey) (r r' : URec)
    (hf : find? s.recs k = some r) (hf' : find? (slashAssets s o inf p).recs k = some r')
    (hne : r'.actual ≠ r.actual) : (k, r.actual - r'.actual) ∈ execUndelegations s o inf p := by
  have hfr := C04_records_frame s o inf p k
  rw [hf, hf'] at hfr
  simp only [Option.map] at hfr
  injection hfr with hfr
  by_cases hc : inf < s.height ∧ k.op = o ∧ inf ≤ k.height
  · simp only [hc, and_self, if_true] at hfr
    obtain ⟨e1, e0⟩ := slashFromUndelegation_exact r p
    have hact : r'.actual = r.actual - (slashFromUndelegation r p).2 := by rw [hfr, e1]
    have hnz : r.actual ≠ 0 := by
      intro h0
      have := e0 h0
      rw [this] at hact; omega
    unfold execUndelegations
    simp only [hc.1, if_true]
    refine List.mem_map.2 ⟨(k, r), List.mem_filter.2 ⟨find?_mem _ _ _ hf, ?_⟩, ?_⟩
    · simp only [Bool.and_eq_true, decide_eq_true_eq]; exact ⟨⟨hc.2.1, hc.2.2⟩, hnz⟩
    · simp only []; rw [hact]; congr 1; omega
  · simp only [hc, if_false] at hfr
    exact absurd (by rw [hfr]) hne

/-- **recorded pool entries are exact**: each entry names a pool of the slashed operator and its Amount is exactly
what the pool's TotalAmount lost. -/
theorem C04_execution_pool_exact (s : L) (o : OID) (inf : Nat) (p : Dec) (hnd : NoDup s.pools)
    (k : OID × AID) (amt : Int) (hmem : (k, amt) ∈ execPools s o p) :
    ∃ pl pl', find? s.pools k = some pl ∧ find? (slashAssets s o inf p).pools k = some pl' ∧
      amt = pl.amount - pl'.amount ∧ pl'.pending = pl.pending ∧ k.1 = o := by
  unfold execPools at hmem
  obtain ⟨e, he, heq⟩ := List.mem_map.1 hmem
  obtain ⟨hin, hc⟩ := List.mem_filter.1 he
  obtain ⟨ek, ev⟩ := e
  simp only [decide_eq_true_eq] at hc
  injection heq with h1 h2
  subst h1
  have hf : find? s.pools ek = some ev := find?_of_mem _ _ _ hnd hin
  have hfr := slash_pools_find s o inf p ek
  rw [hf] at hfr
  simp only [Option.map, hc, if_true] at hfr
  refine ⟨ev, _, hf, hfr, ?_, cutPool_pending_same ev p _, hc⟩
  rw [cutPool_exact, ← h2]; simp only []; omega

/-- **every actual reduction of a pool is recorded**, with exactly its size -/
theorem C04_execution_pool_complete (s : L) (o : OID) (inf : Nat) (p : Dec) (k : OID × AID) (pl pl' : Pool)
    (hf : find? s.pools k = some pl) (hf' : find? (slashAssets s o inf p).pools k = some pl')
    (hne : pl'.amount ≠ pl.amount) : (k, pl.amount - pl'.amount) ∈ execPools s o p := by
  have hfr := slash_pools_find s o inf p k
  rw [hf, hf'] at hfr
  simp only [Option.map] at hfr
  injection hfr with hfr
  by_cases hc : k.1 = o
  · simp only [hc, if_true] at hfr
    have ha : pl'.amount = pl.amount - (cutPool pl p (has s.slist k)).2 := by rw [hfr, cutPool_exact]
    unfold execPools
    refine List.mem_map.2 ⟨(k, pl), List.mem_filter.2 ⟨find?_mem _ _ _ hf, by simpa using hc⟩, ?_⟩
    simp only []; rw [ha]; congr 1; omega
  · simp only [hc, if_false] at hfr
    exact absurd (by rw [hfr]) hne

/-! non-vacuity: operator o1 with two pools and three pending undelegations (one started before the infraction,
one already slashed to nothing), slashed by 25 % for an infraction at height 3, current height 6 -/

private def x0 : L :=
  { height := 6, unbonding := 10, totals := [("a", 1000), ("b", 1000)], operators := ["o1", "o2"], clientChains := [],
    stakers := [],
    pools := [(("o1", "a"), ⟨100, 30, ⟨100000000000000000000⟩, ⟨0⟩⟩), (("o2", "a"), ⟨50, 0, ⟨50000000000000000000⟩, ⟨0⟩⟩),
              (("o1", "b"), ⟨7, 0, ⟨7000000000000000000⟩, ⟨0⟩⟩)],
    deleg := [], slist := [], assoc := [],
    recs := [(⟨"o1", 2, 1, "0x1"⟩, ⟨"s", "a", "o1", "0x1", 1, 2, 12, 10, 10⟩),
             (⟨"o1", 4, 2, "0x2"⟩, ⟨"s", "a", "o1", "0x2", 2, 4, 14, 10, 10⟩),
             (⟨"o1", 5, 3, "0x3"⟩, ⟨"t", "a", "o1", "0x3", 3, 5, 15, 10, 0⟩),
             (⟨"o2", 5, 4, "0x4"⟩, ⟨"t", "a", "o2", "0x4", 4, 5, 15, 10, 10⟩)],
    sidx := [], pidx := [], holds := [], bal := [], escrow := 0, gDep := [], gWd := [], gSlashed := [] }

example : NoDup x0.recs ∧ NoDup x0.pools := by unfold NoDup keys; decide
example : execUndelegations x0 "o1" 3 ⟨250000000000000000⟩ = [(⟨"o1", 4, 2, "0x2"⟩, 2)] ∧
    execPools x0 "o1" ⟨250000000000000000⟩ = [(("o1", "a"), 25), (("o1", "b"), 1)] := by decide
example : (slashAssets x0 "o1" 3 ⟨250000000000000000⟩).recs.map (fun e => e.2.actual) = [10, 8, 0, 10] ∧
    (slashAssets x0 "o1" 3 ⟨250000000000000000⟩).pools.map (fun e => e.2.amount) = [75, 50, 6] := by decide

end ExoVerif.Ledger
