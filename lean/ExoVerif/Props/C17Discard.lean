import ExoVerif.Props.C17Tax
import ExoVerif.Model.DistributionBatch
/-!
C17 — "the CONFIGURED epoch reward": parameter updates executed on a branch of the state that is dropped
(a governance proposal / multi-message transaction whose later message fails, a Simulate / CheckTx call) configure
nothing. Over `Model/DistributionBatch.lean`:

* `C17_discard_batch_changes_nothing` — a batch with a refused message, or one whose route never writes, leaves the
  whole history state as it was; `C17_discard_rest_of_history_unchanged` — and therefore EVERY later block of EVERY
  continuation of the history (mints, sweeps, claims) is the one of the history without the batch: the reward minted
  at the following mint-epoch ends is the committed one (`C17_discard_next_block_mints_committed_reward`).
* `C17_discard_committed_batch_eq_messages` — a batch that is written back is its messages delivered one after
  another; `C17_discard_history_as_ops` — so every history with batches is an op history without them, and solvency,
  exact backing, the supply clause, the tax bound and no-halt carry over (`C17_discard_solvency`,
  `C17_discard_supply_and_accounts`, `C17_discard_no_halt`).
-/
namespace ExoVerif.Distr
open ExoVerif ExoVerif.KV ExoVerif.Epochs

/-- the batch is dropped: some message is refused (by ValidateBasic or by its handler on the branch), or the route
never writes -/
def batchDropped (commit : Bool) (es : List EpochInfo) (p : Params) (msgs : List BMsg) : Prop :=
  batchBranch es p msgs = none ∨ commit = false

theorem C17_discard_params_unchanged (commit : Bool) (es : List EpochInfo) (p : Params) (msgs : List BMsg)
    (hd : batchDropped commit es p msgs) : applyBatch commit es p msgs = p := by
  rcases hd with hd | hd
  · simp only [applyBatch, hd]
  · subst hd
    simp only [applyBatch]
    cases batchBranch es p msgs <;> simp

/-- a dropped batch changes nothing at all: parameters of both modules, epoch clock, supply, accounts, claims -/
theorem C17_discard_batch_changes_nothing (native : String) (h : HS) (commit : Bool) (msgs : List BMsg)
    (hd : batchDropped commit h.es h.params msgs) : stepBOp native h (.batch commit msgs) = some h := by
  simp only [stepBOp, C17_discard_params_unchanged commit h.es h.params msgs hd]

/-- … so the rest of the history runs exactly as without the batch -/
theorem C17_discard_rest_of_history_unchanged (native : String) (h : HS) (commit : Bool) (msgs : List BMsg)
    (rest : List BOp) (hd : batchDropped commit h.es h.params msgs) :
    runBOps native h (.batch commit msgs :: rest) = runBOps native h rest := by
  simp only [runBOps, C17_discard_batch_changes_nothing native h commit msgs hd]

/-- a failing message anywhere in the batch drops it: the messages before it configure nothing -/
theorem C17_discard_refused_message_drops_batch (es : List EpochInfo) :
    ∀ (pre : List BMsg) (p p1 : Params) (m : BMsg) (post : List BMsg),
      runMsgs es p pre = some p1 → handleMsg es p1 m = none → batchBranch es p (pre ++ m :: post) = none := by
  intro pre
  induction pre with
  | nil =>
    intro p p1 m post hp hm
    simp only [runMsgs, Option.some.injEq] at hp
    subst hp
    simp only [batchBranch, List.nil_append, runMsgs, hm]
    split <;> rfl
  | cons a pre ih =>
    intro p p1 m post hp hm
    simp only [runMsgs] at hp
    cases ha : handleMsg es p a with
    | none => rw [ha] at hp; simp at hp
    | some p' =>
      rw [ha] at hp
      have := ih p' p1 m post hp hm
      simp only [batchBranch, List.cons_append, runMsgs, ha] at this ⊢
      split
      · rename_i hall
        have hall' : (pre ++ m :: post).all BMsg.validateBasic = true := by
          simp only [List.all_cons, Bool.and_eq_true] at hall
          exact hall.2
        simpa only [hall', if_true] using this
      · rfl

/-- the block after a dropped batch mints the COMMITTED reward once per end of the COMMITTED mint identifier:
supply grows by `countEnds` of the identifier in force before the batch times the reward in force before it -/
theorem C17_discard_next_block_mints_committed_reward (native : String) (h h' : HS) (commit : Bool)
    (msgs : List BMsg) (b : BlockIn) (hd : batchDropped commit h.es h.params msgs)
    (hr : runBOps native h [.batch commit msgs, .op (.block b)] = some h') :
    h'.params = h.params ∧
    h'.st.supply = h.st.supply +
      (cfgOf native h.params).reward * countEnds (cfgOf native h.params).mintId (beginBlocker h.es b.bt b.h).2 := by
  rw [C17_discard_rest_of_history_unchanged native h commit msgs _ hd] at hr
  simp only [runBOps, stepBOp] at hr
  cases hs : stepOp native h (.block b) with
  | none => rw [hs] at hr; simp at hr
  | some h1 =>
    rw [hs] at hr
    simp only [Option.some.injEq] at hr
    subst hr
    obtain ⟨hp, _, hev⟩ := stepOp_block native h h1 b hs
    exact ⟨hp, (C17_supply_changes_only_by_mint _ _ _ _ _ _ hev).1⟩

/-! ## committed batches are their messages -/

theorem runOps_append (native : String) : ∀ (a b : List HOp) (h : HS),
    runOps native h (a ++ b) = (runOps native h a).bind (fun h1 => runOps native h1 b) := by
  intro a
  induction a with
  | nil => intro b h; simp [runOps]
  | cons o a ih =>
    intro b h
    simp only [List.cons_append, runOps]
    cases stepOp native h o with
    | none => simp
    | some h1 => exact ih b h1

/-- one accepted message on the branch = the message delivered in a transaction -/
theorem handleMsg_eq_stepOp (native : String) (h : HS) (m : BMsg) (p' : Params)
    (hv : m.validateBasic = true) (hm : handleMsg h.es h.params m = some p') :
    stepOp native h m.toHOp = some { h with params := p' } := by
  cases m with
  | mint mm =>
    simp only [BMsg.validateBasic] at hv
    simp only [handleMsg] at hm
    simp only [BMsg.toHOp, stepOp, applyMint, mintDeliver, hv, Bool.not_true, Bool.and_false, Bool.false_eq_true, if_false]
    cases hu : mintUpdateParams (knownId h.es) h.params.mint mm with
    | none => rw [hu] at hm; simp at hm
    | some mp =>
      rw [hu] at hm
      simp only [Option.map_some, Option.some.injEq] at hm
      subst hm
      rfl
  | distr dm =>
    simp only [BMsg.validateBasic] at hv
    simp only [handleMsg] at hm
    simp only [BMsg.toHOp, stepOp, applyDistr, distrDeliver, hv, Bool.not_true, Bool.and_false, Bool.false_eq_true, if_false]
    cases hu : distrUpdateParams (knownId h.es) h.params.distr dm with
    | error e => rw [hu] at hm; simp at hm
    | ok dp =>
      rw [hu] at hm
      simp only [Option.some.injEq] at hm
      subst hm
      rfl

theorem runMsgs_eq_runOps (native : String) : ∀ (msgs : List BMsg) (h : HS) (p' : Params),
    msgs.all BMsg.validateBasic = true → runMsgs h.es h.params msgs = some p' →
    runOps native h (msgs.map BMsg.toHOp) = some { h with params := p' } := by
  intro msgs
  induction msgs with
  | nil =>
    intro h p' _ hr
    simp only [runMsgs, Option.some.injEq] at hr
    subst hr
    rfl
  | cons m rest ih =>
    intro h p' hall hr
    simp only [List.all_cons, Bool.and_eq_true] at hall
    simp only [runMsgs] at hr
    cases hm : handleMsg h.es h.params m with
    | none => rw [hm] at hr; simp at hr
    | some p1 =>
      rw [hm] at hr
      simp only [List.map_cons, runOps, handleMsg_eq_stepOp native h m p1 hall.1 hm]
      exact ih { h with params := p1 } p' hall.2 hr

/-- a batch that is written back is its messages delivered one after another as transaction messages -/
theorem C17_discard_committed_batch_eq_messages (native : String) (h : HS) (msgs : List BMsg) (p' : Params)
    (hb : batchBranch h.es h.params msgs = some p') :
    stepBOp native h (.batch true msgs) = runOps native h (msgs.map BMsg.toHOp) := by
  simp only [stepBOp, applyBatch, hb, if_true]
  simp only [batchBranch] at hb
  split at hb
  · rename_i hall
    exact (runMsgs_eq_runOps native msgs h p' hall hb).symm
  · simp at hb

/-- the op history a history with batches amounts to: dropped batches vanish, committed ones are their messages -/
def flatten : List EpochInfo → Params → List BOp → List HOp
  | _, _, [] => []
  | es, p, .op (.block b) :: rest => .block b :: flatten (beginBlocker es b.bt b.h).1 p rest
  | es, p, .op (.mintParams v m) :: rest => .mintParams v m :: flatten es (applyMint v es p m) rest
  | es, p, .op (.distrParams v m) :: rest => .distrParams v m :: flatten es (applyDistr v es p m) rest
  | es, p, .op (.fee a) :: rest => .fee a :: flatten es p rest
  | es, p, .batch commit msgs :: rest =>
    match batchBranch es p msgs with
    | some p' => if commit then msgs.map BMsg.toHOp ++ flatten es p' rest else flatten es p rest
    | none => flatten es p rest

/-- Every history with batches IS an op history: the theorems over `runOps` (C17Params, C17Tax) apply to it. -/
theorem C17_discard_history_as_ops (native : String) : ∀ (bops : List BOp) (h : HS),
    runBOps native h bops = runOps native h (flatten h.es h.params bops) := by
  intro bops
  induction bops with
  | nil => intro h; rfl
  | cons o rest ih =>
    intro h
    cases o with
    | op o =>
      cases o with
      | block b =>
        simp only [runBOps, stepBOp, flatten, runOps]
        cases hs : stepOp native h (.block b) with
        | none => rfl
        | some h1 =>
          obtain ⟨hp, he, _⟩ := stepOp_block native h h1 b hs
          simp only []
          rw [ih h1, hp, he]
      | mintParams v m => simp only [runBOps, stepBOp, flatten, runOps, stepOp]; exact ih _
      | distrParams v m => simp only [runBOps, stepBOp, flatten, runOps, stepOp]; exact ih _
      | fee a => simp only [runBOps, stepBOp, flatten, runOps, stepOp]; exact ih _
    | batch commit msgs =>
      cases hb : batchBranch h.es h.params msgs with
      | none =>
        rw [C17_discard_rest_of_history_unchanged native h commit msgs rest (Or.inl hb)]
        simp only [flatten, hb]
        exact ih h
      | some p' =>
        cases commit with
        | false =>
          rw [C17_discard_rest_of_history_unchanged native h false msgs rest (Or.inr rfl)]
          simp only [flatten, hb, Bool.false_eq_true, if_false]
          exact ih h
        | true =>
          have hc := C17_discard_committed_batch_eq_messages native h msgs p' hb
          have hall : msgs.all BMsg.validateBasic = true := by
            simp only [batchBranch] at hb
            split at hb
            · assumption
            · simp at hb
          have hrm : runMsgs h.es h.params msgs = some p' := by
            simp only [batchBranch, hall, if_true] at hb
            exact hb
          have hro := runMsgs_eq_runOps native msgs h p' hall hrm
          simp only [runBOps, flatten, hb, if_true, runOps_append, hro, Option.bind_some]
          simp only [stepBOp, applyBatch, hb, if_true]
          exact ih { h with params := p' }

/-- solvency over every history with batches (dropped or committed) -/
theorem C17_discard_solvency (native : String) (bops : List BOp) (h h' : HS)
    (hr : runBOps native h bops = some h') : slack h'.st = slack h.st := by
  rw [C17_discard_history_as_ops] at hr
  exact C17_params_solvency native _ h h' hr

/-- the supply clause over every history with batches: supply = initial supply + the rewards minted over the blocks
of the equivalent op history, each under the configuration the COMMITTED messages left -/
theorem C17_discard_supply_and_accounts (native : String) (bops : List BOp) (h h' : HS)
    (hr : runBOps native h bops = some h') :
    h'.st.supply = h.st.supply + mintedOver h.es (traceOf native h.params h.es 0 (flatten h.es h.params bops)) ∧
    h'.st.mint = h.st.mint := by
  rw [C17_discard_history_as_ops] at hr
  obtain ⟨a, b, _⟩ := C17_params_supply_and_accounts native _ h h' hr
  exact ⟨a, b⟩

def SaneBOp : BOp → Prop
  | .op o => SaneOp o
  | .batch _ _ => True

theorem toHOp_sane (m : BMsg) : SaneOp m.toHOp := by
  cases m <;> simp only [BMsg.toHOp, SaneOp]

theorem flatten_sane : ∀ (bops : List BOp) (es : List EpochInfo) (p : Params),
    (∀ o ∈ bops, SaneBOp o) → ∀ op ∈ flatten es p bops, SaneOp op := by
  intro bops
  induction bops with
  | nil => intro es p _ op hm; simp [flatten] at hm
  | cons o rest ih =>
    intro es p hs op hm
    have hrest : ∀ o ∈ rest, SaneBOp o := fun o ho => hs o (by simp [ho])
    have ho : SaneBOp o := hs o (by simp)
    cases o with
    | op o =>
      cases o with
      | block b =>
        simp only [flatten, List.mem_cons] at hm
        rcases hm with hm | hm
        · subst hm; exact ho
        · exact ih _ _ hrest op hm
      | mintParams v m =>
        simp only [flatten, List.mem_cons] at hm
        rcases hm with hm | hm
        · subst hm; exact ho
        · exact ih _ _ hrest op hm
      | distrParams v m =>
        simp only [flatten, List.mem_cons] at hm
        rcases hm with hm | hm
        · subst hm; exact ho
        · exact ih _ _ hrest op hm
      | fee a =>
        simp only [flatten, List.mem_cons] at hm
        rcases hm with hm | hm
        · subst hm; exact ho
        · exact ih _ _ hrest op hm
    | batch commit msgs =>
      simp only [flatten] at hm
      split at hm
      · split at hm
        · simp only [List.mem_append, List.mem_map] at hm
          rcases hm with ⟨m, _, rfl⟩ | hm
          · exact toHOp_sane m
          · exact ih _ _ hrest op hm
        · exact ih _ _ hrest op hm
      · exact ih _ _ hrest op hm

/-- no history of batches (dropped or committed, arbitrary messages), single messages, non-negative fee income and
blocks with a sane validator view halts -/
theorem C17_discard_no_halt (native : String) (bops : List BOp) (h : HS) (hi : TaxInv h)
    (hs : ∀ o ∈ bops, SaneBOp o) : ∃ h', runBOps native h bops = some h' ∧ TaxInv h' := by
  rw [C17_discard_history_as_ops]
  exact C17_hist_no_halt native _ h hi (flatten_sane bops h.es h.params hs)

/-! ## non-vacuity: concrete batches -/

private def mkE (id : String) (dur : Int) : EpochInfo :=
  { identifier := id, startTime := 0, duration := dur, currentEpoch := 1, currentEpochStartTime := 0,
    epochCountingStarted := true, currentEpochStartHeight := 1 }
private def es0 : List EpochInfo := [mkE "day" 86400, mkE "hour" 3600, mkE "minute" 60]
private def p0 : Params :=
  { distr := { id := "minute", tax := PREC / 50 }, mint := { denom := "hua", reward := 20, id := "hour" } }
private def st0 : St :=
  { supply := 5000, fc := 0, mint := 0, distr := 0,
    pool := { community := 0, commission := [], rewards := [], outstanding := [] } }
private def h0 : HS := { params := p0, es := es0, st := st0 }
private def valsP : List ValIn :=
  [{ op := "a", power := 100, rate := 0, found := true, stakers := [("sa", 100 * PREC)] },
   { op := "b", power := 101, rate := PREC / 20, found := true, stakers := [("sb", 101 * PREC)] }]
private def blk (bt h : Int) : BOp := .op (.block { bt := bt, h := h, total := 201, vals := valsP })
/-- the failed proposal of the seed C17-h: reward 20 → 20000000, then a feedistribution update with an identifier
x/epochs does not have -/
private def failedProposal : List BMsg :=
  [.mint { denom := "hua", reward := some 20000000, id := "hour" }, .distr { id := "fortnight", tax := some 0 }]
private def passedProposal : List BMsg :=
  [.mint { denom := "hua", reward := some 7, id := "hour" }, .distr { id := "hour", tax := some 0 }]

-- the first handler runs and changes the branch, the second refuses: the batch is dropped
example : handleMsg es0 p0 (.mint { denom := "hua", reward := some 20000000, id := "hour" }) =
      some { p0 with mint := { denom := "hua", reward := 20000000, id := "hour" } } ∧
    batchBranch es0 p0 failedProposal = none ∧ batchDropped true es0 p0 failedProposal := by
  refine ⟨by decide, by decide, Or.inl (by decide)⟩
-- a simulation of an acceptable message is dropped as well
example : (batchBranch es0 p0 [.mint { denom := "hua", reward := some 20000000, id := "hour" }]).isSome = true ∧
    batchDropped false es0 p0 [.mint { denom := "hua", reward := some 20000000, id := "hour" }] :=
  ⟨by decide, Or.inr rfl⟩
-- after the failed proposal the two hourly ends mint 20 each (not 20000000); after the passed one 7
example : (runBOps "hua" h0 [.batch true failedProposal, blk 3601 2, blk 7202 3]).map (fun h => (h.st.supply, h.params.mint.reward)) =
    some (5040, 20) := by decide
example : (runBOps "hua" h0 [.batch true passedProposal, blk 3601 2, blk 7202 3]).map (fun h => (h.st.supply, h.params.mint.reward, h.params.distr.id)) =
    some (5014, 7, "hour") := by decide
-- dropped batches vanish from the equivalent op history, the committed one is its two messages
example : (flatten es0 p0 [.batch true failedProposal, blk 3601 2, .batch false passedProposal, .batch true passedProposal]).length = 3 := by
  decide
example : TaxInv h0 ∧ ∀ o ∈ [BOp.batch true failedProposal, blk 3601 2], SaneBOp o := by
  refine ⟨⟨by decide, by decide, by decide⟩, ?_⟩
  intro o ho
  simp only [List.mem_cons, List.mem_nil_iff, or_false] at ho
  rcases ho with rfl | rfl
  · trivial
  · simp only [blk, SaneBOp, SaneOp]
    refine ⟨by decide, ?_, by decide⟩
    intro v hv
    simp only [valsP, List.mem_cons, List.mem_nil_iff, or_false] at hv
    rcases hv with hv | hv <;> subst hv <;> refine ⟨by decide, by decide, by decide, ?_⟩ <;>
      intro o ho <;> simp only [List.mem_cons, List.mem_nil_iff, or_false] at ho <;> subst ho <;> decide

end ExoVerif.Distr
