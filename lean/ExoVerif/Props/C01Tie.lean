import ExoVerif.Generated.Kernels
import ExoVerif.Model.Ledger
/-! # C01 tie: the model's value-update primitives are the Go functions of x/assets/types/general.go -/
namespace ExoVerif.Ledger
open ExoVerif.Gen

/-- `upd` is UpdateAssetValue, for every pair of integers -/
theorem C01_tie_updateAssetValue (v d : Int) : updateAssetValue v d = upd v d := by
  unfold updateAssetValue upd
  by_cases h1 : d < 0 <;> by_cases h2 : v < -d <;> by_cases h3 : d = 0 <;> simp [h1, h2, h3] <;> omega

/-- `updDec` is UpdateAssetDecValue -/
theorem C01_tie_updateAssetDecValue (v d : Dec) : updateAssetDecValue v d = updDec v d := by
  unfold updateAssetDecValue updDec Dec.isNegative Dec.lt Dec.neg Dec.isZero Dec.add
  by_cases h1 : d.raw < 0 <;> by_cases h2 : v.raw < -d.raw <;> by_cases h3 : d.raw = 0 <;>
    simp [h1, h2, h3]
  all_goals (first | omega | (cases v; cases d; simp_all))

end ExoVerif.Ledger
