import ExoVerif.Props.C06
import ExoVerif.Props.C07Jail
/-!
# C06 — eligibility "not jailed": a jailed operator drops out, an unjailed one comes back

`candsOf` (Model/ConsKeys.lean) is consensus_keys.go: GetActiveOperatorsForChainID joined with
GetVotePowerForChainID: operators with a key that are opted in and **not jailed**. The theorems
below join it with `C06_updates_yield_topk` (the stored set after an epoch-closing EndBlock is
exactly the top set of the candidates): the key of a jailed operator is not in the set after the
epoch, whatever its power; once `MsgUnjail` has been accepted (`C07_unjail_msg_ok_iff`) the
operator is a candidate again and, when there is room and it has power, back in the set.

`t` is the state at the point where EndBlock reads the candidates (after the pending opt-outs and
prunings of the block); `InputsOK` are C07's guarantees (`C06.lean`).
-/
namespace ExoVerif.ConsKeys
open ExoVerif.VMap ExoVerif.ValSet

/-- exactly the operators with a key, opted in and not jailed are candidates -/
theorem C06_candidate_iff (t : St) (power : Nat → Int) (c : Cand) :
    c ∈ candsOf t power ↔
      (c.op < t.nOps ∧ t.fwd2 c.op = some c.key ∧ t.optedIn c.op = true ∧ t.jailed c.op = false ∧
       c.power = power c.op ∧ c.rev = (t.rev c.key).isSome) := by
  unfold candsOf
  simp only [List.mem_filterMap, List.mem_range]
  constructor
  · rintro ⟨op, hop, h⟩
    cases hf : t.fwd2 op with
    | none => simp [hf] at h
    | some key =>
      simp only [hf] at h
      by_cases hc : (t.optedIn op && !t.jailed op) = true
      · simp only [hc, if_true, Option.some.injEq] at h
        subst h
        simp only [Bool.and_eq_true, Bool.not_eq_true'] at hc
        exact ⟨hop, hf, hc.1, hc.2, rfl, rfl⟩
      · simp [hc] at h
  · rintro ⟨hop, hf, hin, hj, hp, hr⟩
    refine ⟨c.op, hop, ?_⟩
    simp only [hf, hin, hj, Bool.not_false, Bool.and_self, if_true, Option.some.injEq]
    cases c; simp_all

/-- a jailed operator is not a candidate, whatever its power, key and opt-in state -/
theorem C06_jailed_not_candidate (t : St) (power : Nat → Int) (op : Nat) (hj : t.jailed op = true) :
    ∀ c ∈ candsOf t power, c.op ≠ op := by
  intro c hc e
  have := ((C06_candidate_iff t power c).1 hc).2.2.2.1
  rw [e, hj] at this; cases this

/-- **A jailed operator drops out.** After the EndBlock that closes an epoch, a consensus key `k`
that is not the key of any opted-in, non-jailed operator is not in the stored validator set (and
not in the engine's, `C06_updates_yield_topk`) — in particular the key of an operator that was
jailed during the epoch, however large its power. -/
theorem C06_jailed_drops_out (t : St) (power : Nat → Int) (maxVals : Nat) (k : Nat)
    (hin : InputsOK t.vs.vals (candsOf t power))
    (hk : ∀ op, t.fwd2 op = some k → t.optedIn op = true → t.jailed op = true) :
    get (endBlockEpoch t.vs (candsOf t power) maxVals).1.vals k = none := by
  have h := (C06_updates_yield_topk t.vs (candsOf t power) maxVals hin t.vs.vals (fun _ => rfl)).2.2.1 k
  rw [h]
  unfold topMap
  apply get_map_not_mem
  intro hmem
  obtain ⟨c, hc, hck⟩ := List.mem_map.1 hmem
  have hcc := (C06_candidate_iff t power c).1 (topK_mem_cands _ _ c hc)
  have := hk c.op (hck ▸ hcc.2.1) hcc.2.2.1
  rw [hcc.2.2.2.1] at this; cases this

/-- **An unjailed operator comes back.** An operator with a key that is opted in and not jailed
(e.g. after an accepted MsgUnjail, `C07_unjail_msg_effect`), with whole power ≥ 1, is in the set
after the epoch-closing EndBlock with exactly that power whenever the candidates fit under the
maximum. -/
theorem C06_unjailed_comes_back (t : St) (power : Nat → Int) (maxVals : Nat) (op k : Nat)
    (hin : InputsOK t.vs.vals (candsOf t power))
    (hop : op < t.nOps) (hf : t.fwd2 op = some k) (hopt : t.optedIn op = true) (hj : t.jailed op = false)
    (hp : 1 ≤ power op) (hroom : (candsOf t power).length ≤ maxVals) :
    get (endBlockEpoch t.vs (candsOf t power) maxVals).1.vals k = some (power op) := by
  have h := (C06_updates_yield_topk t.vs (candsOf t power) maxVals hin t.vs.vals (fun _ => rfl)).2.2.1 k
  rw [h]
  let c : Cand := ⟨op, k, power op, (t.rev k).isSome⟩
  have hc : c ∈ candsOf t power := (C06_candidate_iff t power c).2 ⟨hop, hf, hopt, hj, rfl, rfl⟩
  have hs : c ∈ isort candLe (candsOf t power) := (isort_perm candLe (candsOf t power)).mem_iff.2 hc
  have hlen : (isort candLe (candsOf t power)).length ≤ maxVals := by
    rw [(isort_perm candLe (candsOf t power)).length_eq]; exact hroom
  have htop : c ∈ topK (candsOf t power) maxVals := by
    unfold topK
    rw [List.take_of_length_le hlen]
    exact List.mem_filter.2 ⟨hs, by simpa using hp⟩
  have := get_map_mem (topK (candsOf t power) maxVals) (topK_keys_nodup _ _ hin.keysNodup) c htop
  exact this

/-! ## non-vacuity: jailed during the epoch ⇒ out; MsgUnjail ⇒ back one epoch later -/

private def pwJ : Nat → Int := fun op => if op = 0 then 1000 else 100
private def histJ : List Op :=
  [.register 0, .register 1, .optIn 0 1 true, .optIn 1 2 true, .epochEnd 1, .endBlock pwJ 5,
   .jail 1 true, .epochEnd 2, .endBlock pwJ 5]

example : let s := run (St.init 2 6 1 2) histJ
    get s.vs.vals 1 = none ∧ get s.vs.vals 2 = some 100 ∧ jailedView s 1 = true ∧
    (let s' := run (unjailMsg s 0 1000 1000 1 true).2 [.epochEnd 3, .endBlock pwJ 5]
     get s'.vs.vals 1 = some 1000 ∧ get s'.vs.vals 2 = some 100) := by decide

end ExoVerif.ConsKeys
