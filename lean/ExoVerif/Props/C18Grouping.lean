import ExoVerif.Model.GenesisAssets
import ExoVerif.Generated.Facts
/-!
# C18 — the grouping loops of the x/assets exporter, as written

`Model/GenesisAssets.groupAdj` states WHAT AllDeposits / AllOperatorAssets return (one group per run of rows with the same
first key part). This file transcribes HOW the Go code computes it — the loop body statement by statement, as pinned by the
regenerated fact `Gen.assetsExportLoops`:

```
ret := make([]G, 0); var previous string
for ; iterator.Valid(); iterator.Next() {
    id, … := keyList[0], keyList[1]
    if previous != id { ret = append(ret, G{id, []}) }
    index := len(ret) - 1                       -- -1 on an empty ret: the append below panics
    ret[index].rows = append(ret[index].rows, row)
    previous = id
}
```

* `C18_export_loop_eq_groupAdj`: for every list of rows whose FIRST id is not the empty string the loop does not panic and
  returns exactly `groupAdj` — so `C18_roundtrip_assets` (stated over `groupAdj`) speaks about the loop of the code.
* `C18_export_loop_empty_first_id_panics`: the quirk the model file mentions — `previous` starts as "", so a first row with
  an empty id opens no group and the index is -1 (no writer produces an empty id: `StoreInv`).
* `C18_export_loop_without_update_splits` / `C18_export_loop_inverted_test_panics`: the loop is sensitive to each of its
  statements — without `previous = id` every row opens a group of its own (a staker / operator with two rows is exported
  twice, which `Validate` rejects as a duplicate), and with the comparison inverted the first row already panics.
* `C18_tie_assets_export_loops`: the regenerated statements of the three exporter loops are the transcribed ones.
-/
namespace ExoVerif.Genesis

section Loop
variable {β : Type}

/-- `index := len(ret) - 1; ret[index].rows = append(ret[index].rows, r)`; `none` = index out of range (panic) -/
def addToLast (r : β) (ret : List (String × List β)) : Option (List (String × List β)) :=
  match ret.getLast? with
  | none => none
  | some (s, g) => some (ret.dropLast ++ [(s, g ++ [r])])

/-- one pass of the loop body of AllDeposits / AllOperatorAssets on the state (ret, previous) -/
def groupStep (key : β → String) (st : Option (List (String × List β) × String)) (r : β) :
    Option (List (String × List β) × String) :=
  match st with
  | none => none
  | some (ret, prev) =>
    let ret' := if prev ≠ key r then ret ++ [(key r, [])] else ret
    match addToLast r ret' with
    | none => none
    | some ret'' => some (ret'', key r)

/-- x/assets/keeper/staker_asset.go: AllDeposits; operator_asset.go: AllOperatorAssets — the whole loop -/
def groupLoop (key : β → String) (rows : List β) : Option (List (String × List β)) :=
  (rows.foldl (groupStep key) (some ([], ""))).map (·.1)

/-- the last group of what was built so far takes the first group of the rest when the ids agree -/
def mergeHead (s : String) (g : List β) : List (String × List β) → List (String × List β)
  | [] => [(s, g)]
  | (s', g') :: gs => if s' = s then (s, g ++ g') :: gs else (s, g) :: (s', g') :: gs

theorem addToLast_concat (r : β) (init : List (String × List β)) (s : String) (g : List β) :
    addToLast r (init ++ [(s, g)]) = some (init ++ [(s, g ++ [r])]) := by
  simp [addToLast]

theorem foldl_groupStep_none (key : β → String) (rows : List β) :
    rows.foldl (groupStep key) none = none := by
  induction rows with
  | nil => rfl
  | cons r rs ih => simpa [List.foldl, groupStep] using ih

/-- the head group of `groupAdj key (r :: rs)` carries the id of `r` -/
theorem groupAdj_cons (key : β → String) (r : β) (rs : List β) :
    groupAdj key (r :: rs) = mergeHead (key r) [r] (groupAdj key rs) := by
  simp only [groupAdj]
  cases h : groupAdj key rs with
  | nil => simp [mergeHead]
  | cons p gs =>
    obtain ⟨s', g'⟩ := p
    simp only [mergeHead]
    by_cases hs : s' = key r
    · subst hs; simp
    · simp [hs]

/-- the invariant of the loop: after a non-empty prefix, with `previous` = the id of the last group -/
theorem foldl_groupStep_from (key : β → String) (rows : List β) :
    ∀ (init : List (String × List β)) (s : String) (g : List β),
      (rows.foldl (groupStep key) (some (init ++ [(s, g)], s))).map (·.1) =
        some (init ++ mergeHead s g (groupAdj key rows)) := by
  induction rows with
  | nil => intro init s g; simp [groupAdj, mergeHead]
  | cons r rs ih =>
    intro init s g
    rw [List.foldl_cons]
    by_cases hs : s = key r
    · -- same id: the row joins the last group
      have h1 : groupStep key (some (init ++ [(s, g)], s)) r = some (init ++ [(s, g ++ [r])], s) := by
        simp only [groupStep, hs, ne_eq, not_true_eq_false, ↓reduceIte]
        rw [← hs, addToLast_concat]
      rw [h1, ih init s (g ++ [r]), groupAdj_cons, ← hs]
      congr 2
      cases hA : groupAdj key rs with
      | nil => simp [mergeHead]
      | cons p gs =>
        obtain ⟨s', g'⟩ := p
        by_cases h' : s' = s <;> simp [mergeHead, h', List.append_assoc]
    · -- a new id: a new group is opened
      have h1 : groupStep key (some (init ++ [(s, g)], s)) r =
          some ((init ++ [(s, g)]) ++ [(key r, [r])], key r) := by
        simp only [groupStep, ne_eq, hs, not_false_eq_true, ↓reduceIte]
        rw [addToLast_concat]; simp
      rw [h1, ih (init ++ [(s, g)]) (key r) [r], groupAdj_cons]
      have hhead : ∀ L, mergeHead s g (mergeHead (key r) [r] L) = (s, g) :: mergeHead (key r) [r] L := by
        intro L
        cases L with
        | nil => simp [mergeHead, Ne.symm hs]
        | cons p gs =>
          obtain ⟨s', g'⟩ := p
          by_cases h' : s' = key r <;> simp [mergeHead, h', Ne.symm hs]
      rw [hhead]; simp

/-- **the loop of the code computes the model's grouping**: whenever the first row's id is not the empty string
    (ids are never empty: `StoreInv`), the loop ends without a panic and returns `groupAdj` -/
theorem C18_export_loop_eq_groupAdj (key : β → String) (rows : List β)
    (h : ∀ r, rows.head? = some r → key r ≠ "") :
    groupLoop key rows = some (groupAdj key rows) := by
  cases rows with
  | nil => simp [groupLoop, groupAdj]
  | cons r rs =>
    have hr : key r ≠ "" := h r rfl
    have h1 : groupStep key (some ([], "")) r = some ([] ++ [(key r, [r])], key r) := by
      simp [groupStep, Ne.symm hr, addToLast]
    simp only [groupLoop, List.foldl_cons]
    rw [h1, foldl_groupStep_from, groupAdj_cons]
    simp

/-- the quirk: `previous` starts as "", so a first row with an empty id opens no group and `len(ret) - 1 = -1` -/
theorem C18_export_loop_empty_first_id_panics (key : β → String) (r : β) (rs : List β) (h : key r = "") :
    groupLoop key (r :: rs) = none := by
  simp [groupLoop, groupStep, h, addToLast, foldl_groupStep_none]

end Loop

/-- the hypothesis is met by every non-empty store the keepers write (ids are `0x…_0x…` / bech32 strings), e.g.: -/
example : ∀ r, ([("0xaa_0x65", 1), ("0xaa_0x65", 2), ("0xbb_0x65", 1)] : List (String × Nat)).head? = some r → r.1 ≠ "" := by
  intro r h; simp at h; subst h; decide

/-- the two grouped collections of `exportAssets` are what the loops of AllDeposits / AllOperatorAssets return on the rows
    of the two joined-key stores in iteration order (so `C18_roundtrip_assets` speaks about the loops of the code) -/
theorem C18_export_assets_by_the_loops (s : Assets)
    (hd : ∀ r, (s.deposits.map (·.2)).head? = some r → r.staker ≠ "")
    (ho : ∀ r, (s.opAssets.map (·.2)).head? = some r → r.operator ≠ "") :
    (groupLoop DepRow.staker (s.deposits.map (·.2))).map (·.map (fun g => (g.1, g.2.map DepRow.item)))
        = some (exportAssets s).deposits ∧
    (groupLoop OpRow.operator (s.opAssets.map (·.2))).map (·.map (fun g => (g.1, g.2.map OpRow.item)))
        = some (exportAssets s).opAssets := by
  rw [C18_export_loop_eq_groupAdj _ _ hd, C18_export_loop_eq_groupAdj _ _ ho]
  exact ⟨rfl, rfl⟩

/-! ## what each statement of the loop is there for (the loop with one statement changed) -/

/-- the loop WITHOUT `previous = id` at the end of the body -/
def groupLoopNoUpdate {β : Type} (key : β → String) (rows : List β) : Option (List (String × List β)) :=
  (rows.foldl (fun st r => match st with
    | none => none
    | some (ret, prev) =>
      match addToLast r (if prev ≠ key r then ret ++ [(key r, [])] else ret) with
      | none => none
      | some ret'' => some (ret'', prev)) (some ([], ""))).map (·.1)

/-- without the update every row opens a group of its own: two rows of one staker are exported as two entries with the
    same id (which `Validate`'s duplicate check rejects), although `groupAdj` — and the unchanged loop — give one -/
theorem C18_export_loop_without_update_splits :
    groupLoopNoUpdate (fun (p : String × Nat) => p.1) [("s1", 1), ("s1", 2)] = some [("s1", [("s1", 1)]), ("s1", [("s1", 2)])]
    ∧ groupLoop (fun (p : String × Nat) => p.1) [("s1", 1), ("s1", 2)] = some [("s1", [("s1", 1), ("s1", 2)])] := by
  decide

/-- the loop with the comparison inverted (`previous == id`): the first row opens no group and the index is -1 -/
theorem C18_export_loop_inverted_test_panics :
    ([("s1", 1)].foldl (fun (st : Option (List (String × List (String × Nat)) × String)) (r : String × Nat) => match st with
      | none => none
      | some (ret, prev) =>
        match addToLast r (if prev = r.1 then ret ++ [(r.1, [])] else ret) with
        | none => none
        | some ret'' => some (ret'', r.1)) (some ([], ""))) = none := by
  decide

/-- interleaved rows (two stakers with two assets each, a third with one) are grouped per staker, in key order -/
example : groupLoop (fun (p : String × Nat) => p.1) [("a", 1), ("a", 2), ("b", 1), ("b", 2), ("c", 1)]
    = some [("a", [("a", 1), ("a", 2)]), ("b", [("b", 1), ("b", 2)]), ("c", [("c", 1)])] := by decide

/-! ## tie: the statements of the exporter loops are the transcribed ones -/
set_option maxRecDepth 8000 in
open ExoVerif.Gen in
theorem C18_tie_assets_export_loops : assetsExportLoops = [
  ("AllDeposits", ["ret := make([]assetstype.DepositsByStaker, 0)", "var previousStakerID string"],
    ["var stateInfo assetstype.StakerAssetInfo",
     "k.cdc.MustUnmarshal(iterator.Value(), &stateInfo)",
     "keyList, err := assetstype.ParseJoinedStoreKey(iterator.Key(), 2)",
     "if err != nil { return nil, err }",
     "stakerID, assetID := keyList[0], keyList[1]",
     "if previousStakerID != stakerID { depositsByStaker := assetstype.DepositsByStaker{StakerID: stakerID, Deposits: make([]assetstype.DepositByAsset, 0)} ret = append(ret, depositsByStaker) }",
     "index := len(ret) - 1",
     "ret[index].Deposits = append(ret[index].Deposits, assetstype.DepositByAsset{AssetID: assetID, Info: stateInfo})",
     "previousStakerID = stakerID"]),
  ("AllOperatorAssets", ["ret := make([]assetstype.AssetsByOperator, 0)", "var previousOperator string"],
    ["keyList, err := assetstype.ParseJoinedStoreKey(iterator.Key(), 2)",
     "if err != nil { return nil, err }",
     "operator, assetID := keyList[0], keyList[1]",
     "if previousOperator != operator { assetsByOperator := assetstype.AssetsByOperator{Operator: operator, AssetsState: make([]assetstype.AssetByID, 0)} ret = append(ret, assetsByOperator) }",
     "var assetInfo assetstype.OperatorAssetInfo",
     "k.cdc.MustUnmarshal(iterator.Value(), &assetInfo)",
     "index := len(ret) - 1",
     "ret[index].AssetsState = append(ret[index].AssetsState, assetstype.AssetByID{AssetID: assetID, Info: assetInfo})",
     "previousOperator = operator"]),
  ("GetAllStakingAssetsInfo", ["ret := make([]assetstype.StakingAssetInfo, 0)"],
    ["var assetInfo assetstype.StakingAssetInfo",
     "k.cdc.MustUnmarshal(iterator.Value(), &assetInfo)",
     "ret = append(ret, assetInfo)"])] := by decide

end ExoVerif.Genesis
