import ExoVerif.Proofs.EvmFee
/-!
# C19 — Ethereum transactions: exact fee, nonce and revert accounting

Theorems about `ExoVerif.EvmFee.deliver` (one DeliverTx: baseapp.runTx + app/ante/evm decorators +
x/evm/keeper ApplyTransaction around an opaque EVM result) and `deliverAll` (the transactions of a
block sharing the block gas meter). Quantified over every environment (base fee, block gas limit,
minimum-gas multiplier, minimum gas price), every state, every transaction of the three types and
every EVM result.  `gas` below is the gas the sender is charged for (third component of `deliver`):
the EVM figure raised to the minimum for an executed tx, the whole limit when ApplyMessage errors or
the block gas meter overflows.

What is NOT covered by these theorems (inherited code, differential run + monitors only): that the EVM
interpreter / statedb journal really leave no trace of a failed execution, intrinsic-gas computation,
signature recovery, bank/auth keepers.
-/
namespace ExoVerif.EvmFee
open ExoVerif

/-- value that actually moves: only when the EVM ran and did not fail -/
def movedValue (o : Outcome) (t : Tx) : Int := if o = .executed false then t.value else 0

/-! ## admission -/

/-- A transaction failing any DeliverTx admission check is not applied and costs nothing: every balance and
    every nonce is unchanged, no gas is charged. (Only the block gas meter may move: baseapp's deferred
    consumeBlockGas adds whatever the context's gas meter shows, see `Exec.rejGas`.) -/
theorem C19_inadmissible_costs_nothing (e : Env) (s : St) (t : Tx) (x : Exec) (h : admissible e s t = false) :
    deliver e s t x = ({ s with blockGas := s.blockGas + x.rejGas }, .rejected, 0) := by
  simp [deliver, h]

theorem C19_inadmissible_balances_nonces (e : Env) (s : St) (t : Tx) (x : Exec) (h : admissible e s t = false) :
    (deliver e s t x).1.bal = s.bal ∧ (deliver e s t x).1.nonce = s.nonce ∧ (deliver e s t x).2 = (.rejected, 0) := by
  rw [C19_inadmissible_costs_nothing e s t x h]; exact ⟨rfl, rfl, rfl⟩

/-- and conversely only inadmissible transactions are rejected -/
theorem C19_rejected_iff_inadmissible (e : Env) (s : St) (t : Tx) (x : Exec) :
    (deliver e s t x).2.1 = .rejected ↔ admissible e s t = false := by
  unfold deliver
  cases h : admissible e s t
  · simp
  · simp only [Bool.not_true, Bool.false_eq_true, if_false]
    split
    · simp only []; split <;> simp
    · split <;> simp

/-- the individual admission conditions named by the property, as the code checks them in DeliverTx -/
theorem C19_admitted_checks (e : Env) (s : St) (t : Tx) (h : admissible e s t = true) :
    t.nonce = s.nonce t.sender ∧ e.baseFee ≤ t.feeCap ∧ anteFee e t ≤ s.bal t.sender ∧
    (0 < t.value → t.value ≤ s.bal t.sender) ∧
    (0 < e.blockGasLimit → t.gasLimit ≤ e.blockGasLimit ∧ s.blockGas < e.blockGasLimit) ∧
    minGasPriceOk e t = true ∧ t.sigOk = true ∧ 0 < t.gasLimit ∧
    t.feeCap * t.gasLimit + t.value ≤ s.bal t.sender := by
  have hcost := ((admissible_iff e s t).mp h).2
  have h := ((admissible_iff e s t).mp h).1
  simp only [admissibleSeparate, wellFormed, Bool.and_eq_true, decide_eq_true_eq, Bool.not_eq_true', Bool.and_eq_false_iff,
    decide_eq_false_iff_not] at h
  obtain ⟨⟨⟨⟨⟨⟨⟨⟨h1, h2⟩, hw⟩, h4⟩, h5⟩, h6⟩, h7⟩, h8⟩, h9⟩ := h
  obtain ⟨⟨⟨⟨⟨_, hgl⟩, _⟩, _⟩, _⟩, _⟩ := hw
  refine ⟨h9, h5, h7, ?_, ?_, h2, h4, hgl, hcost⟩
  · intro hv; rcases h6 with h | h <;> omega
  · intro hl; rcases h1 with h | h <;> rcases h8 with h' | h' <;> omega

/-! ## gas used -/

/-- `gas used` of an executed transaction: the maximum of ⌊multiplier·gasLimit⌋ and the EVM figure; it lies
    between the (rounded-down) minimum and the gas limit and is never below what the EVM consumed. -/
theorem C19_gas_used_bounds (e : Env) (t : Tx) (x : Exec)
    (hL : 0 ≤ t.gasLimit) (hm0 : 0 ≤ e.minGasMult.raw) (hm1 : e.minGasMult.raw ≤ PREC)
    (hx0 : 0 ≤ x.evmGasUsed) (hx1 : x.evmGasUsed ≤ t.gasLimit) :
    gasUsed e t x = max ((t.gasLimit * e.minGasMult.raw).tdiv PREC) x.evmGasUsed ∧
    t.gasLimit * e.minGasMult.raw < (gasUsed e t x + 1) * PREC ∧
    x.evmGasUsed ≤ gasUsed e t x ∧ gasUsed e t x ≤ t.gasLimit := by
  have hp : 0 < PREC := PREC_pos
  have hraw := minimumGasUsed_raw t.gasLimit e.minGasMult hL hm0
  have hnn : 0 ≤ t.gasLimit * e.minGasMult.raw := Int.mul_nonneg hL hm0
  have heq : gasUsed e t x = max ((t.gasLimit * e.minGasMult.raw).tdiv PREC) x.evmGasUsed := by
    unfold gasUsed
    rw [finalGasUsed_eq_max _ _ (by rw [hraw]; exact hnn) hx0, hraw]
  have hle : t.gasLimit * e.minGasMult.raw ≤ t.gasLimit * PREC := Int.mul_le_mul_of_nonneg_left hm1 hL
  rw [Int.tdiv_eq_ediv_of_nonneg hnn] at heq
  have h1 : (t.gasLimit * e.minGasMult.raw) / PREC ≤ t.gasLimit :=
    Int.ediv_le_of_le_mul hp hle
  have h2 : t.gasLimit * e.minGasMult.raw < ((t.gasLimit * e.minGasMult.raw) / PREC + 1) * PREC := by
    have := Int.lt_ediv_add_one_mul_self (t.gasLimit * e.minGasMult.raw) hp
    linarith
  refine ⟨by rw [Int.tdiv_eq_ediv_of_nonneg hnn]; exact heq, ?_, by omega, by omega⟩
  have hge : (t.gasLimit * e.minGasMult.raw) / PREC + 1 ≤ gasUsed e t x + 1 := by omega
  have := Int.mul_le_mul_of_nonneg_right hge (Int.le_of_lt hp)
  linarith

/-- The minimum is rounded DOWN to whole gas units: with an odd limit and multiplier 0.5 the charged gas
    is below multiplier × limit by half a unit (the lower bound of the property holds up to < 1 gas). -/
theorem C19_min_gas_rounds_down :
    ∃ (e : Env) (t : Tx) (x : Exec), (gasUsed e t x) * PREC < t.gasLimit * e.minGasMult.raw := by
  refine ⟨{ baseFee := 1, blockGasLimit := -1, minGasMult := ⟨500000000000000000⟩, minGasPrice := ⟨0⟩, collector := 0 },
    { ty := 0, sender := 1, recipient := 2, nonce := 0, gasLimit := 42001, feeCap := 1, tipCap := 0, value := 0,
      sigOk := true, intrinsic := 21000 }, { evmGasUsed := 21000, failed := false }, ?_⟩
  decide

/-- the refund counter of the EVM is capped: x/evm/keeper/gas.go GasToRefund returns at most
    gasConsumed / quotient and at most the counter, so the gas after refund stays within
    [consumed − consumed/quotient, consumed] -/
theorem C19_refund_counter_capped (avail consumed q : Int) (hc : 0 ≤ consumed) (ha : 0 ≤ avail) (hq : 0 < q) :
    0 ≤ gasToRefund avail consumed q ∧ gasToRefund avail consumed q ≤ avail ∧
    gasToRefund avail consumed q ≤ consumed.tdiv q ∧
    consumed - consumed.tdiv q ≤ evmGasAfterRefund consumed avail q ∧ evmGasAfterRefund consumed avail q ≤ consumed := by
  have h0 : 0 ≤ consumed.tdiv q := by
    rw [Int.tdiv_eq_ediv_of_nonneg hc]; exact Int.ediv_nonneg hc (Int.le_of_lt hq)
  unfold evmGasAfterRefund gasToRefund
  simp only []
  split <;> omega

/-! ## price -/

/-- Unused gas is refunded at the purchase price: the price RefundGas uses (go-ethereum AsMessage) is the
    price the ante handler charged (evmos TxData.EffectiveGasPrice), for all three transaction types. -/
theorem C19_refund_at_purchase_price (e : Env) (t : Tx) (hb : 0 ≤ e.baseFee) : msgPrice e t = antePrice e t :=
  msgPrice_eq_antePrice e t hb

/-- effective price of a dynamic-fee transaction: min(tip + baseFee, feeCap), between base fee and cap -/
theorem C19_effective_price_bounds (e : Env) (s : St) (t : Tx) (_hb : 0 ≤ e.baseFee) (h : admissible e s t = true) :
    antePrice e t ≤ t.feeCap ∧ (t.ty = 2 → e.baseFee ≤ antePrice e t) ∧ (t.ty ≠ 2 → antePrice e t = t.feeCap) := by
  have hc := (C19_admitted_checks e s t h).2.1
  have h := ((admissible_iff e s t).mp h).1
  simp only [admissibleSeparate, wellFormed, Bool.and_eq_true, decide_eq_true_eq, Bool.or_eq_true, bne_iff_ne, ne_eq] at h
  obtain ⟨⟨⟨⟨⟨⟨⟨⟨_, _⟩, hw⟩, _⟩, _⟩, _⟩, _⟩, _⟩, _⟩ := h
  obtain ⟨_, htip⟩ := hw
  unfold antePrice
  refine ⟨by split <;> omega, ?_, ?_⟩
  · intro h2; rw [if_pos h2]
    rcases htip with h' | h'
    · exact absurd h2 h'
    · omega
  · intro h2; rw [if_neg h2]

/-! ## the accounting identity of one transaction -/

/-- Exact fee: for an admitted transaction every account's balance changes by exactly
      − (gas·price + moved value)   at the sender,
      + moved value                 at the recipient,
      + gas·price                   at the fee collector,
    (contributions add up when the roles coincide) and by nothing anywhere else; the moved value is the
    transaction's value iff the execution did not fail. -/
theorem C19_fee_exact (e : Env) (s : St) (t : Tx) (x : Exec) (hb : 0 ≤ e.baseFee)
    (h : admissible e s t = true) (hg : gasUsed e t x ≤ t.gasLimit) (a : Nat) :
    let r := deliver e s t x
    r.1.bal a = s.bal a
      - (if a = t.sender then r.2.2 * antePrice e t + movedValue r.2.1 t else 0)
      + (if a = t.recipient then movedValue r.2.1 t else 0)
      + (if a = e.collector then r.2.2 * antePrice e t else 0) := by
  have hp := antePrice_nonneg e s t hb h
  have hmp := msgPrice_eq_antePrice e t hb
  have hr := refundAmt_eq e t (gasUsed e t x) hg (by rw [hmp]; exact hp)
  simp only [deliver, h, Bool.not_true, Bool.false_eq_true, if_false]
  by_cases hi : t.gasLimit < t.intrinsic
  · simp only [hi, if_true, afterAnte, addAt, anteFee, movedValue]
    have hmv : ∀ (c : Bool), ((if c = true then Outcome.blockGas else Outcome.applyErr) = Outcome.executed false) = False := by
      intro c; cases c <;> simp
    simp only [hmv, if_false]
    split_ifs <;> first | contradiction | ring
  · simp only [hi, if_false]
    by_cases hbg : (decide (0 < e.blockGasLimit) && decide (e.blockGasLimit < s.blockGas + gasUsed e t x)) = true
    · simp only [hbg, if_true, afterAnte, addAt, anteFee, movedValue]
      split_ifs <;> first | contradiction | ring
    · simp only [hbg, Bool.false_eq_true, if_false, afterExec, afterAnte, anteFee, movedValue, hr, hmp]
      cases hf : x.failed <;> simp only [Bool.false_eq_true, if_false, if_true, addAt, reduceCtorEq, Outcome.executed.injEq] <;>
        split_ifs <;> first | contradiction | ring

/-- Sender, recipient and fee collector: the balance changes sum to zero over any duplicate-free list of
    accounts that contains the three of them — no token is created or destroyed by a transaction, whatever
    its outcome (rejected, ApplyMessage error, block gas overflow, reverted, successful). -/
theorem C19_balances_sum_zero (e : Env) (s : St) (t : Tx) (x : Exec) (l : List Nat) (hn : l.Nodup)
    (hs : t.sender ∈ l) (hr : t.recipient ∈ l) (hc : e.collector ∈ l) :
    total (deliver e s t x).1.bal l = total s.bal l := by
  unfold deliver
  split
  · rfl
  · split
    · simp only [afterAnte]
      rw [total_addAt _ _ _ _ hn hc, total_addAt _ _ _ _ hn hs]; omega
    · dsimp only
      split
      · simp only [afterAnte]
        rw [total_addAt _ _ _ _ hn hc, total_addAt _ _ _ _ hn hs]; omega
      · simp only [afterExec, afterAnte]
        rw [total_addAt _ _ _ _ hn hs, total_addAt _ _ _ _ hn hc]
        split
        · rw [total_addAt _ _ _ _ hn hc, total_addAt _ _ _ _ hn hs]; omega
        · rw [total_addAt _ _ _ _ hn hr, total_addAt _ _ _ _ hn hs, total_addAt _ _ _ _ hn hc, total_addAt _ _ _ _ hn hs]
          omega

/-- Nonce: an admitted (= included) transaction raises the sender's nonce by exactly one and no other
    nonce, whatever the outcome of the execution; its nonce field equals the previous account nonce. -/
theorem C19_nonce_plus_one (e : Env) (s : St) (t : Tx) (x : Exec) (h : admissible e s t = true) (a : Nat) :
    (deliver e s t x).1.nonce a = s.nonce a + (if a = t.sender then 1 else 0) ∧ t.nonce = s.nonce t.sender := by
  refine ⟨?_, (C19_admitted_checks e s t h).1⟩
  simp only [deliver, h, Bool.not_true, Bool.false_eq_true, if_false]
  split
  · simp only [afterAnte, addAt]; split <;> omega
  · split
    · simp only [afterAnte, addAt]; split <;> omega
    · simp only [afterExec, afterAnte, addAt]; split <;> omega

/-- A failed execution (revert, out of gas, invalid opcode …), an ApplyMessage error and a block-gas overflow
    move no value: apart from the fee (sender → collector) no balance changes; in particular the recipient
    receives nothing. -/
theorem C19_failed_moves_no_value (e : Env) (s : St) (t : Tx) (x : Exec) (hb : 0 ≤ e.baseFee)
    (h : admissible e s t = true) (hg : gasUsed e t x ≤ t.gasLimit) (hf : (deliver e s t x).2.1 ≠ .executed false) (a : Nat) :
    (deliver e s t x).1.bal a = s.bal a
      - (if a = t.sender then (deliver e s t x).2.2 * antePrice e t else 0)
      + (if a = e.collector then (deliver e s t x).2.2 * antePrice e t else 0) := by
  have := C19_fee_exact e s t x hb h hg a
  simp only [movedValue, hf, if_false] at this
  rw [this]; split <;> simp

/-- The gas a sender is charged for lies between ⌊multiplier·limit⌋ and the limit for every included tx. -/
theorem C19_gas_charged_bounds (e : Env) (s : St) (t : Tx) (x : Exec) (h : admissible e s t = true)
    (hm0 : 0 ≤ e.minGasMult.raw) (hm1 : e.minGasMult.raw ≤ PREC)
    (hx0 : 0 ≤ x.evmGasUsed) (hx1 : x.evmGasUsed ≤ t.gasLimit) :
    (t.gasLimit * e.minGasMult.raw).tdiv PREC ≤ (deliver e s t x).2.2 ∧ (deliver e s t x).2.2 ≤ t.gasLimit := by
  have hL : 0 ≤ t.gasLimit := by have := (C19_admitted_checks e s t h).2.2.2.2.2.2.2.1; omega
  obtain ⟨heq, _, _, hle⟩ := C19_gas_used_bounds e t x hL hm0 hm1 hx0 hx1
  have hnn : 0 ≤ t.gasLimit * e.minGasMult.raw := Int.mul_nonneg hL hm0
  have hmin : (t.gasLimit * e.minGasMult.raw).tdiv PREC ≤ t.gasLimit := by
    rw [Int.tdiv_eq_ediv_of_nonneg hnn]
    exact Int.ediv_le_of_le_mul PREC_pos (Int.mul_le_mul_of_nonneg_left hm1 hL)
  simp only [deliver, h, Bool.not_true, Bool.false_eq_true, if_false]
  split
  · exact ⟨hmin, Int.le_refl _⟩
  · split
    · exact ⟨hmin, Int.le_refl _⟩
    · simp only []; omega

/-! ## the transactions of one block -/

/-- number of included (not rejected) transactions of account `a` -/
def includedBy (a : Nat) : List (Tx × Exec) → List (Outcome × Int) → Int
  | (t, _) :: ts, (o, _) :: os => (if t.sender = a ∧ o ≠ .rejected then 1 else 0) + includedBy a ts os
  | _, _ => 0

/-- Over the transactions of a block (shared block gas meter, several per sender) the balance changes of any
    duplicate-free account list containing every sender, recipient and the collector sum to zero. -/
theorem C19_block_balances_sum_zero (e : Env) (txs : List (Tx × Exec)) (s : St) (l : List Nat) (hn : l.Nodup)
    (hc : e.collector ∈ l) (hall : ∀ p ∈ txs, p.1.sender ∈ l ∧ p.1.recipient ∈ l) :
    total (deliverAll e s txs).1.bal l = total s.bal l := by
  induction txs generalizing s with
  | nil => rfl
  | cons p rest ih =>
    obtain ⟨t, x⟩ := p
    have h1 := hall (t, x) (by simp)
    simp only [deliverAll]
    rw [ih _ (fun q hq => hall q (by simp [hq])), C19_balances_sum_zero e s t x l hn h1.1 h1.2 hc]

/-- Nonce monotonicity over a block: every account's nonce grows by exactly the number of its included
    transactions (rejected ones do not count). -/
theorem C19_block_nonce_count (e : Env) (txs : List (Tx × Exec)) (s : St) (a : Nat) :
    (deliverAll e s txs).1.nonce a = s.nonce a + includedBy a txs (deliverAll e s txs).2 := by
  induction txs generalizing s with
  | nil => simp [deliverAll, includedBy]
  | cons p rest ih =>
    obtain ⟨t, x⟩ := p
    simp only [deliverAll, includedBy]
    rw [ih]
    cases hadm : admissible e s t
    · rw [C19_inadmissible_costs_nothing e s t x hadm]; simp
    · have hne : (deliver e s t x).2.1 ≠ .rejected := by
        intro hh; have := (C19_rejected_iff_inadmissible e s t x).mp hh; simp [hadm] at this
      rw [(C19_nonce_plus_one e s t x hadm a).1]
      by_cases hs : t.sender = a
      · simp [hs, hne]; omega
      · have : ¬ a = t.sender := fun h => hs h.symm
        simp [hs, this]

/-- Shared block gas meter: once the consumed block gas has reached the limit, every further transaction of
    the block is rejected and costs nothing. -/
theorem C19_block_gas_exhausted_rejects (e : Env) (s : St) (t : Tx) (x : Exec)
    (hl : 0 < e.blockGasLimit) (hfull : e.blockGasLimit ≤ s.blockGas) :
    deliver e s t x = ({ s with blockGas := s.blockGas + x.rejGas }, .rejected, 0) := by
  apply C19_inadmissible_costs_nothing
  simp [admissible, admissibleSeparate, hl, hfull]

/-- the block gas meter never runs backwards -/
theorem C19_block_gas_monotone (e : Env) (s : St) (t : Tx) (x : Exec)
    (hL : 0 ≤ t.gasLimit) (hgu : 0 ≤ gasUsed e t x) (hrj : 0 ≤ x.rejGas) : s.blockGas ≤ (deliver e s t x).1.blockGas := by
  unfold deliver
  split
  · simp only []; omega
  · split
    · simp only []; omega
    · dsimp only
      split <;> (simp only []; omega)

/-! ## the admission clause at full strength (holds since the F-19a repair) and the pre-repair regression -/

/-- The property's admission clause read literally: a transaction whose sender cannot pay value + fee is not
    included and costs nothing. -/
def C19_full : Prop :=
  ∀ (e : Env) (s : St) (t : Tx) (x : Exec), 0 ≤ e.baseFee →
    s.bal t.sender < t.value + anteFee e t → (deliver e s t x).2.1 = .rejected

/-- the fee actually charged never exceeds the fee cap the total-cost check uses -/
theorem anteFee_le_cap (e : Env) (t : Tx) (hg : 0 ≤ t.gasLimit) : anteFee e t ≤ t.feeCap * t.gasLimit := by
  unfold anteFee
  apply Int.mul_le_mul_of_nonneg_right _ hg
  unfold antePrice
  split <;> omega

/-- Since EthAccountVerificationDecorator runs in DeliverTx too, the clause holds for every environment, state,
    transaction and EVM result. -/
theorem C19_admission_total_cost : C19_full := by
  intro e s t x _ hlt
  rw [C19_rejected_iff_inadmissible]
  cases hadm : admissible e s t
  · rfl
  · exfalso
    have hc := C19_admitted_checks e s t hadm
    have hg : 0 ≤ t.gasLimit := by have := hc.2.2.2.2.2.2.2.1; omega
    have := anteFee_le_cap e t hg
    have := hc.2.2.2.2.2.2.2.2
    omega

def f19aEnv : Env := { baseFee := 1000000000, blockGasLimit := -1, minGasMult := ⟨500000000000000000⟩, minGasPrice := ⟨0⟩, collector := 0 }
def f19aSt : St := { bal := fun a => if a = 1 then 50000000000000 else 0, nonce := fun _ => 0, blockGas := 0 }
def f19aTx : Tx := { ty := 0, sender := 1, recipient := 2, nonce := 0, gasLimit := 21000, feeCap := 2000000000, tipCap := 0,
                     value := 8000000000001, sigOk := true, intrinsic := 21000 }

/-- Pre-repair regression (F-19a): value + fee = balance + 1 passes every check DeliverTx used to perform (value ≤
    balance, fee ≤ balance, nonce, base fee …) — it was included, failed in the EVM and was charged — and is rejected
    only by the total-cost comparison. Dropping `totalCostOk` from `admissible` re-opens the gap. -/
theorem C19_regression_F19a :
    admissibleSeparate f19aEnv f19aSt f19aTx = true ∧
    f19aSt.bal f19aTx.sender < f19aTx.value + anteFee f19aEnv f19aTx ∧
    admissible f19aEnv f19aSt f19aTx = false ∧
    (deliver f19aEnv f19aSt f19aTx { evmGasUsed := 21000, failed := true }).2 = (.rejected, 0) := by decide

/-- a sender that can pay neither the value nor the fee is rejected (the two separate checks) -/
theorem C19_admission_partial (e : Env) (s : St) (t : Tx) (x : Exec)
    (h : s.bal t.sender < anteFee e t ∨ (0 < t.value ∧ s.bal t.sender < t.value)) :
    deliver e s t x = ({ s with blockGas := s.blockGas + x.rejGas }, .rejected, 0) := by
  apply C19_inadmissible_costs_nothing
  cases hadm : admissible e s t
  · rfl
  · have hc := C19_admitted_checks e s t hadm
    rcases h with h | ⟨hv, h⟩
    · omega
    · have := hc.2.2.2.1 hv; omega

/-! ## non-vacuity -/

def exEnv : Env := { baseFee := 875000000, blockGasLimit := 400000, minGasMult := ⟨500000000000000000⟩, minGasPrice := ⟨0⟩, collector := 0 }
def exSt : St := { bal := fun a => if a = 1 then 5000000000000000000000 else 0, nonce := fun a => if a = 1 then 3 else 0, blockGas := 0 }
def exTx : Tx := { ty := 2, sender := 1, recipient := 2, nonce := 3, gasLimit := 100000, feeCap := 3000000000, tipCap := 1,
                   value := 7, sigOk := true, intrinsic := 21000 }

example : admissible exEnv exSt exTx = true := by decide
example : (deliver exEnv exSt exTx { evmGasUsed := 21000, failed := false }).2 = (.executed false, 50000) := by decide
example : (deliver exEnv exSt exTx { evmGasUsed := 21000, failed := false }).1.bal 2 = 7 := by decide
example : (deliver exEnv exSt exTx { evmGasUsed := 21000, failed := false }).1.bal 0 = 50000 * 875000001 := by decide
example : (deliver exEnv exSt exTx { evmGasUsed := 90000, failed := true }).2 = (.executed true, 90000) := by decide
example : (deliver exEnv exSt exTx { evmGasUsed := 90000, failed := true }).1.bal 2 = 0 := by decide
example : (deliver exEnv exSt { exTx with gasLimit := 20000 } { evmGasUsed := 0, failed := false }).2 = (.applyErr, 20000) := by decide
example : (deliver exEnv { exSt with blockGas := 390000 } exTx { evmGasUsed := 21000, failed := false }).2 = (.blockGas, 100000) := by decide
example : (deliver exEnv exSt { exTx with nonce := 4 } { evmGasUsed := 21000, failed := false }).2 = (.rejected, 0) := by decide
example : (deliverAll exEnv exSt [(exTx, { evmGasUsed := 21000, failed := false }), ({ exTx with nonce := 4 }, { evmGasUsed := 90000, failed := true }), (exTx, { evmGasUsed := 21000, failed := false })]).2
    = [(.executed false, 50000), (.executed true, 90000), (.rejected, 0)] := by decide

end ExoVerif.EvmFee
