import ExoVerif.Generated.Facts
import ExoVerif.Model.OracleHandover
/-!
# C12 — tie of the hand-over arithmetic to the Go sources

`Model/OracleParamsUpdate.lean: validateFeeders / updateTokenFeeder` transcribe the statements below;
`Props/C12Handover.lean` proves over that transcription that the chain's count of a stopped feeder's rounds
(`chainEndRoundID`) is the id of the last round PrepareRoundEndBlock really opens — which rests on the end-block guard
of Validate refusing EVERY residue `< MaxNonce`, the residue 0 (a round's base block) included
(`C12_end_on_base_block_counts_unopened_round`). The statements are regenerated from
x/oracle/types/params.go on every run (tools/exofacts/facts_oracle_handover.go: oracleFeederHandoverShape); the
condition PrepareRoundEndBlock skips a feeder under is part of `oraclePrepareRoundShape` (C12_tie_shapes).
-/
namespace ExoVerif.Oracle
open ExoVerif.Gen

/-- Params.Validate, the feeder loop: reserved id, TokenFeeder.validate, **the end-block guard** (`validateFeeders`:
`f.endBlock > 0 && (f.endBlock - f.startBaseBlock) % f.interval < p.maxNonce`), interval, token, rule, succession,
the map write — in this order, each guard returning an error -/
theorem C12_tie_validate_feeder_loop :
    validateFeederLoop =
      ["if fID == 0 => continue",
       "if err := feeder.validate(); err != nil => return err",
       "if feeder.EndBlock > 0 && (feeder.EndBlock-feeder.StartBaseBlock)%feeder.Interval < uint64(p.MaxNonce) => return ErrInvalidParams.Wrap",
       "if feeder.Interval < 2*uint64(p.MaxNonce) => return ErrInvalidParams.Wrap",
       "if feeder.TokenID >= uint64(len(p.Tokens)) => return ErrInvalidParams.Wrap",
       "if feeder.RuleID >= uint64(len(p.Rules)) => return ErrInvalidParams.Wrap",
       "if prev, exists := feeders[feeder.TokenID]; exists => {4 statements}",
       "feeders[feeder.TokenID] = feeder"] :=
  rfl

/-- … the succession branch: the previous feeder of the token has an end block, it lies before the new start block,
and the new `StartRoundID` is the chain's count (`chainEndRoundID`) + 1 -/
theorem C12_tie_validate_feeder_succession :
    validateFeederSuccession =
      ["if prev.EndBlock == 0 => return ErrInvalidParams.Wrap",
       "if prev.EndBlock >= feeder.StartBaseBlock => return ErrInvalidParams.Wrap",
       "prevEndRoundID := prev.StartRoundID + (prev.EndBlock-prev.StartBaseBlock)/prev.Interval",
       "if feeder.StartRoundID != prevEndRoundID+1 => return ErrInvalidParams.Wrap"] :=
  rfl

/-- TokenFeeder.validate (`validateFeeders`, its second and third guard) -/
theorem C12_tie_feeder_validate :
    feederValidateBody =
      ["if f.TokenID < 1 || f.StartRoundID < 1 || f.Interval < 1 || f.StartBaseBlock < 1 => return ErrInvalidParams.Wrapf",
       "if f.EndBlock > 0 && f.StartBaseBlock >= f.EndBlock => return ErrInvalidParams.Wrapf",
       "return nil"] :=
  rfl

/-- Params.UpdateTokenFeeder: first feeder / not started / running / stopped, and the resume branch with the same
count (`updateTokenFeeder`) -/
theorem C12_tie_update_token_feeder_resume :
    updateTokenFeederGuards =
      ["len(tfIDs) == 0", "tokenFeeder.StartBaseBlock > currentHeight",
       "tokenFeeder.EndBlock == 0 || tokenFeeder.EndBlock > currentHeight",
       "tf.StartBaseBlock <= currentHeight || tf.StartRoundID != latestRoundID+1"] ∧
    updateTokenFeederResume =
      ["latestRoundID := tokenFeeder.StartRoundID + (tokenFeeder.EndBlock-tokenFeeder.StartBaseBlock)/tokenFeeder.Interval",
       "if tf.StartBaseBlock <= currentHeight || tf.StartRoundID != latestRoundID+1 => return p, ErrInvalidParams.Wrapf",
       "p.TokenFeeders = append(p.TokenFeeders, tf)", "return p, nil"] :=
  ⟨rfl, rfl⟩

end ExoVerif.Oracle
