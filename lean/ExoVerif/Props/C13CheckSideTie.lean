import ExoVerif.Props.C13CheckSide
import ExoVerif.Generated.Facts
/-! C13 tie (check-side copy): `copyRounds` of Model/OracleCheckSide.lean transcribes how
`AggregatorContext.Copy4CheckTx` (x/oracle/keeper/aggregator/context.go) builds the rounds of the
context that simulated message handlers work on. The shapes are regenerated from the Go source by
tools/exofacts/facts_oracle_checkside.go; an edit of the copy changes a literal here. -/
namespace ExoVerif.OracleCheckSide

/-- The rounds are per-feeder POINTERS (so a copy of the map alone shares the cells — `copyShallow`,
`C13_shared_cells_leak`); `Copy4CheckTx` gives the copy a map of its own and fills it with one freshly
allocated cell per entry holding a copy of the value (`vTmp := *v; ret.rounds[k] = &vTmp` — the
`Heap.alloc` of `copyRounds`); the workers' map is fresh as well; params, validator powers and total
power are the deliver side's own objects (not written during a block). -/
theorem C13_tie_check_copy_shape :
    ExoVerif.Gen.oracleCheckCopyFieldTypes =
      [("validatorsPower", "map[string]*big.Int"), ("rounds", "map[uint64]*roundInfo"), ("aggregators", "map[uint64]*worker")] ∧
    ExoVerif.Gen.oracleCheckCopyFields =
      [("params", "agc.params"), ("validatorsPower", "agc.validatorsPower"), ("totalPower", "agc.totalPower"),
       ("rounds", "make(map[uint64]*roundInfo)"), ("aggregators", "make(map[uint64]*worker)")] ∧
    ExoVerif.Gen.oracleCheckCopyRoundsFill =
      ["for k, v := range agc.rounds", "  vTmp := *v", "  ret.rounds[k] = &vTmp"] := by decide

/-- The write that must not reach the other side: `FillPrice` closes the round THROUGH the pointer held
in `rounds` (`Ctx.closeRound`), and it is the only assignment of that form in context.go (SealRound /
PrepareRoundEndBlock work on the deliver-side context at EndBlock, after which the copy is dropped). -/
theorem C13_tie_round_status_written_through_pointer :
    ExoVerif.Gen.oracleCheckCopyRoundStatusWrites =
      ["FillPrice: agc.rounds[msg.FeederID].status = roundStatusClosed"] := by decide

end ExoVerif.OracleCheckSide
