import ExoVerif.Props.C15
import ExoVerif.Proofs.EpochsGenesis
/-!
# C15 from the genesis list on: whatever an entry carries, its first epoch is number 1

`Props/C15.lean` starts from a stored entry. These theorems start from the genesis LIST
(`initGenesis` = x/epochs/keeper/genesis.go: InitGenesis over epoch_infos.go: AddEpochInfo) and cover
every entry `EpochInfo.Validate` accepts: number, flag, current start time and start height are
independent fields there, so an identifier may be registered with a number from elsewhere while
counting has not started. The clauses "the epoch number becomes 1 in the first block at or after
the start time", "the n-th epoch's start time is start + (n-1) x duration" and "notifications exactly
once per identifier and number, in increasing order" are stated for those entries: the number, the
current start time and the height the entry arrived with have no influence at all
(`C15_first_tick_ignores_stale_count`), no end notification precedes `start 1`
(`C15_unstarted_stream`), and this holds for every identifier InitGenesis stores
(`C15_genesis_first_epoch_is_one`, `C15_genesis_start_time_formula`).
-/
namespace ExoVerif.Epochs

/-! ## registration (AddEpochInfo) and InitGenesis -/

/-- AddEpochInfo keeps the number, the flag, the current start time, the duration and the identifier
of the entry; a configured start time is kept, an unset one becomes the registration's block time;
a configured start height is kept, an unset one becomes the registration's block height. -/
theorem C15_register_fill (e : EpochInfo) (bt h : Int) :
    (fill e bt h).identifier = e.identifier ∧ (fill e bt h).duration = e.duration ∧
    (fill e bt h).currentEpoch = e.currentEpoch ∧
    (fill e bt h).currentEpochStartTime = e.currentEpochStartTime ∧
    (fill e bt h).epochCountingStarted = e.epochCountingStarted ∧
    (fill e bt h).startTime = (if e.startTime = zeroTime then bt else e.startTime) ∧
    (fill e bt h).currentEpochStartHeight =
      (if e.currentEpochStartHeight = 0 then h else e.currentEpochStartHeight) := fill_fields e bt h

/-- What AddEpochInfo does to the store: an entry is stored iff Validate accepts it and no entry
with its identifier is stored; then the store gains exactly `fill e`, otherwise it is unchanged. -/
theorem C15_register_cases (es : List EpochInfo) (e : EpochInfo) (bt h : Int) :
    ((register es e bt h).2 = .stored ∧ valid e = true ∧ hasId es e.identifier = false ∧
       ∀ x, x ∈ (register es e bt h).1 ↔ x = fill e bt h ∨ x ∈ es) ∨
    ((register es e bt h).2 ≠ .stored ∧ (valid e = false ∨ hasId es e.identifier = true) ∧
       (register es e bt h).1 = es) := register_cases es e bt h

/-- InitGenesis stores only valid entries, one per identifier: each is an entry of the genesis list
that Validate accepts, with its number, flag, current start time and duration as configured. -/
theorem C15_initGenesis_stored (entries : List EpochInfo) (gt gh : Int) (hgh : 0 ≤ gh) :
    (ids (initGenesis entries gt gh)).Nodup ∧
    ∀ x ∈ initGenesis entries gt gh, valid x = true ∧
      ∃ c ∈ entries, x = fill c gt gh ∧ x.identifier = c.identifier ∧ x.duration = c.duration ∧
        x.currentEpoch = c.currentEpoch ∧ x.epochCountingStarted = c.epochCountingStarted ∧
        x.currentEpochStartTime = c.currentEpochStartTime := by
  refine ⟨initGenesisFrom_nodup entries [] gt gh (by simp [ids]), fun x hx => ?_⟩
  rcases initGenesisFrom_mem entries [] gt gh x hx with hnil | ⟨c, hc, hv, rfl⟩
  · cases hnil
  · obtain ⟨f1, f2, f3, f4, f5, _, _⟩ := C15_register_fill c gt gh
    exact ⟨valid_fill c gt gh hv hgh, c, hc, rfl, f1, f2, f3, f5, f4⟩

/-! ## the first tick of an identifier that has not started counting -/

/-- The number, the current start time and the start height an entry was registered with have NO
influence on its first epoch: as long as counting has not started, a block at or after the start
time does exactly what it does to the same identifier registered with number 0 (number := 1,
epoch start := start time, one `start 1` notification, no end notification); a block before the
start time changes nothing and notifies nothing. -/
theorem C15_first_tick_ignores_stale_count (e : EpochInfo) (k t h0 : Int) (bt h : Int)
    (hv : valid e = true) (hns : e.epochCountingStarted = false) (hk : 0 ≤ k) (hh0 : 0 ≤ h0) :
    let stale := { e with currentEpoch := k, currentEpochStartTime := t, currentEpochStartHeight := h0 }
    (e.startTime ≤ bt → tick stale bt h = tick e bt h ∧ (tick stale bt h).1.currentEpoch = 1 ∧
        (tick stale bt h).1.currentEpochStartTime = e.startTime ∧
        (tick stale bt h).2 = [Ev.epochStart e.identifier 1]) ∧
    (bt < e.startTime → tick stale bt h = (stale, [])) := by
  intro stale
  obtain ⟨v1, v2, v3, v4⟩ := (valid_iff e).1 hv
  have hvs : valid stale = true := (valid_iff _).2 ⟨v1, v2, hk, hh0⟩
  refine ⟨fun hb => ?_, fun hb => tick_before stale bt h hb⟩
  have h1 := tick_first stale bt h hvs hns hb
  have h2 := tick_first e bt h hv hns hb
  rw [h1, h2]
  simp [stale, startFirst]

/-- The notification stream of an identifier that has not started counting, over ANY sequence of
blocks (any times, any heights), whatever number it was registered with: either every block was
before the start time and nothing happened at all, or the stream is `start 1, end 1, start 2, …`
without gap or repeat — in particular no end notification precedes `start 1` and no number of the
registration entry is ever notified — and the number afterwards counts the starts. -/
theorem C15_unstarted_stream (e : EpochInfo) (ts : List (Int × Int)) (hv : valid e = true)
    (hns : e.epochCountingStarted = false) :
    ((∀ p ∈ ts, p.1 < e.startTime) ∧ runTicks e ts = (e, [])) ∨
    (∃ k : Nat, (runTicks e ts).1.currentEpoch = 1 + k ∧
        (runTicks e ts).1.epochCountingStarted = true ∧
        (runTicks e ts).2 = Ev.epochStart e.identifier 1 :: expectedFrom e.identifier 1 k) := by
  induction ts with
  | nil => exact Or.inl ⟨by simp, by simp [runTicks]⟩
  | cons p rest ih =>
    obtain ⟨bt, h⟩ := p
    by_cases hb : bt < e.startTime
    · simp only [runTicks, tick_before e bt h hb, List.nil_append]
      rcases ih with ⟨hall, hrun⟩ | hex
      · refine Or.inl ⟨?_, hrun⟩
        intro q hq
        rcases List.mem_cons.1 hq with rfl | hq'
        · exact hb
        · exact hall q hq'
      · exact Or.inr hex
    · have hb' : e.startTime ≤ bt := by omega
      refine Or.inr ?_
      simp only [runTicks, tick_first e bt h hv hns hb']
      obtain ⟨k, hk1, hk2⟩ := C15_hooks_exactly_once_in_order (startFirst e h) rest rfl
      have hst : (runTicks (startFirst e h) rest).1.epochCountingStarted = true :=
        runTicks_started (startFirst e h) rest rfl
      refine ⟨k, by simpa [startFirst] using hk1, hst, ?_⟩
      have : (runTicks (startFirst e h) rest).2 = expectedFrom e.identifier 1 k := by
        simpa [startFirst] using hk2
      simp [this]

/-! ## from the genesis list -/

/-- For EVERY identifier InitGenesis stores that has not started counting — whatever number,
current start time and height its genesis entry carries — and every block sequence whose blocks
`pre` are before its start time and whose next block is at or after it: after that block the number
is 1, the epoch began at the (registered) start time, the block notified exactly `start 1`, and
over the whole sequence the stream is `start 1, end 1, start 2, …` with the number counting the
starts. -/
theorem C15_genesis_first_epoch_is_one (entries : List EpochInfo) (gt gh : Int) (hgh : 0 ≤ gh)
    (x : EpochInfo) (hx : x ∈ initGenesis entries gt gh) (hns : x.epochCountingStarted = false)
    (pre : List (Int × Int)) (bt h : Int) (post : List (Int × Int))
    (hpre : ∀ p ∈ pre, p.1 < x.startTime) (hb : x.startTime ≤ bt) :
    (runTicks x (pre ++ [(bt, h)])).1.currentEpoch = 1 ∧
    (runTicks x (pre ++ [(bt, h)])).1.currentEpochStartTime = x.startTime ∧
    (runTicks x (pre ++ [(bt, h)])).2 = [Ev.epochStart x.identifier 1] ∧
    ∃ k : Nat, (runTicks x (pre ++ (bt, h) :: post)).1.currentEpoch = 1 + k ∧
      (runTicks x (pre ++ (bt, h) :: post)).2 =
        Ev.epochStart x.identifier 1 :: expectedFrom x.identifier 1 k := by
  have hv : valid x = true := ((C15_initGenesis_stored entries gt gh hgh).2 x hx).1
  refine ⟨?_, ?_, ?_, C15_hooks_from_genesis x pre bt h post hv hns hpre hb⟩
  all_goals
    induction pre with
    | nil =>
      simp only [List.nil_append, runTicks, tick_first x bt h hv hns hb]
      simp [startFirst]
    | cons p rest ih =>
      obtain ⟨bt0, h0⟩ := p
      have hlt : bt0 < x.startTime := hpre (bt0, h0) (by simp)
      simp only [List.cons_append, runTicks, tick_before x bt0 h0 hlt, List.nil_append]
      exact ih (fun q hq => hpre q (by simp [hq]))

/-- The n-th epoch's start time is start + (n-1) × duration for every identifier InitGenesis
stores without counting started, after any sequence of blocks: the current start time its genesis
entry carried is never used. -/
theorem C15_genesis_start_time_formula (entries : List EpochInfo) (gt gh : Int) (hgh : 0 ≤ gh)
    (x : EpochInfo) (hx : x ∈ initGenesis entries gt gh) (hns : x.epochCountingStarted = false)
    (ts : List (Int × Int)) (hh : ∀ p ∈ ts, 0 ≤ p.2)
    (hs : (runTicks x ts).1.epochCountingStarted = true) :
    1 ≤ (runTicks x ts).1.currentEpoch ∧
    (runTicks x ts).1.currentEpochStartTime =
      (runTicks x ts).1.startTime + ((runTicks x ts).1.currentEpoch - 1) * (runTicks x ts).1.duration := by
  have hv : valid x = true := ((C15_initGenesis_stored entries gt gh hgh).2 x hx).1
  have hw : Wf x := ⟨hv, fun h => by rw [hns] at h; cases h⟩
  exact (C15_start_time_formula x ts hw hh).2 hs

/-- One block over the store InitGenesis produced: every identifier ticks on its own. -/
theorem C15_genesis_block_independent (entries : List EpochInfo) (gt gh bt h : Int) :
    beginBlocker (initGenesis entries gt gh) bt h =
      ((initGenesis entries gt gh).map (fun e => (tick e bt h).1),
       (initGenesis entries gt gh).flatMap (fun e => (tick e bt h).2)) :=
  C15_identifiers_independent _ bt h

/-! ## non-vacuity: a genesis list with an entry copied from elsewhere (number 5, counting not
started, start 10 after genesis), a running identifier, a duplicate and a rejected entry -/

private def fortnight : EpochInfo :=
  { identifier := "fortnight", startTime := 110, duration := 7, currentEpoch := 5,
    currentEpochStartTime := 33, epochCountingStarted := false, currentEpochStartHeight := 4 }
private def day0 : EpochInfo :=
  { identifier := "day", startTime := zeroTime, duration := 10, currentEpoch := 0,
    currentEpochStartTime := zeroTime, epochCountingStarted := false, currentEpochStartHeight := 0 }
private def running : EpochInfo :=
  { identifier := "hour", startTime := 20, duration := 10, currentEpoch := 9,
    currentEpochStartTime := 90, epochCountingStarted := true, currentEpochStartHeight := 2 }
private def genesisList : List EpochInfo :=
  [day0, running, fortnight, { fortnight with currentEpoch := 77 }, { day0 with identifier := "bad", duration := 0 }]

-- the hypotheses of C15_first_tick_ignores_stale_count / C15_unstarted_stream / C15_genesis_* are met by
-- an entry whose number is 5: valid, counting not started, stored by InitGenesis
example : valid fortnight = true ∧ fortnight.epochCountingStarted = false ∧ 0 < fortnight.currentEpoch := by decide
example : ids (initGenesis genesisList 100 0) = ["day", "fortnight", "hour"] := by decide
example : fortnight ∈ initGenesis genesisList 100 0 := by decide
example : (initGenesis genesisList 100 0).map (·.startTime) = [100, 110, 20] := by decide
-- before the start nothing; the block exactly on the start time starts epoch 1 (not 6); the block
-- exactly on 110 + 7 does not tick, 118 does; a gap is caught up one epoch per block
example : (runTicks fortnight [(101, 1), (109, 2), (110, 3), (110, 4), (117, 5), (118, 6), (200, 7), (200, 8)]).2 =
    [Ev.epochStart "fortnight" 1, Ev.epochEnd "fortnight" 1, Ev.epochStart "fortnight" 2,
     Ev.epochEnd "fortnight" 2, Ev.epochStart "fortnight" 3, Ev.epochEnd "fortnight" 3,
     Ev.epochStart "fortnight" 4] := by decide
example : (runTicks fortnight [(101, 1), (109, 2), (110, 3)]).1.currentEpoch = 1 ∧
    (runTicks fortnight [(101, 1), (109, 2), (110, 3)]).1.currentEpochStartTime = 110 := by decide
-- the whole store over block 1 (time 101): "day" (unset start = genesis time 100) starts epoch 1,
-- "hour" ends 9 / starts 10, "fortnight" waits
example : (beginBlocker (initGenesis genesisList 100 0) 101 1).2 =
    [Ev.epochStart "day" 1, Ev.epochEnd "hour" 9, Ev.epochStart "hour" 10] := by decide

end ExoVerif.Epochs
