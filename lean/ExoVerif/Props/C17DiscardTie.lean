import ExoVerif.Generated.Facts
/-!
Tie A for Props/C17Discard.lean (parameter updates on a dropped branch configure nothing): the model's handlers
have the parameters in force as their only state, read and written through the context they run on. The code
matches as long as x/exomint and x/feedistribution GetParams / SetParams are the plain store read / write
(C17_tie_shapeMintGetParams … in C17TieParams.lean) AND their keepers carry no process memory: no field beyond the
codec, the store key, the other keepers, names and the logger, and no package-level variable. A decoded-params
cache (pointer / map field, package variable) is written through EVERY context, dropped or not, and is not part of
the model — these theorems break when one appears.
-/
namespace ExoVerif.Gen

/-- x/exomint Keeper: codec, store key, two keepers (interfaces), two strings -/
theorem C17_tie_mintKeeperFields : mintKeeperFields =
  ["cdc codec.BinaryCodec", "storeKey storetypes.StoreKey", "bankKeeper types.BankKeeper",
   "epochsKeeper types.EpochsKeeper", "feeCollectorName string", "authority string"] := rfl

/-- x/feedistribution Keeper: codec, store key, logger, keepers, two strings -/
theorem C17_tie_distrKeeperFields : distrKeeperFields =
  ["cdc codec.BinaryCodec", "storeKey storetypes.StoreKey", "logger log.Logger", "authority string",
   "authKeeper types.AccountKeeper", "bankKeeper types.BankKeeper", "epochsKeeper types.EpochsKeeper",
   "feeCollectorName string", "StakingKeeper stakingkeeper.Keeper"] := rfl

/-- neither keeper package declares a package-level variable -/
theorem C17_tie_keeperPkgVars : keeperPkgVars = [] := rfl

end ExoVerif.Gen
