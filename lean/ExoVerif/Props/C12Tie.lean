import ExoVerif.Model.Oracle
import ExoVerif.Generated.Kernels
import ExoVerif.Generated.Facts
/-! C12 tie: the model's kernels equal the definitions regenerated from the Go sources. -/
namespace ExoVerif.Oracle

/-- common/types.go: ExceedsThreshold, regenerated, equals the model's strict comparison for all
powers and all threshold parameters. -/
theorem C12_tie_exceedsThreshold (power total a b : Int) :
    ExoVerif.Gen.oracleExceedsThreshold power total a b = exceedsThreshold power total a b := by
  unfold ExoVerif.Gen.oracleExceedsThreshold exceedsThreshold
  by_cases h1 : power * b < total * a
  · have : ¬ total * a < power * b := by omega
    simp [h1, this]
  · by_cases h2 : power * b = total * a
    · have : ¬ total * a < power * b := by omega
      simp [h1, h2]
    · have : total * a < power * b := by omega
      simp [h1, h2, this]

/-- The source fragments of the round arithmetic, the seal conditions, the append guard and the
median that `roundArith`, `sealOne`, `TokenStore.append` and `median` transcribe are still there. -/
theorem C12_tie_shapes :
    ExoVerif.Gen.oraclePrepareRoundShape.length = 9 ∧ ExoVerif.Gen.oracleSealRoundShape.length = 4 ∧
    ExoVerif.Gen.oracleAppendShape.length = 2 ∧ ExoVerif.Gen.oracleMedianShape.length = 4 := by decide

/-- context.go: SetValidatorPowers re-creates `validatorsPower` before copying the new set and rebuilds
`totalPower` from it — the `setValidators` of the model (`C12_departed_validator_has_no_weight`). -/
theorem C12_tie_set_validators_shape : ExoVerif.Gen.oracleSetValidatorsShape.length = 3 := by decide

end ExoVerif.Oracle
