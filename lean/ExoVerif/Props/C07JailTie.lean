import ExoVerif.Generated.Facts
import ExoVerif.Props.C07Jail
/-!
# C06 / C07 tie: the per-chain jail status of the Go code as the model has it
Regenerated facts (tools/exofacts/facts_jail.go): the guard chain of
x/operator/keeper/slash.go: IsOperatorJailedForChainID as a Bool function, and the places where
the status is read (ValidatorByConsAddrForChainID, dogfood's IsValidatorJailed) and written
(Jail / Unjail → SetJailedState). A dropped or negated guard, a status read from somewhere else
or a Jail that clears the flag breaks these proofs.
-/
namespace ExoVerif.ConsKeys
open ExoVerif.Gen

/-- `jailedView` is IsOperatorJailedForChainID on the model's stores, for the chain's own AVS:
found = the reverse lookup has the address, infoErr = that operator has no opt-in record,
flag = its Jailed. -/
theorem C07_tie_jailed_view (s : St) (key : Nat) :
    jailedView s key =
      jailedForChainID (s.rev key).isSome true
        (match s.rev key with | some op => !s.hasInfo op | none => true)
        (match s.rev key with | some op => s.jailed op | none => false) := by
  unfold jailedView jailedForChainID
  cases s.rev key with
  | none => rfl
  | some op => cases s.hasInfo op <;> cases s.jailed op <;> simp

/-- the guard chain itself: not found ⇒ false, not an AVS ⇒ false, no record ⇒ false, else the flag -/
theorem C07_tie_jailed_guards (found isAvs infoErr flag : Bool) :
    jailedForChainID found isAvs infoErr flag = (found && isAvs && !infoErr && flag) := by
  cases found <;> cases isAvs <;> cases infoErr <;> cases flag <;> rfl

/-- both views the SDK uses read IsOperatorJailedForChainID for the block's chain id; Jail sets
and Unjail clears the Jailed flag of the opt-in record through SetJailedState -/
theorem C07_tie_jail_view_calls :
    jailViewCalls =
      ["val.Jailed=k.IsOperatorJailedForChainID(ctx, consAddr, chainIDWithoutRevision)",
       "IsValidatorJailed: return k.operatorKeeper.IsOperatorJailedForChainID(ctx, addr, avstypes.ChainIDWithoutRevision(ctx.ChainID()))",
       "Jail: k.operatorKeeper.Jail(ctx, addr, avstypes.ChainIDWithoutRevision(ctx.ChainID()))",
       "Unjail: k.operatorKeeper.Unjail(ctx, addr, avstypes.ChainIDWithoutRevision(ctx.ChainID()))",
       "operator.Jail: k.SetJailedState(ctx, consAddr, chainID, true)",
       "operator.Unjail: k.SetJailedState(ctx, consAddr, chainID, false)",
       "SetJailedState: info.Jailed = jailed"] := by rfl

end ExoVerif.ConsKeys
