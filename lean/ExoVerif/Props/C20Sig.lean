import ExoVerif.Props.C20
import ExoVerif.Proofs.AvsSig
/-!
# C20 — "a BLS signature that verifies": over WHAT

`C20_phase2_window_sig_id_bls` (Props/C20.lean) says an accepted phase-two submission had `blsOk = true`, where
`blsOk` is an input of the model. This file says what that input is and what follows for the store, for every
choice of the three library functions (`Crypto`: keccak256, BLS verification, the JSON parse of the task id):

* one step (`C20_phase2_verifies_submitted_bytes`): when the derived inputs of a submission are computed from the
  SUBMITTED response bytes, the SUBMITTED signature and the operator's REGISTERED key (`Submit.derived`, which is
  what harness/dom_avs.go computes for every op line), an accepted phase two means: the submitted bytes parse to
  the task id, the signature verifies over keccak(submitted bytes) with the registered key, and the record written
  is (stage 2, that signature, those bytes, that hash) — nothing re-encoded, nothing recomputed from parsed fields;
* every history (`C20_hist_phase2_records_verify`): every stored phase-two record is self-consistent — its hash is
  keccak of its stored bytes, the bytes carry its task id, its signature verifies over that hash with the key that
  is registered for its operator; every phase-one record carries no response. Registered keys never change
  (`C20_hist_registered_key_fixed`), so "the registered key" is the same at acceptance and ever after;
* the statistics (`C20_hist_counted_signers_verified`): every operator the epoch hook counts as a signer has a stored
  record of that task, and when that record is a phase-two record it is one of these self-consistent records;
* the shape this excludes (`C20_regress_verify_over_reencoded_response`): verifying over the digest of the
  re-marshalled response instead accepts a byte string the signature does not verify over and stores a record
  whose signature does not verify over its own hash, and refuses the operator that signed what it submitted.

The harness evaluates the same three statements on the real keeper: monitors `C20.submit` (phase2-bls),
`C20.submit-refused` (phase2-refused-eligible) and `C20.results` (result-hash / result-taskid / result-signature),
over responses in ten byte-level encodings of the same content (harness/dom_avs_encodings.go).
-/
namespace ExoVerif.Avs
open ExoVerif

/-- Phase two, one step from ANY state, for ANY keccak / BLS / JSON functions: if the submission's derived inputs
are those functions of the submitted bytes, the submitted signature and the registered key, acceptance means the
signature verifies over the hash of exactly the submitted bytes, those bytes carry the task id, and exactly those
bytes, that hash and that signature are what is recorded. -/
theorem C20_phase2_verifies_submitted_bytes (c : Crypto) (s s' : State) (i : Submit) (hs : i.stage = "2")
    (hd : i.derived c s = true) (h : step s (.submit i) = (s', "ok")) :
    ∃ resp sig pk, i.response = some resp ∧ norm i.sig = some sig ∧ KV.find? s.pubkeys i.op = some pk ∧
      c.parseId resp = some i.id ∧ c.verify sig (c.keccak resp) pk = true ∧
      KV.find? s'.results (i.op, i.taskAddr, i.id) =
        some { op := i.op, taskAddr := i.taskAddr, id := i.id, stage := "2", sig := some sig,
               response := some resp, respHash := c.keccak resp } := by
  obtain ⟨_, _, _, _, _, _, _, _, _, hsome, hid, hb, hs'⟩ := C20_phase2_window_sig_id_bls s s' i hs h
  obtain ⟨resp, sig, pk, g1, g2, g3, g4, g5, g6, g7⟩ := afterTwo_record c s i hd hsome hid hb
  refine ⟨resp, sig, pk, g1, g3, g4, g6, g7, ?_⟩
  rw [hs']
  simp only [afterTwo]
  rw [KV.find?_set_same, g2, g3, g5]

/-- Every history whose submissions carry derived inputs computed in the state they execute in: every stored
phase-two record has hash = keccak(stored bytes), stored bytes that carry the record's task id, and a stored
signature that verifies over that hash with the key registered for the record's operator; every other stored
record is a phase-one record without response. -/
theorem C20_hist_phase2_records_verify (c : Crypto) (ops : List Op) (hd : DerivedRun c init ops) :
    let s := run init ops
    ∀ p ∈ s.results,
      (p.2.stage = "1" ∧ p.2.response = none ∧ p.2.respHash = "") ∨
      (p.2.stage = "2" ∧ ∃ resp sig pk, p.2.response = some resp ∧ p.2.sig = some sig ∧
        KV.find? s.pubkeys p.2.op = some pk ∧ p.2.respHash = c.keccak resp ∧ c.parseId resp = some p.2.id ∧
        c.verify sig (c.keccak resp) pk = true) :=
  recInv_run c ops init resInv_init (recInv_init c) hd

/-- A registered BLS key is never replaced: whatever follows, the operator's key stays the one registered. -/
theorem C20_hist_registered_key_fixed (pre post : List Op) (o k : String)
    (h : KV.find? (run init pre).pubkeys o = some k) : KV.find? (run init (pre ++ post)).pubkeys o = some k := by
  have key : ∀ (ops : List Op) (s : State), KV.find? s.pubkeys o = some k → KV.find? (run s ops).pubkeys o = some k := by
    intro ops
    induction ops with
    | nil => intro s hs; exact hs
    | cons op rest ih =>
      intro s hs
      simp only [run]
      apply ih
      unfold step
      split
      · exact hs
      · cases op with
        | setEpochs e => exact hs
        | setEnv a b => exact hs
        | update p => rw [(updateAVS_frame s p).2.2.2.2.2.2.2.2.1]; exact hs
        | opt d a op avs u => rw [(optAction_frame s d a op avs u).2.2.2.2.2.2.2.2.2.1]; exact hs
        | task p => rw [(createTask_frame s p).2.2.2.2.2.2.1]; exact hs
        | bls op pk ok => exact regBLS_keeps s op pk ok o k hs
        | submit i => rw [(submit_frame s i).2.2.2.2.2.2.2.1]; exact hs
        | challenge ch => rw [(challenge_frame s ch).2.2.2.2.2.2.2.1]; exact hs
        | epochEnd id n pw => rw [(epochEnd_frame s id n pw).2.2.2.2.2.2.2.1]; exact hs
  rw [run_append_sig]
  exact key post _ h
where
  run_append_sig : run init (pre ++ post) = run (run init pre) post := by
    have : ∀ (a : List Op) (s : State), run s (a ++ post) = run (run s a) post := by
      intro a
      induction a with
      | nil => intro s; rfl
      | cons x rest ih => intro s; simp only [List.cons_append, run, ih]
    exact this pre init

/-- What the epoch hook counts: every operator in the signer list written for a task has a stored result for that
task, and that result is a phase-one record without response or a self-consistent phase-two record (its stored
signature verifies over keccak of its stored bytes with the operator's registered key). -/
theorem C20_hist_counted_signers_verified (c : Crypto) (ops : List Op) (hd : DerivedRun c init ops)
    (pw : Powers) (t t' : Task) (h : statTask (run init ops) pw t = some t') :
    ∀ o ∈ t'.signed, ∃ p ∈ (run init ops).results, p.2.op = o ∧ p.2.taskAddr = t.taskAddr ∧ p.2.id = t.id ∧
      RecordOk c (run init ops) p.2 := by
  intro o ho
  obtain ⟨p, hp, h1, h2, _, h4⟩ := ((C20_stats_reflect_accepted _ pw t t' h).1 o).1 ho
  exact ⟨p, hp, h4, h1, h2, recInv_run c ops init resInv_init (recInv_init c) hd p hp⟩

/-! ## the excluded shape, and non-vacuity -/

/-- toy functions: the hash of a byte string is the string, a signature "verifies" when it equals the digest
(under key "pk"), and the two byte strings "a" and "a " are two encodings of one response for task 1
(the canonical one is "a") -/
def toyCrypto : Crypto where
  keccak := fun r => r
  verify := fun sig d pk => sig == d && pk == "pk"
  parseId := fun r => if r == "a" || r == "a " then some 1 else none
  parse_empty := by decide

/-- the re-marshalled form of a response under `toyCrypto` -/
def toyCanon (r : String) : String := if r == "a " then "a" else r

/-- phase two with the signature verified over the digest of the RE-MARSHALLED response (the hash that is
recorded stays the hash of the submitted bytes): `submitTwo` with that verification result in place of `blsOk` -/
def submitTwoReenc (c : Crypto) (canon : String → String) (s : State) (i : Submit) (task : Task) (cur : Int) :
    State × String :=
  let ok := match i.response, norm i.sig, KV.find? s.pubkeys i.op with
    | some resp, some sig, some pk => c.verify sig (c.keccak (canon resp)) pk
    | _, _, _ => false
  submitTwo s { i with blsOk := ok } task cur

private def sigOps (signed : String) : List Op :=
  [ .setEpochs [("minute", 1)], .setEnv ["o"] ["asset"],
    .update { action := 1, avsAddr := "A", name := "n", taskAddr := "T", owners := some ["own"], assets := some ["asset"],
              unbonding := 7, minSelf := 0, epochId := "minute", caller := "own" },
    .opt false 1 "o" "A" (some 0),
    .bls "o" "pk" true,
    .task { taskAddr := "T", caller := "own", name := "t", hash := "aa", resp := 1, stat := 1, chal := 1, givenId := 0, powerOk := true },
    .submit { fromAddr := "o", op := "o", taskAddr := "T", id := 1, stage := "1", sig := some signed, response := none,
              respHash := "", respTaskId := none, blsOk := false, digest := "" },
    .setEpochs [("minute", 4)] ]

/-- the phase-two submission of `revealed` under a phase-one signature `signed`, derived inputs as the harness
computes them under `toyCrypto` -/
private def reveal (signed revealed : String) : Submit :=
  { fromAddr := "o", op := "o", taskAddr := "T", id := 1, stage := "2", sig := some signed, response := some revealed,
    respHash := "", respTaskId := toyCrypto.parseId revealed, blsOk := toyCrypto.verify signed revealed "pk",
    digest := revealed }

private def sigTask : Task :=
  { taskAddr := "T", id := 1, name := "t", hash := "aa", resp := 1, stat := 1, chal := 1, startingEpoch := 2,
    optIn := ["o"], signed := [], noSigned := [], powers := [], totalPower := 0, actualThreshold := 0 }

/-- Regression counter-example for the shape "verify over the re-marshalled response": the operator signed the
canonical bytes "a" and reveals the other encoding "a " — the model (the code as it is) refuses with
ErrSigVerifyError, the re-encoding variant accepts and stores a record whose signature does NOT verify over the
recorded hash; the operator that signed "a " and reveals "a " is accepted by the model and refused by the variant. -/
theorem C20_regress_verify_over_reencoded_response :
    (reveal "a" "a ").derived toyCrypto (run init (sigOps "a")) = true ∧
    (submitTwo (run init (sigOps "a")) (reveal "a" "a ") sigTask 4).2 = "ErrSigVerifyError" ∧
    (submitTwoReenc toyCrypto toyCanon (run init (sigOps "a")) (reveal "a" "a ") sigTask 4).2 = "ok" ∧
    (KV.find? (submitTwoReenc toyCrypto toyCanon (run init (sigOps "a")) (reveal "a" "a ") sigTask 4).1.results ("o", "T", 1)).map
        (fun r => (r.respHash, r.sig, toyCrypto.verify "a" r.respHash "pk")) = some ("a ", some "a", false) ∧
    (reveal "a " "a ").derived toyCrypto (run init (sigOps "a ")) = true ∧
    (submitTwo (run init (sigOps "a ")) (reveal "a " "a ") sigTask 4).2 = "ok" ∧
    (submitTwoReenc toyCrypto toyCanon (run init (sigOps "a ")) (reveal "a " "a ") sigTask 4).2 = "ErrSigVerifyError" := by
  decide

instance decDerivedRun (c : Crypto) : (s : State) → (ops : List Op) → Decidable (DerivedRun c s ops)
  | _, [] => isTrue trivial
  | s, o :: rest =>
    match decDerivedRun c (step s o).1 rest with
    | isTrue h => if h0 : o.derived c s = true then isTrue ⟨h0, h⟩ else isFalse (fun hh => h0 hh.1)
    | isFalse h => isFalse (fun hh => h hh.2)

-- the hypotheses of the theorems are met by a history that ends with an accepted phase two of the non-canonical
-- bytes "a " (signed as submitted), and the statistics of that task count the operator:
example : DerivedRun toyCrypto init (sigOps "a " ++ [.submit (reveal "a " "a ")]) := by decide
example : (step (run init (sigOps "a ")) (.submit (reveal "a " "a "))).2 = "ok" ∧ (reveal "a " "a ").stage = "2" := by decide
example : (run init (sigOps "a " ++ [.submit (reveal "a " "a ")])).results =
    [(("o", "T", 1), { op := "o", taskAddr := "T", id := 1, stage := "2", sig := some "a ", response := some "a ", respHash := "a " })] := by
  decide
example : ((statTask (run init (sigOps "a " ++ [.submit (reveal "a " "a ")])) ⟨[], []⟩ sigTask).map (·.signed)) = some ["o"] := by
  decide
-- a history whose derived inputs are NOT those of the submitted bytes is rejected by the hypothesis:
example : ¬ DerivedRun toyCrypto init (sigOps "a" ++ [.submit { reveal "a" "a " with blsOk := true }]) := by decide
example : KV.find? (run init (sigOps "a")).pubkeys "o" = some "pk" := by decide

end ExoVerif.Avs
