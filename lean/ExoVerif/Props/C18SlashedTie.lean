import ExoVerif.Generated.Facts
import ExoVerif.Model.GenesisDelegation
/-!
# C18 — tie of the x/delegation genesis validation (regenerated from x/delegation/types/genesis.go on every run)

`validateUnd` carries, of `ValidateUndelegations`, exactly `!undelegation.IsPending`,
`undelegation.CompleteBlockNumber < undelegation.BlockNumber` and `undelegation.ActualCompletedAmount.GT(undelegation.Amount)`
behind the id / TxHash well-formedness checks. A further condition under which the function rejects (e.g. a non-positive
ActualCompletedAmount, which a slash produces: `C18_full_slash_zeroes`) or a changed comparison breaks this theorem, whatever
the generated histories reach.
-/
namespace ExoVerif.Genesis
open ExoVerif.Gen

theorem C18_tie_delegation_validate_guards : delegationValidateGuards = [
  ("ValidateAssociations", ["_, err := sdk.AccAddressFromBech32(association.Operator); err != nil", "_, _, err := assetstypes.ValidateID(association.StakerID, true, true); err != nil", "_, ok := associatedStakerIDs[association.StakerID]; ok"]),
  ("ValidateDelegationStates", ["err != nil", "err != nil", "info.States.UndelegatableShare.IsNil() || info.States.WaitUndelegationAmount.IsNil()", "info.States.UndelegatableShare.IsNegative() || info.States.WaitUndelegationAmount.IsNegative()", "err != nil"]),
  ("ValidateStakerList", ["err != nil", "_, err := sdk.AccAddressFromBech32(stringList[0]); err != nil", "err != nil", "err != nil", "stakerClientChainID != assetClientChainID", "err != nil", "err != nil"]),
  ("ValidateUndelegations", ["err != nil", "err != nil", "len(bytes) != common.HashLength", "!undelegation.IsPending", "undelegation.CompleteBlockNumber < undelegation.BlockNumber", "undelegation.ActualCompletedAmount.GT(undelegation.Amount)", "err != nil"]),
  ("Validate", ["err != nil", "err != nil", "err != nil", "err != nil"])] := rfl

end ExoVerif.Genesis
