import ExoVerif.Generated.Facts
import ExoVerif.Generated.AvsSlices
import ExoVerif.Proofs.Avs
/-!
# C20 tie: the model's window predicates and check order *are* those of the Go source

`ExoVerif.Gen.avs…` are regenerated from x/avs/keeper/{task,keeper,avs,impl_epoch_hook}.go,
x/avs/types/{types,stage}.go and x/operator/keeper/opt.go on every run.
* the epoch-window comparisons of SetTaskResultInfo, RaiseAndResolveChallenge,
  GetTaskStatisticalEpochEndAVSs and the deregistration guard are translated to Lean functions and
  proved equal to the predicates the model (hence every C20 theorem) uses, for all integers:
  a flipped `>`/`>=`, a dropped period, a swapped `+`/`-` changes the generated function and
  breaks the proof;
* the guard skeleton (branch, condition, returned error — in source order) of every modelled entry
  point is compared with the skeleton the model was transcribed from: a dropped, added, reordered or
  edited check, or a changed error, changes the generated list and breaks the `rfl`.
* the minimum-self-delegation guard of OptIn is translated as an expression over LegacyDec
  (`Generated/AvsSlices.lean`) and proved equal to the comparison the model uses for every pair of
  values: comparing rounded / truncated amounts, `LTE` for `LT`, another field of the value record
  changes the generated function (or fails the translation) and breaks the proof.
(`int64(x)` / `uint64(x)` conversions are translated as the identity: epochs and periods < 2^63.)
-/
namespace ExoVerif.Avs
open ExoVerif.Gen

theorem C20_tie_phase1_window (cur start resp stat chal unb : Int) :
    avsPhase1TooLate cur start resp stat chal unb = phase1TooLate cur start resp := by
  simp [avsPhase1TooLate, phase1TooLate]

theorem C20_tie_phase2_window (cur start resp stat chal unb : Int) :
    avsPhase2TooSoon cur start resp stat chal unb = phase2TooSoon cur start resp ∧
    avsPhase2TooLate cur start resp stat chal unb = phase2TooLate cur start resp stat := by
  simp [avsPhase2TooSoon, phase2TooSoon, avsPhase2TooLate, phase2TooLate]

theorem C20_tie_challenge_window (cur start resp stat chal unb : Int) :
    avsChallengeTooSoon cur start resp stat chal unb = challengeTooSoon cur start resp stat ∧
    avsChallengeTooLate cur start resp stat chal unb = challengeTooLate cur start resp stat chal := by
  simp [avsChallengeTooSoon, challengeTooSoon, avsChallengeTooLate, challengeTooLate]

theorem C20_tie_stat_end (cur start resp stat chal unb : Int) :
    avsStatEnd cur start resp stat chal unb = statEnd cur start resp stat := by
  simp only [avsStatEnd, statEnd]
  by_cases h : cur = start + resp + stat <;> simp [h]

theorem C20_tie_dereg_guard (cur start resp stat chal unb : Int) :
    avsDeregTooLate cur start resp stat chal unb = deregTooLate cur start unb := by
  simp [avsDeregTooLate, deregTooLate]

theorem C20_tie_stages : avsStages = ("1", "2") := by decide

theorem C20_tie_submit_guards : avsSubmitGuards = [
  ("", "addr != info.OperatorAddress", "Wrap(types.ErrInvalidAddr)"),
  ("", "!k.operatorKeeper.IsOperator(ctx, opAccAddr)", "Wrap(delegationtypes.ErrOperatorNotExist)"),
  ("", "err != nil || keyInfo.PubKey == nil", "Wrap(types.ErrPubKeyIsNotExists)"),
  ("", "err != nil || pubKey == nil", "Wrap(types.ErrParsePubKey)"),
  ("", "err != nil || task.TaskContractAddress == \"\"", "Wrap(types.ErrTaskIsNotExists)"),
  ("", "!found", "Wrap(types.ErrEpochNotFound)"),
  ("types.TwoPhaseCommitOne", "k.IsExistTaskResultInfo(ctx, info.OperatorAddress, info.TaskContractAddress, info.TaskId)", "Wrap(types.ErrResAlreadyExists)"),
  ("types.TwoPhaseCommitOne", "len(info.BlsSignature) == 0", "Wrap(types.ErrParamNotEmptyError)"),
  ("types.TwoPhaseCommitOne", "info.TaskResponseHash != \"\" || info.TaskResponse != nil", "Wrap(types.ErrParamNotEmptyError)"),
  ("types.TwoPhaseCommitOne", "epoch.CurrentEpoch > int64(task.StartingEpoch)+int64(task.TaskResponsePeriod)", "Wrap(types.ErrSubmitTooLateError)"),
  ("types.TwoPhaseCommitOne", "true", "nil"),
  ("types.TwoPhaseCommitTwo", "info.TaskResponse == nil", "Wrap(types.ErrNotNull)"),
  ("types.TwoPhaseCommitTwo", "err != nil || !bytes.Equal(res.BlsSignature, info.BlsSignature)", "Wrap(types.ErrInconsistentParams)"),
  ("types.TwoPhaseCommitTwo", "epoch.CurrentEpoch <= int64(task.StartingEpoch)+int64(task.TaskResponsePeriod)", "Wrap(types.ErrSubmitTooSoonError)"),
  ("types.TwoPhaseCommitTwo", "epoch.CurrentEpoch > int64(task.StartingEpoch)+int64(task.TaskResponsePeriod)+int64(task.TaskStatisticalPeriod)", "Wrap(types.ErrSubmitTooLateError)"),
  ("types.TwoPhaseCommitTwo", "err != nil || info.TaskId != resp.TaskID", "Wrap(types.ErrInconsistentParams)"),
  ("types.TwoPhaseCommitTwo", "!flag || err != nil", "Wrap(types.ErrSigVerifyError)"),
  ("types.TwoPhaseCommitTwo", "true", "nil"),
  ("default", "true", "Wrap(types.ErrParamError)")] := rfl

theorem C20_tie_challenge_guards : avsChallengeGuards = [
  ("", "err != nil", "fmt.Errorf"),
  ("", "hex.EncodeToString(taskInfo.Hash) != hex.EncodeToString(params.TaskHash)", "Wrap(types.ErrHashValue)"),
  ("", "err != nil", "fmt.Errorf"),
  ("", "err != nil", "Wrap(err)"),
  ("", "err != nil || res.TaskId != params.TaskID || hex.EncodeToString(hash[:]) != hex.EncodeToString(params.TaskResponseHash)", "Wrap(types.ErrInconsistentParams)"),
  ("", "k.IsExistTaskChallengedInfo(ctx, params.OperatorAddress.String(), params.TaskContractAddress.String(), params.TaskID)", "Wrap(types.ErrAlreadyExists)"),
  ("", "!found", "Wrap(types.ErrEpochNotFound)"),
  ("", "epoch.CurrentEpoch <= int64(taskInfo.StartingEpoch)+int64(taskInfo.TaskResponsePeriod)+int64(taskInfo.TaskStatisticalPeriod)", "Wrap(types.ErrSubmitTooSoonError)"),
  ("", "epoch.CurrentEpoch > int64(taskInfo.StartingEpoch)+int64(taskInfo.TaskResponsePeriod)+int64(taskInfo.TaskStatisticalPeriod)+int64(taskInfo.TaskChallengePeriod)", "Wrap(types.ErrSubmitTooLateError)"),
  ("", "true", "call:k.SetTaskChallengedInfo")] := rfl

theorem C20_tie_update_guards : avsUpdateGuards = [
  ("", "!found", "Wrap(types.ErrEpochNotFound)"),
  ("RegisterAction", "avsInfo != nil", "Wrap(types.ErrAlreadyRegistered)"),
  ("RegisterAction", "k.GetAVSInfoByTaskAddress(ctx, params.TaskAddr).AvsAddress != \"\"", "Wrap(types.ErrAlreadyRegistered)"),
  ("RegisterAction", "err := k.ValidateAssetIDs(ctx, params.AssetID); err != nil", "err"),
  ("RegisterAction", "true", "call:k.SetAVSInfo"),
  ("DeRegisterAction", "avsInfo == nil", "Wrap(types.ErrUnregisterNonExistent)"),
  ("DeRegisterAction", "!slices.Contains(avsInfo.Info.AvsOwnerAddress, params.CallerAddress)", "Wrap(types.ErrCallerAddressUnauthorized)"),
  ("DeRegisterAction", "epoch.CurrentEpoch-int64(avsInfo.GetInfo().StartingEpoch) > int64(avsInfo.Info.AvsUnbondingPeriod)", "Wrap(types.ErrUnbondingPeriod)"),
  ("DeRegisterAction", "avsInfo.Info.Name != params.AvsName", "Wrap(types.ErrAvsNameMismatch)"),
  ("DeRegisterAction", "true", "call:k.DeleteAVSInfo"),
  ("UpdateAction", "avsInfo == nil", "Wrap(types.ErrUnregisterNonExistent)"),
  ("UpdateAction", "avsAddress != \"\" && avsAddress != avsInfo.Info.AvsAddress", "Wrap(types.ErrAlreadyRegistered)"),
  ("UpdateAction{params.AssetID != nil}", "err := k.ValidateAssetIDs(ctx, params.AssetID); err != nil", "err"),
  ("UpdateAction", "true", "call:k.SetAVSInfo"),
  ("default", "true", "Wrap(types.ErrInvalidAction)")] := rfl

theorem C20_tie_create_task_guards : avsCreateTaskGuards = [
  ("", "avsInfo.AvsAddress == \"\"", "Wrap(types.ErrUnregisterNonExistent)"),
  ("", "!slices.Contains(avsInfo.AvsOwnerAddress, params.CallerAddress)", "Wrap(types.ErrCallerAddressUnauthorized)"),
  ("", "err != nil || taskPowerTotal.IsZero() || taskPowerTotal.IsNegative()", "Wrap(types.ErrVotingPowerIncorrect)"),
  ("", "!found", "Wrap(types.ErrEpochNotFound)"),
  ("", "k.IsExistTask(ctx, strconv.FormatUint(params.TaskID, 10), params.TaskContractAddress)", "Wrap(types.ErrAlreadyExists)"),
  ("", "err != nil", "Wrap(err)"),
  ("", "true", "call:k.SetTaskInfo")] := rfl

theorem C20_tie_register_bls_guards : avsRegisterBLSGuards = [
  ("", "err != nil || !valid", "Wrap(types.ErrSigNotMatchPubKey)"),
  ("", "k.IsExistPubKey(ctx, params.Operator)", "Wrap(types.ErrAlreadyExists)"),
  ("", "true", "call:k.SetOperatorPubKey")] := rfl

theorem C20_tie_opt_action_guards : avsOptActionGuards = [
  ("", "err != nil", "Wrap(err)"),
  ("", "!k.operatorKeeper.IsOperator(ctx, opAccAddr)", "Wrap(delegationtypes.ErrOperatorNotExist)"),
  ("", "err != nil", "Wrap(err)"),
  ("", "!f", "fmt.Errorf"),
  ("RegisterAction", "true", "call:k.operatorKeeper.OptIn"),
  ("DeRegisterAction", "true", "call:k.operatorKeeper.OptOut"),
  ("default", "true", "Wrap(types.ErrInvalidAction)")] := rfl

theorem C20_tie_optin_guards : avsOptInGuards = [
  ("", "!k.IsOperator(ctx, operatorAddress)", "Wrap(delegationtypes.ErrOperatorNotExist)"),
  ("", "isAvs, _ := k.avsKeeper.IsAVS(ctx, avsAddr); !isAvs", "Wrap(types.ErrNoSuchAvs)"),
  ("", "k.IsOptedIn(ctx, operatorAddress.String(), avsAddr)", "types.ErrAlreadyOptedIn"),
  ("", "err != nil", "Wrap(err)"),
  ("", "err != nil", "Wrap(err)"),
  ("", "operatorUSDValues.SelfUSDValue.LT(minSelfDelegation)", "Wrap(types.ErrMinDelegationNotMet)"),
  ("", "k.slashKeeper.IsOperatorFrozen(ctx, operatorAddress)", "delegationtypes.ErrOperatorIsFrozen"),
  ("", "err != nil", "err"),
  ("", "err != nil", "err"),
  ("", "err != nil", "err"),
  ("", "true", "nil")] := rfl

theorem C20_tie_optout_guards : avsOptOutGuards = [
  ("", "!k.IsOperator(ctx, operatorAddress)", "delegationtypes.ErrOperatorNotExist"),
  ("", "isAvs, _ := k.avsKeeper.IsAVS(ctx, avsAddr); !isAvs", "Wrap(types.ErrNoSuchAvs)"),
  ("", "!k.IsActive(ctx, operatorAddress, avsAddr)", "types.ErrNotOptedIn"),
  ("", "k.slashKeeper.IsOperatorFrozen(ctx, operatorAddress)", "delegationtypes.ErrOperatorIsFrozen"),
  ("", "err != nil", "err"),
  ("", "err != nil", "err"),
  ("", "true", "nil")] := rfl

theorem C20_tie_by_task_addr_guards : avsByTaskAddrGuards = [
  ("", "taskAddr == \"\"", "avs"),
  ("", "true", "avs")] := rfl

theorem C20_tie_task_id_guards : avsTaskIDGuards = [
  ("", "true", "id")] := rfl

/-- the epoch hook: a result counts as signed iff its signature is non-nil; a group without a
signed result and a failing GetTaskInfo leave the iteration (`continue`, repair of F-11b), the
other error branches only log -/
theorem C20_tie_hook_guards : avsHookGuards = [("len(taskResList) != 0", true), ("res.BlsSignature != nil", false), ("avsAddr == \"\"", false), ("taskID == 0", false), ("taskAddr == \"\"", false), ("err != nil || power.ActiveUSDValue.IsNegative()", false), ("len(signedOperatorList) == 0", true), ("err != nil || taskInfo == nil", true), ("err != nil || taskPowerTotal.IsZero() || operatorPowerTotal.IsZero()", false), ("!taskPowerTotal.IsZero() && !operatorPowerTotal.IsZero()", false), ("err != nil", false)] := rfl

/-- types.Difference is the symmetric difference the model keeps as `difference` (no longer used by the hook) -/
theorem C20_tie_difference : avsDifferenceBody = "{ var different []string diffMap := make(map[string]bool) for _, item := range a { diffMap[item] = true } for _, item := range b { if diffMap[item] { delete(diffMap, item) } else { different = append(different, item) } } for item := range diffMap { different = append(different, item) } sort.Strings(different) return different }" := rfl

/-- GetTaskID: first identifier 1, then +1, counter written back -/
theorem C20_tie_task_id_body : avsTaskIDBody = "{ store := prefix.NewStore(ctx.KVStore(k.storeKey), types.KeyPrefixLatestTaskNum) var id uint64 if store.Has(taskAddr.Bytes()) { bz := store.Get(taskAddr.Bytes()) id = sdk.BigEndianToUint64(bz) id++ } else { id = 1 } store.Set(taskAddr.Bytes(), sdk.Uint64ToBigEndian(id)) return id }" := rfl

/-- GroupTasksByIDAndAddress: groups keyed by contract_id, each sorted by operator address -/
theorem C20_tie_group_body : avsGroupBody = "{ taskMap := make(map[string][]types.TaskResultInfo) for _, task := range tasks { key := task.TaskContractAddress + \"_\" + strconv.FormatUint(task.TaskId, 10) taskMap[key] = append(taskMap[key], task) } for key, taskGroup := range taskMap { sort.Slice(taskGroup, func(i, j int) bool { return taskGroup[i].OperatorAddress < taskGroup[j].OperatorAddress }) taskMap[key] = taskGroup } return taskMap }" := rfl

/-- GetTaskStatisticalEpochEndAVSs: which results are due at an epoch end -/
theorem C20_tie_stat_due_body : avsStatDueBody = "{ var taskResList []types.TaskResultInfo k.IterateResultInfo(ctx, func(_ int64, info types.TaskResultInfo) (stop bool) { avsInfo := k.GetAVSInfoByTaskAddress(ctx, info.TaskContractAddress) taskInfo, err := k.GetTaskInfo(ctx, strconv.FormatUint(info.TaskId, 10), info.TaskContractAddress) if err != nil { return false } if epochIdentifier == avsInfo.EpochIdentifier && epochNumber == int64(taskInfo.StartingEpoch)+int64(taskInfo.TaskResponsePeriod)+int64(taskInfo.TaskStatisticalPeriod) { taskResList = append(taskResList, info) } return false }) return taskResList }" := rfl

/-- AfterEpochEnd: the whole statistics loop (signers, powers, Difference, totals, threshold, SetTaskInfo; errors logged and ignored) -/
theorem C20_tie_hook_body : avsHookBody = "{ taskResList := wrapper.keeper.GetTaskStatisticalEpochEndAVSs(ctx, epochIdentifier, epochNumber) if len(taskResList) != 0 { groupedTasks := wrapper.keeper.GroupTasksByIDAndAddress(taskResList) for _, value := range groupedTasks { var signedOperatorList []string var taskID uint64 var taskAddr string var avsAddr string var operatorPowers []*types.OperatorActivePowerInfo operatorPowerTotal := sdkmath.LegacyNewDec(0) for _, res := range value { if res.BlsSignature != nil { signedOperatorList = append(signedOperatorList, res.OperatorAddress) if avsAddr == \"\" { avsInfo := wrapper.keeper.GetAVSInfoByTaskAddress(ctx, res.TaskContractAddress) avsAddr = avsInfo.AvsAddress } if taskID == 0 { taskID = res.TaskId } if taskAddr == \"\" { taskAddr = res.TaskContractAddress } power, err := wrapper.keeper.operatorKeeper.GetOperatorOptedUSDValue(ctx, avsAddr, res.OperatorAddress) if err != nil || power.ActiveUSDValue.IsNegative() { ctx.Logger().Error(\"Failed to update task result statistics,GetOperatorOptedUSDValue call failed!\", \"task result\", taskAddr, \"error\", err) } operatorSelfPower := &types.OperatorActivePowerInfo{ OperatorAddr: res.OperatorAddress, SelfActivePower: power.ActiveUSDValue, } operatorPowers = append(operatorPowers, operatorSelfPower) operatorPowerTotal = operatorPowerTotal.Add(power.ActiveUSDValue) } } if len(signedOperatorList) == 0 { ctx.Logger().Error(\"Failed to update task result statistics, no signed result in the group\") continue } taskInfo, err := wrapper.keeper.GetTaskInfo(ctx, strconv.FormatUint(taskID, 10), taskAddr) if err != nil || taskInfo == nil { ctx.Logger().Error(\"Failed to update task result statistics,GetTaskInfo call failed!\", \"task result\", taskAddr, \"error\", err) continue } taskInfo.SignedOperators = signedOperatorList taskInfo.NoSignedOperators = types.Subtract(taskInfo.OptInOperators, signedOperatorList) taskInfo.OperatorActivePower = &types.OperatorActivePowerList{OperatorPowerList: operatorPowers} taskPowerTotal, err := wrapper.keeper.operatorKeeper.GetAVSUSDValue(ctx, avsAddr) if err != nil || taskPowerTotal.IsZero() || operatorPowerTotal.IsZero() { ctx.Logger().Error(\"Failed to update task result statistics,GetAVSUSDValue call failed!\", \"task result\", taskAddr, \"error\", err) } taskInfo.TaskTotalPower = taskPowerTotal if !taskPowerTotal.IsZero() && !operatorPowerTotal.IsZero() { actualThreshold := taskPowerTotal.Quo(operatorPowerTotal).Mul(sdk.NewDec(100)) taskInfo.ActualThreshold = actualThreshold.BigInt().Uint64() } err = wrapper.keeper.SetTaskInfo(ctx, taskInfo) if err != nil { ctx.Logger().Error(\"Failed to update task result statistics,SetTaskInfo call failed!\", \"task result\", taskAddr, \"error\", err) } } } }" := rfl

/-- MsgSubmitTaskResult is SetTaskResultInfo(req.FromAddress, req.Info) and nothing else -/
theorem C20_tie_msg_submit_body : avsMsgSubmitBody = "{ ctx := sdk.UnwrapSDKContext(goCtx) if err := m.keeper.SetTaskResultInfo(ctx, req.FromAddress, req.Info); err != nil { return nil, err } return &types.SubmitTaskResultResponse{}, nil }" := rfl

/-- types.Subtract is the one-sided difference the hook now uses for the non-signers (repair of F-20c) -/
theorem C20_tie_subtract_body : avsSubtractBody = "{ var rest []string exclude := make(map[string]struct{}, len(b)) for _, item := range b { exclude[item] = struct{}{} } seen := make(map[string]struct{}, len(a)) for _, item := range a { if _, found := exclude[item]; found { continue } if _, dup := seen[item]; dup { continue } seen[item] = struct{}{} rest = append(rest, item) } sort.Strings(rest) return rest }" := rfl

/-- GetAVSMinimumSelfDelegation builds the Dec from the uint64 through big.Int, no int64() (repair of F-20a) -/
theorem C20_tie_min_self_body : avsMinSelfBody = "{ avsInfo, err := k.GetAVSInfo(ctx, avsAddr) if err != nil { return sdkmath.LegacyNewDec(0), errorsmod.Wrap(err, fmt.Sprintf(\"GetAVSMinimumSelfDelegation: key is %s\", avsAddr)) } return sdkmath.LegacyNewDecFromBigInt(new(big.Int).SetUint64(avsInfo.Info.MinSelfDelegation)), nil }" := rfl

/-- the comparison of OptIn's minimum-self-delegation guard IS the model's `selfDelegationTooLow`, for all
pairs of 18-decimal values (translated from the guard expression on every run) -/
theorem C20_tie_optin_min_compare (self min : Dec) :
    optInSelfDelegationTooLow self min = selfDelegationTooLow self min := by
  simp only [optInSelfDelegationTooLow, selfDelegationTooLow]

/-- … and its two operands are what the model takes them to be: the operator's value record as
GetOrCalculateOperatorUSDValues returns it (its SelfUSDValue is the `self` of the kernel) and the AVS's
GetAVSMinimumSelfDelegation (`C20_tie_min_self_body`: the exact uint64 as a Dec) -/
theorem C20_tie_optin_min_operands :
    optInSelfSource = ":= k.GetOrCalculateOperatorUSDValues(ctx, operatorAddress, avsAddr)" ∧
    optInMinSource = ":= k.avsKeeper.GetAVSMinimumSelfDelegation(ctx, avsAddr)" ∧
    avsSlicesRegenerated = true := ⟨rfl, rfl, rfl⟩

/-- WHAT the phase-two signature check of SetTaskResultInfo is called on, what is parsed, recorded and stored
(regenerated data flow, source order): the digest is keccak256 of the SUBMITTED bytes `info.TaskResponse` — the
model's `digest` / `blsOk` inputs (`Submit.derived`, Proofs/AvsSig.lean) —, that digest is what is recorded as
TaskResponseHash, the task id is parsed from the same bytes, the key is the operator's registered key, and the
submitted `info` is what is stored. Verifying over a re-marshalled response, a digest of parsed fields or a
caller-supplied hash, or recording / storing something else, changes the generated list. -/
theorem C20_tie_phase2_verify_dataflow : avsPhase2Verify = [
  ("def", "keyInfo, err := k.GetOperatorPubKey(ctx, info.OperatorAddress)"),
  ("def", "pubKey, err := blst.PublicKeyFromBytes(keyInfo.PubKey)"),
  ("def", "infoKey := assetstype.GetJoinedStoreKey(info.OperatorAddress, info.TaskContractAddress, strconv.FormatUint(info.TaskId, 10))"),
  ("def", "bz := k.cdc.MustMarshal(info)"),
  ("def", "taskResponseDigest := crypto.Keccak256Hash(info.TaskResponse)"),
  ("set", "info.TaskResponseHash = taskResponseDigest.String()"),
  ("parse", "types.UnmarshalTaskResponse(info.TaskResponse)"),
  ("verify", "blst.VerifySignature(info.BlsSignature, taskResponseDigest, pubKey)"),
  ("def", "infoKey := assetstype.GetJoinedStoreKey(info.OperatorAddress, info.TaskContractAddress, strconv.FormatUint(info.TaskId, 10))"),
  ("def", "bz := k.cdc.MustMarshal(info)"),
  ("store", "store.Set(infoKey, bz)")] := rfl

end ExoVerif.Avs
