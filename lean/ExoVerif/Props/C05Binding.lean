import ExoVerif.Props.C05
import ExoVerif.Proofs.VPOracle
/-!
# C05 — "… x latest oracle price …": which token prices an asset

x/oracle prices tokens; an asset is priced by the token whose comma-joined asset list has an element equal
to the asset id (`Params.GetTokenIDFromAssetID`, used by `GetMultipleAssetsPrices` for UpdateVotingPower).
Stated for the executable model `Model/VPOracle.lean`, which the driver uses to resolve every price of the
differential run from the committed token table and latest rounds:

* `strings.Split` on commas is the decomposition into comma-free pieces (`C05_split_join`,
  `C05_split_pieces_comma_free`, `C05_split_unique`);
* the lookup returns a token that lists the asset, the first one, and nothing when no token lists it
  (`C05_token_lookup_spec`, `C05_token_lookup_first`, `C05_token_lookup_none`);
* an asset bound to token `t` is priced with the latest usable round of `t` — whatever the other tokens'
  lists and rounds are (`C05_price_of_bound_token`, `C05_usable_round_is_the_price`,
  `C05_other_tokens_do_not_matter`), an asset no token lists makes the update fail
  (`C05_unbound_asset_not_priced`, `C05_unbound_asset_fails_update`);
* end to end: after UpdateVotingPower every recorded value is the closed formula over the prices of the
  BOUND tokens (`C05_vp_uses_bound_token_prices`);
* with a substring test instead of element equality the clause is refuted by a witness
  (`C05_substring_lookup_misprices`).
-/
namespace ExoVerif.VP
open ExoVerif ExoVerif.KV

/-! ### strings.Split(s, ",") -/

/-- no piece contains a comma -/
theorem C05_split_pieces_comma_free (cs : List Char) : ∀ p ∈ splitChars cs, ',' ∉ p := by
  induction cs with
  | nil => intro p hp; simp [splitChars] at hp; subst hp; simp
  | cons c rest ih =>
    intro p hp
    simp only [splitChars] at hp
    split at hp
    · rcases List.mem_cons.mp hp with h | h
      · subst h; simp
      · exact ih p h
    · rename_i hc
      split at hp
      · simp at hp; subst hp; simp; exact fun h => hc h.symm
      · rename_i q qs hq
        rcases List.mem_cons.mp hp with h | h
        · subst h
          have := ih q (by rw [hq]; simp)
          simp only [List.mem_cons, not_or]
          exact ⟨fun h => hc h.symm, this⟩
        · exact ih p (by rw [hq]; simp [h])

/-- joining the pieces with commas gives the string back -/
theorem C05_split_join (cs : List Char) : [','].intercalate (splitChars cs) = cs := by
  induction cs with
  | nil => simp [splitChars, List.intercalate]
  | cons c rest ih =>
    simp only [splitChars]
    split
    · rename_i hc
      have hne := splitChars_ne_nil rest
      cases hs : splitChars rest with
      | nil => exact absurd hs hne
      | cons q qs =>
        rw [intercalate_cons_cons, ← hs, ih, hc]; rfl
    · split
      · rename_i hs; exact absurd hs (splitChars_ne_nil rest)
      · rename_i q qs hs
        rw [hs] at ih
        cases qs with
        | nil =>
          simp [List.intercalate, List.intersperse] at ih ⊢
          exact ih
        | cons q2 qs2 =>
          rw [intercalate_cons_cons] at ih ⊢
          rw [← ih]; simp

/-- the decomposition is the only one: any non-empty list of comma-free pieces that joins to the string is
what `strings.Split` returns -/
theorem C05_split_unique (ps : List (List Char)) (hne : ps ≠ []) (hfree : ∀ p ∈ ps, ',' ∉ p) :
    splitChars ([','].intercalate ps) = ps := by
  induction ps with
  | nil => exact absurd rfl hne
  | cons p rest ih =>
    have hp : ',' ∉ p := hfree p (by simp)
    cases rest with
    | nil =>
      simp only [List.intercalate, List.intersperse, List.flatten_cons, List.flatten_nil, List.append_nil]
      clear ih hfree hne
      induction p with
      | nil => simp [splitChars]
      | cons c cs ihc =>
        have hc : ¬ c = ',' := fun h => hp (by simp [h])
        have := ihc (fun h => hp (by simp [h]))
        simp [splitChars, hc, this]
    | cons q qs =>
      have ih' := ih (by simp) (fun x hx => hfree x (by simp [hx]))
      rw [intercalate_cons_cons]
      clear ih hfree hne
      induction p with
      | nil => simp [splitChars, ih']
      | cons c cs ihc =>
        have hc : ¬ c = ',' := fun h => hp (by simp [h])
        have := ihc (fun h => hp (by simp [h]))
        simp only [List.cons_append, splitChars, hc, if_false]
        simp only [List.append_assoc] at this ⊢
        rw [this]

example : assetList "0xaa_0x65,0xbb_0x9d" = ["0xaa_0x65", "0xbb_0x9d"] := by decide
example : assetList "" = [""] := by decide

/-! ### GetTokenIDFromAssetID -/

/-- The lookup returns a token that LISTS the asset — one of the comma-separated elements of its `AssetID`
equals the id — and no earlier token lists it. -/
theorem C05_token_lookup_spec (tokens : List String) (a : String) (t : Nat)
    (h : tokenIdFrom tokens a = t) (ht : t ≠ 0) :
    (∃ s, tokens[t]? = some s ∧ a ∈ assetList s) ∧
      ∀ j s', j < t → tokens[j]? = some s' → a ∉ assetList s' := by
  obtain ⟨_, ⟨s, hs, hl⟩, h3⟩ := tokenIdFromWith_spec listsAsset a tokens 0 t h ht
  refine ⟨⟨s, by simpa using hs, (listsAsset_iff s a).mp hl⟩, ?_⟩
  intro j s' hj hs' hmem
  have := h3 j s' (by simpa using hj) hs'
  rw [(listsAsset_iff s' a).mpr hmem] at this
  exact absurd this (by simp)

/-- … and it is the FIRST token that lists it. -/
theorem C05_token_lookup_first (tokens : List String) (a : String) (t : Nat) (s : String)
    (hs : tokens[t]? = some s) (hm : a ∈ assetList s)
    (hfirst : ∀ j s', j < t → tokens[j]? = some s' → a ∉ assetList s') :
    tokenIdFrom tokens a = t := by
  have := tokenIdFromWith_first listsAsset a tokens 0 t s hs ((listsAsset_iff s a).mpr hm)
    (fun j s' hj hs' => by
      cases hb : listsAsset s' a
      · rfl
      · exact absurd ((listsAsset_iff s' a).mp hb) (hfirst j s' hj hs'))
  simpa [tokenIdFrom] using this

/-- no token lists the asset: 0, "not found" -/
theorem C05_token_lookup_none (tokens : List String) (a : String)
    (h : ∀ s ∈ tokens, a ∉ assetList s) : tokenIdFrom tokens a = 0 :=
  tokenIdFromWith_none listsAsset a tokens 0 (fun s hs => by
    cases hb : listsAsset s a
    · rfl
    · exact absurd ((listsAsset_iff s a).mp hb) (h s hs))

/-- the same contract address on client chains 0x65 and 0x6: each id finds its own token, in either order
of the table, and inside a list of several -/
example : tokenIdFrom ["", "0xdac1_0x65", "0xdac1_0x6"] "0xdac1_0x6" = 2 := by decide
example : tokenIdFrom ["", "0xdac1_0x6", "0xdac1_0x65"] "0xdac1_0x65" = 2 := by decide
example : tokenIdFrom ["", "0xbb_0x9d,0xdac1_0x651", "0xaa_0x1,0xdac1_0x65"] "0xdac1_0x65" = 2 := by decide
example : tokenIdFrom ["", "0xdac1_0x65"] "0xdac1_0x6" = 0 := by decide

/-! ### the asset's price is the latest usable round of the token it is bound to -/

/-- the asset is bound to token `t`: `t` is a real token (not the placeholder), its list has the id as an
element, and it is the first such token (registration keeps an id in one list only) -/
def BoundTo (o : OracleSt) (a : String) (t : Nat) : Prop :=
  t ≠ 0 ∧ (∃ s r, o.toks[t]? = some (s, r) ∧ a ∈ assetList s) ∧
    ∀ j s' r', j < t → o.toks[j]? = some (s', r') → a ∉ assetList s'

/-- the lookup finds the token an asset is bound to -/
theorem C05_bound_token_is_found (o : OracleSt) (a : String) (t : Nat) (h : BoundTo o a t) :
    tokenIdFrom (o.toks.map (·.1)) a = t := by
  obtain ⟨_, ⟨s, r, hs, hm⟩, hf⟩ := h
  apply C05_token_lookup_first _ a t s (by simp [List.getElem?_map, hs]) hm
  intro j s' hj hs'
  rw [List.getElem?_map] at hs'
  cases hq : o.toks[j]? with
  | none => simp [hq] at hs'
  | some q =>
    obtain ⟨q1, q2⟩ := q
    simp [hq] at hs'; subst hs'
    exact hf j q1 q2 hj hq

/-- An asset bound to token `t` is priced with `t`'s latest round (price 1 / 0 decimals when `t` has no
usable round) — the lists and rounds of all other tokens do not enter. -/
theorem C05_price_of_bound_token (o : OracleSt) (a : String) (t : Nat) (ha : a ≠ exoAssetID) (h : BoundTo o a t) :
    assetPrice o a = some (roundPrice (latestOf o t)) := by
  simp [assetPrice, ha, C05_bound_token_is_found o a t h, h.1]

theorem C05_usable_round_is_the_price (o : OracleSt) (a : String) (t : Nat) (v d : Int) (ha : a ≠ exoAssetID)
    (h : BoundTo o a t) (hr : latestOf o t = some { price := some v, decimal := d })
    (hv : 0 < v) (hd0 : 0 ≤ d) (hd1 : d < 256) : assetPrice o a = some (v, d) := by
  rw [C05_price_of_bound_token o a t ha h, hr]
  have : ¬ v ≤ 0 := by omega
  simp [roundPrice, this, Int.emod_eq_of_lt hd0 hd1]

/-- two oracle states with the same token lists that agree on the round of the token the asset is bound to
price the asset alike: a new round of ANOTHER token changes nothing -/
theorem C05_other_tokens_do_not_matter (o o' : OracleSt) (a : String) (t : Nat)
    (hl : o.toks.map (·.1) = o'.toks.map (·.1)) (ht : tokenIdFrom (o.toks.map (·.1)) a = t)
    (hr : latestOf o t = latestOf o' t) : assetPrice o a = assetPrice o' a := by
  simp only [assetPrice, ← hl, ht, hr]

/-- an asset that no token lists has no price (ErrGetPriceAssetNotFound) … -/
theorem C05_unbound_asset_not_priced (o : OracleSt) (a : String) (ha : a ≠ exoAssetID)
    (h : ∀ q ∈ o.toks, a ∉ assetList q.1) : assetPrice o a = none := by
  have : tokenIdFrom (o.toks.map (·.1)) a = 0 :=
    C05_token_lookup_none _ a (fun s hs => by
      obtain ⟨q, hq, e⟩ := List.mem_map.mp hs
      subst e; exact h q hq)
  simp [assetPrice, ha, this]

/-- … and an AVS that supports it is not updated at all: its stored values stay -/
theorem C05_unbound_asset_fails_update (o : OracleSt) (s : St) (avs : String) (assets : List (String × Int)) (m : Option Int)
    (opAssets : List (String × List (String × AssetState))) (a : String) (d : Int)
    (hm : (a, d) ∈ assets) (ha : a ≠ exoAssetID) (h : ∀ q ∈ o.toks, a ∉ assetList q.1) :
    updateVotingPower s avs (avsInOf o true (some assets) m opAssets) = s := by
  apply C05_error_leaves_state s avs _ rfl
  left
  simp [avsInOf, resolveCfgs_none_of_mem o assets a d hm (C05_unbound_asset_not_priced o a ha h)]

/-- the property's prices: for every asset of the AVS the latest usable round of the token `b a` the asset
is bound to -/
def boundCfgs (o : OracleSt) (b : String → Nat) (assets : List (String × Int)) : List (String × AssetCfg) :=
  assets.map (fun p => (p.1, { price := (roundPrice (latestOf o (b p.1))).1,
                               priceDec := (roundPrice (latestOf o (b p.1))).2, decimals := p.2 }))

/-- the prices UpdateVotingPower resolves for an AVS whose assets are all bound are the bound tokens' prices -/
theorem C05_resolved_prices_are_bound_prices (o : OracleSt) (b : String → Nat) (assets : List (String × Int))
    (hb : ∀ p ∈ assets, p.1 ≠ exoAssetID ∧ BoundTo o p.1 (b p.1)) :
    resolveCfgs o assets = some (boundCfgs o b assets) := by
  induction assets with
  | nil => rfl
  | cons p rest ih =>
    obtain ⟨a, d⟩ := p
    have h1 := hb (a, d) (by simp)
    have h2 := ih (fun q hq => hb q (by simp [hq]))
    simp only [resolveCfgs, C05_price_of_bound_token o a (b a) h1.1 h1.2, h2, boundCfgs, List.map_cons]

/-- End to end. After a successful UpdateVotingPower of an AVS whose assets are all bound to oracle tokens
(`b`), every stored entry carries the closed formula evaluated with the latest round of the token each asset
is BOUND to: total = Σ amount × price(b a) / 10^(decimals + price decimals), self likewise on the token
equivalent of the self share, active = total iff self ≥ minimum. -/
theorem C05_vp_uses_bound_token_prices (o : OracleSt) (s : St) (avs : String) (b : String → Nat)
    (assets : List (String × Int)) (m : Int) (opAssets : List (String × List (String × AssetState)))
    (hb : ∀ p ∈ assets, p.1 ≠ exoAssetID ∧ BoundTo o p.1 (b p.1))
    (es' : List (String × Opted)) (v : Int)
    (hl : updateLoop (boundCfgs o b assets) m opAssets (getD s.entries avs []) = .ok (es', v)) :
    getD (updateVotingPower s avs (avsInOf o true (some assets) (some m) opAssets)).entries avs [] = es' ∧
    ∀ q ∈ es', q.2.total = specTotal (boundCfgs o b assets) (getD opAssets q.1 []) ∧
               q.2.self = specSelf (boundCfgs o b assets) (getD opAssets q.1 []) ∧
               q.2.active = (if m ≤ q.2.self then q.2.total else 0) := by
  have hc : (avsInOf o true (some assets) (some m) opAssets).cfgs = some (boundCfgs o b assets) := by
    simp [avsInOf, C05_resolved_prices_are_bound_prices o b assets hb]
  obtain ⟨e0, _, e2⟩ := C05_self_value_formula s avs (avsInOf o true (some assets) (some m) opAssets)
    (boundCfgs o b assets) m rfl hc rfl es' v hl
  exact ⟨e0, e2⟩

/-! ### non-vacuity: USDT on chains 0x65 (token 1, 1 USD) and 0x6 (token 2, 3.00000000 USD) -/

def exOracle : OracleSt :=
  { toks := [("", none),
             ("0xdac1_0x65", some { price := some 1, decimal := 0 }),
             ("0xdac1_0x6", some { price := some 300000000, decimal := 8 })] }

theorem C05_example_asset_is_bound : BoundTo exOracle "0xdac1_0x6" 2 := by
  refine ⟨by decide, ⟨"0xdac1_0x6", _, rfl, by decide⟩, ?_⟩
  intro j s' r' hj hs'
  have hj' : j = 0 ∨ j = 1 := by omega
  rcases hj' with h | h <;> subst h <;> simp [exOracle] at hs' <;> obtain ⟨h1, _⟩ := hs' <;> subst h1 <;> decide

example : assetPrice exOracle "0xdac1_0x6" = some (300000000, 8) := by decide
example : assetPrice exOracle "0xdac1_0x65" = some (1, 0) := by decide
example : assetPrice exOracle "0xdac1_0x651" = none := by decide
/-- 80 tokens (6 decimals) of the asset on chain 0x6 are worth 240 USD -/
example :
    (updateVotingPower { entries := [("avs", [("op", { self := 0, total := 0, active := 0 })])], avsVal := [] } "avs"
      (avsInOf exOracle true (some [("0xdac1_0x6", 6)]) (some 0)
        [("op", [("0xdac1_0x6", { totalAmount := 80000000, totalShare := 80000000 * 10 ^ 18, operatorShare := 0 })])])).entries
      = [("avs", [("op", { self := 0, total := 240 * 10 ^ 18, active := 240 * 10 ^ 18 })])] := by decide

/-! ### a substring test instead of element equality breaks the clause -/

/-- `strings.Contains(hay, needle)` on characters -/
def containsChars : List Char → List Char → Bool
  | [], needle => needle.isEmpty
  | c :: rest, needle => needle.isPrefixOf (c :: rest) || containsChars rest needle

/-- the lookup with `strings.Contains(token.AssetID, assetID)` as the test -/
def tokenIdFromSubstring (tokens : List String) (a : String) : Nat :=
  tokenIdFromWith (fun t x => containsChars t.toList x.toList) a 0 tokens

/-- The clause "the recorded value uses the latest price of the token the asset is bound to", stated for
an arbitrary lookup: whenever the asset is bound to `t`, the lookup returns `t`. -/
def C05_lookup_finds_bound_token (lookup : List String → String → Nat) : Prop :=
  ∀ (o : OracleSt) (a : String) (t : Nat), BoundTo o a t → lookup (o.toks.map (·.1)) a = t

/-- the code's lookup satisfies it … -/
theorem C05_lookup_finds_bound_token_holds : C05_lookup_finds_bound_token tokenIdFrom :=
  fun o a t h => C05_bound_token_is_found o a t h

/-- … a substring test does not: the asset on chain 0x6 is bound to token 2 and would be priced with
token 1 (the asset on chain 0x65), 80 USD instead of 240 -/
theorem C05_substring_lookup_misprices : ¬ C05_lookup_finds_bound_token tokenIdFromSubstring := by
  intro h
  have := h exOracle "0xdac1_0x6" 2 C05_example_asset_is_bound
  revert this
  decide

end ExoVerif.VP
