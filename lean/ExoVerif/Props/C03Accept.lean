import ExoVerif.Props.C02Lists
import ExoVerif.Props.C03
import ExoVerif.Proofs.LedgerAccept
/-!
# C03, first sentence — an undelegation within the staker's position is always accepted

"A request to undelegate any positive amount within the staker's current position is always
accepted, whatever the operator's opt-in, key, jail or slash state, and creates exactly one pending
record."

The *position* of staker `st` in pool (o, a) is what `TokensFromShares` says its shares are worth:
`tokensFromShares d.share p.totalShare p.amount = .ok pos`. `C03_undelegation_always_accepted`: in every
state of the C02 invariant (`C02Full`: share sums, self-share sums, exact staker lists,
TotalAmount ≤ TotalShare.raw, amount 0 ⇒ shares 0 — all shown preserved by every operation, slashes
included, in `Props/C02Lists.lean`) a request `undelegate st a o x` with `0 < x ≤ pos` to a registered
operator returns `.ok`. No guard on the path can fire:
  * ValidateUndelegationAmount: ⌊TotalShare·x/TotalAmount⌋ ≤ the staker's share because
    x·TotalShare ≤ share·TotalAmount (floor of the position); the share taken is ≥ x ≥ 1 raw unit by
    `PriceInv`; TotalAmount ≠ 0 because the position is positive;
  * RemoveShareFromOperator: share ≤ TotalShare (`ShareInv` + non-negative shares); the tokens removed are
    between 0 and TotalAmount; if the staker is associated with the operator, share ≤ OperatorShare
    (`OpShareInv`);
  * UpdateStakerAssetState / UpdateDelegationState only add non-negative amounts or subtract the share
    just bounded;
  * DeleteStakerForOperator (run when the share reaches 0) finds the list key because a non-zero share
    holder is listed (`ListSup`);
  * SetUndelegationRecords: the completion height is never in the past.
The model has no opt-in / consensus-key / jail state on this path at all (x/delegation's UndelegateFrom
does not read them), and slashes are covered because `C02Full` survives them. Nothing beyond `C02Full`
is assumed about the state — in particular the non-negativity invariant `NN` of C01 is not needed: the
non-negativity used (shares, pool amounts) is already part of `C02Full`.
-/
namespace ExoVerif.Ledger
open ExoVerif ExoVerif.KV

/-- **C03, acceptance**: a request to undelegate `0 < x ≤ position` from a registered operator is
accepted in every state of the C02 invariant. -/
theorem C03_undelegation_always_accepted (s : L) (st : SID) (a : AID) (o : OID) (x : Int) (n : Nat)
    (hash : String) (hi : C02Full s) (hop : s.operators.contains o = true) (hx : 0 < x)
    {d : DelegRow} {p : Pool} (hd : find? s.deleg (st, a, o) = some d) (hp : find? s.pools (o, a) = some p)
    {pos : Int} (hpos : tokensFromShares d.share p.totalShare p.amount = .ok pos) (hle : x ≤ pos) :
    ∃ s', undelegate s st a o x n hash = .ok s' := by
  have hs := hi.exact.lists.sums
  have hsh : 0 ≤ d.share.raw := hs.shNonneg _ _ hd
  have hamt : 0 ≤ p.amount := hs.amtNonneg _ _ hp
  obtain ⟨ha, _, hdpos, hdT, hxT⟩ := position_pos hsh hamt hpos hx hle
  have hprice : p.amount ≤ p.totalShare.raw := by
    have := hi.exact.price o a
    unfold poolShare at this
    rw [getD_of_find _ _ _ _ hp] at this; exact this
  obtain ⟨c, hv, hc0, hcd⟩ := validate_ok hd hp hx ha hprice hxT
  refine undelegate_accepts n hash hop hx hv ?_
  refine removeShare_accepts hd hp hc0 hcd hdT hamt (fun hassoc => share_le_opShare hs hd hp hassoc) ?_
  intro hne
  apply hi.exact.lists.slist.sup
  unfold shareOf; rw [getD_of_find _ _ _ _ hd]; exact hne

/-- … and the accepted request creates exactly one pending record (right staker/asset/operator,
amount = what left the pool, completion height = now + unbonding), touching no other record — under
the record-store invariant and the nonce discipline of `C03_undelegate_creates_one_record`. -/
theorem C03_undelegation_accepted_creates_one_record (s : L) (st : SID) (a : AID) (o : OID) (x : Int)
    (n : Nat) (hash : String) (hi : C02Full s) (hr : RecInv s) (hf : FreshNonce s n)
    (hop : s.operators.contains o = true) (hx : 0 < x)
    {d : DelegRow} {p : Pool} (hd : find? s.deleg (st, a, o) = some d) (hp : find? s.pools (o, a) = some p)
    {pos : Int} (hpos : tokensFromShares d.share p.totalShare p.amount = .ok pos) (hle : x ≤ pos) :
    ∃ s', undelegate s st a o x n hash = .ok s' ∧ RecInv s' ∧ C02Full s' ∧
      ∃ r : URec, r.staker = st ∧ r.asset = a ∧ r.op = o ∧ r.nonce = n ∧ r.hash = hash ∧
        r.blockNumber = s.height ∧ r.completeBlock = s.height + s.unbonding ∧ r.actual = r.amount ∧
        find? s'.recs r.key = some r ∧ find? s.recs r.key = none ∧
        (∀ k, k ≠ r.key → find? s'.recs k = find? s.recs k) := by
  obtain ⟨s', h⟩ := C03_undelegation_always_accepted s st a o x n hash hi hop hx hd hp hpos hle
  obtain ⟨hr', hrec⟩ := C03_undelegate_creates_one_record hr hf h
  have hfull : C02Full s' := by
    have := C02_full_step s (.undelegate st a o x n hash) hi hf
    simp only [lstep, h] at this
    exact this
  exact ⟨s', h, hr', hfull, hrec⟩

/-- partial: a withdrawal of `0 ≤ x` is accepted when the staker row exists with
`x ≤ withdrawable` and `x ≤ total`, and the asset is registered with a published staking total `t ≥ x`.
Of these premises, only the first (`x ≤ withdrawable`) is the caller's; `x ≤ total` and `x ≤ t` are
NOT yet derived from invariants here: they follow from "withdrawable ≤ total" per staker row and
"Σ stakers' totals ≤ published total" (the C01 ledger equations, `C01_ledger_reachable` /
`pub`), which have not been connected to this statement. -/
theorem C03_withdraw_accepted_partial (s : L) (st : SID) (a : AID) (x : Int) {row : StakerRow} {t : Int}
    (hx : 0 ≤ x) (hrow : find? s.stakers (st, a) = some row) (hw : x ≤ row.withdrawable)
    (htot : x ≤ row.total) (ht : find? s.totals a = some t) (hxt : x ≤ t) :
    ∃ s', withdraw s st a x = .ok s' :=
  withdraw_accepts hx hrow hw htot ht hxt

/-! ## non-vacuity

Two stakers delegate 70 and 30 to o1 (s1 being associated with o1), the operator is slashed by 10 %
(pool 90, shares 100·10¹⁸: a token is no longer worth one share). The reached state satisfies `C02Full`
by `C02_full_reachable`; s1's position is ⌊70·90/100⌋ = 63; an undelegation of the whole position is
accepted (by the theorem, and by evaluation), and so is one of 1; one of 64 is rejected. -/

private def a0 : L :=
  { height := 1, unbonding := 10, totals := [("a", 0)], operators := ["o1"], clientChains := ["0x65"],
    stakers := [], pools := [], deleg := [], slist := [], assoc := [("s1_0x65", "o1")], recs := [], sidx := [],
    pidx := [], holds := [], bal := [], escrow := 0, gDep := [], gWd := [], gSlashed := [] }

private def aops : List LOp :=
  [.deposit "s1_0x65" "a" 100, .deposit "s2_0x65" "a" 50, .delegate "s1_0x65" "a" "o1" 70,
   .delegate "s2_0x65" "a" "o1" 30, .slash "o1" 1 ⟨100000000000000000⟩]

private theorem a0_full : C02Full a0 := by
  refine ⟨⟨⟨⟨?_, ?_, ?_, ?_, ?_, ?_, ?_⟩, ⟨?_, ?_, ?_⟩⟩, ?_, ?_⟩, ?_⟩
  · intro o a; simp [poolShare, shareSum, a0, sumP, getD, zeroPool, Dec.zero]
  · intro o a; simp [poolOpShare, opSum, a0, sumP, getD, zeroPool, Dec.zero]
  · exact List.nodup_nil
  · exact List.nodup_nil
  · unfold NoDup keys; decide
  · intro k d h; cases h
  · intro k d h; cases h
  · intro o a st h; simp [shareOf, a0, getD, zeroDeleg, Dec.zero] at h
  · intro o a; simp [listOf, a0, getD]
  · exact List.nodup_nil
  · intro o a st h; simp [listOf, a0, getD] at h
  · intro o a; simp [poolShare, a0, getD, zeroPool, Dec.zero]
  · intro o a _; simp [poolShare, a0, getD, zeroPool, Dec.zero]

private theorem aops_allOk : AllOk a0 aops := by
  refine ⟨trivial, trivial, trivial, trivial, ⟨by unfold UnitP; decide, ?_, ?_⟩, trivial⟩
  · unfold RecsNonneg; decide
  · unfold PoolsNonneg; decide

private theorem a1_full : C02Full (aops.foldl lstep a0) := C02_full_reachable a0 aops a0_full aops_allOk

-- the figures of the reached state: pool 90 tokens / 100·10¹⁸ shares, s1 holds 70·10¹⁸, position 63
example : find? (aops.foldl lstep a0).pools ("o1", "a")
      = some ⟨90, 0, ⟨100000000000000000000⟩, ⟨70000000000000000000⟩⟩ ∧
    find? (aops.foldl lstep a0).deleg ("s1_0x65", "a", "o1") = some ⟨⟨70000000000000000000⟩, 0⟩ := by decide
example : tokensFromShares ⟨70000000000000000000⟩ ⟨100000000000000000000⟩ 90 = .ok 63 := rfl

/-- the theorem applies: the whole position (63) can be undelegated -/
example : ∃ s', undelegate (aops.foldl lstep a0) "s1_0x65" "a" "o1" 63 1 "0xh" = .ok s' :=
  C03_undelegation_always_accepted (aops.foldl lstep a0) "s1_0x65" "a" "o1" 63 1 "0xh" a1_full (by decide)
    (by decide) (d := ⟨⟨70000000000000000000⟩, 0⟩) (p := ⟨90, 0, ⟨100000000000000000000⟩, ⟨70000000000000000000⟩⟩)
    (by decide) (by decide) (pos := 63) rfl (by decide)

-- … and evaluation agrees: 63 tokens leave the pool, all of s1's shares are taken (the remainder
-- is below the one-token tolerance), s1 is unlisted, the self-share drops to 0; 64 is rejected
example : poolOf (undelegate (aops.foldl lstep a0) "s1_0x65" "a" "o1" 63 1 "0xh")
      = some ⟨27, 63, ⟨30000000000000000000⟩, ⟨0⟩⟩ := by decide
-- a request for 1 token is accepted too; note the double truncation: ⌊100·10¹⁸/90⌋ = 1.11…·10¹⁸ raw shares
-- are taken and ⌊1.11…·90/100⌋ = 0 tokens leave the pool (the record is created with amount 0)
example : poolOf (undelegate (aops.foldl lstep a0) "s1_0x65" "a" "o1" 1 1 "0xh")
      = some ⟨90, 0, ⟨98888888888888888889⟩, ⟨68888888888888888889⟩⟩ := by decide
example : poolOf (undelegate (aops.foldl lstep a0) "s1_0x65" "a" "o1" 64 1 "0xh") = none := by decide

end ExoVerif.Ledger
