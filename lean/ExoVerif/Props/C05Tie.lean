import ExoVerif.Generated.Kernels
import ExoVerif.Generated.Facts
import ExoVerif.Model.VotingPower
/-!
# C05 tie

* `Gen.calculateUSDValue` and `Gen.tokensFromShares` are regenerated from
  x/operator/keeper/common_func.go and x/delegation/keeper/share.go on every run; the model's
  `usdValue` / `tokensFromShares` are proved equal to them for all inputs.
* UpdateVotingPower, CalculateUSDValueForOperator, IterateOperatorsForAVS, GetOperatorOptedUSDValue,
  the operator epoch hook, GetEpochEndAVSs, GetMultipleAssetsPrices and IterateAssetsForOperator
  contain loops / closures / multi-value assignments outside the translator's subset: they are tied by
  their regenerated statement shapes (any edit breaks the theorem) and by the differential run.
  Model counterparts: shapeUpdateVotingPower ↔ `updateVotingPower`/`updateLoop`;
  shapeCalculateUSDValueForOperator ↔ `opValue`; shapeIterateOperatorsForAVS ↔ `updateLoop` (recursion
  over the stored entries, every entry written back); shapeGetOperatorOptedUSDValue ↔ `getOpted`;
  shapeOperatorAfterEpochEnd + shapeGetEpochEndAVSs ↔ `epochEnd`/`selected`;
  shapeGetMultipleAssetsPrices ↔ the harness-resolved `AssetCfg` list (fallback price 1 / decimal 0).
* Two pointed facts (tools/exofacts/facts_vphook.go): `hookUpdateErrorExits` — what the error branch
  of the per-AVS loop of AfterEpochEnd does (`continue`); the model's loop `hookLoopWith` takes this as
  a parameter and `C05_tie_hook_loop` instantiates it with the regenerated value (with `return` the
  isolation theorem is false: `C05_return_on_error_does_not_isolate`). `selfAmountSource` — the amount
  the self value is computed from is `TokensFromShares(OperatorShare, TotalShare, TotalAmount)`.
-/
namespace ExoVerif.VP
open ExoVerif.Gen

theorem C05_tie_usdValue (amount price adec pdec : Int) :
    (calculateUSDValue amount price adec pdec).raw = usdValue amount price adec pdec := rfl

theorem C05_tie_tokensFromShares (stakerShare totalShare : ExoVerif.Dec) (totalAmount : Int) :
    ExoVerif.Gen.tokensFromShares stakerShare totalShare totalAmount =
      ExoVerif.VP.tokensFromShares stakerShare totalShare totalAmount := rfl

theorem C05_tie_shapeUpdateVotingPower : shapeUpdateVotingPower =
  [
    "assets, err := k.avsKeeper.GetAVSSupportedAssets(ctx, avsAddr)",
    "if err != nil || assets == nil",
    "err = k.DeleteAllOperatorsUSDValueForAVS(ctx, avsAddr)",
    "if err != nil",
    "return err",
    "end if",
    "err = k.DeleteAVSUSDValue(ctx, avsAddr)",
    "if err != nil",
    "return err",
    "end if",
    "return nil",
    "end if",
    "decimals, err := k.assetsKeeper.GetAssetsDecimal(ctx, assets)",
    "if err != nil",
    "return err",
    "end if",
    "prices, err := k.oracleKeeper.GetMultipleAssetsPrices(ctx, assets)",
    "if err != nil",
    "if !errors.Is(err, oracletypes.ErrGetPriceRoundNotFound)",
    "return err",
    "end if",
    "end if",
    "avsVotingPower := sdkmath.LegacyNewDec(0)",
    "minimumSelfDelegation, err := k.avsKeeper.GetAVSMinimumSelfDelegation(ctx, avsAddr)",
    "if err != nil",
    "return err",
    "end if",
    "opFunc := func",
    "*optedUSDValues = operatortypes.OperatorOptedUSDValue{ TotalUSDValue: sdkmath.LegacyNewDec(0), SelfUSDValue: sdkmath.LegacyNewDec(0), ActiveUSDValue: sdkmath.LegacyNewDec(0), }",
    "stakingInfo, err := k.CalculateUSDValueForOperator(ctx, false, operator, assets, decimals, prices)",
    "if err != nil",
    "return err",
    "end if",
    "optedUSDValues.SelfUSDValue = stakingInfo.SelfStaking",
    "optedUSDValues.TotalUSDValue = stakingInfo.Staking",
    "if stakingInfo.SelfStaking.GTE(minimumSelfDelegation)",
    "optedUSDValues.ActiveUSDValue = stakingInfo.Staking",
    "avsVotingPower = avsVotingPower.Add(optedUSDValues.TotalUSDValue)",
    "end if",
    "return nil",
    "end func",
    "cc, writeFunc := ctx.CacheContext()",
    "err = k.IterateOperatorsForAVS(cc, avsAddr, true, opFunc)",
    "if err != nil",
    "return err",
    "end if",
    "err = k.SetAVSUSDValue(cc, avsAddr, avsVotingPower)",
    "if err != nil",
    "return err",
    "end if",
    "writeFunc()",
    "return nil"] := rfl

theorem C05_tie_shapeCalculateUSDValueForOperator : shapeCalculateUSDValueForOperator =
  [
    "var err error",
    "ret := operatortypes.OperatorStakingInfo{ Staking: sdkmath.LegacyNewDec(0), SelfStaking: sdkmath.LegacyNewDec(0), StakingAndWaitUnbonding: sdkmath.LegacyNewDec(0), }",
    "opFuncToIterateAssets := func",
    "var price oracletype.Price",
    "var decimal uint32",
    "if isForSlash",
    "price, err = k.oracleKeeper.GetSpecifiedAssetsPrice(ctx, assetID)",
    "if err != nil",
    "if !errors.Is(err, oracletype.ErrGetPriceRoundNotFound)",
    "return err",
    "end if",
    "end if",
    "assetInfo, err := k.assetsKeeper.GetStakingAssetInfo(ctx, assetID)",
    "if err != nil",
    "return err",
    "end if",
    "decimal = assetInfo.AssetBasicInfo.Decimals",
    "ret.StakingAndWaitUnbonding = ret.StakingAndWaitUnbonding.Add(CalculateUSDValue(state.TotalAmount.Add(state.PendingUndelegationAmount), price.Value, decimal, price.Decimal))",
    "else",
    "if prices == nil",
    "return errorsmod.Wrap(operatortypes.ErrValueIsNilOrZero, \"CalculateUSDValueForOperator prices map is nil\")",
    "end if",
    "price, ok := prices[assetID]",
    "if !ok",
    "return errorsmod.Wrap(operatortypes.ErrKeyNotExistInMap, \"CalculateUSDValueForOperator map: prices, key: assetID\")",
    "end if",
    "decimal, ok := decimals[assetID]",
    "if !ok",
    "return errorsmod.Wrap(operatortypes.ErrKeyNotExistInMap, \"CalculateUSDValueForOperator map: decimals, key: assetID\")",
    "end if",
    "ret.Staking = ret.Staking.Add(CalculateUSDValue(state.TotalAmount, price.Value, decimal, price.Decimal))",
    "selfAmount, err := delegationkeeper.TokensFromShares(state.OperatorShare, state.TotalShare, state.TotalAmount)",
    "if err != nil",
    "return err",
    "end if",
    "ret.SelfStaking = ret.SelfStaking.Add(CalculateUSDValue(selfAmount, price.Value, decimal, price.Decimal))",
    "end if",
    "return nil",
    "end func",
    "err = k.assetsKeeper.IterateAssetsForOperator(ctx, false, operator, assetsFilter, opFuncToIterateAssets)",
    "if err != nil",
    "return ret, err",
    "end if",
    "return ret, nil"] := rfl

theorem C05_tie_shapeIterateOperatorsForAVS : shapeIterateOperatorsForAVS =
  [
    "store := prefix.NewStore(ctx.KVStore(k.storeKey), operatortypes.KeyPrefixUSDValueForOperator)",
    "iterator := sdk.KVStorePrefixIterator(store, operatortypes.IterateOperatorsForAVSPrefix(avsAddr))",
    "for iterator.Valid()",
    "keys, err := assetstype.ParseJoinedKey(iterator.Key())",
    "if err != nil",
    "return err",
    "end if",
    "var optedUSDValues operatortypes.OperatorOptedUSDValue",
    "k.cdc.MustUnmarshal(iterator.Value(), &optedUSDValues)",
    "err = opFunc(keys[1], &optedUSDValues)",
    "if err != nil",
    "return err",
    "end if",
    "if isUpdate",
    "bz := k.cdc.MustMarshal(&optedUSDValues)",
    "store.Set(iterator.Key(), bz)",
    "end if",
    "end for",
    "return nil"] := rfl

theorem C05_tie_shapeGetOperatorOptedUSDValue : shapeGetOperatorOptedUSDValue =
  [
    "if !k.IsOptedIn(ctx, operatorAddr, avsAddr)",
    "return operatortypes.OperatorOptedUSDValue{ SelfUSDValue: sdkmath.LegacyNewDec(0), TotalUSDValue: sdkmath.LegacyNewDec(0), ActiveUSDValue: sdkmath.LegacyNewDec(0), }, nil",
    "end if",
    "store := prefix.NewStore(ctx.KVStore(k.storeKey), operatortypes.KeyPrefixUSDValueForOperator)",
    "var ret operatortypes.OperatorOptedUSDValue",
    "var key []byte",
    "if operatorAddr == \"\"",
    "return operatortypes.OperatorOptedUSDValue{}, errorsmod.Wrap(operatortypes.ErrParameterInvalid, \"GetOperatorOptedUSDValue the operatorAddr is empty\")",
    "end if",
    "key = assetstype.GetJoinedStoreKey(avsAddr, operatorAddr)",
    "value := store.Get(key)",
    "if value == nil",
    "return operatortypes.OperatorOptedUSDValue{}, errorsmod.Wrap(operatortypes.ErrNoKeyInTheStore, fmt.Sprintf(\"GetOperatorOptedUSDValue: key is %s\", key))",
    "end if",
    "k.cdc.MustUnmarshal(value, &ret)",
    "return ret, nil"] := rfl

theorem C05_tie_shapeOperatorAfterEpochEnd : shapeOperatorAfterEpochEnd =
  [
    "avsList := wrapper.keeper.avsKeeper.GetEpochEndAVSs(ctx, epochIdentifier, epochNumber)",
    "range avsList key _ value avs",
    "err := wrapper.keeper.UpdateVotingPower(ctx, avs)",
    "if err != nil",
    "continue",
    "end if",
    "end range"] := rfl

theorem C05_tie_shapeGetEpochEndAVSs : shapeGetEpochEndAVSs =
  [
    "var avsList []string",
    "k.IterateAVSInfo(…)",
    "if epochIdentifier == avsInfo.EpochIdentifier && endingEpochNumber >= int64(avsInfo.StartingEpoch)-1",
    "avsList = append(avsList, avsInfo.AvsAddress)",
    "end if",
    "return false",
    "end call",
    "return avsList"] := rfl

theorem C05_tie_shapeGetMultipleAssetsPrices : shapeGetMultipleAssetsPrices =
  [
    "var p types.Params",
    "if agc != nil",
    "p = agc.GetParams()",
    "else",
    "p = k.GetParams(ctx)",
    "end if",
    "prices = make(map[string]types.Price)",
    "info := \"\"",
    "range assets key assetID",
    "if assetID == assetstypes.ExocoreAssetID",
    "prices[assetID] = types.Price{ Value: sdkmath.NewInt(types.DefaultPriceValue), Decimal: types.DefaultPriceDecimal, }",
    "continue",
    "end if",
    "tokenID := p.GetTokenIDFromAssetID(assetID)",
    "if tokenID == 0",
    "err = types.ErrGetPriceAssetNotFound.Wrapf(\"assetID does not exist in oracle %s\", assetID)",
    "prices = nil",
    "break",
    "end if",
    "price, found := k.GetPriceTRLatest(ctx, uint64(tokenID))",
    "if !found",
    "info = info + assetID + \" \"",
    "prices[assetID] = types.Price{ Value: sdkmath.NewInt(types.DefaultPriceValue), Decimal: types.DefaultPriceDecimal, }",
    "else",
    "v, _ := sdkmath.NewIntFromString(price.Price)",
    "if v.IsNil() || v.LTE(sdkmath.ZeroInt())",
    "info = info + assetID + \" \"",
    "prices[assetID] = types.Price{ Value: sdkmath.NewInt(types.DefaultPriceValue), Decimal: types.DefaultPriceDecimal, }",
    "continue",
    "end if",
    "prices[assetID] = types.Price{ Value: v, Decimal: uint8(price.Decimal), }",
    "end if",
    "end range",
    "if err == nil && len(info) > 0",
    "err = types.ErrGetPriceRoundNotFound.Wrapf(\"no valid price for assetIDs=%s\", info)",
    "end if",
    "return prices, err"] := rfl

theorem C05_tie_shapeIterateAssetsForOperator : shapeIterateAssetsForOperator =
  [
    "store := prefix.NewStore(ctx.KVStore(k.storeKey), assetstype.KeyPrefixOperatorAssetInfos)",
    "iterator := sdk.KVStorePrefixIterator(store, []byte(operator))",
    "for iterator.Valid()",
    "var amounts assetstype.OperatorAssetInfo",
    "k.cdc.MustUnmarshal(iterator.Value(), &amounts)",
    "keys, err := assetstype.ParseJoinedKey(iterator.Key())",
    "if err != nil",
    "return err",
    "end if",
    "if assetsFilter != nil",
    "if _, ok := assetsFilter[keys[1]]; !ok",
    "continue",
    "end if",
    "end if",
    "err = opFunc(keys[1], &amounts)",
    "if err != nil",
    "return err",
    "end if",
    "if isUpdate",
    "bz := k.cdc.MustMarshal(&amounts)",
    "store.Set(iterator.Key(), bz)",
    "end if",
    "end for",
    "return nil"] := rfl

/-- the loop action the regenerated error branch of AfterEpochEnd stands for -/
def errActionOf : List String → Option ErrAction
  | ["continue"] => some .next
  | ["end-of-body"] => some .next          -- nothing after the error check: the next AVS follows
  | ["return"] => some .stop
  | ["break"] => some .stop
  | _ => none

/-- the branch taken when UpdateVotingPower fails for one AVS `continue`s with the next AVS of the
list (regenerated from impl_epoch_hook.go on every run) -/
theorem C05_tie_hook_error_branch : hookUpdateErrorExits = ["continue"] := rfl

/-- the model's epoch-hook loop IS the generic loop instantiated with the regenerated error branch -/
theorem C05_tie_hook_loop (inputs : List (String × AvsIn)) (s : St) (l : List String) :
    (errActionOf hookUpdateErrorExits).map (fun act => hookLoopWith act inputs s l) = some (hookLoop inputs s l) := rfl

/-- the self amount of CalculateUSDValueForOperator is the token equivalent of the operator's share
(model: `opValue` calls `tokensFromShares ⟨operatorShare⟩ ⟨totalShare⟩ totalAmount`, itself tied by
`C05_tie_tokensFromShares`) -/
theorem C05_tie_selfAmountSource : selfAmountSource =
    "delegationkeeper.TokensFromShares(state.OperatorShare, state.TotalShare, state.TotalAmount)" := rfl

def idxOf (x : String) : List String → Nat
  | [] => 0
  | y :: rest => if y == x then 0 else idxOf x rest + 1

/-- the operator hook (voting-power update) runs before the dogfood hook (validator-set
computation) at every epoch end -/
theorem C05_tie_hook_order :
    idxOf "OperatorKeeper" epochHookOrder < idxOf "StakingKeeper" epochHookOrder ∧
    idxOf "StakingKeeper" epochHookOrder < epochHookOrder.length := by decide

end ExoVerif.VP
