import ExoVerif.Generated.Kernels
import ExoVerif.Generated.Facts
import ExoVerif.Proofs.Epochs
/-!
# C15 tie: the model's `tick` *is* the Go closure of x/epochs/keeper/abci.go BeginBlocker

`ExoVerif.Gen.epochsTick` and `ExoVerif.Gen.epochInfoValidate` are regenerated from the Go
source on every run. These theorems state that the hand-written model the C15 theorems are
about computes exactly what the regenerated code computes, for every input. A change of a
comparison (`After` → `!Before`), of an assignment, of the order "hook before increment", or
dropping the store write changes the generated definition and breaks these proofs.
-/
namespace ExoVerif.Epochs
open ExoVerif.Gen

theorem C15_tie_validate (e : EpochInfo) :
    valid e = (match epochInfoValidate e with | .ok _ => true | .error _ => false) := by
  unfold valid epochInfoValidate
  by_cases h1 : e.identifier = "" <;> by_cases h2 : e.duration ≤ 0 <;>
    by_cases h3 : e.currentEpoch < 0 <;> by_cases h4 : e.currentEpochStartHeight < 0 <;>
    simp [h1, h2, h3, h4] <;> omega

theorem C15_tie_tick (e : EpochInfo) (bt h : Int) : epochsTick e bt h = tick e bt h := by
  unfold epochsTick tick
  rw [C15_tie_validate]
  cases hv : epochInfoValidate e <;> simp only []
  · simp
  · by_cases h1 : bt < e.startTime
    · simp [h1]
    · cases hs : e.epochCountingStarted <;>
        by_cases h2 : e.currentEpochStartTime + e.duration < bt <;>
        simp [h1, h2, hs, startFirst, startNext]

/-- the subscriber order used by the model is the registration order in app/app.go -/
theorem C15_tie_hook_order :
    epochHookOrder = ["DistrKeeper", "OperatorKeeper", "StakingKeeper", "ExomintKeeper", "AVSManagerKeeper"] := by
  decide

end ExoVerif.Epochs
