import ExoVerif.Generated.Facts
import ExoVerif.Model.VPOracle
/-!
# C05 tie — which token prices an asset

`Params.GetTokenIDFromAssetID` (two nested loops) and `GetSpecifiedAssetsPrice` are outside the translator's
subset: they are tied by their regenerated statement shapes (any edit breaks the theorem) and by the
differential run, in which the model resolves every price itself from the committed token table.
Model counterparts: shapeGetTokenIDFromAssetID ↔ `tokenIdFrom` (`range p.Tokens` ↔ recursion over the table with
the position, `strings.Split(token.AssetID, ",")` ↔ `assetList`, `aID == assetID` ↔ `List.contains`, first hit
returned, 0 without one); shapeGetSpecifiedAssetsPrice and shapeGetMultipleAssetsPrices (Props/C05Tie.lean) ↔
`assetPrice` / `roundPrice`; priceBindingConsts ↔ `defaultPrice`, `exoAssetID`.
-/
namespace ExoVerif.VP
open ExoVerif.Gen

theorem C05_tie_shapeGetTokenIDFromAssetID : shapeGetTokenIDFromAssetID =
  [
    "range p.Tokens key id value token",
    "assetIDs := strings.Split(token.AssetID, \",\")",
    "range assetIDs key _ value aID",
    "if aID == assetID",
    "return id",
    "end if",
    "end range",
    "end range",
    "return 0"] := rfl

theorem C05_tie_shapeGetSpecifiedAssetsPrice : shapeGetSpecifiedAssetsPrice =
  [
    "if assetID == assetstypes.ExocoreAssetID",
    "return types.Price{ Value: sdkmath.NewInt(types.DefaultPriceValue), Decimal: types.DefaultPriceDecimal, }, nil",
    "end if",
    "var p types.Params",
    "if agc != nil",
    "p = agc.GetParams()",
    "else",
    "p = k.GetParams(ctx)",
    "end if",
    "tokenID := p.GetTokenIDFromAssetID(assetID)",
    "if tokenID == 0",
    "return types.Price{}, types.ErrGetPriceAssetNotFound.Wrapf(\"assetID does not exist in oracle %s\", assetID)",
    "end if",
    "price, found := k.GetPriceTRLatest(ctx, uint64(tokenID))",
    "if !found",
    "return types.Price{ Value: sdkmath.NewInt(types.DefaultPriceValue), Decimal: types.DefaultPriceDecimal, }, types.ErrGetPriceRoundNotFound.Wrapf(\"no valid price for assetID=%s\", assetID)",
    "end if",
    "v, _ := sdkmath.NewIntFromString(price.Price)",
    "if v.IsNil() || v.LTE(sdkmath.ZeroInt())",
    "return types.Price{ Value: sdkmath.NewInt(types.DefaultPriceValue), Decimal: types.DefaultPriceDecimal, }, types.ErrGetPriceRoundNotFound.Wrapf(\"no valid price for assetID=%s\", assetID)",
    "end if",
    "return types.Price{ Value: v, Decimal: uint8(price.Decimal), }, nil"] := rfl

/-- the constants the model restates are the code's -/
theorem C05_tie_price_binding_consts : priceBindingConsts =
    ["DefaultPriceValue=" ++ toString defaultPrice.1, "DefaultPriceDecimal=" ++ toString defaultPrice.2,
     "ExocoreAssetID=\"" ++ exoAssetID ++ "\""] := by decide

end ExoVerif.VP
