import ExoVerif.Generated.Facts
import ExoVerif.Props.C08MsgOrder
/-!
# C08 tie: message servers walk repeated fields in message order

`Model/MsgOrder.paramsInMessageOrder` (the builder that does not consult a schedule) is
x/delegation/keeper/msg_server.go: newDelegationParams as long as that function appends to its result
inside a `range` over the slice `baseInfo.PerOperatorAmounts`, and the two handlers walk the resulting
slice. The regenerated facts list every `range` of every message server with the syntactic kind of
its operand: a loop over a map (entries merged in a map first, say) or a new loop changes the list and
breaks these proofs until the site is reviewed.
-/
namespace ExoVerif.MsgOrder
open ExoVerif.Gen

/-- the list handed to DelegateTo / UndelegateFrom is built in message order -/
theorem C08_tie_msg_entry_builder_in_message_order : msgEntryBuilders = [
    "x/delegation/keeper/msg_server.go:newDelegationParams:res<-range baseInfo.PerOperatorAmounts:slice"] := by rfl

/-- every loop of every message server, reviewed: slices of the message (or of a value derived from it
in message order); `abort` = the first failing element decides the result. `response.Logs` is
go-ethereum's `[]*Log` (an external type the syntactic typer leaves undecided). -/
theorem C08_tie_msg_server_loops_reviewed : msgServerEntryLoops = [
    "x/delegation/keeper/msg_server.go:Keeper.DelegateAssetToOperator:delegationParamsList:slice:abort",
    "x/delegation/keeper/msg_server.go:Keeper.UndelegateAssetFromOperator:inputParamsList:slice:abort",
    "x/delegation/keeper/msg_server.go:newDelegationParams:baseInfo.PerOperatorAmounts:slice:all",
    "x/dogfood/keeper/msg_server.go:Keeper.UpdateParams:nextParams.AssetIDs:slice:abort",
    "x/evm/keeper/msg_server.go:Keeper.EthereumTx:response.Logs:?:abort",
    "x/oracle/keeper/msg_server_create_price.go:checkTimestamp:msg.Prices:slice:abort",
    "x/oracle/keeper/msg_server_create_price.go:checkTimestamp:ps.Prices:slice:abort",
    "x/oracle/keeper/msg_server_update_params.go:msgServer.UpdateParams:msg.Params.TokenFeeders:slice:abort"] := by rfl

/-- in particular: no message server ranges over a Go map -/
theorem C08_tie_no_map_range_in_msg_servers : msgServerMapLoops = [] := by rfl

end ExoVerif.MsgOrder
