import ExoVerif.Props.C09Tie
/-!
# C09 tie for the oracle's message entry points

The order of `oracleCreatePrice` / `oracleUpdateParams` (Model/Atomic.lean) is the order of the Go
source, re-read on every run (tools/exofacts/facts_oracle_atomic.go): moving the timestamp check behind
`NewCreatePrice`, filling the aggregator before `checkMsg`, or taking the params UpdateParams edits from
anywhere but a fresh decode of the store changes a generated value and breaks one of these `decide`s.
-/
namespace ExoVerif.Atomic
open ExoVerif.Gen

/-- CreatePrice: `checkTimestamp` comes before the context is even fetched; `NewCreatePrice` — the call
that mutates the aggregator — after it; the store writes and the cache update after that.
NewCreatePrice: `checkMsg` before `FillPrice`; checkMsg: sanity, rule, decimal (round and base block are
inline comparisons between them); FillPrice: worker, `do`, `aggregate`, `seal`; worker.do: `filtrate`
before the aggregator and the calculator are filled; filtrate: the nonce set (`Add`) before `addPSource`.
The model's program lists exactly these steps, checks first. -/
theorem C09_tie_createPrice_order :
    callSeqOracleCreatePrice.filter (· ∈ ["checkTimestamp", "GetAggregatorContext", "NewCreatePrice", "AppendPriceTR", "GrowRoundID",
        "RemoveNonceWithFeederIDForValidators", "RemoveCache", "AddCache"]) =
      ["checkTimestamp", "GetAggregatorContext", "NewCreatePrice", "AppendPriceTR", "GrowRoundID",
       "RemoveNonceWithFeederIDForValidators", "RemoveCache", "AddCache"] ∧
    callSeqOracleNewCreatePrice.filter (· ∈ ["checkMsg", "FillPrice", "sanityCheck", "do", "filtrate"]) = ["checkMsg", "FillPrice"] ∧
    callSeqOracleCheckMsg.filter (· ∈ ["sanityCheck", "CheckRules", "CheckDecimal", "FillPrice", "do", "filtrate", "fillPrice"]) =
      ["sanityCheck", "CheckRules", "CheckDecimal"] ∧
    callSeqOracleFillPrice.filter (· ∈ ["newWorker", "do", "aggregate", "seal", "checkMsg"]) = ["newWorker", "do", "aggregate", "seal"] ∧
    callSeqOracleWorkerDo.filter (· ∈ ["filtrate", "fillPrice", "confirmDSPrice", "aggregate", "seal"]) =
      ["filtrate", "fillPrice", "fillPrice", "confirmDSPrice"] ∧
    callSeqOracleFiltrate.filter (· ∈ ["Add", "addPSource"]) = ["Add", "addPSource"] ∧
    oracleCreatePrice.map stepName =
      ["checkTimestamp", "sanityCheck", "round open", "basedBlock", "CheckRules", "CheckDecimal", "worker.sealed", "filtrate",
       "mem:aggregator.fillPrice", "mem:calculator.fillPrice", "mem:aggregator.confirmDSPrice", "mem:round.status=closed+worker.seal",
       "AppendPriceTR|GrowRoundID", "RemoveNonceWithFeederIDForValidators", "cs.RemoveCache|cs.AddCache"] := by decide

/-- UpdateParams edits `p := ms.GetParams(ctx)` — and Keeper.GetParams unmarshals the stored bytes into
its fresh named result: the value shares no pointer with the aggregator context or the cache, so the
in-place edits of UpdateTokens / UpdateTokenFeeder (they write through `p.Tokens[i]` / `p.TokenFeeders[i]`)
made before a refusal are invisible to the process. Every later value of `p` is the result of a method of
`p` itself. -/
theorem C09_tie_updateParams_base :
    oracleUpdateParamsBase = "ms.GetParams(ctx)" ∧
    oracleUpdateParamsSteps = ["p.AddSources", "p.AddChains", "p.UpdateTokens", "p.AddRules", "p.UpdateMaxPriceCount", "p.UpdateTokenFeeder"] ∧
    oracleGetParamsShape = ["func(ctx sdk.Context) (params types.Params)", "store := ctx.KVStore(k.storeKey)",
      "bz := store.Get(types.ParamsKey)", "if bz != nil { k.cdc.MustUnmarshal(bz, &params) }", "return"] := by decide

/-- UpdateParams: base, the refusing steps, Validate, and only then the store write, the (idempotent)
context fetch and the cache update; the context is not consulted before the store write -/
theorem C09_tie_updateParams_order :
    callSeqOracleUpdateParams.filter (· ∈ ["GetParams", "AddSources", "AddChains", "UpdateTokens", "AddRules", "UpdateMaxPriceCount",
        "UpdateTokenFeeder", "Validate", "SetParams", "GetAggregatorContext", "AddCache", "ResetCaches", "SetParamsForAgc"]) =
      ["GetParams", "AddSources", "AddChains", "UpdateTokens", "AddRules", "UpdateMaxPriceCount", "UpdateTokenFeeder", "Validate",
       "SetParams", "GetAggregatorContext", "AddCache"] ∧
    oracleUpdateParams.map stepName =
      ["authority", "AddSources", "AddChains", "UpdateMaxPriceCount", "UpdateTokenFeeder", "Validate", "SetParams", "cs.AddCache(ItemP)"] := by decide

end ExoVerif.Atomic
