import ExoVerif.Generated.Kernels
import ExoVerif.Generated.Facts
import ExoVerif.Generated.SlashSlices
import ExoVerif.Model.Ledger
/-! # C04 tie -/
namespace ExoVerif.Ledger
open ExoVerif.Gen

/-- the model's `slashFromUndelegation` is SlashFromUndelegation of x/operator/keeper/slash.go -/
theorem C04_tie_slashFromUndelegation (r : URec) (p : Dec) :
    Gen.slashFromUndelegation r p = Ledger.slashFromUndelegation r p := by
  unfold Gen.slashFromUndelegation Ledger.slashFromUndelegation
  by_cases h1 : r.actual = 0 <;> by_cases h2 : r.actual ≤ (Dec.mulInt p r.amount).truncateInt <;>
    simp [h1, h2]

/-- Slash() runs SlashAssets and UpdateOperatorSlashInfo in one cache context and commits after the
slash info was accepted (what `slashOnce` of C04 models; the repaired defect F-04a) -/
theorem C04_tie_slash_commit_order : slashCommitAfterInfo = true := by decide

/-- the model's `slashProportion` (what C04_proportion_in_unit_interval is about) is the proportion
SlashAssets computes: min(1, (power · factor) / value), `value` = StakingAndWaitUnbonding — for all inputs -/
theorem C04_tie_slashProportion (power : Int) (factor value : Dec) :
    Gen.slashNewProportion (Gen.slashUSDValueOf power factor) value = Ledger.slashProportion power factor value := rfl

/-- the per-pool cut and remainder of SlashAssets are the model's `cutPool` -/
theorem C04_tie_poolCut (pl : Pool) (p : Dec) (hl : Bool) :
    (cutPool pl p hl).2 = Gen.slashPoolCut p pl.amount ∧
    (cutPool pl p hl).1.amount = Gen.slashPoolRemaining pl.amount (Gen.slashPoolCut p pl.amount) := by
  unfold cutPool Gen.slashPoolCut Gen.slashPoolRemaining
  simp only []
  split <;> exact ⟨rfl, rfl⟩

/-- pending undelegations are slashed exactly when the infraction height is below the current height
(the model's `if infraction < s.height`) -/
theorem C04_tie_undelegations_condition (inf h : Nat) :
    Gen.slashUndelegationsIf (inf : Int) (h : Int) = decide (inf < h) := by
  unfold Gen.slashUndelegationsIf
  simp

/-- the operator's value for a slash counts each pool's amount plus its unbonding (pending) amount -/
theorem C04_tie_value_includes_unbonding (t pnd : Int) : Gen.slashValueBase t pnd = t + pnd := rfl

end ExoVerif.Ledger
