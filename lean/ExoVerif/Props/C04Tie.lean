import ExoVerif.Generated.Kernels
import ExoVerif.Generated.Facts
import ExoVerif.Model.Ledger
/-! # C04 tie -/
namespace ExoVerif.Ledger
open ExoVerif.Gen

/-- the model's `slashFromUndelegation` is SlashFromUndelegation of x/operator/keeper/slash.go -/
theorem C04_tie_slashFromUndelegation (r : URec) (p : Dec) :
    Gen.slashFromUndelegation r p = Ledger.slashFromUndelegation r p := by
  unfold Gen.slashFromUndelegation Ledger.slashFromUndelegation
  by_cases h1 : r.actual = 0 <;> by_cases h2 : r.actual ≤ (Dec.mulInt p r.amount).truncateInt <;>
    simp [h1, h2]

/-- Slash() runs SlashAssets and UpdateOperatorSlashInfo in one cache context and commits after the
slash info was accepted (what `slashOnce` of C04 models; the repaired defect F-04a) -/
theorem C04_tie_slash_commit_order : slashCommitAfterInfo = true := by decide

end ExoVerif.Ledger
