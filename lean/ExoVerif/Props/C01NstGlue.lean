import ExoVerif.Model.NstGlue
import ExoVerif.Props.C01Nst
/-!
# C01 — where a native-restaking balance adjustment comes from

`C01Nst` proves what an adjustment of a GIVEN amount does to the ledger. This file is about the amount: the glue
between the assets precompile (depositNST / withdrawNST), the oracle's per-staker record (validator list and
effective balance on record) and the balance report of an oracle round (`Model/NstGlue.lean`, replayed op by op
against the real precompile and keepers by the correspondence run `nstglue`; the sign handed to the oracle for a
withdrawal is pinned to the Go source by `C01_tie_nst_withdraw_sign`).

* `C01_nstglue_withdrawal_record` — a withdrawal never raises the balance on record and never adds a validator;
  a deposit raises the record by what it counts for (`C01_nstglue_deposit_record`); nobody else's record moves;
* `C01_nstglue_depositNST_value` / `C01_nstglue_withdrawNST_value` — the ledger value moves by exactly +x / −x;
* `C01_nstglue_round_books_report` — for each listed staker a round books, through `nstUpdate`, exactly
  10^decimals × (reported effective balance − balance on record), the reported balance being positive and at most
  32 per validator on record, and then records the reported balance; `C01_nstglue_round_value_up`: a positive
  difference adds exactly that much value (only a positive adjustment increases the sum);
* `C01_nstglue_round_idempotent` / `C01_nstglue_repeat_books_nothing` — a report that states the balance on record
  books nothing: value appears only when a report says so;
* `C01_nstglue_record_positive` — every stored record holds a positive balance, over all histories.
-/
namespace ExoVerif.NstGlue
open ExoVerif ExoVerif.KV ExoVerif.Ledger

theorem unitOf_pos (g : G) : 0 < unitOf g := by
  unfold unitOf; exact Int.pow_pos (by decide)

theorem effUnits_nonpos {amount unit : Int} (hu : 0 < unit) (ha : amount ≤ 0) : effUnits amount unit ≤ 0 := by
  unfold effUnits maxEff
  split
  · rename_i h; omega
  · have h1 : amount = -(-amount) := by omega
    rw [h1, Int.neg_tdiv]
    have := Int.tdiv_nonneg (a := -amount) (b := unit) (by omega) (by omega)
    omega

theorem effUnits_le_max (amount unit : Int) (hu : 0 < unit) : effUnits amount unit ≤ maxEff := by
  unfold effUnits
  split
  · exact Int.le_refl _
  · rename_i h
    unfold maxEff at *
    by_cases ha : 0 ≤ amount
    · rw [Int.tdiv_eq_ediv_of_nonneg ha]
      have : amount / unit < 32 := Int.ediv_lt_of_lt_mul hu (by omega)
      omega
    · have := effUnits_nonpos (amount := amount) hu (by omega)
      unfold effUnits maxEff at this
      rw [if_neg h] at this
      omega

/-- the oracle's records form a map (one record per staker) -/
def RecMap (g : G) : Prop := NoDup g.recs
/-- every stored record holds a positive balance -/
def RecPos (g : G) : Prop := ∀ a r, find? g.recs a = some r → 0 < r.bal

/-- UpdateNSTValidatorListForStaker: the ledger is not touched, nobody else's record moves, and the staker's
record is stored iff its new balance `old + counted amount` is positive -/
theorem updateValidatorList_spec {g g' : G} {addr pk : String} {amount : Int} (hm : RecMap g)
    (h : updateValidatorList g addr pk amount = .ok g') :
    g'.led = g.led ∧ g'.asset = g.asset ∧ g'.dec = g.dec ∧ g'.chain = g.chain ∧ RecMap g' ∧
    (∀ a, a ≠ addr → find? g'.recs a = find? g.recs a) ∧
    (∀ r', find? g'.recs addr = some r' →
        r'.bal = balOf g addr + effUnits amount (unitOf g) ∧ 0 < r'.bal ∧
        r'.vals = (if 0 < amount then valsOf g addr ++ [pk] else (valsOf g addr).erase pk)) ∧
    (balOf g addr + effUnits amount (unitOf g) ≤ 0 → find? g'.recs addr = none) := by
  have key : ∀ recs', recs' = (if balOf g addr + effUnits amount (unitOf g) ≤ 0 then erase g.recs addr
        else set g.recs addr ⟨if 0 < amount then valsOf g addr ++ [pk] else (valsOf g addr).erase pk,
                              balOf g addr + effUnits amount (unitOf g)⟩) →
      NoDup recs' ∧ (∀ a, a ≠ addr → find? recs' a = find? g.recs a) ∧
      (∀ r', find? recs' addr = some r' →
        r'.bal = balOf g addr + effUnits amount (unitOf g) ∧ 0 < r'.bal ∧
        r'.vals = (if 0 < amount then valsOf g addr ++ [pk] else (valsOf g addr).erase pk)) ∧
      (balOf g addr + effUnits amount (unitOf g) ≤ 0 → find? recs' addr = none) := by
    intro recs' he
    by_cases hb : balOf g addr + effUnits amount (unitOf g) ≤ 0
    · rw [if_pos hb] at he; subst he
      refine ⟨noDup_erase _ _ hm, fun a ha => find?_erase_other _ _ _ ha, ?_, fun _ => find?_erase_same _ _ hm⟩
      intro r' hr; rw [find?_erase_same _ _ hm] at hr; cases hr
    · rw [if_neg hb] at he; subst he
      refine ⟨noDup_set _ _ _ hm, fun a ha => find?_set_other _ _ _ _ ha, ?_, fun h => absurd h hb⟩
      intro r' hr
      rw [find?_set_same] at hr
      injection hr with hr; subst hr
      exact ⟨rfl, by simp only; omega, rfl⟩
  unfold updateValidatorList at h
  simp only at h
  split at h
  · injection h with h; subst h
    obtain ⟨k1, k2, k3, k4⟩ := key _ rfl
    exact ⟨rfl, rfl, rfl, rfl, k1, k2, k3, k4⟩
  · split at h
    · rename_i hpos
      injection h with h; subst h
      obtain ⟨k1, k2, k3, k4⟩ := key _ rfl
      simp only [if_pos hpos] at k1 k2 k3 k4
      refine ⟨rfl, rfl, rfl, rfl, k1, k2, ?_, k4⟩
      intro r' hr
      have := k3 r' hr
      simpa only [if_pos hpos] using this
    · cases h

/-- **a withdrawal never raises the balance on record and never adds a validator** (and nobody else's record
moves): whatever is later booked for this staker is measured against a record that went DOWN by the amount
withdrawn. (`amount` is what UpdateNSTValidatorListForStaker receives: `-x` for a withdrawal of `x`.) -/
theorem C01_nstglue_withdrawal_record {g g' : G} {addr pk : String} {amount : Int} (hm : RecMap g)
    (ha : amount ≤ 0) (h : updateValidatorList g addr pk amount = .ok g') :
    (∀ r', find? g'.recs addr = some r' → r'.bal ≤ balOf g addr ∧ r'.vals.length ≤ (valsOf g addr).length) ∧
    (∀ a, a ≠ addr → find? g'.recs a = find? g.recs a) ∧ g'.led = g.led := by
  obtain ⟨hl, _, _, _, _, ho, hr, _⟩ := updateValidatorList_spec hm h
  refine ⟨fun r' h' => ?_, ho, hl⟩
  obtain ⟨hb, _, hv⟩ := hr r' h'
  have he := effUnits_nonpos (unitOf_pos g) ha
  refine ⟨by omega, ?_⟩
  rw [hv, if_neg (by omega)]
  exact List.length_erase_le

/-- a deposit raises the record by what the amount counts for (at most 32 per validator) and adds exactly the
deposited validator -/
theorem C01_nstglue_deposit_record {g g' : G} {addr pk : String} {amount : Int} (hm : RecMap g)
    (ha : 0 < amount) (h : updateValidatorList g addr pk amount = .ok g') :
    (∀ r', find? g'.recs addr = some r' →
      r'.bal = balOf g addr + effUnits amount (unitOf g) ∧ r'.bal ≤ balOf g addr + maxEff ∧
      r'.vals = valsOf g addr ++ [pk]) ∧
    (∀ a, a ≠ addr → find? g'.recs a = find? g.recs a) ∧ g'.led = g.led := by
  obtain ⟨hl, _, _, _, _, ho, hr, _⟩ := updateValidatorList_spec hm h
  refine ⟨fun r' h' => ?_, ho, hl⟩
  obtain ⟨hb, _, hv⟩ := hr r' h'
  have := effUnits_le_max amount (unitOf g) (unitOf_pos g)
  refine ⟨hb, by omega, ?_⟩
  rw [hv, if_pos ha]

/-- depositNST through the precompile: the ledger value of the asset rises by exactly `x` -/
theorem C01_nstglue_depositNST_value {g g' : G} {addr pk : String} {x : Int} (hm : RecMap g)
    (h : depositNST g addr pk x = .ok g') (a : AID) :
    value g'.led a = value g.led a + (if g.asset = a then x else 0) ∧ 0 < x ∧ RecMap g' := by
  unfold depositNST at h
  split at h
  · cases h
  · rename_i hx
    split at h
    · cases h
    · rename_i led hd
      have hm' : RecMap { g with led := led } := hm
      obtain ⟨hl, _, _, _, hm2, _⟩ := updateValidatorList_spec hm' h
      have := (C01_deposit_value a hd).1
      refine ⟨by rw [hl]; exact this, by simpa using hx, hm2⟩

/-- withdrawNST through the precompile: the ledger value falls by exactly `x`, and the staker's record (if it
still has one) holds less than before -/
theorem C01_nstglue_withdrawNST_value {g g' : G} {addr pk : String} {x : Int} (hm : RecMap g)
    (h : withdrawNST g addr pk x = .ok g') (a : AID) :
    value g'.led a = value g.led a - (if g.asset = a then x else 0) ∧ 0 < x ∧ RecMap g' ∧
    (∀ r', find? g'.recs addr = some r' → r'.bal ≤ balOf g addr ∧ r'.vals.length ≤ (valsOf g addr).length) := by
  unfold withdrawNST at h
  split at h
  · cases h
  · rename_i hx
    split at h
    · cases h
    · rename_i led hd
      have hm' : RecMap { g with led := led } := hm
      have hx' : 0 < x := by simpa using hx
      obtain ⟨hl, _, _, _, hm2, _⟩ := updateValidatorList_spec hm' h
      have hw := C01_nstglue_withdrawal_record hm' (by omega) h
      have := (C01_withdraw_value a hd).1
      exact ⟨by rw [hl]; exact this, hx', hm2, hw.1⟩

/-- **a round books exactly the report**: for one listed staker, either the reported effective balance
(32 per validator on record + change, positive and at most 32 per validator) equals the balance on record and
nothing at all changes, or `nstUpdate` runs with exactly 10^decimals × (reported − recorded) and the record
takes the reported balance. -/
theorem C01_nstglue_round_books_report {g g' : G} {addr : String} {c : Int}
    (h : roundStaker g addr c = .ok g') :
    ∃ r, find? g.recs addr = some r ∧
      0 < maxEff * r.vals.length + c ∧ maxEff * r.vals.length + c ≤ maxEff * r.vals.length ∧
      ((maxEff * r.vals.length + c = r.bal ∧ g' = g) ∨
       (maxEff * r.vals.length + c ≠ r.bal ∧
        nstUpdate g.led (sidOf g addr) g.asset ((maxEff * r.vals.length + c - r.bal) * unitOf g) = .ok g'.led ∧
        g'.recs = set g.recs addr ⟨r.vals, maxEff * r.vals.length + c⟩ ∧ g'.list = g.list ∧ g'.asset = g.asset ∧
        g'.dec = g.dec ∧ g'.chain = g.chain)) := by
  unfold roundStaker at h
  split at h
  · cases h
  · rename_i r hr
    simp only at h
    split at h
    · cases h
    · rename_i hb
      refine ⟨r, hr, by omega, by omega, ?_⟩
      split at h
      · rename_i h0
        injection h with h; subst h
        exact Or.inl ⟨by omega, rfl⟩
      · rename_i h0
        split at h
        · cases h
        · rename_i led hu
          injection h with h; subst h
          exact Or.inr ⟨by omega, hu, rfl, rfl, rfl, rfl, rfl⟩

/-- only a POSITIVE difference between report and record increases the ledger value, by exactly that difference -/
theorem C01_nstglue_round_value_up {g g' : G} {addr : String} {c : Int} (h : roundStaker g addr c = .ok g')
    (r : NRec) (hr : find? g.recs addr = some r) (hup : r.bal < maxEff * r.vals.length + c) (a : AID) :
    value g'.led a = value g.led a + (if g.asset = a then (maxEff * r.vals.length + c - r.bal) * unitOf g else 0) := by
  obtain ⟨r', hr', _, _, hcase⟩ := C01_nstglue_round_books_report h
  rw [hr] at hr'; injection hr' with hr'; subst hr'
  rcases hcase with ⟨he, _⟩ | ⟨_, hu, _⟩
  · omega
  · have hpos : 0 < (maxEff * r.vals.length + c - r.bal) * unitOf g :=
      Int.mul_pos (by omega) (unitOf_pos g)
    exact (C01_nst_increase_value hpos hu a).1

/-- a report that restates the balance on record books nothing -/
theorem C01_nstglue_repeat_books_nothing {g : G} {addr : String} {c : Int} (r : NRec)
    (hr : find? g.recs addr = some r) (hin : r.bal = maxEff * r.vals.length + c) (hp : 0 < r.bal) (hc : c ≤ 0) :
    roundStaker g addr c = .ok g := by
  unfold roundStaker
  rw [hr]
  simp only
  rw [if_neg (by omega), if_pos (by omega)]

/-- reporting the same change twice books the difference once: the second round changes nothing -/
theorem C01_nstglue_round_idempotent {g g' : G} {addr : String} {c : Int}
    (h : roundStaker g addr c = .ok g') : roundStaker g' addr c = .ok g' := by
  obtain ⟨r, hr, hp, hle, hcase⟩ := C01_nstglue_round_books_report h
  rcases hcase with ⟨_, he⟩ | ⟨_, _, hrecs, _⟩
  · subst he; exact h
  · have hr' : find? g'.recs addr = some ⟨r.vals, maxEff * r.vals.length + c⟩ := by
      rw [hrecs]; exact find?_set_same _ _ _
    exact C01_nstglue_repeat_books_nothing _ hr' rfl hp (by omega)

/-! ## over all histories -/

inductive NOp where
  | dep (addr pk : String) (x : Int)
  | wd (addr pk : String) (x : Int)
  | rnd (changes : List (Nat × Int))
deriving Repr

/-- transaction semantics: a refused operation is not a step -/
def nstep (g : G) : NOp → G
  | .dep a p x => match depositNST g a p x with | .ok g' => g' | .error _ => g
  | .wd a p x => match withdrawNST g a p x with | .ok g' => g' | .error _ => g
  | .rnd ch => match round g ch with | .ok g' => g' | .error _ => g

def runOps : G → List NOp → G
  | g, [] => g
  | g, op :: rest => runOps (nstep g op) rest

theorem updateValidatorList_inv {g g' : G} {addr pk : String} {amount : Int} (hm : RecMap g) (hp : RecPos g)
    (h : updateValidatorList g addr pk amount = .ok g') : RecMap g' ∧ RecPos g' := by
  obtain ⟨_, _, _, _, hm', ho, hr, _⟩ := updateValidatorList_spec hm h
  refine ⟨hm', fun a r ha => ?_⟩
  by_cases e : a = addr
  · subst e; exact (hr r ha).2.1
  · rw [ho a e] at ha; exact hp a r ha

theorem roundStaker_inv {g g' : G} {addr : String} {c : Int} (hm : RecMap g) (hp : RecPos g)
    (h : roundStaker g addr c = .ok g') : RecMap g' ∧ RecPos g' ∧ g'.list = g.list := by
  obtain ⟨r, hr, hpos, _, hcase⟩ := C01_nstglue_round_books_report h
  rcases hcase with ⟨_, he⟩ | ⟨_, _, hrecs, hl, _⟩
  · subst he; exact ⟨hm, hp, rfl⟩
  · refine ⟨?_, fun a r' ha => ?_, hl⟩
    · show NoDup g'.recs; rw [hrecs]; exact noDup_set _ _ _ hm
    · rw [hrecs] at ha
      by_cases e : a = addr
      · subst e; rw [find?_set_same] at ha; injection ha with ha; subst ha; exact hpos
      · rw [find?_set_other _ _ _ _ e] at ha; exact hp a r' ha

theorem roundFrom_inv (changes : List (Nat × Int)) (l : List String) : ∀ (i : Nat) (g g' : G),
    RecMap g → RecPos g → roundFrom changes i l g = .ok g' → RecMap g' ∧ RecPos g' := by
  induction l with
  | nil => intro i g g' hm hp h; simp only [roundFrom] at h; injection h with h; subst h; exact ⟨hm, hp⟩
  | cons a rest ih =>
    intro i g g' hm hp h
    simp only [roundFrom] at h
    split at h
    · cases h
    · rename_i g1 h1
      obtain ⟨hm1, hp1, _⟩ := roundStaker_inv hm hp h1
      exact ih (i + 1) g1 g' hm1 hp1 h

theorem nstep_inv (g : G) (op : NOp) (hm : RecMap g) (hp : RecPos g) : RecMap (nstep g op) ∧ RecPos (nstep g op) := by
  cases op with
  | dep a p x =>
    simp only [nstep]
    split
    · rename_i g' h
      unfold depositNST at h
      split at h
      · cases h
      · split at h
        · cases h
        · rename_i led _
          exact updateValidatorList_inv (g := { g with led := led }) hm hp h
    · exact ⟨hm, hp⟩
  | wd a p x =>
    simp only [nstep]
    split
    · rename_i g' h
      unfold withdrawNST at h
      split at h
      · cases h
      · split at h
        · cases h
        · rename_i led _
          exact updateValidatorList_inv (g := { g with led := led }) hm hp h
    · exact ⟨hm, hp⟩
  | rnd ch =>
    simp only [nstep]
    split
    · rename_i g' h
      unfold round at h
      split at h
      · cases h
      · exact roundFrom_inv ch g.list 0 g g' hm hp h
    · exact ⟨hm, hp⟩

/-- **over every finite history** of deposits, withdrawals and balance reports (accepted or refused), starting from
any state whose records form a map with positive balances (e.g. no records at all): the records still form a
map and every stored record holds a positive balance — a staker that withdrew everything on record has NO record
(and by `roundStaker` gets nothing from a round), it does not linger with a balance to be "restored". -/
theorem C01_nstglue_record_positive (g : G) (ops : List NOp) (hm : RecMap g) (hp : RecPos g) :
    RecMap (runOps g ops) ∧ RecPos (runOps g ops) := by
  induction ops generalizing g with
  | nil => exact ⟨hm, hp⟩
  | cons op rest ih =>
    obtain ⟨hm1, hp1⟩ := nstep_inv g op hm hp
    exact ih (nstep g op) hm1 hp1

/-- a withdrawal of at least the whole balance on record removes the record -/
theorem C01_nstglue_exit_removes_record {g g' : G} {addr pk : String} {x : Int} (hm : RecMap g)
    (h : withdrawNST g addr pk x = .ok g') (hall : balOf g addr ≤ Int.tdiv x (unitOf g)) :
    find? g'.recs addr = none := by
  unfold withdrawNST at h
  split at h
  · cases h
  · rename_i hx
    split at h
    · cases h
    · rename_i led hd
      have hm' : RecMap { g with led := led } := hm
      obtain ⟨_, _, _, _, _, _, _, hz⟩ := updateValidatorList_spec hm' h
      apply hz
      have hx' : 0 < x := by simpa using hx
      have hu := unitOf_pos g
      show balOf g addr + effUnits (-x) (unitOf g) ≤ 0
      unfold effUnits
      rw [if_neg (by unfold maxEff; omega), Int.neg_tdiv]
      omega



/-- the hypotheses are met by the state every chain starts from (no native-restaking records) -/
example (l : L) : RecMap ⟨l, "a", 18, "0x65", [], []⟩ ∧ RecPos ⟨l, "a", 18, "0x65", [], []⟩ :=
  ⟨List.nodup_nil, fun _ _ h => by cases h⟩

end ExoVerif.NstGlue
