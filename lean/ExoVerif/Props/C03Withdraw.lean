import ExoVerif.Props.C01Nst
import ExoVerif.Proofs.LedgerWithdraw
/-!
# C03, first sentence, the withdrawal half — "likewise a withdrawal of any amount within the withdrawable
balance is always accepted"

`withdraw s st a x` (x/assets/keeper/bank.go: PerformDepositOrWithdraw) passes three guards that can refuse
a request with `0 ≤ x ≤ WithdrawableAmount` for a registered asset:
  1. `UpdateStakerAssetState`, WithdrawableAmount − x ≥ 0          — the caller's premise;
  2. `UpdateStakerAssetState`, TotalDepositAmount − x ≥ 0          — needs "withdrawable ≤ total deposit" per row;
  3. `UpdateStakingAssetTotalAmount`, StakingTotalAmount − x ≥ 0   — needs "one row's total deposit ≤ published total".

What is proved here, for every state reachable from a fresh ledger by any finite history of the ten ledger
operations and native-restaking balance adjustments (`LOp'`, `lstep'`, `AllOk0'` of Props/C01Nst.lean):

* `C03_total_deposits_reachable` / `C03_total_deposits_from_genesis`: Σ over the stakers of TotalDepositAmount
  = published staking total + Σ adjustments booked along the history (`adjOf`). Without adjustments the sum of
  the total deposits IS the published total; a positive adjustment raises the stakers' side only - the Go code
  (update_native_restaking_balance.go, `amount.IsPositive()` branch) calls UpdateStakerAssetState and never
  UpdateStakingAssetTotalAmount, and the model mirrors that.
* `C03_row_total_le_published`: hence, if the adjustments of the history do not add up to something positive,
  every single row's total deposit is at most the published total: guard 3 is discharged.
* `C03_withdraw_accepted_reachable_partial`: in such a state every withdrawal `0 ≤ x ≤ min(withdrawable, total
  deposit)` of a registered asset is accepted. `C03_withdraw_accepted_no_nst_partial` is the same for histories
  of the ten ledger operations alone (no hypothesis on adjustments left).
* The full statement `C03_withdraw_always_accepted` is FALSE of the code as it is, in two independent ways, each
  with a machine-checked witness reachable from genesis and a directed scenario on the real keepers:
  - `C03_withdraw_rejected_after_nst_increase` (finding candidate F-03c): deposit 10, adjustment +5, the
    withdrawable balance is 15, the published total still 10: withdrawing 11..15 is refused by guard 3
    (ErrSubAmountIsMoreThanOrigin). Collectively the stakers of an asset can never withdraw its rewards.
  - `C03_withdrawable_exceeds_deposit` / `C03_withdraw_rejected_after_rounding_gain` (finding candidate F-03d):
    guard 2's invariant "withdrawable ≤ total deposit" is false without any adjustment: after a slash the
    share price is skewed, a co-delegator's undelegation of 1 unit burns shares for 0 tokens
    (ValidateUndelegationAmount / TokensFromShares both round against the leaver), the dust stays in the pool
    and the last delegator out takes the whole pool: it delegated 1 and gets 2 back. Its row then reads total
    deposit 1, withdrawable 2, and a withdrawal of 2 is refused by guard 2.
-/
namespace ExoVerif.Ledger
open ExoVerif ExoVerif.KV

/-! ## Σ total deposits against the ghost counters, one step and every history -/

/-- one step of the ten ledger operations: Σ total deposits − deposits + withdrawals does not move
(no hypothesis on the state or the operation) -/
theorem C03_total_deposits_base_step (s : L) (op : LOp) (a : AID) : dnet (lstep s op) a = dnet s a := by
  cases op with
  | deposit st a0 x => simp only [lstep]; split; exact deposit_dnet a (by assumption); rfl
  | withdraw st a0 x => simp only [lstep]; split; exact withdraw_dnet a (by assumption); rfl
  | delegate st a0 o x =>
    simp only [lstep]; split
    · rename_i s' h; exact dnet_congr a (delegate_depo a h) (delegate_frame h).1
    · rfl
  | undelegate st a0 o x n hash =>
    simp only [lstep]; split
    · rename_i s' h; exact dnet_congr a (undelegate_depo a h) (undelegate_ghosts h)
    · rfl
  | associate st o =>
    simp only [lstep]; split
    · rename_i s' h
      have d := associate_depo a h
      unfold associate at h
      simp only [bind, Except.bind, pure, Except.pure, throw, throwThe, MonadExceptOf.throw] at h
      split at h
      · cases h
      · split at h
        · cases h
        · split at h
          · cases h
          · split at h
            · cases h
            · rename_i s1 h1
              injection h with h; subst h
              obtain ⟨_, _, g1, g2, _, _⟩ := value_foldlM_opShare _ o (fun r => r.share) a h1
              unfold dnet at *; simp only [] at *; rw [d, g1, g2]
    · rfl
  | dissociate st =>
    simp only [lstep]; split
    · rename_i s' h
      have d := dissociate_depo a h
      unfold dissociate at h
      simp only [bind, Except.bind, pure, Except.pure, throw, throwThe, MonadExceptOf.throw] at h
      split at h
      · cases h
      · rename_i o ho
        split at h
        · cases h
        · rename_i s1 h1
          injection h with h; subst h
          obtain ⟨_, _, g1, g2, _, _⟩ := value_foldlM_opShare _ o (fun r => r.share.neg) a h1
          unfold dnet at *; simp only [] at *; rw [d, g1, g2]
    · rfl
  | hold k => rfl
  | release k =>
    simp only [lstep]; split
    · rename_i s' h
      unfold release at h
      simp only [] at h
      split at h
      · cases h
      · injection h with h; subst h; rfl
    · rfl
  | blockEnd => exact dnet_congr a (endBlock_depo s a) (endBlock_ghosts s)
  | slash o inf p =>
    simp only [lstep]
    obtain ⟨h1, _, h3, h4⟩ := slashAssets_stakers s o inf p
    unfold dnet; rw [depo_congr h1 a, h3, h4]

/-- one step with adjustments: Σ total deposits − deposits + withdrawals moves by exactly the adjustment booked
by the step (`adjStep`: what the adjusted staker's total deposit moved by) -/
theorem C03_total_deposits_step (s : L) (op : LOp') (a : AID) (hi : RecInv s) (hn : NN s) :
    dnet (lstep' s op) a = dnet s a + adjStep s op a := by
  cases op with
  | base op => simp only [lstep', adjStep]; rw [C03_total_deposits_base_step]; omega
  | nst st a0 x =>
    unfold adjStep
    simp only [lstep']
    cases h : nstUpdate s st a0 x with
    | error e => simp only []; split <;> omega
    | ok s' =>
      simp only []
      obtain ⟨_, _, e, _, _, _, _⟩ := nstUpdate_spec hi hn h
      have g := e.frame.ghosts
      unfold ghosts at g; injection g with g1 g23; injection g23 with g2 g3
      have d := nstUpdate_depEff h a
      unfold dnet; rw [g1, g2]
      split at d <;> split <;> first | omega | (exfalso; simp_all)

/-- **Σ total deposits over every finite history**: from any state satisfying the invariants, after any finite
interleaving of the ten ledger operations and balance adjustments,
Σ stakers' TotalDepositAmount − deposits + withdrawals = (what it was) + Σ adjustments booked along the history. -/
theorem C03_total_deposits_reachable (s : L) (ops : List LOp') (a : AID) (ha : a ≠ nativeAID) (hi : RecInv s)
    (hn : NN s) (hok : AllOk0' s ops) : dnet (ops.foldl lstep' s) a = dnet s a + adjOf s ops a := by
  induction ops generalizing s with
  | nil => show dnet s a = dnet s a + 0; omega
  | cons op rest ih =>
    simp only [List.foldl_cons, adjOf]
    obtain ⟨h1, h2⟩ := hok
    obtain ⟨_, _, nn1, i1⟩ := C01_nst_net_step s op a ha hi hn h1
    rw [ih (lstep' s op) i1 nn1 h2, C03_total_deposits_step s op a hi hn]; omega

/-- **from genesis**: Σ stakers' TotalDepositAmount = published staking total + Σ adjustments. -/
theorem C03_total_deposits_from_genesis (s : L) (ops : List LOp') (a : AID) (ha : a ≠ nativeAID) (hf : Fresh s)
    (hok : AllOk0' s ops) :
    depo (ops.foldl lstep' s) a = getD (ops.foldl lstep' s).totals a 0 + adjOf s ops a := by
  have h1 := C03_total_deposits_reachable s ops a ha hf.recInv hf.nn hok
  have h2 : getD (ops.foldl lstep' s).totals a 0
      = getD (ops.foldl lstep' s).gDep a 0 - getD (ops.foldl lstep' s).gWd a 0 :=
    (C01_from_genesis_with_nst s ops a ha hf hok).2.1
  have d0 : dnet s a = 0 := by
    unfold dnet depo; rw [hf.stakers, hf.gDep, hf.gWd]; simp [sumP, getD, find?]
  rw [d0] at h1
  unfold dnet at h1
  omega

/-- one row's total deposit never exceeds the published total, as long as the adjustments booked along the
history do not add up to something positive -/
theorem C03_row_total_le_published (s : L) (ops : List LOp') (st : SID) (a : AID) (ha : a ≠ nativeAID)
    (hf : Fresh s) (hok : AllOk0' s ops) {row : StakerRow}
    (hrow : find? (ops.foldl lstep' s).stakers (st, a) = some row) (hadj : adjOf s ops a ≤ 0) :
    row.total ≤ getD (ops.foldl lstep' s).totals a 0 := by
  have hn := (C01_reachable_with_nst s ops a ha hf.recInv hf.nn hok).2.2.1
  have h1 := total_le_depo hn hrow
  have h2 := C03_total_deposits_from_genesis s ops a ha hf hok
  omega

/-- **C03, withdrawal acceptance, partial**: in every state reachable from a fresh ledger by a finite history of
ledger operations and balance adjustments whose adjustments of the asset do not add up to something positive,
a withdrawal `0 ≤ x` of a registered asset is accepted whenever `x ≤ withdrawable` and `x ≤ total deposit` of the
staker's row. The premise on the published staking total of `C03_withdraw_accepted_partial` is discharged; the
two explicit extra hypotheses are exactly the two ways the full statement fails (below). -/
theorem C03_withdraw_accepted_reachable_partial (s : L) (ops : List LOp') (st : SID) (a : AID) (x : Int)
    (ha : a ≠ nativeAID) (hf : Fresh s) (hok : AllOk0' s ops) {row : StakerRow} {t : Int}
    (hrow : find? (ops.foldl lstep' s).stakers (st, a) = some row)
    (ht : find? (ops.foldl lstep' s).totals a = some t)
    (hx : 0 ≤ x) (hw : x ≤ row.withdrawable)
    (htot : x ≤ row.total) (hadj : adjOf s ops a ≤ 0) :
    ∃ s'', withdraw (ops.foldl lstep' s) st a x = .ok s'' := by
  have h := C03_row_total_le_published s ops st a ha hf hok hrow hadj
  have : getD (ops.foldl lstep' s).totals a 0 = t := by unfold getD; rw [ht]; rfl
  exact withdraw_accepts hx hrow hw htot ht (by omega)

/-! ### histories of the ten ledger operations alone -/

theorem foldl_base (s : L) (ops : List LOp) : (ops.map LOp'.base).foldl lstep' s = ops.foldl lstep s := by
  induction ops generalizing s with
  | nil => rfl
  | cons op rest ih =>
    show (rest.map LOp'.base).foldl lstep' (lstep s op) = rest.foldl lstep (lstep s op)
    exact ih _

theorem allOk0_base (s : L) (ops : List LOp) (h : AllOk0 s ops) : AllOk0' s (ops.map LOp'.base) := by
  induction ops generalizing s with
  | nil => trivial
  | cons op rest ih => exact ⟨h.1, ih _ h.2⟩

theorem adjOf_base (s : L) (ops : List LOp) (a : AID) : adjOf s (ops.map LOp'.base) a = 0 := by
  induction ops generalizing s with
  | nil => rfl
  | cons op rest ih => simp only [List.map_cons, adjOf, adjStep, lstep']; rw [ih]; omega

/-- without adjustments the sum of the stakers' total deposits IS the published staking total -/
theorem C03_total_deposits_eq_published (s : L) (ops : List LOp) (a : AID) (ha : a ≠ nativeAID) (hf : Fresh s)
    (hok : AllOk0 s ops) : depo (ops.foldl lstep s) a = getD (ops.foldl lstep s).totals a 0 := by
  have h := C03_total_deposits_from_genesis s (ops.map LOp'.base) a ha hf (allOk0_base s ops hok)
  rw [foldl_base, adjOf_base] at h
  omega

/-- **withdrawal acceptance over the ten ledger operations**: the only hypothesis left beyond the caller's
`x ≤ withdrawable` is `x ≤ total deposit` of the same row -/
theorem C03_withdraw_accepted_no_nst_partial (s : L) (ops : List LOp) (st : SID) (a : AID) (x : Int)
    (ha : a ≠ nativeAID) (hf : Fresh s) (hok : AllOk0 s ops) {row : StakerRow} {t : Int}
    (hrow : find? (ops.foldl lstep s).stakers (st, a) = some row)
    (ht : find? (ops.foldl lstep s).totals a = some t)
    (hx : 0 ≤ x) (hw : x ≤ row.withdrawable) (htot : x ≤ row.total) :
    ∃ s'', withdraw (ops.foldl lstep s) st a x = .ok s'' := by
  have h := C03_withdraw_accepted_reachable_partial s (ops.map LOp'.base) st a x ha hf (allOk0_base s ops hok)
    (row := row) (t := t) (by rw [foldl_base]; exact hrow) (by rw [foldl_base]; exact ht) hx hw htot
    (by rw [adjOf_base])
  rw [foldl_base] at h
  exact h

/-! ## the full statement and its two refutations -/

/-- **C03, withdrawal acceptance at full strength**: in every state reachable from genesis, any `0 < x ≤
withdrawable` of a registered restaked asset is accepted. -/
def C03_withdraw_always_accepted : Prop :=
  ∀ (s : L) (ops : List LOp') (st : SID) (a : AID) (x : Int) (row : StakerRow) (t : Int),
    a ≠ nativeAID → Fresh s → AllOk0' s ops →
    find? (ops.foldl lstep' s).stakers (st, a) = some row → find? (ops.foldl lstep' s).totals a = some t →
    0 < x → x ≤ row.withdrawable → ∃ s'', withdraw (ops.foldl lstep' s) st a x = .ok s''

/-- the same for histories of the ten ledger operations alone (no balance adjustment) -/
def C03_withdraw_always_accepted_no_nst : Prop :=
  ∀ (s : L) (ops : List LOp) (st : SID) (a : AID) (x : Int) (row : StakerRow) (t : Int),
    a ≠ nativeAID → Fresh s → AllOk0 s ops →
    find? (ops.foldl lstep s).stakers (st, a) = some row → find? (ops.foldl lstep s).totals a = some t →
    0 < x → x ≤ row.withdrawable → ∃ s'', withdraw (ops.foldl lstep s) st a x = .ok s''

/-- the per-row invariant guard 2 would need -/
def C03_withdrawable_within_deposit : Prop :=
  ∀ (s : L) (ops : List LOp) (st : SID) (a : AID) (row : StakerRow),
    a ≠ nativeAID → Fresh s → AllOk0 s ops →
    find? (ops.foldl lstep s).stakers (st, a) = some row → row.withdrawable ≤ row.total

private def g0 : L :=
  { height := 1, unbonding := 2, totals := [("A", 0)], operators := ["o1", "o"], clientChains := ["0x65"],
    stakers := [], pools := [], deleg := [], slist := [], assoc := [], recs := [], sidx := [], pidx := [],
    holds := [], bal := [], escrow := 0, gDep := [], gWd := [], gSlashed := [] }

private theorem g0_fresh : Fresh g0 := ⟨rfl, rfl, rfl, rfl, rfl, rfl, by decide, by decide, by decide, rfl, rfl, rfl⟩

private theorem unitP_quarter : UnitP ⟨250000000000000000⟩ := by unfold UnitP; decide

/-! ### F-03c: a positive native-restaking adjustment is not added to the published staking total -/

private def opsN : List LOp' := [.base (.deposit "s_0x65" "A" 10), .nst "s_0x65" "A" 5]

/-- **F-03c**, concretely: after a deposit of 10 and a balance increase of 5 the row reads total deposit 15,
withdrawable 15, the published staking total is still 10; withdrawing 10 is accepted, withdrawing 11 or the
whole withdrawable balance 15 is refused by UpdateStakingAssetTotalAmount. -/
theorem C03_withdraw_rejected_after_nst_increase :
    find? (opsN.foldl lstep' g0).stakers ("s_0x65", "A") = some ⟨15, 15, 0⟩ ∧
    find? (opsN.foldl lstep' g0).totals "A" = some 10 ∧ adjOf g0 opsN "A" = 5 ∧
    (∃ s'', withdraw (opsN.foldl lstep' g0) "s_0x65" "A" 10 = .ok s'') ∧
    withdraw (opsN.foldl lstep' g0) "s_0x65" "A" 11 = .error "ErrSubAmountIsMoreThanOrigin" ∧
    withdraw (opsN.foldl lstep' g0) "s_0x65" "A" 15 = .error "ErrSubAmountIsMoreThanOrigin" := by
  refine ⟨by decide, by decide, by decide, ⟨_, rfl⟩, by decide, by decide⟩

theorem C03_withdraw_always_accepted_fails : ¬ C03_withdraw_always_accepted := by
  intro hfull
  obtain ⟨h1, h2, _, _, _, h6⟩ := C03_withdraw_rejected_after_nst_increase
  obtain ⟨s'', h⟩ := hfull g0 opsN "s_0x65" "A" 15 ⟨15, 15, 0⟩ 10 (by decide) g0_fresh ⟨trivial, trivial, trivial⟩
    h1 h2 (by decide) (by decide)
  rw [h6] at h; cases h

/-! ### F-03d: a staker's withdrawable balance can exceed its total deposit (rounding dust of co-delegators) -/

/-- z delegates 4, the operator is slashed by 25 % (pool 3, 4·10¹⁸ shares), x delegates 1 (1.333…·10¹⁸ shares),
y delegates 2; y undelegates "1" twice - the first request burns 1.333…·10¹⁸ shares for 0 tokens, the second
burns the rest for 1 token -, z leaves with 3, and x, the last delegator, takes the whole pool: 2 tokens for the
1 it delegated. Three block ends complete the records. -/
private def opsR : List LOp :=
  [.deposit "z" "A" 4, .deposit "x" "A" 1, .deposit "y" "A" 2,
   .delegate "z" "A" "o" 4, .slash "o" 1 ⟨250000000000000000⟩,
   .delegate "x" "A" "o" 1, .delegate "y" "A" "o" 2,
   .undelegate "y" "A" "o" 1 1 "1", .undelegate "y" "A" "o" 1 2 "2",
   .undelegate "z" "A" "o" 3 3 "3", .undelegate "x" "A" "o" 2 4 "4",
   .blockEnd, .blockEnd, .blockEnd]

private theorem opsR_ok : AllOk0 g0 opsR :=
  ⟨trivial, trivial, trivial, trivial, unitP_quarter, trivial, trivial,
   freshNonce_of_all (by decide), freshNonce_of_all (by decide), freshNonce_of_all (by decide),
   freshNonce_of_all (by decide), trivial, trivial, trivial, trivial⟩

/-- **F-03d**, concretely: on a ledger grown from genesis by the ten ledger operations alone, x's row reads
total deposit 1, withdrawable 2 (y's reads total 2, withdrawable 1: the unit moved from y to x); the published
total is 7 = Σ total deposits; x's withdrawal of 1 is accepted, of its whole withdrawable balance 2 refused by
UpdateStakerAssetState (TotalDepositAmount would go negative). -/
theorem C03_withdraw_rejected_after_rounding_gain :
    find? (opsR.foldl lstep g0).stakers ("x", "A") = some ⟨1, 2, 0⟩ ∧
    find? (opsR.foldl lstep g0).stakers ("y", "A") = some ⟨2, 1, 0⟩ ∧
    find? (opsR.foldl lstep g0).totals "A" = some 7 ∧ (opsR.foldl lstep g0).recs = [] ∧
    (∃ s'', withdraw (opsR.foldl lstep g0) "x" "A" 1 = .ok s'') ∧
    withdraw (opsR.foldl lstep g0) "x" "A" 2 = .error "ErrSubAmountIsMoreThanOrigin" := by
  refine ⟨by decide, by decide, by decide, by decide, ⟨_, rfl⟩, by decide⟩

theorem C03_withdrawable_exceeds_deposit : ¬ C03_withdrawable_within_deposit := by
  intro hfull
  have h := hfull g0 opsR "x" "A" ⟨1, 2, 0⟩ (by decide) g0_fresh opsR_ok
    C03_withdraw_rejected_after_rounding_gain.1
  revert h; decide

theorem C03_withdraw_always_accepted_no_nst_fails : ¬ C03_withdraw_always_accepted_no_nst := by
  intro hfull
  obtain ⟨h1, _, h3, _, _, h6⟩ := C03_withdraw_rejected_after_rounding_gain
  obtain ⟨s'', h⟩ := hfull g0 opsR "x" "A" 2 ⟨1, 2, 0⟩ 7 (by decide) g0_fresh opsR_ok h1 h3 (by decide) (by decide)
  rw [h6] at h; cases h

/-! ## non-vacuity of the positive theorems

A history with deposits by two stakers, a delegation, a balance increase and a larger balance decrease (net
adjustment −3 ≤ 0): the theorem applies and accepts the whole withdrawable balance of the adjusted staker.
(The history `opsR` above exercises undelegation, slash and completion.) -/

private def opsP : List LOp' :=
  [.base (.deposit "s_0x65" "A" 100), .base (.deposit "t_0x65" "A" 50), .base (.delegate "s_0x65" "A" "o1" 60),
   .nst "s_0x65" "A" 5, .nst "s_0x65" "A" (-8)]

private theorem opsP_ok : AllOk0' g0 opsP := ⟨trivial, trivial, trivial, trivial, trivial, trivial⟩

example : "A" ≠ nativeAID := by decide
private theorem opsP_adj : adjOf g0 opsP "A" = -3 := by decide
private theorem opsP_row : find? (opsP.foldl lstep' g0).stakers ("s_0x65", "A") = some ⟨97, 37, 0⟩ := by decide
private theorem opsP_tot : find? (opsP.foldl lstep' g0).totals "A" = some 150 := by decide
example : depo (opsP.foldl lstep' g0) "A" = 147 := by decide

example : depo (opsP.foldl lstep' g0) "A" = getD (opsP.foldl lstep' g0).totals "A" 0 + adjOf g0 opsP "A" :=
  C03_total_deposits_from_genesis g0 opsP "A" (by decide) g0_fresh opsP_ok

example : ∃ s'', withdraw (opsP.foldl lstep' g0) "s_0x65" "A" 37 = .ok s'' :=
  C03_withdraw_accepted_reachable_partial g0 opsP "s_0x65" "A" 37 (by decide) g0_fresh opsP_ok
    opsP_row opsP_tot (by decide) (by decide) (by decide) (by rw [opsP_adj]; decide)

example : depo (opsR.foldl lstep g0) "A" = getD (opsR.foldl lstep g0).totals "A" 0 :=
  C03_total_deposits_eq_published g0 opsR "A" (by decide) g0_fresh opsR_ok

end ExoVerif.Ledger
