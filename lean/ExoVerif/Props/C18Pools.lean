import ExoVerif.Props.C18Assets
/-!
# C18 — pools that everybody has left, and the readers that look a pool up for every delegation row

Clause: "initialising a fresh chain from the export reproduces those modules' state exactly … the re-started chain then
behaves like the original". A pool row (operator, asset) of x/assets is written by the first delegation and NEVER deleted:
when every staker has undelegated and the undelegations have completed it is a row of zeros, and the zero-share
delegation rows `staker/asset/operator` of x/delegation stay as well. AllDelegatedInfoForStakerAsset,
TotalDelegatedAmountForStakerAsset and CalculateUSDValueForStaker (the staker's weight when x/feedistribution shares out
an operator's rewards) look the pool of EVERY delegation row of the staker up and fail as a whole on a missing one.

* writers: `C18_assets_pool_row_never_deleted`, `C18_assets_pool_rows_survive_history` (UpdateOperatorAssetState keeps
  every key, over any history of calls), `C18_delegation_pool_written` (the call writes its own key),
  `C18_pools_cover_kept_by_writer` (every delegation row has its pool: kept by every writer call);
  `C18_emptied_pool_reachable`: delegate 50, undelegate 50, the undelegation completes ⇒ the row {0,0,0,0} IS in the store.
* round trip (code as it is: the exporter loop appends every row): `C18_pools_readers_after_roundtrip` — for every state
  of the stores and every list of delegation rows, the pool reader, the share conversion and AllDelegatedInfoForStakerAsset
  answer on the re-imported state exactly what they answer on the original, and `PoolsCover` carries over.
* an exporter that filters pool rows (`exportAssetsKeep keep`; the code as it is = `keep := fun _ => true`,
  `C18_export_keep_all_is_export`): `C18_assets_filtered_export_roundtrip` — the re-imported state is the original with the
  skipped rows gone; `C18_assets_filtered_export_roundtrip_iff` — it reproduces the state IFF no row is skipped;
  `C18_assets_filtered_export_loses_lookup` — for a skipped row the pool reader answers on the original and fails on the
  re-imported state; `C18_assets_filtered_reexport_same` — and yet the second export equals the first, for every state
  and every filter: comparing documents cannot see it.
* `C18_regression_skip_emptied_pools*`: the filter "skip a pool whose amount, pending amount and share are all zero" on the
  reachable state of `C18_emptied_pool_reachable`: both documents validate, the second export is the same, the pool
  reader and AllDelegatedInfoForStakerAsset fail on the re-imported state.
-/
namespace ExoVerif.Genesis

/-! ## store lemmas -/
section Store
variable {α : Type}

theorem ssGet_ssSet_same (k : String) (v : α) (l : List (String × α)) : ssGet k (ssSet k v l) = some v := by
  induction l with
  | nil => simp [ssSet, ssGet]
  | cons p r ih =>
    obtain ⟨k', v'⟩ := p
    unfold ssSet
    by_cases h1 : k = k'
    · simp [h1, ssGet]
    · by_cases h2 : k < k'
      · simp [h1, h2, ssGet]
      · simp only [h1, h2, if_false]
        unfold ssGet
        simp only [h1, if_false]
        exact ih

theorem ssGet_ssSet_other (k k' : String) (v : α) (l : List (String × α)) (h : k' ≠ k) :
    ssGet k' (ssSet k v l) = ssGet k' l := by
  induction l with
  | nil => simp [ssSet, ssGet, h]
  | cons p r ih =>
    obtain ⟨k1, v1⟩ := p
    unfold ssSet
    by_cases h1 : k = k1
    · subst h1
      simp [ssGet, h]
    · by_cases h2 : k < k1
      · simp only [h1, h2, if_false, if_true]
        conv => lhs; unfold ssGet
        simp only [h, if_false]
      · simp only [h1, h2, if_false]
        conv => lhs; unfold ssGet
        conv => rhs; unfold ssGet
        by_cases h3 : k' = k1
        · simp [h3]
        · simp only [h3, if_false]
          exact ih

theorem ssHas_ssSet (k k' : String) (v : α) (l : List (String × α)) (h : ssHas k' l = true) :
    ssHas k' (ssSet k v l) = true := by
  unfold ssHas at *
  by_cases hk : k' = k
  · subst hk; rw [ssGet_ssSet_same]; rfl
  · rw [ssGet_ssSet_other _ _ _ _ hk]; exact h

theorem ssGet_none_of_no_key (k : String) (l : List (String × α)) (h : ∀ q ∈ l, q.1 ≠ k) : ssGet k l = none := by
  induction l with
  | nil => rfl
  | cons p r ih =>
    obtain ⟨k', v'⟩ := p
    unfold ssGet
    have : k ≠ k' := fun e => h (k', v') (by simp) e.symm
    simp only [this, if_false]
    exact ih (fun q hq => h q (by simp [hq]))

theorem ssGet_of_mem_sorted (l : List (String × α)) (hs : Sorted l) (p : String × α) (hp : p ∈ l) :
    ssGet p.1 l = some p.2 := by
  induction l with
  | nil => cases hp
  | cons q r ih =>
    obtain ⟨k', v'⟩ := q
    have h1 := List.pairwise_cons.mp hs
    unfold ssGet
    rcases List.mem_cons.mp hp with rfl | hr
    · simp
    · have hlt : k' < p.1 := h1.1 p hr
      have hne : p.1 ≠ k' := by
        intro e; rw [e] at hlt; exact String.lt_irrefl _ hlt
      simp only [hne, if_false]
      exact ih h1.2 hr

theorem sorted_filter (l : List (String × α)) (f : String × α → Bool) (hs : Sorted l) : Sorted (l.filter f) :=
  List.Pairwise.sublist List.filter_sublist hs

end Store

/-! ## the writers never delete a pool row -/

/-- a successful UpdateOperatorAssetState is one `Set` under the key of the pool -/
theorem stepOp_some (r : OpRow) (st st' : List (String × OpRow)) (h : stepOp r st = some st') :
    ∃ v, st' = ssSet r.key v st := by
  simp only [stepOp] at h
  split at h
  · exact ⟨_, (Option.some.inj h).symm⟩
  · cases h

/-- the call of UpdateOperatorAssetState writes (or rewrites) the row under its own key -/
theorem C18_delegation_pool_written (r : OpRow) (st st' : List (String × OpRow)) (h : stepOp r st = some st') :
    ssHas r.key st' = true := by
  obtain ⟨v, rfl⟩ := stepOp_some r st st' h
  unfold ssHas; rw [ssGet_ssSet_same]; rfl

/-- **UpdateOperatorAssetState never deletes a row**: whatever the change, every key present before is present after -/
theorem C18_assets_pool_row_never_deleted (r : OpRow) (st st' : List (String × OpRow)) (h : stepOp r st = some st')
    (k : String) (hk : ssHas k st = true) : ssHas k st' = true := by
  obtain ⟨v, rfl⟩ := stepOp_some r st st' h
  exact ssHas_ssSet _ _ _ _ hk

/-- … over every history of writer calls (delegations, undelegations, completions, slashes: all are changes applied by
    UpdateOperatorAssetState) -/
theorem C18_assets_pool_rows_survive_history (deltas : List OpRow) :
    ∀ (st st' : List (String × OpRow)), runInit stepOp deltas st = some st' →
      ∀ k, ssHas k st = true → ssHas k st' = true := by
  induction deltas with
  | nil => intro st st' h k hk; simp only [runInit] at h; injection h with h; subst h; exact hk
  | cons d ds ih =>
    intro st st' h k hk
    simp only [runInit] at h
    split at h
    · cases h
    · next st1 h1 => exact ih st1 st' h k (C18_assets_pool_row_never_deleted d st st1 h1 k hk)

/-- "every delegation row has its pool row" is kept by every writer call -/
theorem C18_pools_cover_kept_by_writer (s : Assets) (rows : List DelegRow) (r : OpRow) (ops' : List (String × OpRow))
    (h : stepOp r s.opAssets = some ops') (hc : PoolsCover s rows) : PoolsCover { s with opAssets := ops' } rows := by
  intro d hd
  have := hc d hd
  unfold getOperatorAssetInfo at *
  exact C18_assets_pool_row_never_deleted r s.opAssets ops' h _ this

/-- … and a delegation establishes it for its own row: DelegateTo writes the pool (stepOp) and the delegation row -/
theorem C18_pools_cover_after_delegation (s : Assets) (rows : List DelegRow) (r : OpRow) (d : DelegRow)
    (ops' : List (String × OpRow)) (h : stepOp r s.opAssets = some ops') (hc : PoolsCover s rows)
    (hd : d.operator = r.operator ∧ d.asset = r.asset) : PoolsCover { s with opAssets := ops' } (d :: rows) := by
  intro x hx
  rcases List.mem_cons.mp hx with rfl | hx
  · unfold getOperatorAssetInfo
    rw [hd.1, hd.2]
    exact C18_delegation_pool_written r s.opAssets ops' h
  · exact C18_pools_cover_kept_by_writer s rows r ops' h hc x hx

/-- delegate 50, undelegate all 50 (amount and share leave the pool, the amount waits), the undelegation completes -/
def emptiedHistory : List OpRow :=
  [⟨op1, usdtID, 50000000, 0, 50000000000000000000000000, 0⟩,
   ⟨op1, usdtID, -50000000, 50000000, -50000000000000000000000000, 0⟩,
   ⟨op1, usdtID, 0, -50000000, 0, 0⟩]

/-- **the emptied pool is a reachable state of the store**: the row of zeros stays behind -/
theorem C18_emptied_pool_reachable :
    runInit stepOp emptiedHistory [] = some [(joinKey op1 usdtID, ⟨op1, usdtID, 0, 0, 0, 0⟩)] := by decide

/-- `goodState` of C18Assets with op1's pool emptied (stakerA's delegation undelegated in full and completed) -/
def emptiedState : Assets :=
  { goodState with
    deposits := [(joinKey stakerA usdtID, ⟨stakerA, usdtID, 5000000, 5000000, 0⟩),
                 (joinKey stakerB usdtID, ⟨stakerB, usdtID, 4000000, 4000000, 0⟩)],
    opAssets := [(joinKey op1 usdtID, ⟨op1, usdtID, 0, 0, 0, 0⟩)] }

/-- stakerA's delegation row with op1: share 0, nothing pending — UpdateDelegationState keeps it -/
def emptiedRows : List DelegRow := [⟨stakerA, usdtID, op1, 0, 0⟩]

theorem emptiedState_store : StoreInv emptiedState := by
  refine ⟨by decide, ?_, by decide, ?_, by decide, by decide, ?_, by decide, by decide, ?_, by decide, by decide⟩ <;>
    (unfold Sorted; decide)

theorem emptiedState_cover : PoolsCover emptiedState emptiedRows := by
  intro r hr
  simp only [emptiedRows, List.mem_cons, List.not_mem_nil, or_false] at hr
  subst hr; decide

/-! ## the round trip of the code as it is: the readers answer the same -/

/-- **the readers after the round trip.** For every state of the stores as the keepers leave them and every list of
    delegation rows: InitGenesis of the export does not panic, and on the re-imported state the pool reader
    (GetOperatorSpecifiedAssetInfo), the pool + amount of every delegation row and AllDelegatedInfoForStakerAsset answer what
    they answer on the original — in particular a pool everybody has left is still found — and every delegation row still
    has its pool. -/
theorem C18_pools_readers_after_roundtrip (s : Assets) (h : StoreInv s) (rows : List DelegRow) :
    ∃ s', initAssets (exportAssets s) = some s' ∧
      (∀ op a, getOperatorAssetInfo s' op a = getOperatorAssetInfo s op a) ∧
      (∀ r ∈ rows, poolOfRow s' r = poolOfRow s r) ∧
      delegatedInfo s' rows = delegatedInfo s rows ∧
      (PoolsCover s rows → PoolsCover s' rows) :=
  ⟨s, C18_roundtrip_assets s h, fun _ _ => rfl, fun _ _ => rfl, rfl, id⟩

/-- non-vacuity, on the emptied pool: the reader finds the row of zeros before and after the round trip, the staker's
    delegated amounts are answered (0 with op1), the cover holds -/
example : getOperatorAssetInfo emptiedState op1 usdtID = some ⟨op1, usdtID, 0, 0, 0, 0⟩ := by decide
example : (initAssets (exportAssets emptiedState)).map (fun s' => getOperatorAssetInfo s' op1 usdtID)
    = some (some ⟨op1, usdtID, 0, 0, 0, 0⟩) := by
  rw [C18_roundtrip_assets _ emptiedState_store]; decide
example : delegatedInfo emptiedState emptiedRows = some [(op1, 0)] := by decide
example : ∃ s', initAssets (exportAssets emptiedState) = some s' ∧ PoolsCover s' emptiedRows := by
  obtain ⟨s', h1, _, _, _, h5⟩ := C18_pools_readers_after_roundtrip emptiedState emptiedState_store emptiedRows
  exact ⟨s', h1, h5 emptiedState_cover⟩
/-- a live pool: 3 of 3 shares of a pool of 3000000 -/
example : delegatedInfo goodState [⟨stakerA, usdtID, op1, 3000000000000000000000000, 1000000⟩] = some [(op1, 3000000)] := by
  decide

/-! ## an exporter that filters pool rows -/

/-- ExportGenesis with a test in the loop of AllOperatorAssets that skips the rows with `keep r = false` before they are
    grouped (`continue`); everything else as `exportAssets` -/
def exportAssetsKeep (keep : OpRow → Bool) (s : Assets) : ADoc :=
  { exportAssets s with
    opAssets := (groupAdj OpRow.operator ((s.opAssets.map (·.2)).filter keep)).map (fun g => (g.1, g.2.map OpRow.item)) }

/-- the code as it is skips nothing (tied to the source by `C18_tie_assets_export_loops` and
    `C18_tie_export_loops_skip_nothing`) -/
theorem C18_export_keep_all_is_export (s : Assets) : exportAssetsKeep (fun _ => true) s = exportAssets s := by
  have hf : ∀ l : List OpRow, l.filter (fun _ => true) = l := fun l => List.filter_eq_self.mpr (fun _ _ => rfl)
  simp [exportAssetsKeep, exportAssets, hf]

/-- the state whose export the filtered exporter writes -/
def dropPools (keep : OpRow → Bool) (s : Assets) : Assets :=
  { s with opAssets := s.opAssets.filter (fun p => keep p.2) }

theorem exportAssetsKeep_eq (keep : OpRow → Bool) (s : Assets) :
    exportAssetsKeep keep s = exportAssets (dropPools keep s) := by
  simp only [exportAssetsKeep, exportAssets, dropPools, List.filter_map]
  rfl

theorem dropPools_store (keep : OpRow → Bool) (s : Assets) (h : StoreInv s) : StoreInv (dropPools keep s) :=
  { paramsOK := h.paramsOK, chainsSorted := h.chainsSorted, chainsKey := h.chainsKey, tokensSorted := h.tokensSorted,
    tokensKey := h.tokensKey, tokensOK := h.tokensOK, depsSorted := h.depsSorted, depsKey := h.depsKey, depsNN := h.depsNN,
    opsSorted := sorted_filter _ _ h.opsSorted,
    opsKey := fun p hp => h.opsKey p (List.mem_filter.mp hp).1,
    opsNN := fun p hp => h.opsNN p (List.mem_filter.mp hp).1 }

/-- **what a filtering exporter re-imports**: the original stores with the skipped pool rows gone (no panic) -/
theorem C18_assets_filtered_export_roundtrip (keep : OpRow → Bool) (s : Assets) (h : StoreInv s) :
    initAssets (exportAssetsKeep keep s) = some (dropPools keep s) := by
  rw [exportAssetsKeep_eq]
  exact C18_roundtrip_assets _ (dropPools_store keep s h)

/-- **the round trip reproduces the state IFF the exporter skips no row of it** -/
theorem C18_assets_filtered_export_roundtrip_iff (keep : OpRow → Bool) (s : Assets) (h : StoreInv s) :
    initAssets (exportAssetsKeep keep s) = some s ↔ ∀ p ∈ s.opAssets, keep p.2 = true := by
  rw [C18_assets_filtered_export_roundtrip keep s h]
  constructor
  · intro e
    have e' : (dropPools keep s).opAssets = s.opAssets := by rw [Option.some.inj e]
    simp only [dropPools] at e'
    exact fun p hp => List.filter_eq_self.mp e' p hp
  · intro hall
    have : s.opAssets.filter (fun p => keep p.2) = s.opAssets := List.filter_eq_self.mpr hall
    simp only [dropPools, this]

/-- **a skipped row is a failing reader**: the pool reader answers on the original chain and returns
    ErrNoOperatorAssetKey on the re-imported one -/
theorem C18_assets_filtered_export_loses_lookup (keep : OpRow → Bool) (s : Assets) (h : StoreInv s)
    (p : String × OpRow) (hp : p ∈ s.opAssets) (hk : keep p.2 = false) :
    getOperatorAssetInfo s p.2.operator p.2.asset = some p.2 ∧
    ∃ s', initAssets (exportAssetsKeep keep s) = some s' ∧ getOperatorAssetInfo s' p.2.operator p.2.asset = none := by
  have hkey : joinKey p.2.operator p.2.asset = p.1 := (h.opsKey p hp).symm
  refine ⟨?_, dropPools keep s, C18_assets_filtered_export_roundtrip keep s h, ?_⟩
  · unfold getOperatorAssetInfo
    rw [hkey]
    exact ssGet_of_mem_sorted _ h.opsSorted p hp
  · unfold getOperatorAssetInfo
    rw [hkey]
    apply ssGet_none_of_no_key
    intro q hq e
    obtain ⟨hq1, hq2⟩ := List.mem_filter.mp hq
    have g1 := ssGet_of_mem_sorted _ h.opsSorted q hq1
    have g2 := ssGet_of_mem_sorted _ h.opsSorted p hp
    rw [e, g2] at g1
    have : p.2 = q.2 := Option.some.inj g1
    rw [← this, hk] at hq2
    cases hq2

/-- **…and the documents cannot show it**: for every state and every filter the second export (of the re-imported
    state, by the same exporter) equals the first -/
theorem C18_assets_filtered_reexport_same (keep : OpRow → Bool) (s : Assets) (h : StoreInv s) :
    (initAssets (exportAssetsKeep keep s)).map (exportAssetsKeep keep) = some (exportAssetsKeep keep s) := by
  rw [C18_assets_filtered_export_roundtrip keep s h]
  simp only [Option.map_some, exportAssetsKeep_eq, dropPools, List.filter_filter, Bool.and_self]

/-! ## regression: "skip the pools everybody has left" -/

/-- the test of the filter: amount, pending amount and total share are all zero ⇒ skipped -/
def keepNonEmpty (r : OpRow) : Bool := !(r.total == 0 && r.pending == 0 && r.totalShare == 0)

/-- on the reachable emptied pool: both the unfiltered and the filtered document pass Validate, the second filtered
    export equals the first — and the re-imported state has lost the row -/
theorem C18_regression_skip_emptied_pools :
    validateAssets (exportAssets emptiedState) = true ∧
    validateAssets (exportAssetsKeep keepNonEmpty emptiedState) = true ∧
    (initAssets (exportAssetsKeep keepNonEmpty emptiedState)).map (exportAssetsKeep keepNonEmpty)
      = some (exportAssetsKeep keepNonEmpty emptiedState) ∧
    initAssets (exportAssetsKeep keepNonEmpty emptiedState) = some { emptiedState with opAssets := [] } ∧
    initAssets (exportAssetsKeep keepNonEmpty emptiedState) ≠ some emptiedState := by
  refine ⟨by decide, by decide, C18_assets_filtered_reexport_same _ _ emptiedState_store, ?_, ?_⟩
  · rw [C18_assets_filtered_export_roundtrip _ _ emptiedState_store]; decide
  · rw [C18_assets_filtered_export_roundtrip _ _ emptiedState_store]; decide

/-- the readers on that re-imported state: the pool reader and AllDelegatedInfoForStakerAsset fail (ErrNoOperatorAssetKey),
    the delegation row has lost its pool — while the original chain answers both -/
theorem C18_regression_skip_emptied_pools_readers :
    getOperatorAssetInfo emptiedState op1 usdtID = some ⟨op1, usdtID, 0, 0, 0, 0⟩ ∧
    delegatedInfo emptiedState emptiedRows = some [(op1, 0)] ∧
    ∃ s', initAssets (exportAssetsKeep keepNonEmpty emptiedState) = some s' ∧
      getOperatorAssetInfo s' op1 usdtID = none ∧ delegatedInfo s' emptiedRows = none ∧ ¬ PoolsCover s' emptiedRows := by
  refine ⟨by decide, by decide, dropPools keepNonEmpty emptiedState,
    C18_assets_filtered_export_roundtrip _ _ emptiedState_store, by decide, by decide, ?_⟩
  intro hc
  have := hc ⟨stakerA, usdtID, op1, 0, 0⟩ (by simp [emptiedRows])
  revert this; decide

/-- a pool that still holds anything is exported by that filter as before (the control of the seeded change) -/
example : exportAssetsKeep keepNonEmpty goodState = exportAssets goodState := by decide

end ExoVerif.Genesis
