import ExoVerif.Model.GenesisDue
/-!
# C18 — an export taken at ANY height can be imported: the undelegation records at the block boundary

x/delegation InitGenesis writes the exported undelegation records through SetUndelegationRecords, whose guard rejects a
record completing before the current height — and InitGenesis panics on that error. The document is exported from the
state committed by block H and imported at height H+1. What decides "initialising a fresh chain from it reproduces …"
at all is therefore a fact about heights:

* `C18_due_after_blocks`: over EVERY history of blocks (any undelegations, any hold counts before / after x/delegation's
  EndBlock) every record left by the blocks h0 … h0+n-1 completes at h0+n or later — EndBlock completes what is due and not
  held and re-queues what is due and held for the NEXT height;
* `C18_import_admits_reachable` / `C18_export_of_any_history_imports`: for the code as it is the import of such a state
  does not panic and is the (unguarded) round trip the other C18 theorems speak about;
* the boundary is REACHED, so the comparison of the guard matters: a held record whose completion height has passed is due
  at exactly the import height at every later block (`C18_due_held_requeued_next`, `C18_due_held_record_always_at_boundary`),
  a record not held is there one block in ten (`C18_due_last_block_before_completion`);
* for a writer that also rejects `CompleteBlockNumber = height` (`strictDueCfg`, seeded change C18-a) the import of a
  reachable state panics IFF a record is due at the import height (`C18_due_strict_guard_iff`), machine-checked on both
  boundary histories (`C18_regression_due_strict_guard_held`, `C18_regression_due_strict_guard_last_block`) with the
  neighbouring heights as controls.
-/
namespace ExoVerif.Genesis

/-! ## the guard -/

theorem rejects_code (h c : Int) : rejects codeDueCfg h c = decide (c < h) := by
  simp [rejects, codeDueCfg]

theorem rejects_strict (h c : Int) : rejects strictDueCfg h c = decide (c ≤ h) := by
  simp only [rejects, strictDueCfg, Bool.true_and]
  by_cases h1 : c < h
  · have : c ≤ h := by omega
    simp [h1, this]
  · by_cases h2 : c = h
    · simp [h2]
    · have : ¬ c ≤ h := by omega
      simp [h1, h2, this]

theorem setRecordsOk_code (h : Int) (cs : List Int) : setRecordsOk codeDueCfg h cs = true ↔ ∀ c ∈ cs, h ≤ c := by
  simp only [setRecordsOk, List.all_eq_true, rejects_code]
  constructor
  · intro H c hc
    have := H c hc
    simp at this
    exact this
  · intro H c hc
    have := H c hc
    simp
    exact this

theorem setRecordsOk_strict (h : Int) (cs : List Int) : setRecordsOk strictDueCfg h cs = true ↔ ∀ c ∈ cs, h < c := by
  simp only [setRecordsOk, List.all_eq_true, rejects_strict]
  constructor
  · intro H c hc
    have := H c hc
    simp at this
    exact this
  · intro H c hc
    have := H c hc
    simp
    exact this

theorem export_completes (P : Prefixes) (s : Core) :
    (exportDoc P s).undelegations.map (fun r => r.2.1) = s.unds.map (fun u => u.complete) := by
  show (s.unds.map (fun u => (u.id, u.complete, u.amount))).map _ = _
  rw [List.map_map]
  rfl

/-! ## EndBlock and the blocks -/

/-- x/delegation EndBlock at h leaves no record due at h or earlier, given none was overdue -/
theorem C18_due_endblock (h : Int) (us : List Und) (inv : ∀ u ∈ us, h ≤ u.complete) :
    ∀ u ∈ endBlock h us, h + 1 ≤ u.complete := by
  intro u hu
  simp only [endBlock, List.mem_filterMap] at hu
  obtain ⟨v, hv, hvu⟩ := hu
  have hv' := inv v hv
  unfold endBlockRec at hvu
  split at hvu
  · split at hvu
    · cases hvu
      show h + 1 ≤ h + 1
      omega
    · cases hvu
  · cases hvu
    omega

/-- a held record that is due is re-queued for the next height (and not completed) -/
theorem C18_due_held_requeued_next (h : Int) (u : Und) (due : u.complete = h) (held : u.hold > 0) :
    endBlockRec h u = some { u with complete := h + 1 } := by
  simp [endBlockRec, due, held]

/-- a record that is due and not held is completed -/
theorem C18_due_unheld_completed (h : Int) (u : Und) (due : u.complete = h) (free : u.hold ≤ 0) :
    endBlockRec h u = none := by
  have : ¬ u.hold > 0 := by omega
  simp [endBlockRec, due, this]

theorem C18_due_block (h : Int) (b : Block) (us : List Und) (inv : ∀ u ∈ us, h ≤ u.complete) :
    ∀ u ∈ runBlock h b us, h + 1 ≤ u.complete := by
  intro u hu
  simp only [runBlock, List.mem_map] at hu
  obtain ⟨v, hv, rfl⟩ := hu
  show h + 1 ≤ v.complete
  refine C18_due_endblock h _ ?_ v hv
  intro w hw
  simp only [List.mem_map, List.mem_append] at hw
  obtain ⟨x, hx, rfl⟩ := hw
  show h ≤ x.complete
  rcases hx with hx | ⟨n, _, rfl⟩
  · exact inv x hx
  · show h ≤ h + unbondingExpiration
    simp only [unbondingExpiration]
    omega

/-- over every history of blocks h0, h0+1, …, h0+n-1: every record the last block commits completes at h0+n or later -/
theorem C18_due_after_blocks (bs : List Block) : ∀ (h0 : Int) (us : List Und), (∀ u ∈ us, h0 ≤ u.complete) →
    ∀ u ∈ runBlocks h0 bs us, h0 + bs.length ≤ u.complete := by
  induction bs with
  | nil =>
    intro h0 us inv u hu
    simp only [runBlocks] at hu
    have := inv u hu
    simp only [List.length_nil]
    omega
  | cons b rest ih =>
    intro h0 us inv u hu
    simp only [runBlocks] at hu
    have := ih (h0 + 1) (runBlock h0 b us) (C18_due_block h0 b us inv) u hu
    simp only [List.length_cons]
    omega

/-! ## the import -/

/-- the code as it is: a state whose records all complete at the import height or later is imported without a panic, and
    the result is the round trip of Props/C18.lean -/
theorem C18_import_admits_reachable (P : Prefixes) (bt h : Int) (s : Core) (inv : ∀ u ∈ s.unds, h ≤ u.complete) :
    roundtripAt P codeDueCfg bt h s = some (roundtrip P bt h s) := by
  have ok : setRecordsOk codeDueCfg h ((exportDoc P s).undelegations.map (fun r => r.2.1)) = true := by
    rw [export_completes, setRecordsOk_code]
    intro c hc
    simp only [List.mem_map] at hc
    obtain ⟨u, hu, rfl⟩ := hc
    exact inv u hu
  simp only [roundtripAt, initAt, ok, if_true, roundtrip]

/-- every history from the first block on: the state committed by block n (blocks 1 … n) is imported at height n+1 -/
theorem C18_export_of_any_history_imports (P : Prefixes) (bt : Int) (bs : List Block) (s : Core)
    (hs : s.unds = runBlocks 1 bs []) :
    roundtripAt P codeDueCfg bt (1 + bs.length) s = some (roundtrip P bt (1 + bs.length) s) := by
  apply C18_import_admits_reachable
  intro u hu
  rw [hs] at hu
  exact C18_due_after_blocks bs 1 [] (by intro u hu; cases hu) u hu

/-- a writer that also rejects equality: the import of a reachable state panics iff a record is due at the import height -/
theorem C18_due_strict_guard_iff (P : Prefixes) (bt h : Int) (s : Core) (inv : ∀ u ∈ s.unds, h ≤ u.complete) :
    roundtripAt P strictDueCfg bt h s = none ↔ ∃ u ∈ s.unds, u.complete = h := by
  simp only [roundtripAt, initAt, export_completes]
  constructor
  · intro H
    by_cases ok : setRecordsOk strictDueCfg h (s.unds.map (fun u => u.complete)) = true
    · simp [ok] at H
    · rw [setRecordsOk_strict] at ok
      apply Classical.byContradiction
      intro hne
      apply ok
      intro c hc
      simp only [List.mem_map] at hc
      obtain ⟨u, hu, rfl⟩ := hc
      have := inv u hu
      have hne' : u.complete ≠ h := fun e => hne ⟨u, hu, e⟩
      omega
  · intro ⟨u, hu, hdue⟩
    have ok : ¬ setRecordsOk strictDueCfg h (s.unds.map (fun u => u.complete)) = true := by
      rw [setRecordsOk_strict]
      intro H
      have := H u.complete (List.mem_map.mpr ⟨u, hu, rfl⟩)
      omega
    simp [ok]

/-- … and succeeds, with the same result as the code, when no record is due at the import height -/
theorem C18_due_strict_guard_agrees_off_boundary (P : Prefixes) (bt h : Int) (s : Core) (inv : ∀ u ∈ s.unds, h < u.complete) :
    roundtripAt P strictDueCfg bt h s = roundtripAt P codeDueCfg bt h s := by
  have ok1 : setRecordsOk strictDueCfg h (s.unds.map (fun u => u.complete)) = true := by
    rw [setRecordsOk_strict]
    intro c hc
    simp only [List.mem_map] at hc
    obtain ⟨u, hu, rfl⟩ := hc
    exact inv u hu
  have ok2 : setRecordsOk codeDueCfg h (s.unds.map (fun u => u.complete)) = true := by
    rw [setRecordsOk_code]
    intro c hc
    simp only [List.mem_map] at hc
    obtain ⟨u, hu, rfl⟩ := hc
    have := inv u hu
    omega
  simp only [roundtripAt, initAt, export_completes, ok1, ok2]

/-! ## the boundary is reached -/

/-- a record that stays held: after the block of its completion height and after every later block it is due at exactly
    the next height — the import height of an export taken there -/
theorem C18_due_held_record_always_at_boundary (n : Nat) (h : Int) (u : Und) (due : u.complete = h) (held : u.hold > 0) :
    runBlocks h (List.replicate (n + 1) idleBlock) [u] = [{ u with complete := h + (n + 1 : Nat) }] := by
  induction n generalizing h u with
  | zero =>
    simp [runBlocks, runBlock, idleBlock, endBlock, endBlockRec, due, held]
  | succ k ih =>
    rw [List.replicate_succ]
    simp only [runBlocks]
    have step : runBlock h idleBlock [u] = [{ u with complete := h + 1 }] := by
      simp [runBlock, idleBlock, endBlock, endBlockRec, due, held]
    rw [step, ih (h + 1) { u with complete := h + 1 } rfl held]
    simp only [List.cons.injEq, and_true]
    have : h + 1 + ((k + 1 : Nat) : Int) = h + ((k + 1 + 1 : Nat) : Int) := by omega
    simp only [this]

/-- the history of the directed scenarios: one undelegation in block 1 (held or not), then idle blocks -/
def oneUndelegation (hold : Int) (idle : Nat) : List Block :=
  { news := [("r", 5, hold)], holdsPre := fun u => u.hold, holdsPost := fun u => u.hold } :: List.replicate idle idleBlock

def coreWith (us : List Und) : Core :=
  { unds := us, queues := [], curKeys := [], prevKeys := [], reverse := [], vals := [], epochs := [] }

/-- not held, exported after block 10 (the last block before the completion height 11): the record is due at the import
    height; one block earlier it is not; one block later it is gone -/
theorem C18_due_last_block_before_completion :
    runBlocks 1 (oneUndelegation 0 8) [] = [⟨"r", 11, 5, 0⟩] ∧
    runBlocks 1 (oneUndelegation 0 9) [] = [⟨"r", 11, 5, 0⟩] ∧
    runBlocks 1 (oneUndelegation 0 10) [] = [] := by decide

/-- seeded change C18-a, not held: exports after blocks 9 / 10 / 11 are imported at 10 / 11 / 12. The code imports all
    three; the strict writer panics on exactly the one taken in the last block before the completion -/
theorem C18_regression_due_strict_guard_last_block :
    (roundtripAt codePrefixes codeDueCfg 0 10 (coreWith (runBlocks 1 (oneUndelegation 0 8) []))).isSome = true ∧
    (roundtripAt codePrefixes codeDueCfg 0 11 (coreWith (runBlocks 1 (oneUndelegation 0 9) []))).isSome = true ∧
    (roundtripAt codePrefixes codeDueCfg 0 12 (coreWith (runBlocks 1 (oneUndelegation 0 10) []))).isSome = true ∧
    (roundtripAt codePrefixes strictDueCfg 0 10 (coreWith (runBlocks 1 (oneUndelegation 0 8) []))).isSome = true ∧
    (roundtripAt codePrefixes strictDueCfg 0 11 (coreWith (runBlocks 1 (oneUndelegation 0 9) []))).isSome = false ∧
    (roundtripAt codePrefixes strictDueCfg 0 12 (coreWith (runBlocks 1 (oneUndelegation 0 10) []))).isSome = true := by decide

/-- seeded change C18-a, held record: from the last block before the completion height on EVERY export is rejected by the
    strict writer (imports at 11, 12, 14), the code imports them all -/
theorem C18_regression_due_strict_guard_held :
    runBlocks 1 (oneUndelegation 1 10) [] = [⟨"r", 12, 5, 1⟩] ∧
    runBlocks 1 (oneUndelegation 1 12) [] = [⟨"r", 14, 5, 1⟩] ∧
    (roundtripAt codePrefixes codeDueCfg 0 11 (coreWith (runBlocks 1 (oneUndelegation 1 9) []))).isSome = true ∧
    (roundtripAt codePrefixes codeDueCfg 0 12 (coreWith (runBlocks 1 (oneUndelegation 1 10) []))).isSome = true ∧
    (roundtripAt codePrefixes codeDueCfg 0 14 (coreWith (runBlocks 1 (oneUndelegation 1 12) []))).isSome = true ∧
    (roundtripAt codePrefixes strictDueCfg 0 10 (coreWith (runBlocks 1 (oneUndelegation 1 8) []))).isSome = true ∧
    (roundtripAt codePrefixes strictDueCfg 0 11 (coreWith (runBlocks 1 (oneUndelegation 1 9) []))).isSome = false ∧
    (roundtripAt codePrefixes strictDueCfg 0 12 (coreWith (runBlocks 1 (oneUndelegation 1 10) []))).isSome = false ∧
    (roundtripAt codePrefixes strictDueCfg 0 14 (coreWith (runBlocks 1 (oneUndelegation 1 12) []))).isSome = false := by decide

/-- non-vacuity of `C18_import_admits_reachable` / `C18_due_strict_guard_iff`: a state with a record due at the import
    height and one due later meets the hypothesis -/
example : ∀ u ∈ (coreWith [⟨"a", 11, 5, 1⟩, ⟨"b", 15, 7, 0⟩]).unds, (11 : Int) ≤ u.complete := by decide
example : ∃ u ∈ (coreWith [⟨"a", 11, 5, 1⟩, ⟨"b", 15, 7, 0⟩]).unds, u.complete = 11 := by decide
/-- non-vacuity of `C18_due_after_blocks`: a history with undelegations in two blocks, one held and released later -/
example : runBlocks 1 [⟨[("a", 5, 1)], fun u => u.hold, fun u => u.hold⟩, ⟨[("b", 7, 0)], fun u => u.hold, fun u => u.hold⟩]
    [] = [⟨"a", 11, 5, 1⟩, ⟨"b", 12, 7, 0⟩] := by decide

end ExoVerif.Genesis
