import ExoVerif.Model.Genesis
/-!
# C18 — genesis export and re-import reproduce the chain (partial, with findings)

`roundtrip P bt h s = init P bt h (exportDoc P s)` for the cross-module core (undelegation records + hold counts,
the three per-epoch dogfood queues, operator key indexes, epochs), parameterised by `P`: the byte prefixes the dogfood
exporters iterate / the setters write and whether x/dogfood re-places the holds at import (all regenerated from the
Go source, see C18Tie).

* `codePrefixes` is the code as it is after the F-18a / F-18b repairs: every queue is reproduced
  (`C18_roundtrip_dogfood_actual`), hold counts are rebuilt from the imported maturity queue
  (`C18_roundtrip_delegation`);
* `preFixPrefixes` is the code before the repairs; `C18_regression_F18a*` / `C18_regression_F18b*` keep the
  machine-checked counter-examples (prune and maturity queues replaced by copies of the opt-out queue, holds zeroed);
* since the F-18c / F-18h repairs the reverse lookup of the key replaced during the running epoch is rebuilt
  (`C18_roundtrip_operator_reverse_full`) and the validator set is exported with the stored keys
  (`C18_roundtrip_validators`); `C18_regression_F18c` / `C18_regression_F18h` keep the pre-repair counter-examples;
* still open (F-18i): the reverse lookup of a key whose PrevConsKey record was cleared at the end of its epoch and that
  waits in the prune queue is in no export — `C18_full` is the property's statement for the core, `C18_full_fails` its
  counter-example on the repaired code, `C18_roundtrip_core` what holds.
x/assets: Props/C18Assets.lean; x/exomint, x/feedistribution, x/oracle: Props/C18Mods.lean.
-/
namespace ExoVerif.Genesis
open ExoVerif.Epochs

/-! ## delegation: undelegation records and hold counts -/

/-- what the round trip does to the undelegations, for every state and every configuration -/
theorem C18_roundtrip_delegation_holds (P : Prefixes) (bt h : Int) (s : Core) :
    (roundtrip P bt h s).unds =
      s.unds.map (fun u => { u with hold := if P.rebuildHolds then holdOf (queueOf P.maturesIter s.queues) u.id else 0 }) := by
  show (s.unds.map (fun u => (u.id, u.complete, u.amount))).map _ = _
  rw [List.map_map]
  rfl

theorem map_hold_eq (l : List Und) (f : Und → Int) :
    l.map (fun u => { u with hold := f u }) = l ↔ ∀ u ∈ l, u.hold = f u := by
  induction l with
  | nil => simp
  | cons u rest ih =>
    simp only [List.map_cons, List.cons.injEq, List.mem_cons, forall_eq_or_imp]
    constructor
    · rintro ⟨h1, h2⟩
      refine ⟨?_, ih.mp h2⟩
      have := congrArg Und.hold h1
      simpa using this.symm
    · rintro ⟨h1, h2⟩
      refine ⟨?_, ih.mpr h2⟩
      cases u with
      | mk i c a hd => exact congrArg (Und.mk i c a) h1.symm

/-- Repaired code: the undelegation state (records AND hold counts) is reproduced exactly iff every hold count equals
    the number of maturity entries listing the record — the invariant of reachable states, x/dogfood being the only
    holder (it places the hold and the maturity entry together, and removes them together). -/
theorem C18_roundtrip_delegation (bt h : Int) (s : Core) :
    (roundtrip codePrefixes bt h s).unds = s.unds ↔ ∀ u ∈ s.unds, u.hold = holdOf (queueOf 6 s.queues) u.id := by
  rw [C18_roundtrip_delegation_holds]
  exact map_hold_eq s.unds _

/-- Pre-repair regression (F-18b): every hold count was zeroed, for every state … -/
theorem C18_regression_F18b_holds_dropped (bt h : Int) (s : Core) :
    (roundtrip preFixPrefixes bt h s).unds = s.unds.map (fun u => { u with hold := 0 }) := by
  rw [C18_roundtrip_delegation_holds]; rfl

/-- … so the undelegations were reproduced iff no record was on hold -/
theorem C18_regression_F18b_partial (bt h : Int) (s : Core) :
    (roundtrip preFixPrefixes bt h s).unds = s.unds ↔ ∀ u ∈ s.unds, u.hold = 0 := by
  rw [C18_regression_F18b_holds_dropped]
  exact map_hold_eq s.unds (fun _ => 0)

/-! ## dogfood: the three per-epoch queues -/

def WellPrefixed (s : Core) : Prop := ∀ q ∈ s.queues, q.pfx = 3 ∨ q.pfx = 5 ∨ q.pfx = 6

/-- the store is keyed by the prefix byte: entries come in prefix order -/
def StoreOrdered (s : Core) : Prop :=
  s.queues = s.queues.filter (fun q => q.pfx == 3) ++ s.queues.filter (fun q => q.pfx == 5) ++ s.queues.filter (fun q => q.pfx == 6)

theorem filter_queue_roundtrip (qs : List QEntry) (p : Nat) :
    ((queueOf p qs).map (fun r => (⟨p, r.1, r.2.1, r.2.2⟩ : QEntry))) = qs.filter (fun q => q.pfx == p) := by
  induction qs with
  | nil => rfl
  | cons q rest ih =>
    simp only [queueOf, List.filter_cons] at *
    by_cases hq : (q.pfx == p) = true
    · simp only [hq, if_true, List.map_cons, List.cons.injEq]
      refine ⟨?_, ih⟩
      cases q; simp_all
    · simp only [hq, Bool.false_eq_true, if_false]; exact ih

theorem filter_map_other (l : List (Int × String × List String)) (p p' : Nat) (hne : p ≠ p') :
    (l.map (fun r => (⟨p, r.1, r.2.1, r.2.2⟩ : QEntry))).filter (fun q => q.pfx == p') = [] := by
  induction l with
  | nil => rfl
  | cons r rest ih => simp [ih, hne]

theorem filter_map_same (l : List (Int × String × List String)) (p : Nat) :
    (l.map (fun r => (⟨p, r.1, r.2.1, r.2.2⟩ : QEntry))).filter (fun q => q.pfx == p) = l.map (fun r => (⟨p, r.1, r.2.1, r.2.2⟩ : QEntry)) := by
  induction l with
  | nil => rfl
  | cons r rest ih => simp [ih]

/-- The code as it is (exporters iterate the prefix their collection is written under): the queues after the round
    trip are the opt-out, prune and maturity entries of the original, in store order … -/
theorem C18_roundtrip_dogfood_actual (bt h : Int) (s : Core) :
    (roundtrip codePrefixes bt h s).queues =
      s.queues.filter (fun q => q.pfx == 3) ++ s.queues.filter (fun q => q.pfx == 5) ++ s.queues.filter (fun q => q.pfx == 6) := by
  simp only [roundtrip, init, exportDoc, codePrefixes]
  rw [filter_queue_roundtrip, filter_queue_roundtrip, filter_queue_roundtrip]

/-- … hence each of the three queues is reproduced entry by entry, for every state … -/
theorem C18_roundtrip_dogfood_each (bt h : Int) (s : Core) (p : Nat) (hp : p = 3 ∨ p = 5 ∨ p = 6) :
    (roundtrip codePrefixes bt h s).queues.filter (fun q => q.pfx == p) = s.queues.filter (fun q => q.pfx == p) := by
  simp only [roundtrip, init, exportDoc, codePrefixes, List.filter_append]
  rcases hp with rfl | rfl | rfl
  · rw [filter_map_same, filter_map_other _ 5 3 (by decide), filter_map_other _ 6 3 (by decide), filter_queue_roundtrip]; simp
  · rw [filter_map_other _ 3 5 (by decide), filter_map_same, filter_map_other _ 6 5 (by decide), filter_queue_roundtrip]; simp
  · rw [filter_map_other _ 3 6 (by decide), filter_map_other _ 5 6 (by decide), filter_map_same, filter_queue_roundtrip]; simp

/-- … and the whole queue state of a store-ordered state is reproduced exactly. -/
theorem C18_roundtrip_dogfood (bt h : Int) (s : Core) (ho : StoreOrdered s) :
    (roundtrip codePrefixes bt h s).queues = s.queues := by
  rw [C18_roundtrip_dogfood_actual]; exact ho.symm

/-- Pre-repair regression (F-18a): the opt-out queue survived, the prune queue and the maturity queue were both
    replaced by a relabelled copy of the opt-out queue — whatever they held was lost. -/
theorem C18_regression_F18a (bt h : Int) (s : Core) :
    (roundtrip preFixPrefixes bt h s).queues =
      (queueOf 3 s.queues).map (fun r => (⟨3, r.1, r.2.1, r.2.2⟩ : QEntry)) ++
      (queueOf 3 s.queues).map (fun r => (⟨5, r.1, r.2.1, r.2.2⟩ : QEntry)) ++
      (queueOf 3 s.queues).map (fun r => (⟨6, r.1, r.2.1, r.2.2⟩ : QEntry)) := by
  simp [roundtrip, init, exportDoc, preFixPrefixes]

/-- in particular, with no opt-out in progress every pending prune / maturity entry disappeared -/
theorem C18_regression_F18a_queues_lost (bt h : Int) (s : Core) (hno : queueOf 3 s.queues = []) :
    (roundtrip preFixPrefixes bt h s).queues = [] := by
  rw [C18_regression_F18a, hno]; rfl

/-! ## operator: consensus-key indexes -/

/-- forward entries (current and previous keys) survive for every state -/
theorem C18_roundtrip_operator_forward (P : Prefixes) (bt h : Int) (s : Core) :
    (roundtrip P bt h s).curKeys = s.curKeys ∧ (roundtrip P bt h s).prevKeys = s.prevKeys := ⟨rfl, rfl⟩

/-- the reverse index after the round trip, for every state and configuration: the current keys and — when
    SetAllPrevConsKeys rebuilds them — the keys replaced during the running epoch -/
theorem C18_roundtrip_operator_reverse (P : Prefixes) (bt h : Int) (s : Core) :
    (roundtrip P bt h s).reverse =
      s.curKeys.map (fun k => (k.2, k.1)) ++ (if P.rebuildPrevReverse then s.prevKeys.map (fun k => (k.2, k.1)) else []) := rfl

/-- Repaired code: a reverse index that covers the current keys and the keys replaced during the running epoch (every
    replaced key until the epoch ends) is reproduced. -/
theorem C18_roundtrip_operator_reverse_full (bt h : Int) (s : Core)
    (hinv : s.reverse = s.curKeys.map (fun k => (k.2, k.1)) ++ s.prevKeys.map (fun k => (k.2, k.1))) :
    (roundtrip codePrefixes bt h s).reverse = s.reverse := by
  rw [C18_roundtrip_operator_reverse, hinv]; rfl

/-- Pre-repair regression (F-18c): only the current keys were indexed after the import -/
theorem C18_regression_F18c (bt h : Int) (s : Core) :
    (roundtrip preFixPrefixes bt h s).reverse = s.curKeys.map (fun k => (k.2, k.1)) := by
  rw [C18_roundtrip_operator_reverse]; simp [preFixPrefixes]

/-! ## dogfood: the validator set -/

/-- Repaired code: val_set carries the keys x/dogfood stores, the validator set is reproduced for every state -/
theorem C18_roundtrip_validators (bt h : Int) (s : Core) : (roundtrip codePrefixes bt h s).vals = s.vals := rfl

/-- what the pre-repair export did, for every state: each stored key replaced by its operator's current key -/
theorem C18_regression_F18h_vals (bt h : Int) (s : Core) :
    (roundtrip preFixPrefixes bt h s).vals = s.vals.map (fun v => (currentKeyOf s v.1, v.2)) := rfl

/-! ## epochs -/

theorem initEpochs_id (bt h : Int) (es : List EpochInfo)
    (hinv : ∀ e ∈ es, valid e = true ∧ e.startTime ≠ 0 ∧ e.currentEpochStartHeight ≠ 0) :
    (es.filter valid).map (initEpoch bt h) = es := by
  induction es with
  | nil => rfl
  | cons e rest ih =>
    have he := hinv e (by simp)
    have hr := ih (fun e' he' => hinv e' (by simp [he']))
    simp only [List.filter_cons, he.1, if_true, List.map_cons, hr, List.cons.injEq, and_true]
    simp [initEpoch, he.2.1, he.2.2]

/-- epoch infos that have started counting (non-zero start time and start height) and validate are reproduced -/
theorem C18_roundtrip_epochs (P : Prefixes) (bt h : Int) (s : Core)
    (hinv : ∀ e ∈ s.epochs, valid e = true ∧ e.startTime ≠ 0 ∧ e.currentEpochStartHeight ≠ 0) :
    (roundtrip P bt h s).epochs = s.epochs := by
  simp only [roundtrip, init, exportDoc]
  exact initEpochs_id bt h s.epochs hinv

/-! ## the full statement for the core -/

def coreEq (a b : Core) : Prop :=
  a.unds = b.unds ∧ a.queues = b.queues ∧ a.curKeys = b.curKeys ∧ a.prevKeys = b.prevKeys ∧ a.reverse = b.reverse ∧
  a.vals = b.vals ∧ a.epochs = b.epochs

/-- states as the keepers produce them: queue entries under the three prefixes in store order, hold count = number of
    maturity entries listing the record, epochs started -/
def Inv (s : Core) : Prop :=
  WellPrefixed s ∧ StoreOrdered s ∧ (∀ e ∈ s.epochs, valid e = true ∧ e.startTime ≠ 0 ∧ e.currentEpochStartHeight ≠ 0) ∧
  (∀ u ∈ s.unds, u.hold = holdOf (queueOf 6 s.queues) u.id)

/-- C18 for the core: every reachable state is reproduced by export + init -/
def C18_full : Prop := ∀ (bt h : Int) (s : Core), Inv s → coreEq (roundtrip codePrefixes bt h s) s

/-- one undelegation held by x/dogfood with its maturity entry; operator op1 replaced its key twice: "olderCons" in an
    earlier epoch (record cleared, waiting in the prune queue), "oldCons" in the running epoch (still the validator's
    key until the epoch ends) -/
def witness : Core :=
  { unds := [⟨"rec1", 13, 1000000, 1⟩],
    queues := [⟨5, 4, "olderCons", []⟩, ⟨6, 4, "m1", ["rec1"]⟩],
    curKeys := [("op1", "newCons")], prevKeys := [("op1", "oldCons")],
    reverse := [("newCons", "op1"), ("oldCons", "op1"), ("olderCons", "op1")],
    vals := [("oldCons", 100)], epochs := [] }

theorem C18_witness_inv : Inv witness := by
  refine ⟨?_, ?_, ?_, ?_⟩
  · intro q hq; simp [witness] at hq; rcases hq with rfl | rfl <;> simp
  · unfold StoreOrdered; decide
  · intro e he; simp [witness] at he
  · intro u hu; simp [witness] at hu; subst hu; decide

/-- still refuted on the repaired code: the reverse lookup of the key waiting to be pruned is lost (F-18i) -/
theorem C18_full_fails : ¬ C18_full := by
  intro hfull
  have := (hfull 0 0 witness C18_witness_inv).2.2.2.2.1
  revert this
  decide

/-- the repaired code reproduces the witness's queues, its hold count, its validator set and the reverse lookup of the
    key replaced in the running epoch … -/
example : (roundtrip codePrefixes 0 0 witness).queues = witness.queues := by decide
example : (roundtrip codePrefixes 0 0 witness).unds = witness.unds := by decide
example : (roundtrip codePrefixes 0 0 witness).vals = witness.vals := by decide
/-- … but not the reverse lookup of the key that waits in the prune queue -/
example : (roundtrip codePrefixes 0 0 witness).reverse = [("newCons", "op1"), ("oldCons", "op1")] := by decide
/-- pre-repair regressions on the same witness: both queue entries and the hold were lost (F-18a/b), the replaced key
    no longer resolved to its operator (F-18c), the validator was exported under the operator's new key (F-18h) -/
theorem C18_regression_witness :
    (roundtrip preFixPrefixes 0 0 witness).queues = [] ∧
    (roundtrip preFixPrefixes 0 0 witness).unds = [⟨"rec1", 13, 1000000, 0⟩] ∧
    (roundtrip preFixPrefixes 0 0 witness).reverse = [("newCons", "op1")] ∧
    (roundtrip preFixPrefixes 0 0 witness).vals = [("newCons", 100)] := by decide

theorem C18_regression_F18h : ∃ s : Core, Inv s ∧ (roundtrip preFixPrefixes 0 0 s).vals ≠ s.vals :=
  ⟨witness, C18_witness_inv, by decide⟩

/-- What holds for the code as it is: every invariant state whose reverse index covers the current keys and the keys
    replaced during the running epoch (no replaced key of an earlier epoch still waiting to be pruned) is reproduced
    exactly — undelegations with their hold counts, all three dogfood queues, key indexes, validator set, epochs. -/
theorem C18_roundtrip_core (bt h : Int) (s : Core) (hinv : Inv s)
    (hrev : s.reverse = s.curKeys.map (fun k => (k.2, k.1)) ++ s.prevKeys.map (fun k => (k.2, k.1))) :
    coreEq (roundtrip codePrefixes bt h s) s := by
  obtain ⟨_, ho, hep, hh⟩ := hinv
  exact ⟨(C18_roundtrip_delegation bt h s).mpr hh, C18_roundtrip_dogfood bt h s ho, rfl, rfl,
    C18_roundtrip_operator_reverse_full bt h s hrev, rfl, C18_roundtrip_epochs _ bt h s hep⟩

def heldState : Core :=
  { unds := [⟨"rec1", 13, 1000000, 1⟩, ⟨"rec2", 14, 5, 1⟩], queues := [⟨3, 7, "opA", []⟩, ⟨5, 4, "oldConsAddr", []⟩, ⟨6, 4, "m1", ["rec1", "rec2"]⟩],
    curKeys := [("op1", "newCons")], prevKeys := [("op1", "oldCons")], reverse := [("newCons", "op1"), ("oldCons", "op1")],
    vals := [("oldCons", 100)], epochs := [] }

example : Inv heldState := by
  refine ⟨?_, by unfold StoreOrdered; decide, ?_, ?_⟩
  · intro q hq; simp [heldState] at hq; rcases hq with rfl | rfl | rfl <;> simp
  · intro e he; simp [heldState] at he
  · intro u hu; simp [heldState] at hu; rcases hu with rfl | rfl <;> decide

example : heldState.reverse = heldState.curKeys.map (fun k => (k.2, k.1)) ++ heldState.prevKeys.map (fun k => (k.2, k.1)) := by decide

example : (roundtrip codePrefixes 0 0 heldState).unds = heldState.unds ∧
    (roundtrip codePrefixes 0 0 heldState).queues = heldState.queues ∧
    (roundtrip codePrefixes 0 0 heldState).reverse = heldState.reverse ∧
    (roundtrip codePrefixes 0 0 heldState).vals = heldState.vals := by decide

end ExoVerif.Genesis
