import ExoVerif.Model.Genesis
/-!
# C18 — genesis export and re-import reproduce the chain (partial, with findings)

`roundtrip P bt h s = init P bt h (exportDoc P s)` for the cross-module core (undelegation records + hold counts,
the three per-epoch dogfood queues, operator key indexes, epochs), parameterised by the byte prefixes `P` the
dogfood exporters iterate / the setters write (regenerated from the Go source, see C18Tie).

* with the prefixes as they SHOULD be (`fixedPrefixes`) the dogfood queues survive the round trip;
* with the prefixes of the code AS IT IS (`codePrefixes`) the prune and maturity queues are replaced by copies of
  the opt-out queue (F-18a);
* hold counts are never exported (F-18b), the reverse lookup of a replaced key is not rebuilt (F-18c);
* `C18_full` is the property's statement for the core; `C18_full_fails` is the machine-checked counter-example.
Assets, oracle, mint and fee-distribution export code is not modelled: differential run on the real app only.
-/
namespace ExoVerif.Genesis
open ExoVerif.Epochs

/-! ## delegation: undelegation records and hold counts -/

/-- what the round trip does to the undelegations, for every state: records kept, every hold count zeroed -/
theorem C18_roundtrip_delegation_holds_dropped (P : Prefixes) (bt h : Int) (s : Core) :
    (roundtrip P bt h s).unds = s.unds.map (fun u => { u with hold := 0 }) := by
  simp [roundtrip, init, exportDoc, List.map_map, Function.comp_def]

/-- the round trip reproduces the undelegation state exactly iff no record is on hold -/
theorem C18_roundtrip_delegation_partial (P : Prefixes) (bt h : Int) (s : Core) :
    (roundtrip P bt h s).unds = s.unds ↔ ∀ u ∈ s.unds, u.hold = 0 := by
  rw [C18_roundtrip_delegation_holds_dropped]
  induction s.unds with
  | nil => simp
  | cons u rest ih =>
    simp only [List.map_cons, List.cons.injEq, List.mem_cons, forall_eq_or_imp]
    constructor
    · rintro ⟨h1, h2⟩
      refine ⟨?_, ih.mp h2⟩
      have := congrArg Und.hold h1
      simpa using this.symm
    · rintro ⟨h1, h2⟩
      refine ⟨?_, ih.mpr h2⟩
      cases u; simp_all

/-! ## dogfood: the three per-epoch queues -/

def WellPrefixed (s : Core) : Prop := ∀ q ∈ s.queues, q.pfx = 3 ∨ q.pfx = 5 ∨ q.pfx = 6

theorem filter_queue_roundtrip (qs : List QEntry) (p : Nat) :
    ((queueOf p qs).map (fun r => (⟨p, r.1, r.2⟩ : QEntry))) = qs.filter (fun q => q.pfx == p) := by
  induction qs with
  | nil => rfl
  | cons q rest ih =>
    simp only [queueOf, List.filter_cons] at *
    by_cases hq : (q.pfx == p) = true
    · simp only [hq, if_true, List.map_cons, List.cons.injEq]
      refine ⟨?_, ih⟩
      cases q; simp_all
    · simp only [hq, Bool.false_eq_true, if_false]; exact ih

theorem filter_map_other (l : List (Int × String)) (p p' : Nat) (hne : p ≠ p') :
    (l.map (fun r => (⟨p, r.1, r.2⟩ : QEntry))).filter (fun q => q.pfx == p') = [] := by
  induction l with
  | nil => rfl
  | cons r rest ih => simp [ih, hne]

theorem filter_map_same (l : List (Int × String)) (p : Nat) :
    (l.map (fun r => (⟨p, r.1, r.2⟩ : QEntry))).filter (fun q => q.pfx == p) = l.map (fun r => (⟨p, r.1, r.2⟩ : QEntry)) := by
  induction l with
  | nil => rfl
  | cons r rest ih => simp [ih]

/-- With exporters that iterate the prefix their collection is written under, each of the three queues is
    reproduced entry by entry (store order = prefix order, so this is the whole dogfood queue state). -/
theorem C18_roundtrip_dogfood_fixed (bt h : Int) (s : Core) (p : Nat) (hp : p = 3 ∨ p = 5 ∨ p = 6) :
    (roundtrip fixedPrefixes bt h s).queues.filter (fun q => q.pfx == p) = s.queues.filter (fun q => q.pfx == p) := by
  simp only [roundtrip, init, exportDoc, fixedPrefixes, List.filter_append]
  rcases hp with rfl | rfl | rfl
  · rw [filter_map_same, filter_map_other _ 5 3 (by decide), filter_map_other _ 6 3 (by decide), filter_queue_roundtrip]; simp
  · rw [filter_map_other _ 3 5 (by decide), filter_map_same, filter_map_other _ 6 5 (by decide), filter_queue_roundtrip]; simp
  · rw [filter_map_other _ 3 6 (by decide), filter_map_other _ 5 6 (by decide), filter_map_same, filter_queue_roundtrip]; simp

/-- The code as it is: the opt-out queue survives, the prune queue and the maturity queue are both replaced by a
    relabelled copy of the opt-out queue — whatever they held is lost (F-18a). -/
theorem C18_roundtrip_dogfood_actual (bt h : Int) (s : Core) :
    (roundtrip codePrefixes bt h s).queues =
      (queueOf 3 s.queues).map (fun r => (⟨3, r.1, r.2⟩ : QEntry)) ++
      (queueOf 3 s.queues).map (fun r => (⟨5, r.1, r.2⟩ : QEntry)) ++
      (queueOf 3 s.queues).map (fun r => (⟨6, r.1, r.2⟩ : QEntry)) := by
  simp [roundtrip, init, exportDoc, codePrefixes]

/-- in particular, with no opt-out in progress every pending prune / maturity entry disappears -/
theorem C18_dogfood_queues_lost (bt h : Int) (s : Core) (hno : queueOf 3 s.queues = []) :
    (roundtrip codePrefixes bt h s).queues = [] := by
  rw [C18_roundtrip_dogfood_actual, hno]; rfl

/-! ## operator: consensus-key indexes -/

/-- forward entries (current and previous keys) survive for every state -/
theorem C18_roundtrip_operator_forward (P : Prefixes) (bt h : Int) (s : Core) :
    (roundtrip P bt h s).curKeys = s.curKeys ∧ (roundtrip P bt h s).prevKeys = s.prevKeys := ⟨rfl, rfl⟩

/-- the reverse index after the round trip holds exactly the current keys: it is reproduced iff it held nothing else,
    i.e. no replaced-but-not-yet-pruned key was indexed (F-18c otherwise) -/
theorem C18_roundtrip_operator_reverse_partial (P : Prefixes) (bt h : Int) (s : Core)
    (hinv : s.reverse = s.curKeys.map (fun k => (k.2, k.1))) :
    (roundtrip P bt h s).reverse = s.reverse := by
  simp [roundtrip, init, exportDoc, hinv]

theorem C18_roundtrip_operator_reverse (P : Prefixes) (bt h : Int) (s : Core) :
    (roundtrip P bt h s).reverse = s.curKeys.map (fun k => (k.2, k.1)) := rfl

/-! ## epochs -/

theorem initEpochs_id (bt h : Int) (es : List EpochInfo)
    (hinv : ∀ e ∈ es, valid e = true ∧ e.startTime ≠ 0 ∧ e.currentEpochStartHeight ≠ 0) :
    (es.filter valid).map (initEpoch bt h) = es := by
  induction es with
  | nil => rfl
  | cons e rest ih =>
    have he := hinv e (by simp)
    have hr := ih (fun e' he' => hinv e' (by simp [he']))
    simp only [List.filter_cons, he.1, if_true, List.map_cons, hr, List.cons.injEq, and_true]
    simp [initEpoch, he.2.1, he.2.2]

/-- epoch infos that have started counting (non-zero start time and start height) and validate are reproduced -/
theorem C18_roundtrip_epochs (P : Prefixes) (bt h : Int) (s : Core)
    (hinv : ∀ e ∈ s.epochs, valid e = true ∧ e.startTime ≠ 0 ∧ e.currentEpochStartHeight ≠ 0) :
    (roundtrip P bt h s).epochs = s.epochs := by
  simp only [roundtrip, init, exportDoc]
  exact initEpochs_id bt h s.epochs hinv

/-! ## the full statement for the core, and its failure on the unchanged code -/

def coreEq (a b : Core) : Prop :=
  a.unds = b.unds ∧ a.queues = b.queues ∧ a.curKeys = b.curKeys ∧ a.prevKeys = b.prevKeys ∧ a.reverse = b.reverse ∧ a.epochs = b.epochs

/-- states as the keepers produce them: queue entries under the three prefixes in store order, reverse index covering
    current and previous keys, epochs started -/
def Inv (s : Core) : Prop :=
  WellPrefixed s ∧ (∀ e ∈ s.epochs, valid e = true ∧ e.startTime ≠ 0 ∧ e.currentEpochStartHeight ≠ 0) ∧
  (∀ u ∈ s.unds, 0 ≤ u.hold)

/-- C18 for the core: every reachable state is reproduced by export + init (prefixes of the code as it is) -/
def C18_full : Prop := ∀ (bt h : Int) (s : Core), Inv s → coreEq (roundtrip codePrefixes bt h s) s

/-- one undelegation held by x/dogfood with its maturity entry, and one replaced consensus key -/
def witness : Core :=
  { unds := [⟨"rec1", 13, 1000000, 1⟩],
    queues := [⟨5, 4, "oldConsAddr"⟩, ⟨6, 4, "rec1"⟩],
    curKeys := [("op1", "newCons")], prevKeys := [("op1", "oldCons")],
    reverse := [("newCons", "op1"), ("oldCons", "op1")], epochs := [] }

theorem C18_witness_inv : Inv witness := by
  refine ⟨?_, ?_, ?_⟩
  · intro q hq; simp [witness] at hq; rcases hq with rfl | rfl <;> simp
  · intro e he; simp [witness] at he
  · intro u hu; simp [witness] at hu; subst hu; decide

theorem C18_full_fails : ¬ C18_full := by
  intro hfull
  have := (hfull 0 0 witness C18_witness_inv).1
  revert this
  decide

/-- the same witness is reproduced in its queues once the exporters iterate the right prefixes … -/
example : (roundtrip fixedPrefixes 0 0 witness).queues = witness.queues := by decide
/-- … while the unchanged code loses both queue entries, the hold and the reverse lookup of the old key -/
example : (roundtrip codePrefixes 0 0 witness).queues = [] := by decide
example : (roundtrip codePrefixes 0 0 witness).unds = [⟨"rec1", 13, 1000000, 0⟩] := by decide
example : (roundtrip codePrefixes 0 0 witness).reverse = [("newCons", "op1")] := by decide

/-- what holds for the unchanged code: a state with no held undelegation, no entry in any dogfood queue and no
    replaced key is reproduced exactly (an opt-out in progress is itself exported correctly but is additionally
    copied into the prune and maturity queues, see `C18_roundtrip_dogfood_actual`) -/
theorem C18_roundtrip_core_partial (bt h : Int) (s : Core)
    (hq : s.queues = []) (hh : ∀ u ∈ s.unds, u.hold = 0)
    (hrev : s.reverse = s.curKeys.map (fun k => (k.2, k.1)))
    (hep : ∀ e ∈ s.epochs, valid e = true ∧ e.startTime ≠ 0 ∧ e.currentEpochStartHeight ≠ 0) :
    coreEq (roundtrip codePrefixes bt h s) s := by
  refine ⟨(C18_roundtrip_delegation_partial _ bt h s).mpr hh, ?_, rfl, rfl,
    C18_roundtrip_operator_reverse_partial _ bt h s hrev, C18_roundtrip_epochs _ bt h s hep⟩
  rw [C18_dogfood_queues_lost bt h s (by rw [hq]; rfl), hq]

def quietState : Core :=
  { unds := [⟨"rec1", 13, 1000000, 0⟩], queues := [], curKeys := [("op1", "newCons")], prevKeys := [],
    reverse := [("newCons", "op1")], epochs := [] }

example : (roundtrip codePrefixes 0 0 quietState).unds = quietState.unds ∧
    (roundtrip codePrefixes 0 0 quietState).queues = quietState.queues ∧
    (roundtrip codePrefixes 0 0 quietState).reverse = quietState.reverse := by decide

end ExoVerif.Genesis
