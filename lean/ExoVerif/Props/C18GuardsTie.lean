import ExoVerif.Generated.Facts
import ExoVerif.Model.GenesisAssets
import ExoVerif.Model.GenesisOperator
import ExoVerif.Model.GenesisMods
/-!
# C18 — ties of the validation / import conditions (regenerated from the Go sources on every run)

`assetsValidateChecks` (Props/C18Tie) pins the MESSAGES of the rejections; the facts below pin their CONDITIONS, so that a
comparison that becomes stricter or looser (`GT` → `GTE`, `IsNegative()` → `!IsPositive()`, `||` → `&&`), a negated
condition of the operator import or a dropped `genesis.Params = k.GetParams(ctx)` breaks a theorem here, whatever the
generated histories reach. Each condition is the Go text of the clause the model carries:

* x/assets `validateOpItem`: `a.total + a.pending ≤ tot` is `!(TotalAmount.Add(PendingUndelegationAmount).GT(totalStaking))`,
  `a.opShare ≤ a.totalShare` is `!(OperatorShare.GT(TotalShare))`; `validateDepItem`, `validateTokens`, `validateChains` likewise;
* x/operator `validateUSDItem` (code as it is, `codeOpValCfg`): `0 ≤ self/total/active` is `!(… .IsNegative() || …)`, a missing
  AVS value reads as zero (`!ok` no longer returns an error: F-18o repair), `active ≤ v` is `!ActiveUSDValue.GT(avsUSDValue.Amount)`
  (F-18p repair; before: TotalUSDValue), `self ≤ total`, `active ≤ total`; `validateAvsUsd`: `0 ≤ amount`, AVS in the opted map
  or amount zero (`!ok && !(IsNil() || IsZero())`: F-18r repair); `validateOptStates`: `inH ≤ outH`
  is `!(OptedOutHeight < OptedInHeight)`; `validateKeyRecords`: the three map look-ups;
* x/operator `fillEarnings`: `if EarningsAddr == "" { EarningsAddr = OperatorAddress }`;
* x/exomint / x/feedistribution `exportMint` / `exportDistr`: the exported Params are the stored ones.
-/
namespace ExoVerif.Genesis
open ExoVerif.Gen

/-- every condition under which a Validate* function of x/assets rejects (`validateChains`, `validateTokens`, `validateDepItem` / `validateDeposits`, `validateOpItem` / `validateOpAssets`) -/
theorem C18_tie_assets_validate_guards : assetsValidateGuards = [
  ("ValidateClientChains", ["info.Name == \"\"", "info.AddressLength == 0", "err != nil"]),
  ("ValidateTokens", ["_, ok := lzIDs[id]; !ok", "strings.ToLower(address) != address", "!common.IsHexAddress(address)", "info.StakingTotalAmount.IsNil() || info.StakingTotalAmount.IsNegative()", "err != nil"]),
  ("ValidateDeposits", ["_, stakerClientChainID, err = ValidateID(stakerID, true, true); err != nil", "_, ok := lzIDs[stakerClientChainID]; !ok", "!ok", "assetClientChainID != stakerClientChainID", "info.TotalDepositAmount.IsNil() || info.WithdrawableAmount.IsNil() || info.PendingUndelegationAmount.IsNil()", "info.TotalDepositAmount.IsNegative() || info.WithdrawableAmount.IsNegative() || info.PendingUndelegationAmount.IsNegative()", "info.TotalDepositAmount.GT(tokenTotalStaking)", "info.PendingUndelegationAmount.Add(info.WithdrawableAmount).GT(info.TotalDepositAmount)", "err != nil", "err != nil"]),
  ("ValidateOperatorAssets", ["err != nil", "!ok && asset.AssetID != ExocoreAssetID", "ok && asset.Info.TotalAmount.Add(asset.Info.PendingUndelegationAmount).GT(totalStaking)", "asset.Info.OperatorShare.GT(asset.Info.TotalShare)", "err != nil", "err != nil"])] := rfl

/-- every condition under which a Validate* function of x/operator rejects (`validateOperators`, `validateKeyRecords`, `validateOptStates`, `validateAvsUsd`, `validateUSDItem` / `validateUSD`; slash states, previous keys and key removals are pinned although not modelled) -/
theorem C18_tie_operator_validate_guards : operatorValidateGuards = [
  ("ValidateOperators", ["_, found := operators[address]; found", "err != nil", "op.OperatorInfo.EarningsAddr != \"\"", "err != nil", "op.OperatorInfo.ClientChainEarningsAddr != nil", "_, found := lzIDs[lzID]; found", "!common.IsHexAddress(info.ClientChainEarningAddr)", "op.OperatorInfo.Commission.CommissionRates.Rate.IsNil() || op.OperatorInfo.Commission.CommissionRates.MaxRate.IsNil() || op.OperatorInfo.Commission.CommissionRates.MaxChangeRate.IsNil()", "err := op.OperatorInfo.Commission.Validate(); err != nil"]),
  ("ValidateOperatorConsKeyRecords", ["_, err := sdk.AccAddressFromBech32(addr); err != nil", "_, found := operatorRecords[addr]; found", "_, opFound := operators[addr]; !opFound", "!utils.IsValidChainIDWithoutRevision(chainID)", "wrappedKey := keytypes.NewWrappedConsKeyFromHex(chain.ConsensusKey); wrappedKey == nil", "_, found := keysByChainID[chainID][chain.ConsensusKey]; found"]),
  ("ValidateOptedStates", ["err != nil", "_, ok := operators[operator]; !ok", "state.OptInfo.OptedOutHeight < state.OptInfo.OptedInHeight", "!common.IsHexAddress(avsAddr)", "err != nil"]),
  ("ValidateAVSUSDValues", ["!common.IsHexAddress(avsUSDValue.AVSAddr)", "_, ok := optedAVS[avsUSDValue.AVSAddr]; !ok && !(avsUSDValue.Value.Amount.IsNil() || avsUSDValue.Value.Amount.IsZero())", "avsUSDValue.Value.Amount.IsNil() || avsUSDValue.Value.Amount.IsNegative()", "err != nil"]),
  ("ValidateOperatorUSDValues", ["operatorUSDValue.OptedUSDValue.SelfUSDValue.IsNil() || operatorUSDValue.OptedUSDValue.TotalUSDValue.IsNil() || operatorUSDValue.OptedUSDValue.ActiveUSDValue.IsNil()", "operatorUSDValue.OptedUSDValue.SelfUSDValue.IsNegative() || operatorUSDValue.OptedUSDValue.TotalUSDValue.IsNegative() || operatorUSDValue.OptedUSDValue.ActiveUSDValue.IsNegative()", "err != nil", "_, ok := operators[operator]; !ok", "operatorUSDValue.OptedUSDValue.ActiveUSDValue.GT(avsUSDValue.Amount)", "operatorUSDValue.OptedUSDValue.SelfUSDValue.GT(operatorUSDValue.OptedUSDValue.TotalUSDValue)", "operatorUSDValue.OptedUSDValue.ActiveUSDValue.GT(operatorUSDValue.OptedUSDValue.TotalUSDValue)", "err != nil"]),
  ("ValidateSlashStates", ["err != nil", "_, ok := operators[operator]; !ok", "_, ok := avs[avsAddr]; !ok", "slash.Info.EventHeight > slash.Info.SubmittedHeight", "slash.Info.SlashProportion.IsNil() || slash.Info.SlashProportion.LTE(sdkmath.LegacyNewDec(0))", "slash.Info.ExecutionInfo.SlashProportion.IsNil() || slash.Info.ExecutionInfo.SlashProportion.IsNegative()", "slash.Info.ExecutionInfo.SlashValue.IsNil() || slash.Info.ExecutionInfo.SlashValue.IsNegative()", "slashFromUndelegation.Amount.IsNil() || slashFromUndelegation.Amount.LTE(sdkmath.NewInt(0))", "err != nil", "slashFromAssetsPool.Amount.IsNil() || slashFromAssetsPool.Amount.LTE(sdkmath.NewInt(0))", "err != nil", "err != nil"]),
  ("ValidatePrevConsKeys", ["err != nil", "!utils.IsValidChainIDWithoutRevision(chainID)", "_, ok := operators[operator]; !ok", "wrappedKey := keytypes.NewWrappedConsKeyFromHex(prevConsKey.ConsensusKey); wrappedKey == nil", "err != nil"]),
  ("ValidateOperatorKeyRemovals", ["err != nil", "_, ok := operators[operator]; !ok", "err != nil"]),
  ("Validate", ["err != nil", "err != nil", "err != nil", "err != nil", "err != nil", "err != nil", "err != nil", "err != nil"])] := rfl

/-- every condition under which x/dogfood GenesisState.Validate rejects -/
theorem C18_tie_dogfood_validate_guards : dogfoodValidateGuards = [
  ("Validate", ["err := gs.Params.Validate(); err != nil", "len(gs.ValSet) > maxValidators", "_, ok := pubkeys[val.PublicKey]; ok", "wrappedKey := keytypes.NewWrappedConsKeyFromHex(val.PublicKey); wrappedKey == nil", "sdk.NewInt(power).LT(minSelfDelegation)", "_, ok := epochs[epoch]; ok", "epoch <= 1", "len(addrs) == 0", "_, err := sdk.AccAddressFromBech32(addr); err != nil", "_, ok := addrsMap[addr]; ok", "_, ok := epochs[epoch]; ok", "epoch <= 1", "len(addrs) == 0", "_, err := sdk.ConsAddressFromBech32(addr); err != nil", "_, ok := addrsMap[addr]; ok", "_, ok := epochs[epoch]; ok", "epoch <= 1", "len(recordKeys) == 0", "_, ok := recordKeysMap[recordKey]; ok", "recordBytes, err := hexutil.Decode(recordKey); err != nil", "_, err := delegationtypes.ParseUndelegationRecordKey(recordBytes); err != nil", "gs.LastTotalPower.IsNil()", "!gs.LastTotalPower.IsPositive()"])] := rfl

/-- `fillEarnings`: InitGenesis fills an EMPTY earnings address with the operator's own and leaves a set one alone -/
theorem C18_tie_operator_init_earnings : operatorInitEarnings = [("op.OperatorInfo.EarningsAddr == \"\"", "op.OperatorInfo.EarningsAddr = op.OperatorAddress")] := rfl

/-- `exportMint`, `exportDistr`: both exporters put the stored params into the document -/
theorem C18_tie_mod_params_exported : modParamsExported = [("exomint", ["k.GetParams(ctx)"]), ("feedistribution", ["k.GetParams(ctx)"])] := rfl

end ExoVerif.Genesis
