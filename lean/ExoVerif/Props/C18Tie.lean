import ExoVerif.Generated.Facts
import ExoVerif.Props.C18
/-!
# C18 tie: the prefixes and the export/import call lists of the model are those of the Go code

`Gen.dogfoodPrefixPairs` pairs, for each `GetAll*` used by x/dogfood ExportGenesis, the byte prefix it iterates with the
prefix the setter of the same collection writes (evaluated from the iota block of x/dogfood/types/keys.go);
`Gen.genesisExportCalls` / `Gen.genesisInitCalls` list the keeper methods each module's ExportGenesis / InitGenesis
calls. A changed prefix, a new exported collection or a dropped one changes a fact and breaks the corresponding theorem: the
model must then be brought in line. (State after the F-18a / F-18b repairs; the pre-repair values are kept in
`preFixPrefixes` for the regression theorems.)
-/
namespace ExoVerif.Genesis
open ExoVerif.Gen

/-- the model's `codePrefixes` are the regenerated ones: since the F-18a repair every exporter iterates the prefix its
    collection is written under (3/3, 5/5, 6/6) -/
theorem C18_tie_dogfood_prefix_pairs :
    dogfoodPrefixPairs = [("GetAllOptOutsToFinish", codePrefixes.optOutsIter, codePrefixes.optOutsSet),
                          ("GetAllConsAddrsToPrune", codePrefixes.prunesIter, codePrefixes.prunesSet),
                          ("GetAllUndelegationsToMature", codePrefixes.maturesIter, codePrefixes.maturesSet)] := by decide

/-- what the property needs: every exporter reads what its setter writes. Re-introducing F-18a (an exporter iterating
    another collection's prefix) makes this false. -/
theorem C18_tie_prefix_pairs_agree : ∀ p ∈ dogfoodPrefixPairs, p.2.1 = p.2.2 := by decide

/-- pre-repair regression: the pairs of `preFixPrefixes` (3/3, 3/5, 3/6) do NOT agree -/
theorem C18_tie_regression_prefix_pairs :
    ¬ (∀ p ∈ [("GetAllOptOutsToFinish", preFixPrefixes.optOutsIter, preFixPrefixes.optOutsSet),
              ("GetAllConsAddrsToPrune", preFixPrefixes.prunesIter, preFixPrefixes.prunesSet),
              ("GetAllUndelegationsToMature", preFixPrefixes.maturesIter, preFixPrefixes.maturesSet)], p.2.1 = p.2.2) := by decide

/-- F-18b repair: x/dogfood InitGenesis re-places the holds — the model's `rebuildHolds` flag is the regenerated one -/
theorem C18_tie_holds_rebuilt : dogfoodInitRebuildsHolds = codePrefixes.rebuildHolds := by decide

/-- F-18c repair: SetAllPrevConsKeys rebuilds the reverse lookup — the model's `rebuildPrevReverse` is the regenerated one -/
theorem C18_tie_prev_reverse_rebuilt : operatorPrevKeysRebuildReverse = codePrefixes.rebuildPrevReverse := by decide

/-- F-18h repair: val_set is read from x/dogfood's own validator store — the model's `exportStoredKeys` is the regenerated one -/
theorem C18_tie_export_stored_validators : dogfoodExportUsesStoredValidators = codePrefixes.exportStoredKeys := by decide

/-- F-18g repair: InitGenesis goes through setOperatorInfo with the genesis flag, which keeps an exported commission
    update_time (operator info is not part of the Lean model: the JSON / store comparison of the differential run checks
    the effect, this fact pins the code) -/
theorem C18_tie_commission_time_kept : operatorGenesisKeepsCommissionTime = true := by decide

/-- collections exported by the modelled modules (no hold counts in delegation — x/dogfood re-places them —, no reverse key index in operator —
    rebuilt from current and previous keys —, params only for mint and fee distribution) -/
theorem C18_tie_export_calls : genesisExportCalls = [
    ("assets", ["GetParams", "GetAllClientChainInfo", "GetAllStakingAssetsInfo", "AllDeposits", "AllOperatorAssets"]),
    ("delegation", ["GetAllAssociations", "AllDelegationStates", "AllStakerList", "AllUndelegations"]),
    ("operator", ["AllOperators", "GetAllOperatorConsKeyRecords", "GetAllOptedInfo", "GetAllAVSUSDValues", "GetAllOperatorUSDValues", "GetAllSlashStates", "GetAllPrevConsKeys", "GetAllOperatorKeyRemovals"]),
    ("dogfood", ["GetDogfoodParams", "GetAllExocoreValidators", "GetDogfoodParams", "GetAllOptOutsToFinish", "GetAllConsAddrsToPrune", "GetAllUndelegationsToMature", "GetLastTotalPower"]),
    ("epochs", ["AllEpochInfos"]),
    ("oracle", ["GetParams", "GetAllPrices", "GetValidatorUpdateBlock", "GetIndexRecentParams", "GetIndexRecentMsg", "GetAllRecentMsg", "GetAllRecentParams", "GetAllStakerInfosAssets", "GetAllStakerListAssets"]),
    ("exomint", ["GetParams"]),
    ("feedistribution", ["GetParams"])] := by decide

theorem C18_tie_init_calls : genesisInitCalls = [
    ("assets", ["SetParams", "SetClientChainInfo", "SetStakingAssetInfo", "UpdateStakerAssetState", "UpdateOperatorAssetState"]),
    ("delegation", ["AssociateOperatorWithStaker", "SetAllDelegationStates", "SetAllStakerList", "SetUndelegationRecords"]),
    ("operator", ["setOperatorInfo", "setOperatorConsKeyForChainIDUnchecked", "SetAllOptedInfo", "SetAllOperatorUSDValues", "SetAllAVSUSDValues", "SetAllSlashStates", "SetAllPrevConsKeys", "SetAllOperatorKeyRemovals"]),
    ("dogfood", ["SetParams", "AppendOptOutToFinish", "SetOperatorOptOutFinishEpoch", "AppendConsensusAddrToPrune", "AppendUndelegationToMature", "SetUndelegationMaturityEpoch", "SetLastTotalPower", "ApplyValidatorChanges"]),
    ("epochs", ["AddEpochInfo"]),
    ("oracle", ["SetPrices", "SetValidatorUpdateBlock", "SetIndexRecentParams", "SetIndexRecentMsg", "SetRecentMsg", "SetRecentParams", "SetStakerList", "SetStakerInfos", "SetParams"]),
    ("exomint", ["SetParams"]),
    ("feedistribution", ["SetParams"])] := by decide

end ExoVerif.Genesis
