import ExoVerif.Generated.Facts
import ExoVerif.Generated.Kernels
import ExoVerif.Props.C18
import ExoVerif.Props.C18Assets
import ExoVerif.Props.C18Mods
/-!
# C18 tie: the prefixes and the export/import call lists of the model are those of the Go code

`Gen.dogfoodPrefixPairs` pairs, for each `GetAll*` used by x/dogfood ExportGenesis, the byte prefix it iterates with the
prefix the setter of the same collection writes (evaluated from the iota block of x/dogfood/types/keys.go);
`Gen.genesisExportCalls` / `Gen.genesisInitCalls` list the keeper methods each module's ExportGenesis / InitGenesis
calls. A changed prefix, a new exported collection or a dropped one changes a fact and breaks the corresponding theorem: the
model must then be brought in line. (State after the F-18a / F-18b repairs; the pre-repair values are kept in
`preFixPrefixes` for the regression theorems.)
-/
namespace ExoVerif.Genesis
open ExoVerif.Gen

/-- the model's `codePrefixes` are the regenerated ones: since the F-18a repair every exporter iterates the prefix its
    collection is written under (3/3, 5/5, 6/6) -/
theorem C18_tie_dogfood_prefix_pairs :
    dogfoodPrefixPairs = [("GetAllOptOutsToFinish", codePrefixes.optOutsIter, codePrefixes.optOutsSet),
                          ("GetAllConsAddrsToPrune", codePrefixes.prunesIter, codePrefixes.prunesSet),
                          ("GetAllUndelegationsToMature", codePrefixes.maturesIter, codePrefixes.maturesSet)] := by decide

/-- what the property needs: every exporter reads what its setter writes. Re-introducing F-18a (an exporter iterating
    another collection's prefix) makes this false. -/
theorem C18_tie_prefix_pairs_agree : ∀ p ∈ dogfoodPrefixPairs, p.2.1 = p.2.2 := by decide

/-- pre-repair regression: the pairs of `preFixPrefixes` (3/3, 3/5, 3/6) do NOT agree -/
theorem C18_tie_regression_prefix_pairs :
    ¬ (∀ p ∈ [("GetAllOptOutsToFinish", preFixPrefixes.optOutsIter, preFixPrefixes.optOutsSet),
              ("GetAllConsAddrsToPrune", preFixPrefixes.prunesIter, preFixPrefixes.prunesSet),
              ("GetAllUndelegationsToMature", preFixPrefixes.maturesIter, preFixPrefixes.maturesSet)], p.2.1 = p.2.2) := by decide

/-- F-18b repair: x/dogfood InitGenesis re-places the holds — the model's `rebuildHolds` flag is the regenerated one -/
theorem C18_tie_holds_rebuilt : dogfoodInitRebuildsHolds = codePrefixes.rebuildHolds := by decide

/-- F-18c repair: SetAllPrevConsKeys rebuilds the reverse lookup — the model's `rebuildPrevReverse` is the regenerated one -/
theorem C18_tie_prev_reverse_rebuilt : operatorPrevKeysRebuildReverse = codePrefixes.rebuildPrevReverse := by decide

/-- F-18h repair: val_set is read from x/dogfood's own validator store — the model's `exportStoredKeys` is the regenerated one -/
theorem C18_tie_export_stored_validators : dogfoodExportUsesStoredValidators = codePrefixes.exportStoredKeys := by decide

/-- F-18g repair: InitGenesis goes through setOperatorInfo with the genesis flag, which keeps an exported commission
    update_time (operator info is not part of the Lean model: the JSON / store comparison of the differential run checks
    the effect, this fact pins the code) -/
theorem C18_tie_commission_time_kept : operatorGenesisKeepsCommissionTime = true := by decide

/-- collections exported by the modelled modules (no hold counts in delegation — x/dogfood re-places them —, no reverse key index in operator —
    rebuilt from current and previous keys —, params only for mint and fee distribution) -/
theorem C18_tie_export_calls : genesisExportCalls = [
    ("assets", ["GetParams", "GetAllClientChainInfo", "GetAllStakingAssetsInfo", "AllDeposits", "AllOperatorAssets"]),
    ("delegation", ["GetAllAssociations", "AllDelegationStates", "AllStakerList", "AllUndelegations"]),
    ("operator", ["AllOperators", "GetAllOperatorConsKeyRecords", "GetAllOptedInfo", "GetAllAVSUSDValues", "GetAllOperatorUSDValues", "GetAllSlashStates", "GetAllPrevConsKeys", "GetAllOperatorKeyRemovals"]),
    ("dogfood", ["GetDogfoodParams", "GetAllExocoreValidators", "GetDogfoodParams", "GetAllOptOutsToFinish", "GetAllConsAddrsToPrune", "GetAllUndelegationsToMature", "GetLastTotalPower"]),
    ("epochs", ["AllEpochInfos"]),
    ("oracle", ["GetParams", "GetAllPrices", "GetValidatorUpdateBlock", "GetIndexRecentParams", "GetIndexRecentMsg", "GetAllRecentMsg", "GetAllRecentParams", "GetAllStakerInfosAssets", "GetAllStakerListAssets"]),
    ("exomint", ["GetParams"]),
    ("feedistribution", ["GetParams"])] := by decide

theorem C18_tie_init_calls : genesisInitCalls = [
    ("assets", ["SetParams", "SetClientChainInfo", "SetStakingAssetInfo", "UpdateStakerAssetState", "UpdateOperatorAssetState"]),
    ("delegation", ["AssociateOperatorWithStaker", "SetAllDelegationStates", "SetAllStakerList", "SetUndelegationRecords"]),
    ("operator", ["setOperatorInfo", "setOperatorConsKeyForChainIDUnchecked", "SetAllOptedInfo", "SetAllOperatorUSDValues", "SetAllAVSUSDValues", "SetAllSlashStates", "SetAllPrevConsKeys", "SetAllOperatorKeyRemovals"]),
    ("dogfood", ["SetParams", "AppendOptOutToFinish", "SetOperatorOptOutFinishEpoch", "AppendConsensusAddrToPrune", "AppendUndelegationToMature", "SetUndelegationMaturityEpoch", "SetLastTotalPower", "ApplyValidatorChanges"]),
    ("epochs", ["AddEpochInfo"]),
    ("oracle", ["SetPrices", "SetValidatorUpdateBlock", "SetIndexRecentParams", "SetIndexRecentMsg", "SetRecentMsg", "SetRecentParams", "SetStakerList", "SetStakerInfos", "SetParams"]),
    ("exomint", ["SetParams"]),
    ("feedistribution", ["SetParams"])] := by decide

/-! ## x/assets -/

/-- every exported x/assets collection is read from the prefix its InitGenesis setter writes: the model's four stores
    (chains 1, tokens 2, staker rows 3, operator rows 4) -/
theorem C18_tie_assets_prefix_pairs : assetsPrefixPairs =
    [("GetAllClientChainInfo", "SetClientChainInfo", 1, 1), ("GetAllStakingAssetsInfo", "SetStakingAssetInfo", 2, 2),
     ("AllDeposits", "UpdateStakerAssetState", 3, 3), ("AllOperatorAssets", "UpdateOperatorAssetState", 4, 4)] := by decide

theorem C18_tie_assets_prefix_pairs_agree : ∀ p ∈ assetsPrefixPairs, p.2.2.1 = p.2.2.2 := by decide

set_option maxRecDepth 8000 in
/-- the store key of every setter is computed from the value / ids it is given: `StoreInv.*Key`
    (hexNat lzID, assetIDOf, joinKey staker asset, joinKey operator asset) -/
theorem C18_tie_assets_store_keys : assetsStoreKeys = [
    ("SetClientChainInfo", "[]byte(hexutil.EncodeUint64(info.LayerZeroChainID))"),
    ("SetStakingAssetInfo", "[]byte(assetID) where assetID := assetstype.GetStakerIDAndAssetIDFromStr(info.AssetBasicInfo.LayerZeroChainID, \"\", info.AssetBasicInfo.Address)"),
    ("UpdateStakerAssetState", "key := assetstype.GetJoinedStoreKey(stakerID, assetID)"),
    ("UpdateOperatorAssetState", "key := assetstype.GetJoinedStoreKey(operatorAddr.String(), assetID)")] := by decide

/-- InitGenesis re-creates the rows by ADDING the exported row to the stored one (`stepDep` / `stepOp`) -/
theorem C18_tie_assets_rows_as_delta : assetsInitRowsAsDelta = true := by decide

/-- … with UpdateAssetValue, whose regenerated kernel is the model's `updVal` -/
theorem C18_tie_assets_updVal (v c : Int) :
    updateAssetValue v c = (match updVal v c with | some x => Except.ok x | none => Except.error "ErrSubAmountIsMoreThanOrigin") := by
  unfold updateAssetValue updVal
  by_cases h1 : c < 0 <;> by_cases h2 : v < -c <;> by_cases h3 : c = 0 <;> simp [h1, h2, h3] <;> omega

/-- `stepToken`: the three refusals of SetStakingAssetInfo and MaxDecimal = 18 -/
theorem C18_tie_assets_set_token_guards : assetsSetTokenGuards =
    (["info.AssetBasicInfo.Decimals > assetstype.MaxDecimal", "info.StakingTotalAmount.IsNegative()", "store.Has([]byte(assetID))"], 18) := by decide

/-- `validateAssets`: the five checks in the order of GenesisState.Validate -/
theorem C18_tie_assets_validate_order : assetsValidateOrder =
    ["ValidateClientChains", "ValidateTokens", "ValidateDeposits", "ValidateOperatorAssets", "Params.Validate"] := by decide

set_option maxRecDepth 8000 in
/-- … and every rejection of the four Validate* functions (`validateChains`, `validateTokens`, `validateDepItem` /
    `validateDeposits`, `validateOpItem` / `validateOpAssets`; the nil checks and the bech32 check are not modelled).
    A dropped or added check changes this list. -/
theorem C18_tie_assets_validate_checks : assetsValidateChecks = [
    ("ValidateClientChains", ["nil Name for chain %d", "nil AddressLength for chain %s"]),
    ("ValidateTokens", ["unknown LayerZeroChainID for token %s, clientChainID: %d", "contains uppercase characters for token %s, address: %s",
      "not hex address for token %s, address: %s", "nil total staking amount for asset %s"]),
    ("ValidateDeposits", ["invalid stakerID: %s", "unknown LayerZeroChainID for staker %s: %d", "unknown assetID for deposit %s: %s",
      "mismatched client chain IDs for staker %s and asset %s", "nil deposit info for %s: %+v", "negative deposit amount for %s: %+v",
      "invalid deposit amount that is greater than the total staking, assetID: %s: %+v",
      "the sum of PendingUndelegationAmount and WithdrawableAmount is greater than the TotalDepositAmount, assetID: %s: %+v"]),
    ("ValidateOperatorAssets", ["invalid operator address %s: %s", "unknown assetID for operator assets %s: %s",
      "operator's sum amount exceeds the total staking amount for %s: %+v", "operator's share exceeds the total share for %s: %+v"])] := by decide

/-! ## x/exomint, x/feedistribution, x/oracle -/

/-- the genesis messages: params only for mint and fee distribution (`exportMint`, `exportDistr`), the nine fields of
    `OracleDoc` for the oracle — no field for the nonces -/
theorem C18_tie_genesis_fields : genesisStateFields = [
    ("exomint", ["Params"]), ("feedistribution", ["Params"]),
    ("oracle", ["Params", "PricesList", "ValidatorUpdateBlock", "IndexRecentParams", "IndexRecentMsg", "RecentMsgList",
                "RecentParamsList", "StakerInfosAssets", "StakerListAssets"])] := by decide

/-- what the x/feedistribution store can hold besides the params: the five collections of `Distr` that the round trip
    empties (F-18e) -/
theorem C18_tie_feedistribution_store_keys : feedistributionStoreKeys =
    ["KeyPrefixParams", "KeyPrefixEpochIdentifier", "FeePoolKey", "ValidatorAccumulatedCommissionPrefix",
     "ValidatorCurrentRewardsPrefix", "ValidatorOutstandingRewardsPrefix", "StakerOutstandingRewardsPrefix"] := by decide

/-- the oracle's key prefixes: the nonce prefix exists in the store and in no exporter (F-18f) -/
theorem C18_tie_oracle_nonce_prefix_not_exported :
    ("NonceKeyPrefix", "KeyNonce/value/") ∈ oracleKeyPrefixes ∧ ∀ c ∈ oracleCollectionPrefixes, c.2.2.1 ≠ "NonceKeyPrefix" := by decide

/-- every exported oracle collection is read from the prefix its setter writes -/
theorem C18_tie_oracle_collections : oracleCollectionPrefixes = [
    ("GetAllPrices", "getPriceTRStore", "PricesKeyPrefix", "PricesKeyPrefix"),
    ("GetValidatorUpdateBlock", "SetValidatorUpdateBlock", "ValidatorUpdateBlockKey", "ValidatorUpdateBlockKey"),
    ("GetIndexRecentParams", "SetIndexRecentParams", "IndexRecentParamsKey", "IndexRecentParamsKey"),
    ("GetIndexRecentMsg", "SetIndexRecentMsg", "IndexRecentMsgKey", "IndexRecentMsgKey"),
    ("GetAllRecentMsg", "SetRecentMsg", "RecentMsgKeyPrefix", "RecentMsgKeyPrefix"),
    ("GetAllRecentParams", "SetRecentParams", "RecentParamsKeyPrefix", "RecentParamsKeyPrefix"),
    ("GetAllStakerInfosAssets", "SetStakerInfos", "NativeTokenStakerInfoKeyPrefix", "NativeTokenStakerInfoKeyPrefix"),
    ("GetAllStakerListAssets", "SetStakerList", "NativeTokenStakerListKeyPrefix", "NativeTokenStakerListKeyPrefix")] := by decide

/-- F-18l repair: the model's `codeOracleCfg` is the code's — the staker-list exporter iterates a prefix store, its key is
    the asset id —, and the prefix is the regenerated one. Re-introducing the defect flips the fact and breaks this theorem. -/
theorem C18_tie_oracle_stakerlist_full_key :
    oracleStakerListExportsFullKey = codeOracleCfg.listKeyFull ∧
    ("NativeTokenStakerListKeyPrefix", codeOracleCfg.listPrefix) ∈ oracleKeyPrefixes := by decide

/-- pre-repair regression: `preFixOracleCfg` is the configuration with the full key -/
theorem C18_tie_regression_oracle_stakerlist : preFixOracleCfg.listKeyFull = true ∧ preFixOracleCfg.listPrefix = codeOracleCfg.listPrefix := by
  decide

/-- F-18m / F-18n repairs: the model's `codeNstCfg` is the code's — UpdateNSTValidatorListForStaker deletes the list entry
    with its last staker and rewrites the StakerIndex of the stakers behind a removed one -/
theorem C18_tie_oracle_nst_removal :
    oracleEmptyStakerListDeleted = codeNstCfg.deleteEmptyList ∧ oracleStakerIndexShifted = codeNstCfg.shiftIndexes := by decide

/-- F-18j repair: ValidateOperatorAssets accepts a native-token pool without a token entry — the `nativeExempt` flag of
    the model's `validateAssets` (= `validateAssetsWith true`) -/
theorem C18_tie_assets_native_exempt : assetsValidateNativeExempt = true ∧ (∀ d, validateAssets d = validateAssetsWith assetsValidateNativeExempt d) := by
  refine ⟨by decide, fun d => ?_⟩
  have : assetsValidateNativeExempt = true := by decide
  rw [this]; rfl

end ExoVerif.Genesis
