import ExoVerif.Props.C13Hist
/-!
# C13 — "its … decimals match the feeder's … token": WHICH token

Feeder ids are positions in `Params.feeders`, token ids positions in `Params.tokenDecimals`; nothing ties the
two (a token whose feeder was stopped and resumed owns two feeder ids, every token added afterwards has a
feeder id larger than its token id; genesis may list the feeders of different tokens in any order). The
decimals a submission for feeder `fid` is compared with — and the decimals the round's price is recorded
with — are those of the token `feeders[fid].tokenID`, ONE look-up step, for every parameter set:

* `C13_decimal_lookup_is_one_step` — `Params.tokenDecimal` spelled out;
* `C13_counted_decimals_of_feeders_token` — a counted submission carries, in every price of every source, the
  decimals of the token its feeder prices (all params, all states of a running node);
* `C13_other_decimals_never_counted` — the contrapositive: one price with other decimals (e.g. those of
  another configured token) and the submission is not counted;
* `C13_other_decimals_only_nonce` — … and, once admitted, it changes only the sender's nonce;
* `C13_final_price_in_token_decimals` — the price a counted submission completes is recorded for the feeder's
  token with that token's decimals;
* `C13_decimal_lookup_through_feeder_table_differs` — reading the feeder's TOKEN id as a FEEDER id (the token
  of feeder `feeders[fid].tokenID`) is a different function: on `dParams` (token 1 with 18 decimals owns the
  feeders 1 and 2, token 2 with 6 decimals has feeder 3) it yields 18 for feeder 3, the submission with 6
  decimals would be refused and the one with 18 counted (the examples below decide both on the model, the
  harness scenario `directedDecimals` on the real application).
-/
namespace ExoVerif.Oracle

theorem C13_decimal_lookup_is_one_step (p : Params) (fid : Nat) (f : Feeder) (hf : p.feeders[fid]? = some f) :
    p.tokenDecimal fid = p.tokenDecimals.getD f.tokenID 0 := by
  unfold Params.tokenDecimal Params.feeder?
  rw [hf]

/-- **Counted ⇒ the decimals of the feeder's own token, in every price.** -/
theorem C13_counted_decimals_of_feeders_token (p : Params) (s : State) (m : Msg) (hpf : PF p s)
    (hok : (createPrice s m).2 = .ok) (f : Feeder) (hf : p.feeders[m.feederID]? = some f) :
    ∀ src ∈ m.prices, ∀ d ∈ src.prices, d.decimal = p.tokenDecimals.getD f.tokenID 0 := by
  obtain ⟨_, _, _, _, _, _, _, _, _, _, _, hdec, _⟩ := C13_counted_only_if p s m hpf hok
  intro src hsrc d hd
  rw [← C13_decimal_lookup_is_one_step p m.feederID f hf]
  by_cases h : d.decimal = p.tokenDecimal m.feederID
  · exact h
  · have : (m.prices.any (fun s => s.prices.any (fun d => d.decimal ≠ p.tokenDecimal m.feederID))) = true := by
      rw [List.any_eq_true]
      refine ⟨src, hsrc, ?_⟩
      rw [List.any_eq_true]
      exact ⟨d, hd, by simpa using h⟩
    rw [this] at hdec
    cases hdec

/-- one price scaled with other decimals — whichever: another token's, off by one — and the submission is not
counted, whoever sends it and whatever else it carries -/
theorem C13_other_decimals_never_counted (p : Params) (s : State) (m : Msg) (hpf : PF p s)
    (f : Feeder) (hf : p.feeders[m.feederID]? = some f)
    (src : PSource) (hsrc : src ∈ m.prices) (d : PriceTD) (hd : d ∈ src.prices)
    (hne : d.decimal ≠ p.tokenDecimals.getD f.tokenID 0) : (createPrice s m).2 ≠ .ok := by
  intro hok
  exact hne (C13_counted_decimals_of_feeders_token p s m hpf hok f hf src hsrc d hd)

/-- … and when its transaction is admitted, prices, aggregator and cache stay as they were: only the nonce
entry moves (`C13_not_counted_only_nonce_partial` for the decimals refusal) -/
theorem C13_other_decimals_only_nonce (p : Params) (s : State) (tx : Tx) (hpf : PF p s)
    (hout : (deliverTx s tx).2 = .msg 0 (.invalidMsg "decimal")) :
    (deliverTx s tx).1.agc = s.agc ∧ (deliverTx s tx).1.cacheD = s.cacheD ∧
    (deliverTx s tx).1.store.prices = s.store.prices ∧
    anteNonces s.store.params.maxNonce s.store tx.msgs = some (deliverTx s tx).1.store :=
  C13_not_counted_only_nonce_partial p s tx (.invalidMsg "decimal") hpf hout (by decide)

/-- context.go: FillPrice — the price a report completes is recorded for the feeder's token, with that
token's decimals -/
theorem C13_final_price_in_token_decimals (g : Agc) (p : Params) (m : Msg) (g' : Agc) (it : FinalItem)
    (h : g.fillPrice p m = (g', .final it)) :
    it.decimal = p.tokenDecimal m.feederID ∧ it.tokenID = ((p.feeder? m.feederID).getD default).tokenID := by
  unfold Agc.fillPrice at h
  simp only at h
  split at h
  · cases h
  · split at h
    · split at h
      · cases h
      · split at h
        · simp only [Prod.mk.injEq, FillRes.final.injEq] at h
          obtain ⟨_, h⟩ := h
          subst h
          exact ⟨rfl, rfl⟩
        · cases h
    · cases h

/-! ## a parameter set in which feeder ids and token ids have drifted apart -/

/-- token 1 (18 decimals): feeder 1, stopped at block 25, and feeder 2, which resumed it at block 30;
token 2 (6 decimals): feeder 3 -/
def dParams : Params :=
  { maxNonce := 3, thA := 2, thB := 3, maxDetID := 5, maxSizePrices := 100,
    sources := [{ valid := false, det := false }, { valid := true, det := true }],
    rules := [[], [1]], tokenDecimals := [0, 18, 6],
    feeders := [default,
      { tokenID := 1, ruleID := 1, startRoundID := 1, startBaseBlock := 1, interval := 10, endBlock := 25 },
      { tokenID := 1, ruleID := 1, startRoundID := 4, startBaseBlock := 30, interval := 10, endBlock := 0 },
      { tokenID := 2, ruleID := 1, startRoundID := 1, startBaseBlock := 10, interval := 10, endBlock := 0 }] }

def dAgc : Agc :=
  { params := some dParams, vals := [(0, 1), (1, 1), (2, 1)], total := 3,
    rounds := [(3, { basedBlock := 20, nextRoundID := 2, status := .open })], workers := [] }

/-- after EndBlock of block 20: round 2 of feeder 3 (token 2) is open for three validators of power 1 -/
def dState : State :=
  { store := { prices := [(2, { next := 2, rounds := [(1, { price := some 1000000, decimal := 6, ts := -1, roundID := 1 })] })],
               nonces := [((0, 3), 0), ((1, 3), 0), ((2, 3), 0)], recentMsgs := [], msgIndex := [], recentParams := [],
               paramsIndex := [], vuBlock := none, params := dParams },
    agc := some dAgc, cache := some { Cache.empty with vals := dAgc.vals }, dogfood := [(0, 1), (1, 1), (2, 1)], height := 21, blockTime := 100 }

theorem dPF : PF dParams dState := ⟨⟨dAgc, rfl, rfl⟩, by intro c hc hu; cases hc; cases hu⟩

/-- validator `v`'s report for feeder 3 / base block 20 with the given decimals -/
def dMsg (v : Nat) (price decimal : Int) : Msg :=
  { creator := v, feederID := 3, basedBlock := 20, nonce := 1,
    prices := [{ sourceID := 1, prices := [{ price := price, decimal := decimal, ts := 100, tsKind := 0, detID := "7" }] }] }

def dTx (v : Nat) (price decimal : Int) : Tx :=
  { size := 300, infos := [{ pubkeyMatches := true, sigValid := true }], msgs := [dMsg v price decimal] }

/-- the one-step look-up on the drifted params: feeder 3 → token 2 → 6; feeders 1 and 2 → token 1 → 18 -/
example : dParams.tokenDecimal 3 = 6 ∧ dParams.tokenDecimal 2 = 18 ∧ dParams.tokenDecimal 1 = 18 := by decide

/-- **The look-up is not "token of the feeder named by the token id".** Reading `feeders[fid].tokenID` as a
feeder id once more gives, for feeder 3 of `dParams`, feeder 2 → token 1 → 18 decimals instead of 6. -/
theorem C13_decimal_lookup_through_feeder_table_differs :
    ∃ (p : Params) (fid : Nat), p.tokenDecimal fid ≠
      p.tokenDecimals.getD ((p.feeders.getD ((p.feeders.getD fid default).tokenID) default).tokenID) 0 :=
  ⟨dParams, 3, by decide⟩

/-- hypotheses of `C13_counted_decimals_of_feeders_token` met: the report in token 2's own unit is counted … -/
example : (createPrice dState (dMsg 0 1000000 6)).2 = .ok := by decide

/-- … the same amount written with the 18 decimals of token 1 is refused for its decimals, by every validator
(`C13_other_decimals_never_counted`) … -/
example : ∀ v ∈ [0, 1, 2], (createPrice dState (dMsg v 1000000000000000000 18)).2 = .err (.invalidMsg "decimal") := by decide

/-- … its transaction is admitted and refused by the handler (`C13_other_decimals_only_nonce`: only the nonce
entry of validator 0 for feeder 3 moved) … -/
example : (deliverTx dState (dTx 0 1000000000000000000 18)).2 = .msg 0 (.invalidMsg "decimal") ∧
    (deliverTx dState (dTx 0 1000000000000000000 18)).1.store.nonces = [((0, 3), 1), ((1, 3), 0), ((2, 3), 0)] ∧
    (deliverTx dState (dTx 0 1000000000000000000 18)).1.store.prices = dState.store.prices := by decide

/-- … and the three reports with 6 decimals complete round 2 of TOKEN 2, recorded with 6 decimals
(`C13_final_price_in_token_decimals`) -/
example : ((runTxs dState [dTx 0 1000000 6, dTx 1 1000000 6, dTx 2 1000000 6]).1.store.token 2).rounds.map
      (fun r => (r.1, r.2.roundID, r.2.decimal)) = [(1, 1, 6), (2, 2, 6)] := by decide

end ExoVerif.Oracle
