import ExoVerif.Generated.Facts
import ExoVerif.Proofs.ConsKeys
/-!
# C07 tie: guards, hook branches and deletions of the Go code as the model has them
Regenerated facts (tools/exofacts/facts_conskeys.go) against the literals the model was written
from; a reordered guard, a hook branch that schedules/deletes something else, or a different set
of keys deleted on completion breaks these proofs.
-/
namespace ExoVerif.ConsKeys
open ExoVerif.Gen

/-- setOperatorConsKeyForChainID checks: frozen, then "already removing", then "key in use" —
the order of `setKeyCore` -/
theorem C07_tie_set_key_guards :
    setConsKeyGuards = ["ErrOperatorIsFrozen", "ErrAlreadyRemovingKey", "ErrConsKeyAlreadyInUse"] := by decide

/-- AfterOperatorKeyReplaced: old key in the validator set ⇒ scheduled at the completion epoch;
otherwise its reverse lookup is deleted at once (`hookReplaced`) -/
theorem C07_tie_hook_replaced :
    hookKeyReplacedBranches = (["GetUnbondingCompletionEpoch", "AppendConsensusAddrToPrune"],
                               ["DeleteOperatorAddressForChainIDAndConsAddr"]) := by decide

/-- AfterOperatorKeyRemovalInitiated (after the F-07a fix): scheduled ⇒ SetOptOutInformation;
otherwise the removal is completed at once with CompleteOperatorKeyRemovalForChainID (the two
branches of `optOut`) -/
theorem C07_tie_hook_removal :
    hookKeyRemovalBranches = (["SetOptOutInformation"], ["CompleteOperatorKeyRemovalForChainID"]) := by decide

/-- … and "scheduled" means: the current key is in the validator set, or else the previous key
(the one replaced during this epoch) is (`prevIn` in `optOut`) -/
theorem C07_tie_hook_removal_prev_key :
    hookKeyRemovalPrevKeyCheck = ["GetOperatorPrevConsKeyForChainID", "GetExocoreValidator"] := by decide

/-- CompleteOperatorKeyRemovalForChainID deletes both forward entries, the reverse entry of the
current key and the marker (`completeRemoval`) -/
theorem C07_tie_complete_removal :
    completeRemovalDeletes = ["KeyForOperatorAndChainIDToConsKey", "KeyForChainIDAndOperatorToConsKey",
      "KeyForChainIDAndConsKeyToOperator", "KeyForOperatorKeyRemovalForChainID"] := by decide

/-- the pruning slot is GetUnbondingCompletionEpoch -/
theorem C07_tie_completion_epoch (s : St) : completionEpoch s = unbondingCompletionEpoch s.epoch s.nUnb := rfl

end ExoVerif.ConsKeys
