import ExoVerif.Props.C16Hist
import ExoVerif.Props.C06Hist
/-!
# C07 — history-level completion: resolvable until the unbonding epochs have ended, pruned then

`Props/C07.lean` proves the registry invariant for all histories and, for one step each, that a
replaced key is scheduled, stays in its slot and is pruned when the slot's epoch ends. This file
states the slashability clause over **whole histories with the epoch clock** (`wf`, see
`Proofs/ConsKeysHist.lean`) and with exact epoch arithmetic:

* `C07_hist_valset_resolvable`: in every history every key of the stored validator set resolves to
  an operator (what `ValidatorByConsAddr`, `Jail`, `SlashWithInfractionReason` need);
* `C07_hist_C06_hypotheses_hold` / `C07_hist_valset_is_topk`: at every epoch-closing EndBlock of
  every history C06's hypotheses (`InputsOK`: distinct candidate keys, reverse lookups present,
  duplicate-free store) are *consequences* of the C07 invariant, so C06's main theorem applies
  unconditionally: the stored set is the eligible top set of that block's candidates;
* `C07_hist_resolvable_not_before` / `C07_hist_pruned_on_time`: an address scheduled for epoch `f`
  resolves to the *same operator* under every operation sequence until the EndBlock of the block
  whose BeginBlock ends epoch `f`, and is unresolvable and unscheduled after it;
* `C07_hist_replaced_key_resolvable_until_pruned`, `C07_hist_optout_key_resolvable_until_completed`:
  the two registrations (replacement, opt-out) at epoch `e` with parameter `N` composed with the
  above: resolvable while the epoch number is ≤ e + N, pruned in the block closing e + N, whatever
  the parameter becomes in between;
* `C07_hist_removing_cannot_set_key`: from the opt-out until that block every SetConsKey / opt-in
  by the operator is rejected without a state change.

**The clause is false at full strength on the unchanged code** (`C07_slashable_full_fails`): the
hooks decide "is this key at stake?" by looking at the *current* validator set. A key that
validated in earlier epochs but dropped out of the set through a power change (or the maximum) loses
its reverse lookup the moment it is replaced, or its operator opts out, although evidence for the
blocks it signed is still admissible. The theorems above are the `_partial` versions: their extra
hypothesis is "the key is in the validator set at the moment of replacement / opt-out".
-/
namespace ExoVerif.ConsKeys
open ExoVerif.VMap ExoVerif.ValSet

/-! ## the validator set and C06's hypotheses -/

/-- In every well-formed history every key of the stored validator set resolves to an operator. -/
theorem C07_hist_valset_resolvable (s : St) (ops : List Op) (h : Good s) (hw : wf s ops) (k : Nat)
    (hk : has (run s ops).vs.vals k = true) : ((run s ops).rev k).isSome = true :=
  (good_run s ops h hw).v.vRev k hk

/-- **C06's hypotheses are consequences of C07.** In every reachable state in which the epoch-end
marker is set, the candidate list EndBlock reads — after it has completed the pending opt-outs and
pruned the pending addresses — has pairwise distinct keys, pairwise distinct operators, every
reverse lookup present, and the store is duplicate-free; and EndBlock's new validator set is
C06's `endBlockEpoch` on exactly these inputs. -/
theorem C07_hist_C06_hypotheses_hold (s : St) (ops : List Op) (h : Good s) (hw : wf s ops)
    (power : Nat → Int) (maxVals : Nat) (he : (run s ops).epochEnd = true) :
    InputsOK (endBlockPre (run s ops)).vs.vals (candsOf (endBlockPre (run s ops)) power) ∧
    ((candsOf (endBlockPre (run s ops)) power).map (·.op)).Nodup ∧
    (endBlock (run s ops) power maxVals).vs =
      (endBlockEpoch (endBlockPre (run s ops)).vs (candsOf (endBlockPre (run s ops)) power) maxVals).1 := by
  have g := good_run s ops h hw
  have hiE := inv_endBlock (run s ops) power maxVals g.inv
  rw [endBlock_closing _ power maxVals he] at hiE
  have hiP : Inv (endBlockPre (run s ops)) := hiE.congr rfl rfl rfl rfl rfl
  have hvs : (endBlockPre (run s ops)).vs = (run s ops).vs := (endBlockPre_fields _).2.2.2.2.2.2.2.2.2.2.1
  refine ⟨⟨by rw [hvs]; exact g.v.vMap, candsOf_keys_nodup _ power hiP, candsOf_revOK _ power hiP⟩,
    candsOf_ops_nodup _ power, ?_⟩
  rw [endBlock_closing _ power maxVals he]

/-- … hence, in every history, the validator set stored by an epoch-closing EndBlock is exactly
the eligible top set of that block's candidates (C06's main theorem, now without hypotheses). -/
theorem C07_hist_valset_is_topk (s : St) (ops : List Op) (h : Good s) (hw : wf s ops)
    (power : Nat → Int) (maxVals : Nat) (he : (run s ops).epochEnd = true) (k : Nat) :
    get (endBlock (run s ops) power maxVals).vs.vals k
      = get (topMap (candsOf (endBlockPre (run s ops)) power) maxVals) k := by
  obtain ⟨hok, _, heq⟩ := C07_hist_C06_hypotheses_hold s ops h hw power maxVals he
  rw [heq]
  exact (C06_updates_yield_topk _ _ maxVals hok _ (fun _ => rfl)).2.2.1 k

/-! ## a scheduled address: resolvable until its slot's epoch has ended, pruned then -/

theorem addr_persist (s : St) (ops : List Op) (f : Int) (k : Nat) (h : Good s)
    (hk : k ∈ s.addrsToPrune f) (hw : wf s ops) (hne : ∀ o ∈ ops, ∀ e', o = .epochEnd e' → e' ≠ f) :
    k ∈ (run s ops).addrsToPrune f ∧ (run s ops).rev k = s.rev k := by
  induction ops generalizing s with
  | nil => exact ⟨hk, rfl⟩
  | cons o rest ih =>
    have g' := good_step s o h hw.1
    have hk' := C07_prune_slot_persists s o f k hk (hne o (List.mem_cons_self ..))
    have hrev := rev_frame s o k h.inv (Or.inr ⟨f, hk⟩) (fun _ _ _ => (h.inv.disj f k hk).1)
    obtain ⟨i1, i2⟩ := ih (step s o).2 g' hk' hw.2 (fun x hx => hne x (List.mem_cons_of_mem _ hx))
    rw [run_cons]
    exact ⟨i1, i2.trans hrev⟩

/-- **Resolvable until then.** An address waiting in slot `f` resolves to the same operator after
*any* well-formed history during which epoch `f` has not ended, and nobody can take the key. -/
theorem C07_hist_resolvable_not_before (s : St) (ops : List Op) (f : Int) (k : Nat)
    (h : Good s) (hk : k ∈ s.addrsToPrune f) (hw : wf s ops) (hf : (run s ops).epoch ≤ f) :
    k ∈ (run s ops).addrsToPrune f ∧ (run s ops).rev k = s.rev k ∧ ((run s ops).rev k).isSome = true ∧
    (∀ op, (run s ops).fwd op ≠ some k) ∧
    (∀ op, (setKey (run s ops) op k).1 ≠ .ok ∧ (setKey (run s ops) op k).2 = run s ops) := by
  obtain ⟨p1, p2⟩ := addr_persist s ops f k h hk hw (no_end_of s ops f hw hf)
  have g := good_run s ops h hw
  have hs : sched (run s ops) k := Or.inr ⟨f, p1⟩
  have hrev := g.inv.schedRev k hs
  exact ⟨p1, p2, hrev, g.inv.schedFree k hs, fun op => (C07_used_key_rejected (run s ops) op k true hrev).1 |>
    fun a => ⟨a, (C07_used_key_rejected (run s ops) op k true hrev).2.1⟩⟩

theorem txs_rev (s : St) (txs : List Op) (k : Nat) (h : Good s) (hk : k ∈ s.pendingAddrs)
    (hw : wf s txs) (htx : ∀ o ∈ txs, isTx o) : (run s txs).rev k = s.rev k := by
  induction txs generalizing s with
  | nil => rfl
  | cons o rest ih =>
    have ho := htx o (List.mem_cons_self ..)
    have g' := good_step s o h hw.1
    have hb := step_tx_sameB s o ho
    have hrev := rev_frame s o k h.inv (Or.inl hk) (fun p m e => by rw [e] at ho; exact absurd ho (by simp [isTx]))
    rw [run_cons, ih (step s o).2 g' (by rw [hb.pA]; exact hk) hw.2 (fun x hx => htx x (List.mem_cons_of_mem _ hx))]
    exact hrev

/-- **Pruned then.** In the block whose BeginBlock ends epoch `f` the address is pending and
still resolves to the same operator while the block's transactions run (evidence handled in that
block's BeginBlock / transactions still finds it); the block's EndBlock deletes the reverse lookup
and nothing mentions the address any more. -/
theorem C07_hist_pruned_on_time (s : St) (ops txs : List Op) (f : Int) (k : Nat)
    (power : Nat → Int) (maxVals : Nat) (h : Good s) (hk : k ∈ s.addrsToPrune f)
    (hw : wf s (ops ++ .epochEnd f :: (txs ++ [.endBlock power maxVals]))) (htx : ∀ o ∈ txs, isTx o) :
    (k ∈ (run s (ops ++ .epochEnd f :: txs)).pendingAddrs ∧
     (run s (ops ++ .epochEnd f :: txs)).rev k = s.rev k) ∧
    ((run s (ops ++ .epochEnd f :: (txs ++ [.endBlock power maxVals]))).rev k = none ∧
     ¬ sched (run s (ops ++ .epochEnd f :: (txs ++ [.endBlock power maxVals]))) k) := by
  obtain ⟨hw0, hw1⟩ := (wf_append s ops _).1 hw
  obtain ⟨hwe, hw2⟩ := hw1
  obtain ⟨hwt, _⟩ := (wf_append _ txs _).1 hw2
  have hfe : f = (run s ops).epoch := hwe.1
  obtain ⟨hin, hrev0, _, _, _⟩ := C07_hist_resolvable_not_before s ops f k h hk hw0 (by omega)
  have hrun1 : run s (ops ++ .epochEnd f :: txs) = run (epochEndHook (run s ops) f) txs := by
    rw [run_append, run_cons]; rfl
  have hrun2 : run s (ops ++ .epochEnd f :: (txs ++ [.endBlock power maxVals]))
      = endBlock (run (epochEndHook (run s ops) f) txs) power maxVals := by
    rw [run_append, run_cons, run_append]; rfl
  have hwall1 : wf s (ops ++ .epochEnd f :: txs) := (wf_append s ops _).2 ⟨hw0, hwe, hwt⟩
  have g0 := good_run s ops h hw0
  have gh : Good (epochEndHook (run s ops) f) := good_step (run s ops) (.epochEnd f) g0 hwe
  have g1 := good_run s _ h hwall1
  have gall := good_run s _ h hw
  have hb := run_txs_sameB (epochEndHook (run s ops) f) txs htx
  have hpend : k ∈ (run s (ops ++ .epochEnd f :: txs)).pendingAddrs := by
    rw [hrun1, hb.pA]; exact hin
  have hee : (run s (ops ++ .epochEnd f :: txs)).epochEnd = true := by rw [hrun1, hb.epochEnd]; rfl
  have hrev1 : (run s (ops ++ .epochEnd f :: txs)).rev k = s.rev k := by
    rw [hrun1, txs_rev _ txs k gh hin hwt htx]; exact hrev0
  have hnone : (run s (ops ++ .epochEnd f :: (txs ++ [.endBlock power maxVals]))).rev k = none := by
    rw [hrun2, ← hrun1, endBlock_closing _ power maxVals hee]
    exact (endBlockPre_rev _ k g1.inv).1 hpend
  refine ⟨⟨hpend, hrev1⟩, hnone, fun hs => ?_⟩
  have := gall.inv.schedRev k hs
  rw [hnone] at this; cases this

/-! ## the two registrations, composed: exact epoch arithmetic -/

/-- **Replaced key (in the set at the time of replacement).** Operator `op` replaces its
validating key `pk` while epoch `e = s.epoch` is current and `EpochsUntilUnbonded = N = s.nUnb`.
Then after *every* well-formed continuation in which the epoch number is still ≤ e + N — any
operations by anybody, any parameter changes — `pk` resolves to `op`. -/
theorem C07_hist_replaced_key_resolvable_until_pruned (s : St) (op key pk : Nat) (ops : List Op)
    (h : Good s) (hact : s.optedIn op = true ∧ s.jailed op = false) (hrm : s.removing op = false)
    (hfree : s.rev key = none) (hf : s.fwd op = some pk) (hne : pk ≠ key) (hfirst : s.prevKey op = none)
    (hval : has s.vs.vals pk = true)
    (hw : wf (setKey s op key).2 ops) (hep : (run (setKey s op key).2 ops).epoch ≤ s.epoch + s.nUnb) :
    (run (setKey s op key).2 ops).rev pk = some op ∧
    pk ∈ (run (setKey s op key).2 ops).addrsToPrune (s.epoch + s.nUnb) := by
  obtain ⟨a1, a2, _⟩ := C07_replacement_schedules_old_key s op key pk hact hrm hfree hf hne hfirst hval
  have g' : Good (setKey s op key).2 := good_step s (.setKey op key) h trivial
  obtain ⟨b1, b2, _⟩ := C07_hist_resolvable_not_before _ ops (s.epoch + s.nUnb) pk g' a1 hw hep
  exact ⟨by rw [b2, a2]; exact h.inv.back op pk hf, b1⟩

/-- … and it is pruned by the EndBlock of the block whose BeginBlock ends epoch e + N. -/
theorem C07_hist_replaced_key_pruned_on_time (s : St) (op key pk : Nat) (ops txs : List Op)
    (power : Nat → Int) (maxVals : Nat)
    (h : Good s) (hact : s.optedIn op = true ∧ s.jailed op = false) (hrm : s.removing op = false)
    (hfree : s.rev key = none) (hf : s.fwd op = some pk) (hne : pk ≠ key) (hfirst : s.prevKey op = none)
    (hval : has s.vs.vals pk = true)
    (hw : wf (setKey s op key).2 (ops ++ .epochEnd (s.epoch + s.nUnb) :: (txs ++ [.endBlock power maxVals])))
    (htx : ∀ o ∈ txs, isTx o) :
    (run (setKey s op key).2 (ops ++ .epochEnd (s.epoch + s.nUnb) :: txs)).rev pk = some op ∧
    (run (setKey s op key).2 (ops ++ .epochEnd (s.epoch + s.nUnb) :: (txs ++ [.endBlock power maxVals]))).rev pk = none := by
  obtain ⟨a1, a2, _⟩ := C07_replacement_schedules_old_key s op key pk hact hrm hfree hf hne hfirst hval
  have g' : Good (setKey s op key).2 := good_step s (.setKey op key) h trivial
  obtain ⟨⟨_, b2⟩, b3, _⟩ := C07_hist_pruned_on_time _ ops txs (s.epoch + s.nUnb) pk power maxVals g' a1 hw htx
  exact ⟨by rw [b2, a2]; exact h.inv.back op pk hf, b3⟩

/-- **Key being removed (in the set at the time of the opt-out).** Operator `op` opts out with
its validating key `key` at epoch `e`, parameter `N`. After every well-formed continuation in
which the epoch number is still ≤ e + N the key is still `op`'s key and resolves to `op`, and
`op` still carries the removal marker. -/
theorem C07_hist_optout_key_resolvable_until_completed (s : St) (op key : Nat) (ops : List Op)
    (h : Good s) (hreg : s.registered op = true) (hact : s.optedIn op = true ∧ s.jailed op = false)
    (hf : s.fwd op = some key) (hval : has s.vs.vals key = true)
    (hw : wf (optOut s op).2 ops) (hep : (run (optOut s op).2 ops).epoch ≤ s.epoch + s.nUnb) :
    (run (optOut s op).2 ops).fwd op = some key ∧ (run (optOut s op).2 ops).rev key = some op ∧
    (run (optOut s op).2 ops).removing op = true := by
  obtain ⟨a1, _, _⟩ := C16_optout_slot s op key hreg hact hf hval
  have hfw : (optOut s op).2.fwd op = some key := by
    simp [optOut, hreg, hact.1, hact.2, hf, hval, setOptOutInformation]
  have g' : Good (optOut s op).2 := good_step s (.optOut op) h trivial
  obtain ⟨_, _, b3, b4, _⟩ := C16_hist_optout_not_before _ ops (s.epoch + s.nUnb) op g' a1 hw hep
  have g := good_run _ ops g' hw
  have hfin : (run (optOut s op).2 ops).fwd op = some key := b4.trans hfw
  exact ⟨hfin, g.inv.back op key hfin, b3⟩

/-- … and the removal is completed — key, reverse lookup and marker deleted — by the EndBlock of
the block whose BeginBlock ends epoch e + N. -/
theorem C07_hist_optout_key_pruned_on_time (s : St) (op key : Nat) (ops txs : List Op)
    (power : Nat → Int) (maxVals : Nat)
    (h : Good s) (hreg : s.registered op = true) (hact : s.optedIn op = true ∧ s.jailed op = false)
    (hf : s.fwd op = some key) (hval : has s.vs.vals key = true)
    (hw : wf (optOut s op).2 (ops ++ .epochEnd (s.epoch + s.nUnb) :: (txs ++ [.endBlock power maxVals])))
    (htx : ∀ o ∈ txs, isTx o) :
    (run (optOut s op).2 (ops ++ .epochEnd (s.epoch + s.nUnb) :: txs)).rev key = some op ∧
    (run (optOut s op).2 (ops ++ .epochEnd (s.epoch + s.nUnb) :: (txs ++ [.endBlock power maxVals]))).rev key = none ∧
    (run (optOut s op).2 (ops ++ .epochEnd (s.epoch + s.nUnb) :: (txs ++ [.endBlock power maxVals]))).removing op = false ∧
    (run (optOut s op).2 (ops ++ .epochEnd (s.epoch + s.nUnb) :: (txs ++ [.endBlock power maxVals]))).fwd op = none := by
  obtain ⟨a1, _, _⟩ := C16_optout_slot s op key hreg hact hf hval
  have hfw : (optOut s op).2.fwd op = some key := by
    simp [optOut, hreg, hact.1, hact.2, hf, hval, setOptOutInformation]
  have g' : Good (optOut s op).2 := good_step s (.optOut op) h trivial
  -- split the history
  obtain ⟨hw0, hw1⟩ := (wf_append _ ops _).1 hw
  obtain ⟨hwe, hw2⟩ := hw1
  obtain ⟨hwt, _⟩ := (wf_append _ txs _).1 hw2
  have hwall1 : wf (optOut s op).2 (ops ++ .epochEnd (s.epoch + s.nUnb) :: txs) :=
    (wf_append _ ops _).2 ⟨hw0, hwe, hwt⟩
  obtain ⟨⟨c1, c2⟩, c3, c4, _⟩ :=
    C16_hist_optout_completed_on_time _ ops txs (s.epoch + s.nUnb) op power maxVals g' a1 hw htx
  have g1 := good_run _ _ g' hwall1
  -- in the closing block, before EndBlock: still the operator's key
  have hrun1 : run (optOut s op).2 (ops ++ .epochEnd (s.epoch + s.nUnb) :: txs)
      = run (epochEndHook (run (optOut s op).2 ops) (s.epoch + s.nUnb)) txs := by
    rw [run_append, run_cons]; rfl
  have hrun2 : run (optOut s op).2 (ops ++ .epochEnd (s.epoch + s.nUnb) :: (txs ++ [.endBlock power maxVals]))
      = endBlock (run (epochEndHook (run (optOut s op).2 ops) (s.epoch + s.nUnb)) txs) power maxVals := by
    rw [run_append, run_cons, run_append]; rfl
  have hb := run_txs_sameB (epochEndHook (run (optOut s op).2 ops) (s.epoch + s.nUnb)) txs htx
  have hee : (run (optOut s op).2 (ops ++ .epochEnd (s.epoch + s.nUnb) :: txs)).epochEnd = true := by
    rw [hrun1, hb.epochEnd]; rfl
  -- the key is unchanged up to here: the marker was set all along and the operator was not pending
  have hkey : (run (optOut s op).2 (ops ++ .epochEnd (s.epoch + s.nUnb) :: txs)).fwd op = some key := by
    have hfe : s.epoch + s.nUnb = (run (optOut s op).2 ops).epoch := hwe.1
    obtain ⟨_, _, _, b4, _⟩ := C16_hist_optout_not_before _ ops (s.epoch + s.nUnb) op g' a1 hw0 (by omega)
    have g0 := good_run _ ops g' hw0
    -- through the hook and the transactions
    have hfr : ∀ (t : St) (l : List Op), Good t → t.removing op = true → wf t l → (∀ o ∈ l, isTx o) →
        (run t l).fwd op = t.fwd op ∧ (run t l).removing op = true := by
      intro t l
      induction l generalizing t with
      | nil => intro _ hr _ _; exact ⟨rfl, hr⟩
      | cons o rest ih =>
        intro gt hr hwl hl
        have ho := hl o (List.mem_cons_self ..)
        obtain ⟨f1, f2⟩ := removing_frame t o op gt.q hr (fun p m e => by rw [e] at ho; exact absurd ho (by simp [isTx]))
        obtain ⟨i1, i2⟩ := ih (step t o).2 (good_step t o gt hwl.1) f1 hwl.2 (fun x hx => hl x (List.mem_cons_of_mem _ hx))
        rw [run_cons]; exact ⟨i1.trans f2, i2⟩
    have gh : Good (epochEndHook (run (optOut s op).2 ops) (s.epoch + s.nUnb)) :=
      good_step _ (.epochEnd (s.epoch + s.nUnb)) g0 hwe
    have hrh : (epochEndHook (run (optOut s op).2 ops) (s.epoch + s.nUnb)).removing op = true :=
      (C16_hist_optout_not_before _ ops (s.epoch + s.nUnb) op g' a1 hw0 (by omega)).2.2.1
    rw [hrun1, (hfr _ txs gh hrh hwt htx).1]
    exact b4.trans hfw
  have hrev1 := g1.inv.back op key hkey
  obtain ⟨hreg1, _, _⟩ := g1.q.oFwd op c2
  obtain ⟨_, _, d3⟩ := endBlockPre_completes _ op key c1 hreg1 c2 hkey
  refine ⟨hrev1, ?_, c3, c4⟩
  rw [hrun2, ← hrun1, endBlock_closing _ power maxVals hee]; exact d3

/-- **An operator that is removing its key cannot set a new one — over the whole unbonding
period.** From a scheduled opt-out (slot `f`) through every well-formed continuation in which
epoch `f` has not ended, every SetConsKey and every opt-in-with-key by the operator, with any
key, is rejected and leaves the state untouched. -/
theorem C07_hist_removing_cannot_set_key (s : St) (ops : List Op) (f : Int) (op : Nat)
    (h : Good s) (ho : op ∈ s.optOutsToFinish f) (hw : wf s ops) (hf : (run s ops).epoch ≤ f)
    (key : Nat) (ok : Bool) :
    (setKey (run s ops) op key).1 ≠ .ok ∧ (setKey (run s ops) op key).2 = run s ops ∧
    (optIn (run s ops) op key ok).1 ≠ .ok ∧ (optIn (run s ops) op key ok).2 = run s ops :=
  C07_removing_blocks_set (run s ops) op key ok (C16_hist_optout_not_before s ops f op h ho hw hf).2.2.1

/-! ## the clause at full strength, and why it fails on the unchanged code -/

/-- the initial state of the full statement: 3 operators, 6 keys, epoch 1, two unbonding epochs -/
def C07_fullInit : St := St.init 3 6 1 2

/-- "A consensus address that has been part of the active validator set remains resolvable to its
operator … until the unbonding epochs after its replacement or removal have ended": for every
well-formed history `h1 ++ o :: h2` in which key `k` was at some earlier point in the stored
validator set as operator `op`'s key, is still `op`'s key after `h1`, and `o` is `op`'s successful
replacement of `k` or `op`'s successful opt-out at epoch `e` with parameter `N`: as long as the
epoch number is ≤ e + N, `k` resolves to `op`. -/
def C07_slashable_full : Prop :=
  ∀ (h1 h2 : List Op) (o : Op) (op k : Nat),
    wf C07_fullInit (h1 ++ o :: h2) →
    (∃ h0 rest, h1 = h0 ++ rest ∧ has (run C07_fullInit h0).vs.vals k = true ∧ (run C07_fullInit h0).fwd op = some k) →
    (run C07_fullInit h1).fwd op = some k →
    ((∃ k', k' ≠ k ∧ o = .setKey op k') ∨ o = .optOut op) →
    (step (run C07_fullInit h1) o).1 = .ok →
    (run C07_fullInit (h1 ++ o :: h2)).epoch ≤ (run C07_fullInit h1).epoch + (run C07_fullInit h1).nUnb →
    (run C07_fullInit (h1 ++ o :: h2)).rev k = some op

private def pwA : Nat → Int := fun _ => 100
private def pwB : Nat → Int := fun op => if op = 0 then 0 else 100

/-- operators 0 and 1 opt in with keys 1 and 2 and validate during epoch 2; at the end of epoch 2
operator 0's power has dropped below 1, key 1 leaves the validator set -/
def C07_slashableWitness : List Op :=
  [.register 0, .register 1, .optIn 0 1 true, .optIn 1 2 true, .epochEnd 1, .endBlock pwA 5,
   .epochEnd 2, .endBlock pwB 5]

/-- **The full clause fails.** One block after key 1 left the set, its operator replaces it: the
reverse lookup is deleted at once (`AfterOperatorKeyReplaced`, not-in-set branch), two unbonding
epochs too early — evidence against key 1 for the blocks of epoch 2 can no longer be attributed. -/
theorem C07_slashable_full_fails : ¬ C07_slashable_full := by
  intro hfull
  have := hfull C07_slashableWitness [] (.setKey 0 3) 0 1 (by decide)
    ⟨C07_slashableWitness.take 6, C07_slashableWitness.drop 6, (List.take_append_drop 6 _).symm, by decide, by decide⟩
    (by decide) (Or.inl ⟨3, by decide, rfl⟩) (by decide) (by decide)
  revert this
  decide

/-- the same for an opt-out: completed at once (`AfterOperatorKeyRemovalInitiated`, not-in-set
branch), the key is unresolvable and free for anybody two epochs too early -/
theorem C07_slashable_full_fails_optout : ¬ C07_slashable_full := by
  intro hfull
  have := hfull C07_slashableWitness [] (.optOut 0) 0 1 (by decide)
    ⟨C07_slashableWitness.take 6, C07_slashableWitness.drop 6, (List.take_append_drop 6 _).symm, by decide, by decide⟩
    (by decide) (Or.inr rfl) (by decide) (by decide)
  revert this
  decide

/-- **What holds (`_partial`)**: the clause with the explicit extra hypothesis that the key is in
the stored validator set *at the moment* of its replacement (first replacement of the epoch) or of
the opt-out. Stated from an arbitrary reachable state `s` (any history before), for every
well-formed continuation. -/
theorem C07_slashable_partial (s : St) (op k : Nat) (o : Op) (ops : List Op) (h : Good s)
    (hreg : s.registered op = true) (hact : s.optedIn op = true ∧ s.jailed op = false)
    (hrm : s.removing op = false) (hf : s.fwd op = some k)
    (hinset : has s.vs.vals k = true)                         -- the extra hypothesis
    (ho : (∃ k', k' ≠ k ∧ s.rev k' = none ∧ s.prevKey op = none ∧ o = .setKey op k') ∨ o = .optOut op)
    (hw : wf (step s o).2 ops) (hep : (run (step s o).2 ops).epoch ≤ s.epoch + s.nUnb) :
    (run (step s o).2 ops).rev k = some op := by
  rcases ho with ⟨k', hne, hfree, hfirst, rfl⟩ | rfl
  · exact (C07_hist_replaced_key_resolvable_until_pruned s op k' k ops h hact hrm hfree hf
      (fun e => hne e.symm) hfirst hinset hw hep).1
  · exact (C07_hist_optout_key_resolvable_until_completed s op k ops h hreg hact hf hinset hw hep).2.1

/-! ## non-vacuity -/

private def hR : List Op :=
  [.register 0, .register 1, .optIn 0 1 true, .optIn 1 2 true, .epochEnd 1, .endBlock pwA 5,   -- keys 1, 2 active
   .setKey 0 3,                                      -- epoch 2, N = 2: key 1 scheduled for epoch 4
   .setUnbonding 1,                                  -- parameter lowered afterwards: slot unchanged
   .setKey 1 1,                                      -- rejected: key 1 reserved
   .epochEnd 2, .endBlock pwA 5, .jail 1 true,       -- key 1 still resolves: operator 0 jailed through it
   .epochEnd 3, .endBlock pwA 5, .epochEnd 4, .endBlock pwA 5]

example : wf C07_fullInit hR := by decide
example : Good C07_fullInit := good_init 3 6 1 2 (by decide)
example : (run C07_fullInit (hR.take 12)).rev 1 = some 0 ∧ (run C07_fullInit (hR.take 12)).jailed 0 = true ∧
          (run C07_fullInit (hR.take 12)).fwd 1 = some 2 ∧ (run C07_fullInit (hR.take 12)).addrsToPrune 4 = [1] := by decide
example : (run C07_fullInit (hR.take 14)).rev 1 = some 0 ∧ (run C07_fullInit hR).rev 1 = none := by decide
-- the witness of the failure: key 1 was in the set, is not any more, and is dropped at once
example : has (run C07_fullInit (C07_slashableWitness.take 6)).vs.vals 1 = true ∧
          has (run C07_fullInit C07_slashableWitness).vs.vals 1 = false ∧
          (run C07_fullInit C07_slashableWitness).rev 1 = some 0 ∧
          (run C07_fullInit (C07_slashableWitness ++ [.setKey 0 3])).rev 1 = none ∧
          (run C07_fullInit (C07_slashableWitness ++ [.optOut 0])).rev 1 = none := by decide


/-! ## C06's clauses in the histories of the combined registry + validator-set model

`Props/C06.lean` and `Props/C06Hist.lean` quantify over arbitrary candidate lists that satisfy
`blocksOK`. Here the candidate list is the one EndBlock really reads (`candsOf`, the model of
GetActiveOperatorsForChainID ⋈ GetVotePowerForChainID: has a key, opted in, not jailed), the
hypothesis is discharged by the C07 invariant, and the statements hold for every well-formed history
of operator-module and dogfood operations. -/

/-- the stored total power is the sum of the stored validator powers -/
def TotInv (s : St) : Prop := s.vs.lastTotalPower = sumPowers s.vs.vals

theorem totinv_step (s : St) (o : Op) (hg : Good s) (h : TotInv s) : TotInv (step s o).2 := by
  have same : ∀ t : St, t.vs = s.vs → TotInv t := fun t e => by unfold TotInv; rw [e]; exact h
  cases o with
  | register op => exact same _ rfl
  | optIn op key ok =>
    rcases optIn_cases s op key ok with h1 | ⟨_, h1⟩
    · exact same _ (by show (optIn s op key ok).2.vs = _; rw [h1])
    · exact same _ (by show (optIn s op key ok).2.vs = _; rw [h1]; exact (setKeyCore_sameQ _ op key).vs)
  | setKey op key => exact same _ (setKey_sameQ s op key).vs
  | optOut op =>
    rcases optOut_cases s op with h1 | h1 | h1
    · exact same _ (by show (optOut s op).2.vs = _; rw [h1])
    · exact same _ (by show (optOut s op).2.vs = _; rw [h1]; rfl)
    · exact same _ (by show (optOut s op).2.vs = _; rw [h1]; exact (completeRemoval_sameQ _ op).vs)
  | jail key b =>
    apply same
    simp only [step, setJailed]
    repeat' split
    all_goals rfl
  | undelegate op rec =>
    apply same
    simp only [step, undelegationStarted]
    repeat' split
    all_goals rfl
  | setUnbonding n => exact same _ rfl
  | epochEnd e => exact same _ rfl
  | endBlock power maxVals =>
    by_cases he : s.epochEnd = true
    · simp only [step]
      rw [endBlock_closing s power maxVals he]
      have hiE := inv_endBlock s power maxVals hg.inv
      rw [endBlock_closing s power maxVals he] at hiE
      have hiP : Inv (endBlockPre s) := hiE.congr rfl rfl rfl rfl rfl
      have hvs : (endBlockPre s).vs = s.vs := (endBlockPre_fields s).2.2.2.2.2.2.2.2.2.2.1
      have hag : Agree ((endBlockPre s).vs, (endBlockPre s).vs.vals) :=
        ⟨by rw [hvs]; exact hg.v.vMap, by rw [hvs]; exact hg.v.vMap, fun _ => rfl, by rw [hvs]; exact h⟩
      have := agree_step ((endBlockPre s).vs, (endBlockPre s).vs.vals) (some (candsOf (endBlockPre s) power, maxVals)) hag
        ⟨candsOf_keys_nodup _ power hiP, candsOf_revOK _ power hiP⟩
      exact this.total
    · have he' : s.epochEnd = false := by cases hh : s.epochEnd <;> simp_all
      simp only [step]
      rw [endBlock_other s power maxVals he']
      exact h

/-- **Stored set and stored total power agree in every history** of operator-module and dogfood
operations (opt-ins, key replacements, opt-outs, jailing, undelegations, parameter changes, blocks
that close an epoch with or without changes, blocks that do not). -/
theorem C06_hist_registry_total_power_agrees (s : St) (ops : List Op) (hg : Good s) (h : TotInv s) (hw : wf s ops) :
    (run s ops).vs.lastTotalPower = sumPowers (run s ops).vs.vals := by
  induction ops generalizing s with
  | nil => exact h
  | cons o rest ih => exact ih _ (good_step s o hg hw.1) (totinv_step s o hg h) hw.2

/-- **Every stored validator is eligible, and there are at most `maxVals` of them**: after the
EndBlock of an epoch-closing block of any history, each entry (key ↦ power) of the stored set is
the current key of an operator that is opted in and not jailed, its power is that operator's power
and at least 1; the set has at most the maximum configured *for that block* many entries. -/
theorem C06_hist_registry_validators_eligible (s : St) (ops : List Op) (h : Good s) (hw : wf s ops)
    (power : Nat → Int) (maxVals : Nat) (he : (run s ops).epochEnd = true) :
    (∀ k p, get (endBlock (run s ops) power maxVals).vs.vals k = some p →
      ∃ op, op < (endBlockPre (run s ops)).nOps ∧ (endBlockPre (run s ops)).fwd2 op = some k ∧
        (endBlockPre (run s ops)).optedIn op = true ∧ (endBlockPre (run s ops)).jailed op = false ∧
        p = power op ∧ 1 ≤ p) ∧
    (endBlock (run s ops) power maxVals).vs.vals.length ≤ maxVals := by
  obtain ⟨hok, _, heq⟩ := C07_hist_C06_hypotheses_hold s ops h hw power maxVals he
  have htop := C07_hist_valset_is_topk s ops h hw power maxVals he
  constructor
  · intro k p hkp
    rw [htop k] at hkp
    have hm := KV.find?_mem _ k p hkp
    obtain ⟨c, hc, hcp⟩ := List.mem_map.1 hm
    injection hcp with e1 e2
    have hcc := topK_mem_cands _ maxVals c hc
    rw [candsOf_eq] at hcc
    obtain ⟨op, hop, hf⟩ := List.mem_filterMap.1 hcc
    obtain ⟨c1, c2, _, c4, c5, c6⟩ := candOf_some _ power op c hf
    refine ⟨op, List.mem_range.1 hop, by rw [c2, e1], c5, c6, by rw [← e2, c4], by rw [← e2]; exact topK_power _ maxVals c hc⟩
  · have hnd : KV.NoDup (endBlock (run s ops) power maxVals).vs.vals := by
      rw [heq]; exact C06_store_nodup_kept _ _ maxVals hok.prevNoDup
    rw [length_eq_of_get_eq _ _ hnd (noDup_topMap _ maxVals hok.keysNodup) htop]
    exact topMap_length_le _ maxVals

-- non-vacuity of the C06 statements in registry histories
example : TotInv C07_fullInit := by unfold TotInv; decide
example : (run C07_fullInit hR).vs.lastTotalPower = 100 ∧ (run C07_fullInit hR).vs.vals.length = 1 ∧
          (run C07_fullInit (hR.take 15)).epochEnd = true := by decide

/-! ## recorded, not demanded by the statement: the reverse entry of an intermediate key leaks -/

/-- K1 → K2 → K3 within one epoch: only K1 is recorded as previous key; K2's reverse lookup is
neither deleted nor scheduled (`alreadyRecorded` skips the hook). It was never in the validator
set, so the slashability clause does not speak about it, but the key stays "in use" for ever:
nobody, not even its former owner, can register it again. -/
example :
    let s := run C07_fullInit [.register 0, .optIn 0 1 true, .epochEnd 1, .endBlock (fun _ => 100) 5,
      .setKey 0 2, .setKey 0 3,
      .epochEnd 2, .endBlock (fun _ => 100) 5, .epochEnd 3, .endBlock (fun _ => 100) 5,
      .epochEnd 4, .endBlock (fun _ => 100) 5, .epochEnd 5, .endBlock (fun _ => 100) 5]
    s.fwd 0 = some 3 ∧ s.rev 2 = some 0 ∧ s.rev 1 = none ∧ (∀ e ∈ [3, 4, 5, 6, 7, 8], s.addrsToPrune e = []) ∧
    (setKey s 0 2).1 = .errConsKeyInUse := by decide

end ExoVerif.ConsKeys
