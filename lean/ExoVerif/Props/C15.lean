import ExoVerif.Proofs.Epochs
/-!
# C15 — Epoch clock: numbers advance by one, notifications exactly once and in order

Property theorems only (helper lemmas live in `Proofs/Epochs.lean`). Everything is stated for
the executable model `ExoVerif.Epochs.tick` / `beginBlocker` / `runTicks`, which is tied to
x/epochs/keeper/abci.go by the regenerated kernel (`Props/C15Tie.lean`) and by the
correspondence run of `./check C15` (real BeginBlock vs. this model, block by block).
-/
namespace ExoVerif.Epochs

/-- events for epochs n → n+k of identifier `id`, counting already started:
    end n, start n+1, end n+1, start n+2, … , end (n+k-1), start (n+k) -/
def expectedFrom (id : String) (n : Int) : Nat → List Ev
  | 0 => []
  | k + 1 => Ev.epochEnd id n :: Ev.epochStart id (n + 1) :: expectedFrom id (n + 1) k

/-! ## one block -/

/-- Before the start time nothing happens at all. -/
theorem C15_not_before_start (e : EpochInfo) (bt h : Int) (hb : bt < e.startTime) :
    tick e bt h = (e, []) := tick_before e bt h hb

/-- The epoch number becomes 1 in the first block at or after the start time; the first epoch
starts at `startTime`; only a start notification (no end) is sent. -/
theorem C15_first_epoch_at_start (e : EpochInfo) (bt h : Int) (hv : valid e = true)
    (hns : e.epochCountingStarted = false) (hb : e.startTime ≤ bt) :
    (tick e bt h).1.currentEpoch = 1 ∧ (tick e bt h).1.epochCountingStarted = true ∧
    (tick e bt h).1.currentEpochStartTime = e.startTime ∧
    (tick e bt h).1.currentEpochStartHeight = h ∧
    (tick e bt h).2 = [Ev.epochStart e.identifier 1] := by
  rw [tick_first e bt h hv hns hb]; simp [startFirst]

/-- Afterwards the number increases by exactly one in exactly those blocks whose time is
(strictly) after the current epoch's start plus the duration; in every other block nothing
changes and nothing is notified. -/
theorem C15_advances_iff_after_end (e : EpochInfo) (bt h : Int) (hv : valid e = true)
    (hs : e.epochCountingStarted = true) (hb : e.startTime ≤ bt) :
    (e.currentEpochStartTime + e.duration < bt →
        (tick e bt h).1.currentEpoch = e.currentEpoch + 1 ∧
        (tick e bt h).1.currentEpochStartTime = e.currentEpochStartTime + e.duration ∧
        (tick e bt h).1.currentEpochStartHeight = h ∧
        (tick e bt h).2 = [Ev.epochEnd e.identifier e.currentEpoch,
                           Ev.epochStart e.identifier (e.currentEpoch + 1)]) ∧
    (¬ e.currentEpochStartTime + e.duration < bt → tick e bt h = (e, [])) := by
  constructor
  · intro hlt; rw [tick_next e bt h hv hs hb hlt]; simp [startNext]
  · intro hlt; exact tick_stay e bt h hs hlt

/-- A stalled chain catches up one epoch per block: one tick never changes the number by more
than one, whatever the gap. -/
theorem C15_catch_up_one_per_block (e : EpochInfo) (bt h : Int) (hs : e.epochCountingStarted = true) :
    (tick e bt h).1.currentEpoch = e.currentEpoch ∨ (tick e bt h).1.currentEpoch = e.currentEpoch + 1 := by
  rcases tick_cases e bt h with h1 | ⟨_, h0, _, _⟩ | ⟨_, _, _, _, h1⟩
  · rw [h1]; exact Or.inl rfl
  · rw [hs] at h0; cases h0
  · rw [h1]; exact Or.inr rfl

/-- The n-th epoch's start time is start + (n-1) × duration: `Wf` is an invariant of `tick`. -/
theorem C15_wf_tick (e : EpochInfo) (bt h : Int) (hw : Wf e) (hh : 0 ≤ h) : Wf (tick e bt h).1 := by
  rcases tick_cases e bt h with h1 | ⟨_, _, _, h1⟩ | ⟨_, hs, _, _, h1⟩ <;> rw [h1]
  · exact hw
  · exact wf_first e h hw hh
  · exact wf_next e h hw hs hh

/-! ## every finite sequence of blocks -/

/-- `Wf` (hence the start-time formula) holds after every finite sequence of blocks, for any
block times at all (monotone or not) and any heights ≥ 0. -/
theorem C15_start_time_formula (e : EpochInfo) (ts : List (Int × Int)) (hw : Wf e)
    (hh : ∀ p ∈ ts, 0 ≤ p.2) : Wf (runTicks e ts).1 := by
  induction ts generalizing e with
  | nil => simpa [runTicks]
  | cons p rest ih =>
    obtain ⟨bt, h⟩ := p
    simp only [runTicks]
    apply ih
    · exact C15_wf_tick e bt h hw (hh (bt, h) (by simp))
    · intro q hq; exact hh q (by simp [hq])

/-- Notifications are delivered exactly once per identifier and number, in increasing order,
end(n) before start(n+1), with no gap and no repeat: once counting has started, whatever the
block times, the notification stream produced over any block sequence is precisely
`end n, start n+1, …, end (m-1), start m` where n / m are the epoch numbers before / after. -/
theorem C15_hooks_exactly_once_in_order (e : EpochInfo) (ts : List (Int × Int))
    (hs : e.epochCountingStarted = true) :
    ∃ k : Nat, (runTicks e ts).1.currentEpoch = e.currentEpoch + k ∧
               (runTicks e ts).2 = expectedFrom e.identifier e.currentEpoch k := by
  induction ts generalizing e with
  | nil => exact ⟨0, by simp [runTicks, expectedFrom]⟩
  | cons p rest ih =>
    obtain ⟨bt, h⟩ := p
    simp only [runTicks]
    obtain ⟨k, hk1, hk2⟩ := ih (tick e bt h).1 (tick_started e bt h hs)
    rw [tick_id] at hk2
    rcases tick_cases e bt h with h1 | ⟨_, h0, _, _⟩ | ⟨_, _, _, _, h1⟩
    · rw [h1] at hk1 hk2 ⊢
      exact ⟨k, hk1, by simpa using hk2⟩
    · rw [hs] at h0; cases h0
    · rw [h1] at hk1 hk2 ⊢
      refine ⟨k + 1, ?_, ?_⟩
      · rw [hk1]; simp [startNext]; omega
      · have hk2' : (runTicks (startNext e h) rest).2
            = expectedFrom e.identifier (e.currentEpoch + 1) k := hk2
        simp only [hk2', expectedFrom, List.cons_append, List.nil_append]

/-- From an identifier that has not started counting: nothing until the first block at or
after the start time, then `start 1`, then the stream above. -/
theorem C15_hooks_from_genesis (e : EpochInfo) (pre : List (Int × Int)) (bt h : Int)
    (post : List (Int × Int)) (hv : valid e = true) (hns : e.epochCountingStarted = false)
    (hpre : ∀ p ∈ pre, p.1 < e.startTime) (hb : e.startTime ≤ bt) :
    ∃ k : Nat, (runTicks e (pre ++ (bt, h) :: post)).1.currentEpoch = 1 + k ∧
      (runTicks e (pre ++ (bt, h) :: post)).2 =
        Ev.epochStart e.identifier 1 :: expectedFrom e.identifier 1 k := by
  induction pre with
  | nil =>
    simp only [List.nil_append, runTicks]
    have ht := tick_first e bt h hv hns hb
    obtain ⟨k, hk1, hk2⟩ := C15_hooks_exactly_once_in_order (startFirst e h) post rfl
    rw [ht]
    exact ⟨k, by simpa [startFirst] using hk1, by simpa [startFirst] using hk2⟩
  | cons p rest ih =>
    obtain ⟨bt0, h0⟩ := p
    have hlt : bt0 < e.startTime := hpre (bt0, h0) (by simp)
    simp only [List.cons_append, runTicks, tick_before e bt0 h0 hlt, List.nil_append]
    exact ih (fun q hq => hpre q (by simp [hq]))

/-- Identifiers do not influence one another: the BeginBlocker's result for each identifier is
`tick` of that identifier alone, and the notification stream is the concatenation in store order. -/
theorem C15_identifiers_independent (es : List EpochInfo) (bt h : Int) :
    beginBlocker es bt h =
      (es.map (fun e => (tick e bt h).1), es.flatMap (fun e => (tick e bt h).2)) := by
  induction es with
  | nil => simp [beginBlocker]
  | cons e rest ih => simp [beginBlocker, ih]

/-- Subscribers are notified in the fixed order distribution, operator, dogfood, mint, AVS, and
each of them sees every notification exactly once. -/
theorem C15_subscriber_order (ev : Ev) (rest : List Ev) :
    fanOut (ev :: rest) =
      [(.distribution, ev), (.operator, ev), (.dogfood, ev), (.mint, ev), (.avs, ev)] ++ fanOut rest := by
  simp [fanOut, hookOrder]

/-! ## non-vacuity: concrete timelines meeting the hypotheses (boundary-exact, long gap) -/

private def dayE : EpochInfo :=
  { identifier := "day", startTime := 100, duration := 10, currentEpoch := 0,
    currentEpochStartTime := 0, epochCountingStarted := false, currentEpochStartHeight := 0 }

example : Wf dayE := by simp [Wf, dayE, valid]
-- a block exactly on the boundary (t = 110 = start + duration) does NOT tick; 111 does; a long
-- gap (t = 200) catches up one epoch per block.
example : (runTicks dayE [(99, 1), (100, 2), (110, 3), (111, 4), (200, 5), (200, 6), (200, 7)]).2 =
    [Ev.epochStart "day" 1, Ev.epochEnd "day" 1, Ev.epochStart "day" 2, Ev.epochEnd "day" 2,
     Ev.epochStart "day" 3, Ev.epochEnd "day" 3, Ev.epochStart "day" 4, Ev.epochEnd "day" 4,
     Ev.epochStart "day" 5] := by decide
example : (runTicks dayE [(99, 1), (100, 2), (110, 3), (111, 4), (200, 5)]).1.currentEpochStartTime
    = 100 + (3 - 1) * 10 := by decide

end ExoVerif.Epochs
