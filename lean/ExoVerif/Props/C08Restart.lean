import ExoVerif.Model.DetRestart
import ExoVerif.Proofs.Determinism
/-!
# C08 — restart clause: memory rebuilt by value must be REPLACED by its setter

`RestartIndependent setter`: for every stored validator set and every sequence of blocks (with or
without validator-set changes) and restarts, the node reached is the one reached without any restart.
* `C08_replacing_setter_restart_independent`: true for `SetValidatorPowers` as it is (fresh map, then one
  write per key of the argument) — after every event the memory is a function of the store alone.
* `C08_inplace_merge_restart_dependent`: false for the in-place merge (witness: three validators, the
  third leaves, one node restarts afterwards); `C08_inplace_merge_departed_counts` spells out what
  the two nodes then disagree on (signer check, counted power against the new total).
`Props/C08RestartTie.lean` ties the setter's shape to the Go source.
-/
namespace ExoVerif.Det

/-- the loop `for k := range vp { m[k] = v k }` leaves `v k` under every key of vp and nothing else changed -/
theorem rangeLoop_write_apply {κ α : Type} [DecidableEq κ] (v : κ → α) (keys : List κ) (m : GoMap κ α) (k : κ) :
    rangeLoop (writeBody v) keys m k = if k ∈ keys then some (v k) else m k := by
  induction keys generalizing m with
  | nil => simp [rangeLoop]
  | cons a t ih =>
    simp only [rangeLoop, List.foldl_cons] at ih ⊢
    rw [ih]
    by_cases h1 : k ∈ t
    · simp [h1]
    · by_cases h2 : k = a
      · subst h2; simp [h1, writeBody, GoMap.set]
      · simp [h1, h2, writeBody, GoMap.set]

/-- a setter that replaces: the result does not depend on what the context held before -/
theorem C08_replacing_setter_ignores_old_memory (vp : ValSet) (m₁ m₂ : ValMem) :
    setPowersReplace vp m₁ = setPowersReplace vp m₂ := rfl

/-- … and is exactly the map the argument denotes: memory = f(argument) -/
theorem C08_replacing_setter_denotes_argument (vp : ValSet) (m : ValMem) :
    (setPowersReplace vp m).powers = GoMap.ofKeys vp.keys vp.power := by
  funext k
  simp [setPowersReplace, rangeLoop_write_apply, GoMap.ofKeys, GoMap.empty]

/-- the in-place merge keeps every key the argument no longer mentions -/
theorem C08_inplace_merge_keeps_absent_keys (vp : ValSet) (m : ValMem) (k : Nat) (h : k ∉ vp.keys) :
    (setPowersMerge vp m).powers k = m.powers k := by
  simp [setPowersMerge, rangeLoop_write_apply, h]

/-- the map-iteration order of the argument does not matter for either setter's map (shape B) -/
theorem C08_replacing_setter_order_independent (val : Nat → Int) {o₁ o₂ : List Nat} (h : o₁.Perm o₂) :
    rangeLoop (writeBody val) o₁ (GoMap.empty : GoMap Nat Int) = rangeLoop (writeBody val) o₂ GoMap.empty :=
  rangeLoop_perm (writeBody_comm val) h _

/-- invariant of a node driven by the replacing setter: memory = setter(store) -/
def MemIsFunctionOfStore (n : VNode) : Prop := n.mem = setPowersReplace n.store ValMem.fresh

theorem memIsFunctionOfStore_step (n : VNode) (e : VEvent) (h : MemIsFunctionOfStore n) :
    MemIsFunctionOfStore (VNode.step setPowersReplace n e) := by
  cases e with
  | valsetChange s => rfl
  | restart => rfl
  | block => exact h

/-- under the invariant a restart changes nothing -/
theorem restart_is_identity (n : VNode) (h : MemIsFunctionOfStore n) :
    VNode.step setPowersReplace n VEvent.restart = n := by
  cases n with
  | mk store mem =>
    simp only [MemIsFunctionOfStore] at h
    simp only [VNode.step]
    rw [h]

theorem run_dropRestarts (evs : List VEvent) (n : VNode) (h : MemIsFunctionOfStore n) :
    VNode.run setPowersReplace evs n = VNode.run setPowersReplace (dropRestarts evs) n := by
  induction evs generalizing n with
  | nil => rfl
  | cons e t ih =>
    cases e with
    | restart =>
      have hd : dropRestarts (VEvent.restart :: t) = dropRestarts t := by simp [dropRestarts]
      rw [hd]
      simp only [VNode.run, List.foldl_cons]
      rw [restart_is_identity n h]
      exact ih n h
    | valsetChange s =>
      have hd : dropRestarts (VEvent.valsetChange s :: t) = VEvent.valsetChange s :: dropRestarts t := by simp [dropRestarts]
      rw [hd]
      simp only [VNode.run, List.foldl_cons]
      exact ih _ (memIsFunctionOfStore_step n _ h)
    | block =>
      have hd : dropRestarts (VEvent.block :: t) = VEvent.block :: dropRestarts t := by simp [dropRestarts]
      rw [hd]
      simp only [VNode.run, List.foldl_cons]
      exact ih _ (memIsFunctionOfStore_step n _ h)

/-- after any history the memory of a node driven by the replacing setter is a function of its store -/
theorem C08_replacing_setter_memory_is_function_of_store (s : ValSet) (evs : List VEvent) :
    MemIsFunctionOfStore (VNode.run setPowersReplace evs (VNode.boot setPowersReplace s)) := by
  have hb : MemIsFunctionOfStore (VNode.boot setPowersReplace s) := rfl
  generalize VNode.boot setPowersReplace s = n at hb
  induction evs generalizing n with
  | nil => exact hb
  | cons e t ih =>
    simp only [VNode.run, List.foldl_cons]
    exact ih _ (memIsFunctionOfStore_step n e hb)

/-- C08 (restart clause) for the validator powers, as the code is: any number of restarts at any block
boundaries, before or after any validator-set change, leaves the node the uninterrupted run reaches -/
theorem C08_replacing_setter_restart_independent : RestartIndependent setPowersReplace := by
  intro s evs
  have h := run_dropRestarts evs (VNode.boot setPowersReplace s) rfl
  rw [h]
  exact ⟨rfl, rfl, rfl⟩

/-- the hypothesis-free statement is not vacuous: a run with a removal and restarts on both sides of it -/
example :
    (VNode.run setPowersReplace [.restart, .valsetChange [(0, 10), (1, 10)], .restart, .block]
      (VNode.boot setPowersReplace [(0, 10), (1, 10), (2, 10)])).isValidator 2 = false ∧
    (VNode.run setPowersReplace [.restart, .valsetChange [(0, 10), (1, 10)], .restart, .block]
      (VNode.boot setPowersReplace [(0, 10), (1, 10), (2, 10)])).mem.total = 20 := by decide

/-- the witness history: validators 0, 1, 2 of power 10; validator 2 leaves; then a restart -/
def mergeWitness : List VEvent := [.valsetChange [(0, 10), (1, 10)], .restart]

/-- what the node that kept running and the node that restarted disagree on after validator 2 left,
under the in-place merge: the signer check of validator 2's price message, and the power its report
is counted with — 10, against a total of 20, so that validator 0 and the departed validator together
pass the 2/3 threshold (3·20 > 2·20) on the long-running node only -/
theorem C08_inplace_merge_departed_counts :
    let kept := VNode.run setPowersMerge (dropRestarts mergeWitness) (VNode.boot setPowersMerge [(0, 10), (1, 10), (2, 10)])
    let restarted := VNode.run setPowersMerge mergeWitness (VNode.boot setPowersMerge [(0, 10), (1, 10), (2, 10)])
    kept.store = restarted.store ∧
    kept.isValidator 2 = true ∧ restarted.isValidator 2 = false ∧
    kept.countedPower 2 = 10 ∧ restarted.countedPower 2 = 0 ∧
    kept.mem.total = 20 ∧ restarted.mem.total = 20 := by decide

/-- the in-place merge violates the restart clause -/
theorem C08_inplace_merge_restart_dependent : ¬ RestartIndependent setPowersMerge := by
  intro h
  have h2 := (h [(0, 10), (1, 10), (2, 10)] mergeWitness).2.1
  have h3 := congrFun h2 2
  revert h3
  decide

end ExoVerif.Det
