import ExoVerif.Props.C16
/-!
# C07 — "… so that it can still be slashed and jailed, until the unbonding epochs … have ended"

`slashTarget` / `jailTarget` (`Model/ConsKeys.lean`) are what the dogfood staking interface
(`x/dogfood/keeper/impl_sdk.go`: `SlashWithInfractionReason`, `Jail`, `Unjail`) resolves a consensus
address to. The theorems below state, for **every** history: a key that validated and was replaced
(scheduled for pruning at the end of epoch `e`) resolves to the operator it belonged to — is slashed
and jailed as that operator — after any sequence of operations in which epoch `e` does not end
(`C07_active_key_slashable_until_pruned`), also in the block that closes `e` until its EndBlock,
and to nobody after that EndBlock (`C07_pruned_key_not_slashable`); the key of an operator that is
opting out resolves to it until the opt-out finishes (`C07_removing_key_slashable_until_finished`).
The harness probes the real entry points for every key after every operation
(`harness/dom_conskeys_slash.go`, op `ck.slashprobe`), the guard skeleton of the three Go functions
is tied in `Props/C07Tie.lean` (`C07_tie_slash_guards`).
-/
namespace ExoVerif.ConsKeys
open ExoVerif.VMap ExoVerif.ValSet

/-- the state `optIn` hands to `setKeyCore` -/
abbrev optInPre (s : St) (a : Nat) : St :=
  { s with hasInfo := upd s.hasInfo a true, optedIn := upd s.optedIn a true, jailed := upd s.jailed a false }

/-! ## the reverse lookup of a key that is nobody's current key only changes by pruning -/

theorem hookReplaced_rev_other (t : St) (old k : Nat) (h : k ≠ old) : (hookReplaced t old).rev k = t.rev k := by
  unfold hookReplaced
  split
  · rfl
  · simp only [upd_apply, h, if_false]

theorem setKeyCore_rev_keep (t : St) (o key k op : Nat) (hr : t.rev k = some op)
    (hfree : ∀ o', t.fwd o' ≠ some k) : (setKeyCore t o key).2.rev k = some op := by
  unfold setKeyCore
  split
  · exact hr
  · split
    · exact hr
    · rename_i _ hrev
      have hne : k ≠ key := by
        intro e
        subst e
        simp [hr] at hrev
      cases hf : t.fwd o with
      | none => simp only [upd_apply, hne, if_false]; exact hr
      | some pk =>
        have hpk : k ≠ pk := fun e => hfree o (e ▸ hf)
        simp only []
        split
        · exact hr
        · split
          · simp only [upd_apply, hne, if_false]; exact hr
          · rw [hookReplaced_rev_other _ pk k hpk]
            simp only [upd_apply, hne, if_false]; exact hr

theorem completeRemoval_rev_keep (t : St) (a k op : Nat) (hr : t.rev k = some op)
    (hfree : ∀ o', t.fwd o' ≠ some k) :
    (completeRemoval t a).rev k = some op ∧ ∀ o', (completeRemoval t a).fwd o' ≠ some k := by
  unfold completeRemoval
  split
  · exact ⟨hr, hfree⟩
  · split
    · exact ⟨hr, hfree⟩
    · cases hf : t.fwd a with
      | none => exact ⟨hr, hfree⟩
      | some key =>
        have hne : k ≠ key := fun e => hfree a (e ▸ hf)
        refine ⟨?_, ?_⟩
        · simp only [upd_apply, hne, if_false]; exact hr
        · intro o'
          simp only [upd_apply]
          split
          · intro e; cases e
          · exact hfree o'

theorem foldl_completeRemoval_rev_keep (l : List Nat) (t : St) (k op : Nat) (hr : t.rev k = some op)
    (hfree : ∀ o', t.fwd o' ≠ some k) : (l.foldl completeRemoval t).rev k = some op := by
  induction l generalizing t with
  | nil => exact hr
  | cons a rest ih =>
    simp only [List.foldl_cons]
    have := completeRemoval_rev_keep t a k op hr hfree
    exact ih _ this.1 this.2

/-- One step: a resolvable key that is nobody's current key and is not pending keeps its operator. -/
theorem step_rev_keep (s : St) (o : Op) (k op : Nat) (hr : s.rev k = some op)
    (hfree : ∀ o', s.fwd o' ≠ some k) (hnp : k ∉ s.pendingAddrs) : (step s o).2.rev k = some op := by
  cases o with
  | register a => exact hr
  | optIn a key ok =>
    simp only [step, optIn]
    split
    · exact hr
    · split
      · exact hr
      · split
        · exact hr
        · have := setKeyCore_rev_keep (optInPre s a) a key k op hr hfree
          revert this
          generalize setKeyCore _ a key = r
          intro this
          obtain ⟨out, s2⟩ := r
          cases out <;> first | exact this | exact hr
  | setKey a key =>
    simp only [step, setKey]
    split
    · exact hr
    · exact setKeyCore_rev_keep s a key k op hr hfree
  | optOut a =>
    simp only [step, optOut]
    split
    · exact hr
    · split
      · exact hr
      · cases hf : s.fwd a with
        | none => exact hr
        | some key =>
          simp only []
          repeat' split
          all_goals first
            | exact hr
            | exact (completeRemoval_rev_keep { s with optedIn := upd s.optedIn a false, removing := upd s.removing a true } a k op hr hfree).1
  | jail key b =>
    simp only [step, setJailed]
    repeat' split
    all_goals exact hr
  | undelegate a rec =>
    simp only [step, undelegationStarted]
    repeat' split
    all_goals exact hr
  | setUnbonding n => exact hr
  | epochEnd e => exact hr
  | endBlock power maxVals =>
    simp only [step, endBlock]
    split
    · exact hr
    · simp only []
      obtain ⟨a1, _, a3, _, a5⟩ := releaseUndel_fields s.pendingUndel { s with prevKey := fun _ => none }
      have hp : k ∉ (List.foldl completeRemoval
          { (s.pendingUndel.foldl releaseUndel { s with prevKey := fun _ => none }) with pendingUndel := [] }
          (s.pendingUndel.foldl releaseUndel { s with prevKey := fun _ => none }).pendingOptOuts).pendingAddrs := by
        rw [foldl_completeRemoval_pendingAddrs]
        show k ∉ (s.pendingUndel.foldl releaseUndel { s with prevKey := fun _ => none }).pendingAddrs
        rw [a5]; exact hnp
      show (if k ∈ _ then none else _) = some op
      rw [if_neg hp]
      apply foldl_completeRemoval_rev_keep
      · show (s.pendingUndel.foldl releaseUndel { s with prevKey := fun _ => none }).rev k = some op
        rw [a3]; exact hr
      · intro o'
        show (s.pendingUndel.foldl releaseUndel { s with prevKey := fun _ => none }).fwd o' ≠ some k
        rw [a1]; exact hfree o'

/-- … in particular a key waiting in the pruning slot of epoch `e` (all operations). -/
theorem C07_sched_key_keeps_operator_step (s : St) (o : Op) (h : Inv s) (e : Int) (k op : Nat)
    (hk : k ∈ s.addrsToPrune e) (hr : s.rev k = some op) : (step s o).2.rev k = some op :=
  step_rev_keep s o k op hr (h.schedFree k (Or.inr ⟨e, hk⟩)) (h.disj e k hk).1

/-! ## an opted-in record is never deleted -/

theorem foldl_completeRemoval_hasInfo (l : List Nat) (t : St) :
    (l.foldl completeRemoval t).hasInfo = t.hasInfo := by
  induction l generalizing t with
  | nil => rfl
  | cons a rest ih =>
    simp only [List.foldl_cons]
    rw [ih]
    unfold completeRemoval
    repeat' split
    all_goals rfl

theorem foldl_releaseUndel_hasInfo (l : List Nat) (t : St) :
    (l.foldl releaseUndel t).hasInfo = t.hasInfo := by
  induction l generalizing t with
  | nil => rfl
  | cons a rest ih => simp only [List.foldl_cons]; rw [ih]; rfl

theorem setKeyCore_hasInfo (t : St) (o key : Nat) : (setKeyCore t o key).2.hasInfo = t.hasInfo := by
  simp only [setKeyCore, hookReplaced]
  repeat' split
  all_goals rfl

theorem step_hasInfo_keep (s : St) (o : Op) (op : Nat) (hi : s.hasInfo op = true) :
    (step s o).2.hasInfo op = true := by
  cases o with
  | register a => exact hi
  | optIn a key ok =>
    simp only [step, optIn]
    split
    · exact hi
    · split
      · exact hi
      · split
        · exact hi
        · have := setKeyCore_hasInfo (optInPre s a) a key
          revert this
          generalize setKeyCore _ a key = r
          intro this
          obtain ⟨out, s2⟩ := r
          cases out <;> first
            | exact hi
            | (show s2.hasInfo op = true
               rw [this]
               show upd s.hasInfo a true op = true
               simp only [upd_apply]; split <;> first | rfl | exact hi)
  | setKey a key =>
    simp only [step, setKey]
    split
    · exact hi
    · rw [setKeyCore_hasInfo]; exact hi
  | optOut a =>
    simp only [step, optOut, setOptOutInformation, completeRemoval]
    repeat' split
    all_goals exact hi
  | jail key b =>
    simp only [step, setJailed]
    repeat' split
    all_goals exact hi
  | undelegate a rec =>
    simp only [step, undelegationStarted]
    repeat' split
    all_goals exact hi
  | setUnbonding n => exact hi
  | epochEnd e => exact hi
  | endBlock power maxVals =>
    simp only [step, endBlock]
    split
    · exact hi
    · simp only []
      show (List.foldl completeRemoval _ _).hasInfo op = true
      rw [foldl_completeRemoval_hasInfo]
      show (List.foldl releaseUndel _ _).hasInfo op = true
      rw [foldl_releaseUndel_hasInfo]
      exact hi

/-! ## the property, over every history -/

/-- **Slashable until pruned.** In every history: a consensus key `k` that waits in the pruning
slot of epoch `e` (that is where `C07_replacement_schedules_old_key` puts a key that was replaced
while it was in the validator set) and resolves to operator `op` is, after ANY sequence of
operations in which epoch `e` does not end, still in that slot and still resolved to `op` by the
slash path and — `op` having an opted-in record — by the jail path: evidence against `k` slashes
and jails `op`, whether or not `k` is still in the validator store. -/
theorem C07_active_key_slashable_until_pruned (s : St) (ops : List Op) (h : Inv s) (e : Int) (k op : Nat)
    (hk : k ∈ s.addrsToPrune e) (hr : s.rev k = some op) (hi : s.hasInfo op = true)
    (ho : ∀ o ∈ ops, ∀ e', o = .epochEnd e' → e' ≠ e) :
    slashTarget (run s ops) k = some op ∧ jailTarget (run s ops) k = some op ∧
    (∀ staked : Nat → Bool, staked op = true → slashedBy (run s ops) k staked = [op]) ∧
    k ∈ (run s ops).addrsToPrune e := by
  induction ops generalizing s with
  | nil =>
    refine ⟨hr, ?_, ?_, hk⟩
    · simp [jailTarget, run, hr, hi]
    · intro st hst; simp [slashedBy, slashTarget, run, hr, hst]
  | cons o rest ih =>
    simp only [run, List.foldl_cons]
    have ho1 : ∀ e', o = .epochEnd e' → e' ≠ e := ho o (List.mem_cons_self ..)
    exact ih (step s o).2 (C07_inv_step s o h) (C07_prune_slot_persists s o e k hk ho1)
      (C07_sched_key_keeps_operator_step s o h e k op hk hr) (step_hasInfo_keep s o op hi)
      (fun o' ho' => ho o' (List.mem_cons_of_mem _ ho'))

/-- From the replacement itself: operator `op` (opted in, validating with `pk`) replaces `pk` by `key`
in epoch `s.epoch`; after any operations that do not end epoch `s.epoch + EpochsUntilUnbonded`, evidence
against the OLD key still slashes and jails `op`. -/
theorem C07_replaced_active_key_slashable (s : St) (ops : List Op) (h : Inv s) (op key pk : Nat)
    (hact : s.optedIn op = true ∧ s.jailed op = false) (hinfo : s.hasInfo op = true) (hrm : s.removing op = false)
    (hfree : s.rev key = none) (hf : s.fwd op = some pk) (hne : pk ≠ key)
    (hfirst : s.prevKey op = none) (hval : has s.vs.vals pk = true)
    (ho : ∀ o ∈ ops, ∀ e', o = .epochEnd e' → e' ≠ s.epoch + s.nUnb) :
    slashTarget (run (setKey s op key).2 ops) pk = some op ∧ jailTarget (run (setKey s op key).2 ops) pk = some op := by
  have h1 := C07_replacement_schedules_old_key s op key pk hact hrm hfree hf hne hfirst hval
  have hinv : Inv (setKey s op key).2 := inv_setKey s op key h
  have hrev : (setKey s op key).2.rev pk = some op := by rw [h1.2.1]; exact h.back op pk hf
  have hi2 : (setKey s op key).2.hasInfo op = true := step_hasInfo_keep s (.setKey op key) op hinfo
  have := C07_active_key_slashable_until_pruned (setKey s op key).2 ops hinv (s.epoch + s.nUnb) pk op h1.1 hrev hi2 ho
  exact ⟨this.1, this.2.1⟩

/-- The block that closes epoch `e`: between its BeginBlock (epoch-end hook: the key becomes
pending) and its EndBlock the key still resolves; the EndBlock prunes it, and from then on the slash
and jail paths resolve it to nobody: the probe is a no-op (`setJailed` returns the state unchanged,
nobody is slashed whatever stake there is). -/
theorem C07_pruned_key_not_slashable (s : St) (e : Int) (k : Nat) (power : Nat → Int) (maxVals : Nat)
    (hk : k ∈ s.addrsToPrune e) :
    slashTarget (step s (.epochEnd e)).2 k = slashTarget s k ∧
    (let t := (step (step s (.epochEnd e)).2 (.endBlock power maxVals)).2
     slashTarget t k = none ∧ jailTarget t k = none ∧ (∀ staked, slashedBy t k staked = []) ∧
     ∀ b, setJailed t k b = t) := by
  refine ⟨rfl, ?_⟩
  have hp := (C07_pruned_when_slot_ends s e k power maxVals hk).2.1
  refine ⟨hp, ?_, ?_, ?_⟩
  · simp only [jailTarget]; rw [hp]
  · intro st; simp only [slashedBy, slashTarget]; rw [hp]
  · intro b; simp only [setJailed]; rw [hp]

/-- what Jail / Unjail by consensus address does, in terms of `jailTarget` -/
theorem C07_jail_hits_jailTarget (s : St) (key : Nat) (b : Bool) :
    setJailed s key b = (match jailTarget s key with
      | none => s
      | some op => { s with jailed := upd s.jailed op b }) := by
  unfold setJailed jailTarget
  cases s.rev key with
  | none => rfl
  | some op => simp only []; split <;> rfl

/-! ## the key of an operator that is opting out -/

/-- what is stable while an opt-out waits for the end of epoch `f` -/
structure Leaving (s : St) (op key : Nat) (f : Int) : Prop where
  rem : s.removing op = true
  out : s.optedIn op = false
  cur : s.fwd op = some key
  notPending : op ∉ s.pendingOptOuts
  slot : ∀ e', e' ≠ f → op ∉ s.optOutsToFinish e'

theorem setKeyCore_removing_id (t : St) (op key : Nat) (h : t.removing op = true) : (setKeyCore t op key).2 = t :=
  (setKeyCore_reject_removing t op key h).2

theorem setKeyCore_other (t : St) (a op key : Nat) (hne : a ≠ op) :
    (setKeyCore t a key).2.fwd op = t.fwd op ∧ (setKeyCore t a key).2.removing op = t.removing op ∧
    (setKeyCore t a key).2.optedIn op = t.optedIn op ∧ (setKeyCore t a key).2.pendingOptOuts = t.pendingOptOuts ∧
    (setKeyCore t a key).2.optOutsToFinish = t.optOutsToFinish := by
  have hne' : ¬ op = a := fun e => hne e.symm
  simp only [setKeyCore, hookReplaced]
  repeat' split
  all_goals first | exact ⟨rfl, rfl, rfl, rfl, rfl⟩ | simp [upd_apply, hne']

theorem completeRemoval_other (t : St) (a op : Nat) (hne : a ≠ op) :
    (completeRemoval t a).fwd op = t.fwd op ∧ (completeRemoval t a).removing op = t.removing op ∧
    (completeRemoval t a).optedIn op = t.optedIn op ∧ (completeRemoval t a).pendingOptOuts = t.pendingOptOuts ∧
    (completeRemoval t a).optOutsToFinish = t.optOutsToFinish := by
  have hne' : ¬ op = a := fun e => hne e.symm
  unfold completeRemoval
  repeat' split
  all_goals first | exact ⟨rfl, rfl, rfl, rfl, rfl⟩ | simp [upd_apply, hne']

theorem foldl_completeRemoval_other (l : List Nat) (t : St) (op : Nat) (hn : op ∉ l) :
    (l.foldl completeRemoval t).fwd op = t.fwd op ∧ (l.foldl completeRemoval t).removing op = t.removing op ∧
    (l.foldl completeRemoval t).optedIn op = t.optedIn op := by
  induction l generalizing t with
  | nil => exact ⟨rfl, rfl, rfl⟩
  | cons a rest ih =>
    simp only [List.foldl_cons]
    have ha : a ≠ op := fun e => hn (e ▸ List.mem_cons_self ..)
    have hr : op ∉ rest := fun m => hn (List.mem_cons_of_mem _ m)
    have h1 := completeRemoval_other t a op ha
    have h2 := ih (completeRemoval t a) hr
    exact ⟨h2.1.trans h1.1, h2.2.1.trans h1.2.1, h2.2.2.trans h1.2.2.1⟩

theorem foldl_releaseUndel_leaving (l : List Nat) (t : St) :
    (l.foldl releaseUndel t).removing = t.removing ∧ (l.foldl releaseUndel t).optedIn = t.optedIn ∧
    (l.foldl releaseUndel t).pendingOptOuts = t.pendingOptOuts ∧
    (l.foldl releaseUndel t).optOutsToFinish = t.optOutsToFinish := by
  induction l generalizing t with
  | nil => exact ⟨rfl, rfl, rfl, rfl⟩
  | cons a rest ih => simp only [List.foldl_cons]; exact ih (releaseUndel t a)

theorem Leaving.congr {s t : St} {op key : Nat} {f : Int} (L : Leaving s op key f)
    (h1 : t.removing op = s.removing op) (h2 : t.optedIn op = s.optedIn op) (h3 : t.fwd op = s.fwd op)
    (h4 : t.pendingOptOuts = s.pendingOptOuts) (h5 : t.optOutsToFinish = s.optOutsToFinish) : Leaving t op key f := by
  refine ⟨?_, ?_, ?_, ?_, ?_⟩
  · rw [h1]; exact L.rem
  · rw [h2]; exact L.out
  · rw [h3]; exact L.cur
  · rw [h4]; exact L.notPending
  · rw [h5]; exact L.slot

/-- the state after an opt-in is the old state or the state `setKeyCore` produced -/
theorem optIn_state (s : St) (a key : Nat) (ok : Bool) :
    (optIn s a key ok).2 = s ∨
    (optIn s a key ok).2 = (setKeyCore (optInPre s a) a key).2 := by
  unfold optIn
  split
  · exact Or.inl rfl
  · split
    · exact Or.inl rfl
    · split
      · exact Or.inl rfl
      · dsimp only
        generalize setKeyCore _ a key = r
        obtain ⟨out, s2⟩ := r
        cases out <;> first | exact Or.inr rfl | exact Or.inl rfl

/-- one step keeps an opting-out operator's registration as it is, unless its finish epoch ends -/
theorem leaving_step (s : St) (o : Op) (op key : Nat) (f : Int) (L : Leaving s op key f)
    (ho : ∀ e', o = .epochEnd e' → e' ≠ f) : Leaving (step s o).2 op key f := by
  cases o with
  | register a => exact L.congr rfl rfl rfl rfl rfl
  | optIn a k ok =>
    show Leaving (optIn s a k ok).2 op key f
    by_cases ha : a = op
    · subst ha
      have hs : (optIn s a k ok).2 = s :=
        (optIn_of_core_fail s a k ok (setKeyCore_reject_removing (optInPre s a) a k L.rem).1).2
      rw [hs]; exact L
    · rcases optIn_state s a k ok with hs | hs
      · rw [hs]; exact L
      · rw [hs]
        obtain ⟨h1, h2, h3, h4, h5⟩ := setKeyCore_other (optInPre s a) a op k ha
        have hne' : ¬ op = a := fun e => ha e.symm
        refine L.congr h2 ?_ h1 h4 h5
        rw [h3]
        show upd s.optedIn a true op = s.optedIn op
        simp only [upd_apply, hne', if_false]
  | setKey a k =>
    show Leaving (setKey s a k).2 op key f
    unfold setKey
    split
    · exact L
    · by_cases ha : a = op
      · subst ha
        rw [setKeyCore_removing_id s a k L.rem]; exact L
      · obtain ⟨h1, h2, h3, h4, h5⟩ := setKeyCore_other s a op k ha
        exact L.congr h2 h3 h1 h4 h5
  | optOut a =>
    show Leaving (optOut s a).2 op key f
    unfold optOut
    split
    · exact L
    · split
      · exact L
      · rename_i _ hact
        have ha : a ≠ op := by
          intro e; subst e
          simp [L.out] at hact
        have hne' : ¬ op = a := fun e => ha e.symm
        cases hf : s.fwd a with
        | none => exact L
        | some ka =>
          simp only []
          have L1 : Leaving { s with optedIn := upd s.optedIn a false, removing := upd s.removing a true } op key f := by
            refine L.congr ?_ ?_ rfl rfl rfl
            · simp only [upd_apply, hne', if_false]
            · simp only [upd_apply, hne', if_false]
          have hA : Leaving (setOptOutInformation { s with optedIn := upd s.optedIn a false, removing := upd s.removing a true } a) op key f := by
            -- scheduled: `a` is appended to a slot, `op` is not touched
            refine ⟨L1.rem, L1.out, L1.cur, L1.notPending, ?_⟩
            intro e' he'
            simp only [setOptOutInformation, upd_apply]
            split
            · rename_i hee
              intro hm
              rcases List.mem_append.1 hm with hm | hm
              · rw [← hee] at hm; exact L1.slot e' he' hm
              · simp at hm; exact hne' hm
            · exact L1.slot e' he'
          have hB : Leaving (completeRemoval { s with optedIn := upd s.optedIn a false, removing := upd s.removing a true } a) op key f := by
            obtain ⟨h1, h2, h3, h4, h5⟩ := completeRemoval_other
              { s with optedIn := upd s.optedIn a false, removing := upd s.removing a true } a op ha
            exact L1.congr h2 h3 h1 h4 h5
          repeat' split
          all_goals first | exact hA | exact hB
  | jail k b =>
    show Leaving (setJailed s k b) op key f
    unfold setJailed
    repeat' split
    all_goals exact L.congr rfl rfl rfl rfl rfl
  | undelegate a rec =>
    show Leaving (undelegationStarted s a rec).2 op key f
    unfold undelegationStarted
    simp only []
    repeat' split
    all_goals exact L.congr rfl rfl rfl rfl rfl
  | setUnbonding n => exact L.congr rfl rfl rfl rfl rfl
  | epochEnd e =>
    have hne : e ≠ f := ho e rfl
    show Leaving (epochEndHook s e) op key f
    refine ⟨L.rem, L.out, L.cur, ?_, ?_⟩
    · exact L.slot e hne
    · intro e' he'
      show op ∉ upd s.optOutsToFinish e [] e'
      simp only [upd_apply]
      split
      · simp
      · exact L.slot e' he'
  | endBlock power maxVals =>
    show Leaving (endBlock s power maxVals) op key f
    unfold endBlock
    split
    · exact L.congr rfl rfl rfl rfl rfl
    · simp only []
      obtain ⟨r1, r2, r3, r4⟩ := foldl_releaseUndel_leaving s.pendingUndel { s with prevKey := fun _ => none }
      obtain ⟨a1, _, _, _, _⟩ := releaseUndel_fields s.pendingUndel { s with prevKey := fun _ => none }
      have hn : op ∉ ({ (s.pendingUndel.foldl releaseUndel { s with prevKey := fun _ => none }) with pendingUndel := [] } : St).pendingOptOuts := by
        show op ∉ (s.pendingUndel.foldl releaseUndel { s with prevKey := fun _ => none }).pendingOptOuts
        rw [r3]; exact L.notPending
      obtain ⟨c1, c2, c3⟩ := foldl_completeRemoval_other _
        { (s.pendingUndel.foldl releaseUndel { s with prevKey := fun _ => none }) with pendingUndel := [] } op hn
      refine ⟨?_, ?_, ?_, ?_, ?_⟩
      · show (List.foldl completeRemoval _ _).removing op = true
        rw [c2]
        show (s.pendingUndel.foldl releaseUndel { s with prevKey := fun _ => none }).removing op = true
        rw [r1]; exact L.rem
      · show (List.foldl completeRemoval _ _).optedIn op = false
        rw [c3]
        show (s.pendingUndel.foldl releaseUndel { s with prevKey := fun _ => none }).optedIn op = false
        rw [r2]; exact L.out
      · show (List.foldl completeRemoval _ _).fwd op = some key
        rw [c1]
        show (s.pendingUndel.foldl releaseUndel { s with prevKey := fun _ => none }).fwd op = some key
        rw [a1]; exact L.cur
      · show op ∉ ([] : List Nat)
        simp
      · intro e' he'
        show op ∉ (List.foldl completeRemoval _ _).optOutsToFinish e'
        rw [(foldl_completeRemoval_queues _ _).2]
        show op ∉ (s.pendingUndel.foldl releaseUndel { s with prevKey := fun _ => none }).optOutsToFinish e'
        rw [r4]; exact L.slot e' he'

/-- **Opting out: slashable until the opt-out finishes.** In every history: an operator `op` whose
opt-out waits for the end of epoch `f` keeps its key `key` as current key — so (registry invariant)
the slash and jail paths resolve `key` to `op` — after ANY sequence of operations in which epoch `f`
does not end, whether or not the key is still in the validator store. -/
theorem C07_removing_key_slashable_until_finished (s : St) (ops : List Op) (h : Inv s) (op key : Nat) (f : Int)
    (L : Leaving s op key f) (hi : s.hasInfo op = true)
    (ho : ∀ o ∈ ops, ∀ e', o = .epochEnd e' → e' ≠ f) :
    slashTarget (run s ops) key = some op ∧ jailTarget (run s ops) key = some op ∧
    Leaving (run s ops) op key f := by
  induction ops generalizing s with
  | nil =>
    have hr : s.rev key = some op := h.back op key L.cur
    refine ⟨hr, ?_, L⟩
    simp [jailTarget, run, hr, hi]
  | cons o rest ih =>
    simp only [run, List.foldl_cons]
    exact ih (step s o).2 (C07_inv_step s o h) (leaving_step s o op key f L (ho o (List.mem_cons_self ..)))
      (step_hasInfo_keep s o op hi) (fun o' ho' => ho o' (List.mem_cons_of_mem _ ho'))

/-- The opt-out of a validating operator (not already waiting anywhere) establishes `Leaving` for the
epoch `current + EpochsUntilUnbonded`. -/
theorem C07_optout_establishes_leaving (s : St) (op key : Nat) (hreg : s.registered op = true)
    (hact : s.optedIn op = true ∧ s.jailed op = false) (hf : s.fwd op = some key)
    (hval : has s.vs.vals key = true) (hp : op ∉ s.pendingOptOuts) (hq : ∀ e, op ∉ s.optOutsToFinish e) :
    Leaving (optOut s op).2 op key (s.epoch + s.nUnb) := by
  refine ⟨?_, ?_, ?_, ?_, ?_⟩
  · simp [optOut, hreg, hact.1, hact.2, hf, hval, setOptOutInformation, upd_apply]
  · simp [optOut, hreg, hact.1, hact.2, hf, hval, setOptOutInformation, upd_apply]
  · simp [optOut, hreg, hact.1, hact.2, hf, hval, setOptOutInformation, upd_apply]
  · simp [optOut, hreg, hact.1, hact.2, hf, hval, setOptOutInformation, upd_apply, hp]
  · intro e' he'
    simp [optOut, hreg, hact.1, hact.2, hf, hval, setOptOutInformation, upd_apply, completionEpoch, he', hq e']

/-! ## non-vacuity: the history of `Props/C07.lean` — key 1 replaced in epoch 2 (slot 4), operator 1
opts out in epoch 3 (slot 5); the old keys leave the validator set and stay slashable -/

private def pw' : Nat → Int := fun op => if op = 0 then 120 else 100
private def hist' : List Op :=
  [.register 0, .register 1, .optIn 0 1 true, .optIn 1 2 true, .epochEnd 1, .endBlock pw' 5,
   .setKey 0 3, .epochEnd 2, .endBlock pw' 5, .optOut 1, .epochEnd 3, .endBlock pw' 5]

-- during epoch 4: keys 1 and 2 are out of the validator store and still hit operators 0 and 1
example :
    let s := run (St.init 2 6 1 2) hist'
    has s.vs.vals 1 = false ∧ has s.vs.vals 2 = false ∧ slashTarget s 1 = some 0 ∧ jailTarget s 1 = some 0 ∧
    slashTarget s 2 = some 1 ∧ slashedBy s 1 (fun _ => true) = [0] ∧ slashedBy s 2 (fun _ => true) = [1] := by decide
-- after epoch 4 ended key 1 is pruned, after epoch 5 ended operator 1's removal is complete
example :
    let s := run (St.init 2 6 1 2) (hist' ++ [.epochEnd 4, .endBlock pw' 5])
    slashTarget s 1 = none ∧ slashedBy s 1 (fun _ => true) = [] ∧ slashTarget s 2 = some 1 := by decide
example :
    let s := run (St.init 2 6 1 2) (hist' ++ [.epochEnd 4, .endBlock pw' 5, .epochEnd 5, .endBlock pw' 5])
    slashTarget s 2 = none ∧ jailTarget s 2 = none := by decide
-- the hypotheses of `C07_active_key_slashable_until_pruned` / `C07_optout_establishes_leaving` are met on the way
example :
    let s := run (St.init 2 6 1 2) (hist'.take 7)
    1 ∈ s.addrsToPrune 4 ∧ s.rev 1 = some 0 ∧ s.hasInfo 0 = true := by decide
example :
    let s := run (St.init 2 6 1 2) (hist'.take 9)
    s.registered 1 = true ∧ s.optedIn 1 = true ∧ s.jailed 1 = false ∧ s.fwd 1 = some 2 ∧ has s.vs.vals 2 = true ∧
    1 ∉ s.pendingOptOuts := by decide

end ExoVerif.ConsKeys
