import ExoVerif.Props.C07Hist
/-!
# C06 — the clauses about consensus, stated over histories of key operations

`Props/C06.lean` / `Props/C06Hist.lean` prove C06 for candidate lists that satisfy `InputsOK` (distinct
keys, every reverse lookup present); `Props/C07Hist.lean` shows that the candidate list EndBlock reads
satisfies it in every history of the registry model (`Model/ConsKeys.lean`). This file closes the
clauses of C06 that speak about **the consensus engine** in those histories — opt-ins, key
replacements (to fresh keys, to somebody's key, *back to a key the operator replaced earlier*),
opt-outs, jailing, undelegations, parameter changes, blocks:

* `C06_keys_engine_agrees_forever`: the engine's copy of the validator set — the genesis set changed
  only by the lists EndBlock returned (`runE`) — equals the stored set after every history, both sum
  to the stored total power, and every returned list is one CometBFT accepts
  (`C06_keys_every_list_accepted`);
* `C06_keys_engine_is_topk`: after every epoch-closing block the engine holds exactly the eligible
  top set of the candidates of that block;
* `C06_keys_candidates_resolvable`, `C06_keys_scheduled_key_is_nobodys`: the reason — a key waiting
  to be pruned is nobody's current key, so the pruning in EndBlock never removes the reverse lookup of
  a candidate and ApplyValidatorChanges' "not found ⇒ store written, update dropped" branch is dead;
* `C06_keys_replaced_key_cannot_be_taken_back`: what keeps it so — from the replacement of a
  validating key until the block that prunes it, *nobody, the replacing operator included*, can set
  that key again (refused, state untouched);
* `C06_keys_take_back_would_break_agreement`: the guard is necessary — with the check relaxed to
  "the key resolves to a *different* operator" (`setKeyCoreOwn`) there is a well-formed history after
  which the store says 150, the engine 100 and the stored total exceeds what consensus sums to.
-/
namespace ExoVerif.ConsKeys
open ExoVerif.VMap ExoVerif.ValSet

/-! ## the engine next to the chain -/

/-- one operation of a history, with the consensus engine's validator set: the list stored as
`valUpdates` by an EndBlock is the list returned to the engine (`C06_hist_told_equals_stored`), which
applies it with CometBFT's rules; nothing else reaches the engine -/
def stepE (se : St × VSet) (o : Op) : St × VSet :=
  match o with
  | .endBlock power maxVals =>
    (endBlock se.1 power maxVals, cometApply se.2 (endBlock se.1 power maxVals).vs.valUpdates)
  | o => ((step se.1 o).2, se.2)

def runE (se : St × VSet) (ops : List Op) : St × VSet := ops.foldl stepE se

theorem stepE_fst (se : St × VSet) (o : Op) : (stepE se o).1 = (step se.1 o).2 := by
  cases o <;> rfl

theorem runE_fst (se : St × VSet) (ops : List Op) : (runE se ops).1 = run se.1 ops := by
  induction ops generalizing se with
  | nil => rfl
  | cons o rest ih =>
    show (runE (stepE se o) rest).1 = run (step se.1 o).2 rest
    rw [ih, stepE_fst]

theorem runE_append (se : St × VSet) (a b : List Op) : runE se (a ++ b) = runE (runE se a) b := by
  simp [runE, List.foldl_append]

/-- only EndBlock writes the dogfood validator store -/
theorem step_vs (s : St) (o : Op) (ho : ∀ p m, o ≠ .endBlock p m) : (step s o).2.vs = s.vs := by
  cases o with
  | register op => rfl
  | optIn op key ok =>
    rcases optIn_cases s op key ok with h1 | ⟨_, h1⟩
    · show (optIn s op key ok).2.vs = _; rw [h1]
    · show (optIn s op key ok).2.vs = _; rw [h1]; exact (setKeyCore_sameQ _ op key).vs
  | setKey op key => exact (setKey_sameQ s op key).vs
  | optOut op =>
    rcases optOut_cases s op with h1 | h1 | h1
    · show (optOut s op).2.vs = _; rw [h1]
    · show (optOut s op).2.vs = _; rw [h1]; rfl
    · show (optOut s op).2.vs = _; rw [h1]; exact (completeRemoval_sameQ _ op).vs
  | jail key b =>
    simp only [step, setJailed]
    repeat' split
    all_goals rfl
  | undelegate op rec =>
    simp only [step, undelegationStarted]
    repeat' split
    all_goals rfl
  | setUnbonding n => rfl
  | epochEnd e => rfl
  | endBlock power maxVals => exact absurd rfl (ho power maxVals)

/-- what an epoch-closing EndBlock does to store and engine is C06's `stepBlock` on the candidates
EndBlock reads after its own preliminary steps -/
theorem stepE_closing (s : St) (eng : VSet) (power : Nat → Int) (maxVals : Nat) (he : s.epochEnd = true) :
    ((stepE (s, eng) (.endBlock power maxVals)).1.vs, (stepE (s, eng) (.endBlock power maxVals)).2)
      = stepBlock ((endBlockPre s).vs, eng) (some (candsOf (endBlockPre s) power, maxVals)) := by
  simp only [stepE, stepBlock]
  rw [endBlock_closing s power maxVals he]
  rfl

theorem stepE_other (s : St) (eng : VSet) (power : Nat → Int) (maxVals : Nat) (he : s.epochEnd = false) :
    ((stepE (s, eng) (.endBlock power maxVals)).1.vs, (stepE (s, eng) (.endBlock power maxVals)).2)
      = stepBlock (s.vs, eng) none := by
  simp only [stepE, stepBlock]
  rw [endBlock_other s power maxVals he]
  rfl

/-- the candidates of a closing EndBlock of a good state satisfy C06's hypotheses -/
theorem closing_inputs (s : St) (power : Nat → Int) (maxVals : Nat) (hg : Good s) (he : s.epochEnd = true) :
    ((candsOf (endBlockPre s) power).map (·.key)).Nodup ∧ (∀ c ∈ candsOf (endBlockPre s) power, c.rev = true) ∧
    (endBlockPre s).vs = s.vs := by
  have hiE := inv_endBlock s power maxVals hg.inv
  rw [endBlock_closing s power maxVals he] at hiE
  have hiP : Inv (endBlockPre s) := hiE.congr rfl rfl rfl rfl rfl
  exact ⟨candsOf_keys_nodup _ power hiP, candsOf_revOK _ power hiP, (endBlockPre_fields s).2.2.2.2.2.2.2.2.2.2.1⟩

theorem agree_stepE (s : St) (eng : VSet) (o : Op) (hg : Good s) (ha : Agree (s.vs, eng)) :
    Agree ((stepE (s, eng) o).1.vs, (stepE (s, eng) o).2) := by
  by_cases ho : ∃ p m, o = .endBlock p m
  · obtain ⟨power, maxVals, rfl⟩ := ho
    by_cases he : s.epochEnd = true
    · obtain ⟨h1, h2, h3⟩ := closing_inputs s power maxVals hg he
      have hag : Agree ((endBlockPre s).vs, eng) := by rw [h3]; exact ha
      have := agree_step ((endBlockPre s).vs, eng) (some (candsOf (endBlockPre s) power, maxVals)) hag ⟨h1, h2⟩
      rw [← stepE_closing s eng power maxVals he] at this
      exact this
    · have he' : s.epochEnd = false := by cases hh : s.epochEnd <;> simp_all
      have := agree_step (s.vs, eng) none ha trivial
      rw [← stepE_other s eng power maxVals he'] at this
      exact this
  · have hne : ∀ p m, o ≠ .endBlock p m := fun p m e => ho ⟨p, m, e⟩
    have h1 : (stepE (s, eng) o).1.vs = s.vs := by rw [stepE_fst]; exact step_vs s o hne
    have h2 : (stepE (s, eng) o).2 = eng := by
      cases o with
      | endBlock p m => exact absurd rfl (hne p m)
      | _ => rfl
    rw [h1, h2]; exact ha

/-! ## the clauses -/

/-- **Store, total power and consensus agree after every history of key operations and blocks.**
From any state that satisfies the registry invariant (`Good`, established by `good_init` and kept by
every operation) with the engine holding the stored set: after every well-formed history — opt-ins,
key replacements to any key including keys the operator used before, opt-outs, jailing,
undelegations, parameter changes, epoch ends, blocks — the engine's set (changed only by the returned
lists) is the stored set, and both sum to the stored total power. -/
theorem C06_keys_engine_agrees_forever (s : St) (eng : VSet) (ops : List Op) (hg : Good s)
    (ha : Agree (s.vs, eng)) (hw : wf s ops) :
    Agree ((runE (s, eng) ops).1.vs, (runE (s, eng) ops).2) ∧
    sumPowers (runE (s, eng) ops).2 = (runE (s, eng) ops).1.vs.lastTotalPower ∧
    (runE (s, eng) ops).1 = run s ops := by
  have key : Agree ((runE (s, eng) ops).1.vs, (runE (s, eng) ops).2) := by
    induction ops generalizing s eng with
    | nil => exact ha
    | cons o rest ih =>
      have e : stepE (s, eng) o = ((step s o).2, (stepE (s, eng) o).2) := Prod.ext (stepE_fst _ _) rfl
      have h1 := agree_stepE s eng o hg ha
      show Agree ((runE (stepE (s, eng) o) rest).1.vs, (runE (stepE (s, eng) o) rest).2)
      rw [e] at h1 ⊢
      exact ih _ _ (good_step s o hg hw.1) h1 hw.2
  refine ⟨key, ?_, runE_fst _ _⟩
  have ht : (runE (s, eng) ops).1.vs.lastTotalPower = sumPowers (runE (s, eng) ops).1.vs.vals := key.total
  rw [ht]
  exact sumPowers_eq_of_get_eq _ _ key.engineMap key.storeMap key.same

/-- **Every list handed to consensus is one CometBFT accepts** (no key twice, no negative power, no
removal of a key the engine does not have), and outside an epoch-closing block it is empty — for the
EndBlock of any block after any history. -/
theorem C06_keys_every_list_accepted (s : St) (eng : VSet) (ops : List Op) (hg : Good s)
    (ha : Agree (s.vs, eng)) (hw : wf s ops) (power : Nat → Int) (maxVals : Nat) :
    cometAccepts (runE (s, eng) ops).2 (endBlock (run s ops) power maxVals).vs.valUpdates ∧
    ((run s ops).epochEnd = false → (endBlock (run s ops) power maxVals).vs.valUpdates = []) := by
  obtain ⟨hag, _, hrun⟩ := C06_keys_engine_agrees_forever s eng ops hg ha hw
  have hg' := good_run s ops hg hw
  rw [hrun] at hag
  by_cases he : (run s ops).epochEnd = true
  · obtain ⟨h1, h2, h3⟩ := closing_inputs (run s ops) power maxVals hg' he
    have hok : InputsOK (endBlockPre (run s ops)).vs.vals (candsOf (endBlockPre (run s ops)) power) :=
      ⟨by rw [h3]; exact hag.storeMap, h1, h2⟩
    obtain ⟨a1, _, _, a4⟩ := C06_updates_yield_topk (endBlockPre (run s ops)).vs _ maxVals hok (runE (s, eng) ops).2
      (by intro k; rw [h3]; exact hag.same k)
    refine ⟨?_, fun hf => by rw [he] at hf; cases hf⟩
    rw [endBlock_closing _ power maxVals he]
    show cometAccepts _ (endBlockEpoch _ _ maxVals).1.valUpdates
    rw [a4]; exact a1
  · have he' : (run s ops).epochEnd = false := by cases hh : (run s ops).epochEnd <;> simp_all
    rw [endBlock_other _ power maxVals he']
    exact ⟨⟨List.nodup_nil, fun u hu => by cases hu⟩, fun _ => rfl⟩

/-- **After every epoch-closing block consensus holds exactly the eligible top set** of the
candidates that block's EndBlock read (has a key, opted in, not jailed; power ≥ 1; at most `maxVals`;
ties by operator address — `C06_topk_characterisation`), and so does the store. -/
theorem C06_keys_engine_is_topk (s : St) (eng : VSet) (ops : List Op) (hg : Good s)
    (ha : Agree (s.vs, eng)) (hw : wf s ops) (power : Nat → Int) (maxVals : Nat)
    (he : (run s ops).epochEnd = true) (k : Nat) :
    get (runE (s, eng) (ops ++ [.endBlock power maxVals])).2 k
      = get (topMap (candsOf (endBlockPre (run s ops)) power) maxVals) k ∧
    get (runE (s, eng) (ops ++ [.endBlock power maxVals])).1.vs.vals k
      = get (topMap (candsOf (endBlockPre (run s ops)) power) maxVals) k := by
  obtain ⟨hag, _, hrun⟩ := C06_keys_engine_agrees_forever s eng ops hg ha hw
  have hg' := good_run s ops hg hw
  have hwall : wf s (ops ++ [.endBlock power maxVals]) := (wf_append s ops _).2 ⟨hw, trivial, trivial⟩
  obtain ⟨hag2, _, hrun2⟩ := C06_keys_engine_agrees_forever s eng _ hg ha hwall
  have hst : get (runE (s, eng) (ops ++ [.endBlock power maxVals])).1.vs.vals k
      = get (topMap (candsOf (endBlockPre (run s ops)) power) maxVals) k := by
    rw [hrun2, run_append]
    exact C07_hist_valset_is_topk s ops hg hw power maxVals he k
  exact ⟨(hag2.same k).trans hst, hst⟩

/-- **Every candidate EndBlock reads is resolvable when the changes are applied** — after EndBlock's
own pruning of the pending addresses — and no two candidates share a key: ApplyValidatorChanges'
branch "validator found, operator lookup failed ⇒ power written to the store, update not forwarded"
is never taken, in any history. -/
theorem C06_keys_candidates_resolvable (s : St) (ops : List Op) (hg : Good s) (hw : wf s ops)
    (power : Nat → Int) (he : (run s ops).epochEnd = true) :
    (∀ c ∈ candsOf (endBlockPre (run s ops)) power, c.rev = true) ∧
    ((candsOf (endBlockPre (run s ops)) power).map (·.key)).Nodup := by
  obtain ⟨h1, h2, _⟩ := closing_inputs (run s ops) power 0 (good_run s ops hg hw) he
  exact ⟨h2, h1⟩

/-- … because **a key that waits to be pruned is nobody's current key** (in neither forward index)
and still resolves, in every reachable state. -/
theorem C06_keys_scheduled_key_is_nobodys (s : St) (ops : List Op) (hg : Good s) (hw : wf s ops) (k : Nat)
    (hk : k ∈ (run s ops).pendingAddrs ∨ ∃ e, k ∈ (run s ops).addrsToPrune e) (op : Nat) :
    (run s ops).fwd op ≠ some k ∧ (run s ops).fwd2 op ≠ some k ∧ ((run s ops).rev k).isSome = true := by
  have g := (good_run s ops hg hw).inv
  refine ⟨g.schedFree k hk op, ?_, g.schedRev k hk⟩
  rw [← g.fwdEq op]; exact g.schedFree k hk op

/-- **A replaced validating key cannot be taken back before it is pruned — not even by the operator
that replaced it.** Operator `op` replaces its validating key `pk` by `key` at epoch `e = s.epoch`
with `EpochsUntilUnbonded = N = s.nUnb`. After every well-formed continuation in which the epoch
number is still ≤ e + N, for *every* operator `op'` (in particular `op' = op`) SetConsKey and
OptIntoAVS with `pk` are refused and leave the state untouched; `op` validates with its new key. -/
theorem C06_keys_replaced_key_cannot_be_taken_back (s : St) (op key pk : Nat) (ops : List Op)
    (h : Good s) (hact : s.optedIn op = true ∧ s.jailed op = false) (hrm : s.removing op = false)
    (hfree : s.rev key = none) (hf : s.fwd op = some pk) (hne : pk ≠ key) (hfirst : s.prevKey op = none)
    (hval : has s.vs.vals pk = true)
    (hw : wf (setKey s op key).2 ops) (hep : (run (setKey s op key).2 ops).epoch ≤ s.epoch + s.nUnb)
    (op' : Nat) (ok : Bool) :
    (setKey (run (setKey s op key).2 ops) op' pk).1 ≠ .ok ∧
    (setKey (run (setKey s op key).2 ops) op' pk).2 = run (setKey s op key).2 ops ∧
    (optIn (run (setKey s op key).2 ops) op' pk ok).1 ≠ .ok ∧
    (optIn (run (setKey s op key).2 ops) op' pk ok).2 = run (setKey s op key).2 ops ∧
    (run (setKey s op key).2 ops).fwd op' ≠ some pk := by
  obtain ⟨a1, _, _⟩ := C07_replacement_schedules_old_key s op key pk hact hrm hfree hf hne hfirst hval
  have g' : Good (setKey s op key).2 := good_step s (.setKey op key) h trivial
  obtain ⟨_, _, b3, b4, _⟩ := C07_hist_resolvable_not_before _ ops (s.epoch + s.nUnb) pk g' a1 hw hep
  obtain ⟨c1, c2, c3, c4⟩ := C07_used_key_rejected (run (setKey s op key).2 ops) op' pk ok b3
  exact ⟨c1, c2, c3, c4, b4 op'⟩

/-! ## why the guard must refuse the operator's own replaced key -/

/-- `setKeyCore` with the key-in-use check relaxed to "the key resolves to a *different* operator"
(not the code: the shape a usability fix would give it) -/
def setKeyCoreOwn (s : St) (op key : Nat) : Out × St :=
  if s.removing op then (.errAlreadyRemovingKey, s)
  else if (match s.rev key with | some o => o != op | none => false) then (.errConsKeyInUse, s)
  else
    match s.fwd op with
    | some pk =>
      if pk = key then (.ok, s)
      else
        let already := (s.prevKey op).isSome
        let s1 := if already then s else { s with prevKey := upd s.prevKey op (some pk) }
        let s2 := { s1 with fwd := upd s1.fwd op (some key), fwd2 := upd s1.fwd2 op (some key),
                            rev := upd s1.rev key (some op) }
        (.ok, if already then s2 else hookReplaced s2 pk)
    | none =>
      (.ok, { s with fwd := upd s.fwd op (some key), fwd2 := upd s.fwd2 op (some key),
                     rev := upd s.rev key (some op) })

def stepOwn (s : St) : Op → Out × St
  | .setKey op key => if !(s.optedIn op && !s.jailed op) then (.errNotOptedIn, s) else setKeyCoreOwn s op key
  | o => step s o

def stepEOwn (se : St × VSet) (o : Op) : St × VSet :=
  match o with
  | .endBlock power maxVals =>
    (endBlock se.1 power maxVals, cometApply se.2 (endBlock se.1 power maxVals).vs.valUpdates)
  | o => ((stepOwn se.1 o).2, se.2)

private def pw100 : Nat → Int := fun _ => 100
private def pw150 : Nat → Int := fun op => if op = 0 then 150 else 100

/-- operators 0 and 1 validate with keys 1 and 2 (power 100 each); in epoch 2 operator 0 replaces
key 1 by key 3 and goes back to key 1 (N = 2: key 1 stays queued for the end of epoch 4); the block
closing epoch 4 prunes key 1's lookup while it is operator 0's validating key; in epoch 5 operator
0's power is 150 -/
def C06_takeBackHistory : List Op :=
  [.register 0, .register 1, .optIn 0 1 true, .optIn 1 2 true, .epochEnd 1, .endBlock pw100 5,
   .setKey 0 3, .setKey 0 1,
   .epochEnd 2, .endBlock pw100 5, .epochEnd 3, .endBlock pw100 5, .epochEnd 4, .endBlock pw100 5,
   .epochEnd 5, .endBlock pw150 5]

/-- **The guard is necessary.** With the relaxed check the history above — well-formed, every
operation accepted — ends with the store holding key 1 ↦ 150 and total power 250 while the engine,
which applied every returned list, holds key 1 ↦ 100 and sums to 200: the last EndBlock wrote the
new power to the store and returned an empty list. With the code's check the same history refuses
the second SetConsKey and everything agrees (`C06_keys_engine_agrees_forever`). -/
theorem C06_keys_take_back_would_break_agreement :
    let r := C06_takeBackHistory.foldl stepEOwn (C07_fullInit, [])
    get r.1.vs.vals 1 = some 150 ∧ get r.2 1 = some 100 ∧
    r.1.vs.lastTotalPower = 250 ∧ sumPowers r.2 = 200 ∧ r.1.vs.valUpdates = [] ∧
    r.1.fwd 0 = some 1 ∧ r.1.rev 1 = none := by decide

/-! ## non-vacuity -/

example : wf C07_fullInit C06_takeBackHistory := by decide
example : Agree (C07_fullInit.vs, []) :=
  ⟨by unfold KV.NoDup KV.keys; decide, by unfold KV.NoDup KV.keys; decide, fun _ => rfl, by decide⟩
-- the code's check on the same history: the take-back is refused, operator 0 validates with key 3,
-- key 1 is pruned when it is really unused, store and engine agree (150 / 250)
example : (setKey (run C07_fullInit (C06_takeBackHistory.take 7)) 0 1).1 = .errConsKeyInUse := by decide
example :
    let r := runE (C07_fullInit, []) C06_takeBackHistory
    get r.1.vs.vals 3 = some 150 ∧ get r.2 3 = some 150 ∧ get r.2 1 = none ∧
    r.1.vs.lastTotalPower = 250 ∧ sumPowers r.2 = 250 ∧ r.1.rev 1 = none ∧ r.1.fwd 0 = some 3 := by decide
-- the hypotheses of `C06_keys_replaced_key_cannot_be_taken_back` in that history (state before `.setKey 0 3`)
example :
    let s := run C07_fullInit (C06_takeBackHistory.take 6)
    s.optedIn 0 = true ∧ s.jailed 0 = false ∧ s.removing 0 = false ∧ s.rev 3 = none ∧ s.fwd 0 = some 1 ∧
    s.prevKey 0 = none ∧ has s.vs.vals 1 = true ∧ s.epoch = 2 ∧ s.nUnb = 2 := by decide
-- a closing block of that history: the hypothesis `epochEnd = true` of the per-block theorems
example : (run C07_fullInit (C06_takeBackHistory.take 15)).epochEnd = true := by decide

end ExoVerif.ConsKeys
