import ExoVerif.Proofs.DecArith
import ExoVerif.Model.Ledger
/-!
# C02 — Share accounting is consistent and fair between co-delegators (conversion functions)

Theorems about the pure share⇄token conversion of x/delegation/keeper/share.go over their WHOLE
input domain (all integers satisfying the stated side conditions; no bound on sizes), with the
SDK's exact rounding: `SharesFromTokens` truncates (`QuoInt`), `TokensFromShares` rounds half-even
at 10^-18 (`Quo`) and then truncates (`TruncateInt`).
`tok sh S T` is the value `TokensFromShares` returns on its success path (`C02_tok_is_tokensFromShares`),
`minted S x T` the value of `SharesFromTokens` (`C02_minted_is_sharesFromTokens`).
The standing side condition `T ≤ S.raw` says that the pool's raw share total (18 decimals) is at
least its token amount: true from the 1:1 start (S.raw = T·10^18) on, because only slashing changes
the rate and it lowers T. The state-machine half of C02 (share sums, staker lists) is in `C02Inv`.
-/
namespace ExoVerif.Ledger
open ExoVerif ExoVerif.Dec

/-- shares minted for `x` tokens into a pool (S raw shares, T tokens): SharesFromTokens = S·x quo T -/
def minted (S : Dec) (x T : Int) : Dec := Dec.quoInt (Dec.mulInt S x) T

theorem minted_bounds (S : Dec) (x T : Int) (hS : 0 ≤ S.raw) (hx : 0 ≤ x) (hT : 0 < T) :
    0 ≤ (minted S x T).raw ∧ (minted S x T).raw * T ≤ S.raw * x ∧ S.raw * x < (minted S x T).raw * T + T := by
  unfold minted quoInt mulInt
  have h : 0 ≤ S.raw * x := Int.mul_nonneg hS hx
  exact ⟨tdiv_nonneg' _ _ h hT, tdiv_mul_le _ _ h hT, lt_tdiv_mul_add _ _ h hT⟩

/-- C02: delegate x, then (no slash in between) redeem all the minted shares: at most x, at least
x − 1 base units come back — for every pool whose raw share total is at least its token amount
(true from the 1:1 start on, since slashing only lowers the amount). -/
theorem C02_roundtrip_bounds (S : Dec) (T x : Int) (hT : 0 < T) (hS : T ≤ S.raw) (hx : 0 < x) :
    x - 1 ≤ tok (minted S x T) (Dec.add S (minted S x T)) (T + x) ∧
    tok (minted S x T) (Dec.add S (minted S x T)) (T + x) ≤ x := by
  generalize hs : minted S x T = s
  have hS0 : 0 ≤ S.raw := by omega
  obtain ⟨hs0, hs1, hs2⟩ := minted_bounds S x T hS0 (le_of_lt hx) hT
  rw [hs] at hs0 hs1 hs2
  have htot : 0 < (Dec.add S s).raw := by simp only [Dec.add]; omega
  have hamt : 0 ≤ T + x := by omega
  constructor
  · apply le_tok s (Dec.add S s) (T + x) (x - 1) hs0 htot hamt (by omega)
    simp only [Dec.add]
    nlinarith
  · apply tok_le s (Dec.add S s) (T + x) x hs0 htot hamt (by omega)
    simp only [Dec.add]
    nlinarith


/-- C02: a delegation of x by somebody else changes the redeemable value of any other
position `b` (0 ≤ b ≤ S) of the same pool by at most one base unit, and never lowers it. -/
theorem C02_bystander_delegate (S b : Dec) (T x : Int) (hT : 0 < T) (hS : T ≤ S.raw) (hx : 0 < x)
    (hb0 : 0 ≤ b.raw) (hb : b.raw ≤ S.raw) :
    tok b S T ≤ tok b (Dec.add S (minted S x T)) (T + x) ∧
    tok b (Dec.add S (minted S x T)) (T + x) ≤ tok b S T + 1 := by
  generalize hs : minted S x T = s
  have hS0 : 0 < S.raw := by omega
  obtain ⟨hs0, hs1, hs2⟩ := minted_bounds S x T (le_of_lt hS0) (le_of_lt hx) hT
  rw [hs] at hs0 hs1 hs2
  have htot : 0 < (Dec.add S s).raw := by simp only [Dec.add]; omega
  constructor
  · apply tok_mono b S T b (Dec.add S s) (T + x) hb0 hS0 (le_of_lt hT) hb0 htot (by omega)
    simp only [Dec.add]
    nlinarith
  · apply tok_le_succ b S T b (Dec.add S s) (T + x) hb0 hS0 (le_of_lt hT) hb0 htot (by omega)
    simp only [Dec.add]
    nlinarith

/-- C02: an undelegation that removes `sh` shares (0 < sh < S) — paid `tok sh S T` tokens by
RemoveShareFromOperator — changes the redeemable value of any other position `b` of the same
pool (0 ≤ b ≤ S − sh) by at most one base unit, up or down. -/
theorem C02_bystander_undelegate (S b sh : Dec) (T : Int) (hT : 0 < T) (hS : T ≤ S.raw)
    (hsh0 : 0 < sh.raw) (hsh : sh.raw < S.raw) (hb0 : 0 ≤ b.raw) (hb : b.raw ≤ S.raw - sh.raw)
    (hrem : tok sh S T ≤ T) :
    tok b (Dec.sub S sh) (T - tok sh S T) ≤ tok b S T + 1 ∧
    tok b S T ≤ tok b (Dec.sub S sh) (T - tok sh S T) + 1 := by
  have hS0 : 0 < S.raw := by omega
  have hr0 := tok_nonneg sh S T (le_of_lt hsh0) hS0 (le_of_lt hT)
  have hup := tok_real_upper sh S T (le_of_lt hsh0) hS0 (le_of_lt hT)
  have hlo := tok_real_bounds sh S T (le_of_lt hsh0) hS0 (le_of_lt hT)
  generalize hr : tok sh S T = r at *
  have htot : 0 < (Dec.sub S sh).raw := by simp only [Dec.sub]; omega
  have hamt : 0 ≤ T - r := by omega
  constructor
  · apply tok_le_succ b S T b (Dec.sub S sh) (T - r) hb0 hS0 (le_of_lt hT) hb0 htot hamt
    simp only [Dec.sub]
    rcases hlo with hlo | hlo
    · nlinarith
    · subst hlo; nlinarith
  · apply tok_le_succ b (Dec.sub S sh) (T - r) b S T hb0 htot hamt hb0 hS0 (le_of_lt hT)
    simp only [Dec.sub]
    have key : b.raw * (r * S.raw - sh.raw * T) ≤ b.raw * S.raw := by
      apply Int.mul_le_mul_of_nonneg_left _ hb0
      rcases hlo with hlo | hlo
      · linarith
      · subst hlo
        have : 0 ≤ sh.raw * T := Int.mul_nonneg (le_of_lt hsh0) (le_of_lt hT)
        linarith
    have key2 : b.raw * S.raw ≤ (S.raw - sh.raw) * S.raw := Int.mul_le_mul_of_nonneg_right hb (le_of_lt hS0)
    nlinarith

/-- the model's `tokensFromShares` (proved equal to the regenerated Go kernel in `C02Tie`) returns
`tok` exactly when the Go function succeeds with a non-zero share total -/
theorem C02_tok_is_tokensFromShares (sh S : Dec) (T : Int) (h1 : sh.raw ≤ S.raw) (h2 : S.raw ≠ 0) :
    tokensFromShares sh S T = .ok (tok sh S T) := by
  unfold tokensFromShares tok
  have : ¬ S.raw < sh.raw := by omega
  simp [this, h2]

theorem C02_minted_is_sharesFromTokens (S : Dec) (x T : Int) (hT : T ≠ 0) :
    sharesFromTokens S x T = .ok (minted S x T) := by
  unfold sharesFromTokens minted
  simp [hT]

/-- the last share out takes the whole pool: RemoveShareFromOperator pays `amount` when
share = totalShare — and for any smaller positive share strictly less than the pool would be
needed to break "amount = 0 → shares = 0"; the payout never exceeds the pool. -/
theorem C02_payout_le_pool (sh S : Dec) (T : Int) (hT : 0 ≤ T) (h0 : 0 ≤ sh.raw) (h1 : sh.raw ≤ S.raw)
    (hS : 0 < S.raw) : 0 ≤ tok sh S T ∧ tok sh S T ≤ T := by
  refine ⟨tok_nonneg sh S T h0 hS hT, tok_le sh S T T h0 hS hT hT ?_⟩
  nlinarith

/-! non-vacuity: a pool slashed to a 3:1 share/token rate, three delegators -/
example : (minted ⟨3000000000000000000⟩ 7 1).raw = 21000000000000000000 := by decide
example : tok ⟨21000000000000000000⟩ ⟨24000000000000000000⟩ 8 = 7 := by decide
example : (1 : Int) ≤ (⟨3000000000000000000⟩ : Dec).raw := by decide

end ExoVerif.Ledger
