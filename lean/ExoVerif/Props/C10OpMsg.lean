import ExoVerif.Model.Auth
/-!
# C10 — operator messages take effect only for the signer: *whose record is written*

`C10_sdkMsg_admit_implies_rightful` (Props/C10.lean) says who is admitted. The statements here are about
the effect: the records an admitted operator message writes (`opMsgRecordKeys`: registration, opt-in,
opt-out, consensus-key change) are keyed by the signer of the transaction and by nobody else — in
particular not by an address that merely occurs inside the payload (`Info.EarningsAddr`, `Info.ApproveAddr`).
Tied to the code by `Props/C10OpMsgTie.lean` (which expression keys the write) and replayed on the real
application by `harness/dom_auth_opmsg.go` (op `auth.opmsg`: attribution of every changed store key).
-/
namespace ExoVerif.Auth

/-- every record an admitted operator message writes is the signer's -/
theorem C10_operatorMsg_record_is_signers (m : OpMsg) (r : Request) (p : OpPayload) (payloadOk : Bool)
    (h : admitOpMsg r payloadOk = true) :
    r.sig = .valid ∧ opMsgRecordKeys m r p = [r.origin] ∧ ∀ a ∈ opMsgRecordKeys m r p, a = r.origin := by
  simp only [admitOpMsg, admitSdkMsg, Bool.and_eq_true, beq_iff_eq] at h
  obtain ⟨⟨h1, h2⟩, _⟩ := h
  refine ⟨h1, ?_, ?_⟩
  · simp [opMsgRecordKeys, h2]
  · intro a ha
    simp only [opMsgRecordKeys, List.mem_singleton] at ha
    rw [ha, h2]

/-- an address that only occurs in the payload (earnings / approve address) and did not sign gets no
record: nobody becomes an operator, and no operator's record is rewritten, by being named in somebody
else's registration -/
theorem C10_operatorMsg_payload_address_not_written (m : OpMsg) (r : Request) (p : OpPayload) (payloadOk : Bool)
    (h : admitOpMsg r payloadOk = true) :
    (p.earnings ≠ r.origin → p.earnings ∉ opMsgRecordKeys m r p) ∧
    (p.approve ≠ r.origin → p.approve ∉ opMsgRecordKeys m r p) := by
  have hk := (C10_operatorMsg_record_is_signers m r p payloadOk h).2.2
  exact ⟨fun hne hm => hne (hk _ hm), fun hne hm => hne (hk _ hm)⟩

/-- a message whose signature does not verify, or whose from-field is not the signer, writes nothing
(it is not admitted), whatever the payload -/
theorem C10_operatorMsg_foreign_signer_rejected (r : Request) (payloadOk : Bool)
    (h : r.sig ≠ .valid ∨ r.arg0 ≠ r.origin) : admitOpMsg r payloadOk = false := by
  rcases h with h | h <;> simp [admitOpMsg, admitSdkMsg, h]

/-! non-vacuity: signer 7 registers with earnings address 20 and approve address 30 -/
example : admitOpMsg { callerAddress := 0, origin := 7, arg0 := 7, sig := .valid } true = true := by decide
example : opMsgRecordKeys .registerOperator { callerAddress := 0, origin := 7, arg0 := 7, sig := .valid }
    { earnings := 20, approve := 30 } = [7] := by decide
example : admitOpMsg { callerAddress := 0, origin := 8, arg0 := 7, sig := .noPubKey } true = false := by decide

end ExoVerif.Auth
