import ExoVerif.Proofs.Oracle
/-!
# C12 — oracle rounds: one price per round, only with a super-majority, no gaps

Theorems about the executable model `ExoVerif.Oracle` (Model/Oracle.lean), which the correspondence
run of `./check C12` replays line by line against the real application (prices, nonces, the
in-memory aggregator dump, the replay log) and which `Props/C12Tie.lean` ties to the regenerated
kernels/facts.
-/
namespace ExoVerif.Oracle

/-! ## the threshold -/

/-- ExceedsThreshold is the strict comparison `power·B > total·A`, for every power split. -/
theorem C12_threshold_strict (power total a b : Int) :
    exceedsThreshold power total a b = true ↔ total * a < power * b := by
  simp [exceedsThreshold]

/-- Exactly the configured fraction is not enough (2/3 of the power does not finalize). -/
theorem C12_threshold_not_at_exact_fraction (k a b : Int) :
    exceedsThreshold (a * k) (b * k) a b = false := by
  simp only [exceedsThreshold, decide_eq_false_iff_not, Int.not_lt]
  rw [Int.mul_comm (b * k) a, Int.mul_comm (a * k) b, ← Int.mul_assoc, ← Int.mul_assoc, Int.mul_comm a b]
  exact Int.le_refl _

/-- With a threshold of at least one half, two disjoint groups of validators cannot both exceed it:
two conflicting values for one source round can never both be confirmed. -/
theorem C12_no_two_disjoint_supermajorities (p1 p2 total a b : Int)
    (ha : 0 ≤ a) (hab : b ≤ 2 * a) (h1 : 0 ≤ p1) (h2 : 0 ≤ p2) (hsum : p1 + p2 ≤ total)
    (e1 : exceedsThreshold p1 total a b = true) (e2 : exceedsThreshold p2 total a b = true) : False := by
  simp only [exceedsThreshold, decide_eq_true_eq] at e1 e2
  have ht : 0 ≤ total := by omega
  have hb : 0 ≤ b ∨ b < 0 := by omega
  rcases hb with hb | hb
  · have h3 : (p1 + p2) * b ≤ total * b := Int.mul_le_mul_of_nonneg_right hsum hb
    have h4 : total * b ≤ total * (2 * a) := Int.mul_le_mul_of_nonneg_left hab ht
    have h5 : (p1 + p2) * b = p1 * b + p2 * b := Int.add_mul _ _ _
    have h6 : total * (2 * a) = total * a + total * a := by
      rw [Int.two_mul, Int.mul_add]
    omega
  · have h3 : p1 * b ≤ 0 := Int.mul_nonpos_of_nonneg_of_nonpos h1 (by omega)
    have h4 : 0 ≤ total * a := Int.mul_nonneg ht ha
    omega

example : exceedsThreshold 21 30 2 3 = true ∧ exceedsThreshold 20 30 2 3 = false := by decide

/-! ## a final price needs the super-majority, and is the median -/

/-- aggregator.aggregate sets a final price only when the reporting power strictly exceeds the
threshold *and* a deterministic-source round has been confirmed; the price is then the median of
the reporting validators' values. For arbitrary reports and power distributions. -/
theorem C12_final_needs_supermajority (g : Aggregator) (a b v : Int)
    (h0 : g.final = none) (h : (g.aggregate a b).final = some v) :
    exceedsThreshold g.reportPower g.total a b = true ∧ g.ds ≠ [] ∧
    v = median (g.reports.map Report.aggregate) := by
  unfold Aggregator.aggregate at h
  simp only [h0, Option.isSome_none, Bool.false_eq_true, if_false] at h
  by_cases hc : (exceedsThreshold g.reportPower g.total a b && decide (g.ds.length > 0)) = true
  · simp only [hc, if_true, Option.some.injEq] at h
    simp only [Bool.and_eq_true, decide_eq_true_eq] at hc
    refine ⟨hc.1, ?_, h.symm⟩
    intro hn; rw [hn] at hc; simp at hc
  · simp only [hc] at h
    simp [h0] at h

/-- Once a final price exists, aggregate never changes it (at most one final per round). -/
theorem C12_at_most_one_final (g : Aggregator) (a b v : Int) (h : g.final = some v) :
    g.aggregate a b = g := by
  unfold Aggregator.aggregate; simp [h]

/-- A deterministic-source round is confirmed by `updatePriceAndPower` only when the accumulated
power behind that exact value strictly exceeds the threshold. -/
theorem C12_ds_confirm_needs_supermajority (r : RoundPrices) (cap : Nat) (price power total a b : Int)
    (h0 : r.price = none)
    (h : (r.update cap price power total a b).1.price.isSome = true) :
    (r.update cap price power total a b).1.price = some price ∧
    ∃ np, exceedsThreshold np total a b = true ∧
      ({ price := price, power := np } : PP) ∈ (r.update cap price power total a b).1.prices := by
  unfold RoundPrices.update at h ⊢
  simp only [h0, Option.isSome_none, Bool.false_eq_true, if_false] at h ⊢
  generalize hb : bumpPower price power r.prices = bp at h ⊢
  obtain ⟨ps', r?⟩ := bp
  cases r? with
  | some np =>
    by_cases he : exceedsThreshold np total a b = true
    · simp only [he, if_true] at h ⊢
      refine ⟨trivial, np, he, ?_⟩
      -- the bumped item is in ps'
      have : ∀ (l : List PP) (ps' : List PP) (np : Int), bumpPower price power l = (ps', some np) →
          ({ price := price, power := np } : PP) ∈ ps' := by
        intro l
        induction l with
        | nil => intro ps' np h; simp [bumpPower] at h
        | cons it t ih =>
          intro ps' np h
          unfold bumpPower at h
          by_cases hp : it.price = price
          · simp only [hp, if_true, Prod.mk.injEq, Option.some.injEq] at h
            obtain ⟨h1, h2⟩ := h
            subst h1; subst h2
            simp [← hp]
          · simp only [hp, if_false] at h
            generalize hbt : bumpPower price power t = bt at h
            obtain ⟨t', rr⟩ := bt
            simp only [Prod.mk.injEq] at h
            obtain ⟨h1, h2⟩ := h
            subst h1; subst h2
            exact List.mem_cons_of_mem _ (ih t' np hbt)
      exact this r.prices ps' np hb
    · simp only [he, Bool.false_eq_true, if_false] at h
      simp [h0] at h
  | none =>
    by_cases hl : r.prices.length < cap
    · simp only [hl, if_true] at h ⊢
      by_cases he : exceedsThreshold power total a b = true
      · simp only [he, if_true] at h ⊢
        exact ⟨trivial, power, he, by simp⟩
      · simp only [he, Bool.false_eq_true, if_false] at h
        simp [h0] at h
    · simp only [hl, if_false] at h
      simp [h0] at h

/-! ## the median -/

/-- The median does not depend on the order of the values (Go builds the list by ranging over a
map in `reportPrice.aggregate`, and in arrival order in `aggregator.aggregate`). -/
theorem C12_median_order_independent (l1 l2 : List Int) (h : l1.Perm l2) : median l1 = median l2 := by
  rw [median_eq, median_eq, sorted_eq_of_perm h]

/-- The median lies between any bounds of the reported values. -/
theorem C12_median_bounds (l : List Int) (lo hi : Int) (hne : l ≠ [])
    (hb : ∀ x ∈ l, lo ≤ x ∧ x ≤ hi) : lo ≤ median l ∧ median l ≤ hi := by
  have hlen : 0 < l.length := List.length_pos_iff.mpr hne
  rw [median_eq]
  simp only [sorted_length]
  have m1 := hb _ (sorted_getD_mem l (l.length / 2) (by omega))
  by_cases hodd : l.length % 2 = 1
  · simp only [hodd, beq_self_eq_true, if_true]; exact m1
  · have hc : (l.length % 2 == 1) = false := by simp [hodd]
    simp only [hc, Bool.false_eq_true, if_false]
    have m2 := hb _ (sorted_getD_mem l (l.length / 2 - 1) (by omega))
    omega

/-- If every reporting validator holds the same (confirmed) value, that value is recorded. -/
theorem C12_median_all_equal (l : List Int) (v : Int) (hne : l ≠ []) (h : ∀ x ∈ l, x = v) :
    median l = v := by
  have := C12_median_bounds l v v hne (fun x hx => by rw [h x hx]; omega)
  omega

example : median [3] = 3 ∧ median [4, 4, 4] = 4 :=
  ⟨C12_median_all_equal [3] 3 (by simp) (by simp), C12_median_all_equal [4, 4, 4] 4 (by simp) (by simp)⟩
example : 4 ≤ median [6, 4] ∧ median [6, 4] ≤ 6 :=
  C12_median_bounds [6, 4] 4 6 (by simp) (by simp)

/-! ## the store only ever takes the expected next round id -/

/-- AppendPriceTR writes only under the expected next round id and then advances it by exactly
one; any other id leaves the store untouched. -/
theorem C12_append_only_expected_id (t : TokenStore) (m : Nat) (p : PriceTR) :
    ((t.append m p).2 = true → p.roundID = t.nextRoundID ∧ (t.append m p).1.nextRoundID = t.nextRoundID + 1) ∧
    ((t.append m p).2 = false → (t.append m p).1 = t) := by
  refine ⟨fun h => ⟨?_, ?_⟩, append_fail t m p⟩
  · unfold TokenStore.append at h
    by_cases hn : t.nextRoundID = p.roundID
    · exact hn.symm
    · simp [hn] at h
  · have := append_next t m p; simp [h] at this; exact this

/-- GrowRoundID advances the round id by exactly one whenever the latest record sits under its
own id (carry-forward on failure / forced seal). -/
theorem C12_grow_advances_by_one (t : TokenStore) (m : Nat)
    (hwf : ∀ p, t.latest = some p → p.roundID + 1 = t.nextRoundID) :
    (t.grow m).nextRoundID = t.nextRoundID + 1 := by
  unfold TokenStore.grow
  cases hl : t.latest with
  | some p =>
    simp only
    have := append_next t m { p with roundID := p.roundID + 1 }
    have hok : (t.append m { p with roundID := p.roundID + 1 }).2 = true := by
      unfold TokenStore.append; simp [hwf p hl]
    simp [hok] at this; exact this
  | none =>
    simp only
    have := append_next t m { price := none, decimal := 0, ts := -1, roundID := t.nextRoundID }
    have hok : (t.append m { price := none, decimal := 0, ts := -1, roundID := t.nextRoundID }).2 = true := by
      unfold TokenStore.append; simp
    simp [hok] at this; exact this

/-- … and the carried-forward record repeats the previous price. -/
theorem C12_grow_carries_previous_price (t : TokenStore) (m : Nat) (p : PriceTR)
    (hl : t.latest = some p) (hwf : p.roundID + 1 = t.nextRoundID) (hm : wrapSub64 t.nextRoundID m ≠ t.nextRoundID) :
    alookup t.nextRoundID (t.grow m).rounds = some { p with roundID := p.roundID + 1 } := by
  unfold TokenStore.grow TokenStore.append
  simp only [hl, hwf, ne_eq, not_true_eq_false, if_false]
  by_cases he : wrapSub64 t.nextRoundID m > 0
  · simp only [he, if_true]
    rw [alookup_adel_other _ _ _ (Ne.symm hm)]
    exact alookup_aset_same _ _ _
  · simp only [he, if_false]
    exact alookup_aset_same _ _ _

/-! ## retention -/

/-- The uint64 expression `nextRoundID - MaxSizePrices` wraps for small ids; the `> 0` guard then
deletes a key far above every stored id, i.e. nothing. Below 2^63 the deleted key is either the
round that just left the retention window or out of range. -/
theorem C12_retention_expiry_key (n m : Nat) (hn : n < 2 ^ 63) (hm : 0 < m) (hm2 : m < 2 ^ 63) :
    (m ≤ n → wrapSub64 n m = n - m) ∧ (n < m → wrapSub64 n m ≥ 2 ^ 63) := by
  unfold wrapSub64
  constructor
  · intro h
    have : m % 2 ^ 64 = m := Nat.mod_eq_of_lt (by omega)
    rw [this]
    have : n + 2 ^ 64 - m = (n - m) + 2 ^ 64 := by omega
    rw [this, Nat.add_mod_right]
    exact Nat.mod_eq_of_lt (by omega)
  · intro h
    have : m % 2 ^ 64 = m := Nat.mod_eq_of_lt (by omega)
    rw [this]
    have : n + 2 ^ 64 - m < 2 ^ 64 := by omega
    rw [Nat.mod_eq_of_lt this]
    omega


/-! ## round ids advance by exactly one per interval (induction over blocks) -/

/-- **No gaps, no repeats, every round closes exactly once.** For a feeder without end block, with
`1 ≤ MaxNonce < Interval` (params.Validate demands `Interval ≥ 2·MaxNonce`), started with stored
NextRoundID `n0`: after *every* block `b = StartBaseBlock + k`, for *every* history of the
intervening blocks — whatever transactions finalized the round in whatever block of the window,
and whichever EndBlocks were forced seals (validator-set changes) — the feeder's in-memory round is
the one of base `b − (b−start) mod interval` with id `StartRoundID + (b−start) div interval`, it is
open only inside its window, and the stored NextRoundID is exactly
`n0 + (b−start) div interval + [that round is closed]`: one id per elapsed round, none skipped,
none written twice. -/
theorem C12_round_ids_consecutive (f : Feeder) (mn n0 : Nat) (hmn : 1 ≤ mn) (hiv : mn < f.interval)
    (evs : List BlockEv) :
    RoundInv f mn n0 (f.startBaseBlock + evs.length)
      (slRun f mn f.startBaseBlock evs (slPrepare f mn f.startBaseBlock { round := none, next := n0 })) :=
  run_inv f mn n0 hiv hmn evs f.startBaseBlock _ (Nat.le_refl _) (start_inv f mn n0 hmn)

/-- Spelled out at round boundaries: when block `b` opens a new round (offset 0), every earlier
round has been closed exactly once — the round is open, and the stored id equals `n0 +` the number
of elapsed rounds; it coincides with the new round's own id when genesis was aligned
(`n0 = StartRoundID`), so the final price of the new round will be accepted by AppendPriceTR. -/
theorem C12_round_closes_exactly_once (f : Feeder) (mn n0 : Nat) (hmn : 1 ≤ mn) (hiv : mn < f.interval)
    (evs : List BlockEv) (hb : (evs.length) % f.interval = 0) :
    ∃ r, (slRun f mn f.startBaseBlock evs (slPrepare f mn f.startBaseBlock { round := none, next := n0 })).round = some r ∧
      r.status = .open ∧ r.basedBlock = f.startBaseBlock + evs.length ∧
      r.nextRoundID = f.startRoundID + evs.length / f.interval ∧
      (slRun f mn f.startBaseBlock evs (slPrepare f mn f.startBaseBlock { round := none, next := n0 })).next =
        n0 + evs.length / f.interval := by
  have h := C12_round_ids_consecutive f mn n0 hmn hiv evs
  have e : f.startBaseBlock + evs.length - f.startBaseBlock = evs.length := by omega
  obtain ⟨r, hr, hbase, hn, _, hx⟩ := h
  rw [e] at hbase hn hx
  rw [hb] at hbase
  have hst : r.status = .open := by
    cases evs with
    | nil =>
      obtain ⟨r', hr', hs'⟩ := prepare_open_at_zero f mn f.startBaseBlock { round := none, next := n0 } hmn (Nat.le_refl _) (by simp)
      simp only [slRun] at hr
      rw [hr'] at hr; cases hr; exact hs'
    | cons ev t =>
      obtain ⟨x, hx'⟩ := run_ends_with_prepare f mn t ev f.startBaseBlock (slPrepare f mn f.startBaseBlock { round := none, next := n0 })
      obtain ⟨r', hr', hs'⟩ := prepare_open_at_zero f mn (f.startBaseBlock + (ev :: t).length) x hmn (by omega) (by rw [e]; exact hb)
      rw [hx', hr'] at hr; cases hr; exact hs'
  have hne : ¬ (Status.open = Status.closed) := by intro h'; cases h'
  refine ⟨r, hr, hst, by omega, hn, ?_⟩
  rw [hx, hst]; simp [hne]

example : RoundInv { tokenID := 1, ruleID := 1, startRoundID := 2, startBaseBlock := 2, interval := 7, endBlock := 0 } 3 2 4
    (slRun { tokenID := 1, ruleID := 1, startRoundID := 2, startBaseBlock := 2, interval := 7, endBlock := 0 } 3 2
      [{ final := true, force := false }, { final := false, force := true }]
      (slPrepare { tokenID := 1, ruleID := 1, startRoundID := 2, startBaseBlock := 2, interval := 7, endBlock := 0 } 3 2 { round := none, next := 2 })) :=
  C12_round_ids_consecutive _ 3 2 (by decide) (by decide) _

/-! ### the model's per-feeder functions act on the feeder's round exactly as the slice does -/

theorem C12_prepare_refines_slice (p : Params) (block : Nat) (g : Agc) (fid : Nat) (f : Feeder) (n : Nat)
    (hend : f.endBlock = 0) :
    alookup fid (prepareOne p block g fid f).1.rounds =
      (slPrepare f p.maxNonce block { round := alookup fid g.rounds, next := n }).round ∧
    ∀ fid', fid' ≠ fid → alookup fid' (prepareOne p block g fid f).1.rounds = alookup fid' g.rounds := by
  unfold prepareOne slPrepare
  simp only [hend, Nat.lt_irrefl, decide_false, Bool.false_and, Bool.false_or, decide_eq_true_eq]
  by_cases hs : f.startBaseBlock > block
  · simp [hs]
  · simp only [hs, if_false]
    cases hr : alookup fid g.rounds with
    | none =>
      simp only
      by_cases hl : (roundArith f block).1 ≥ p.maxNonce
      · simp only [hl, if_true]
        exact ⟨alookup_aset_same _ _ _, fun fid' h => alookup_aset_other _ _ _ _ h⟩
      · simp only [hl, if_false]
        exact ⟨alookup_aset_same _ _ _, fun fid' h => alookup_aset_other _ _ _ _ h⟩
    | some r =>
      simp only
      by_cases hl0 : (roundArith f block).1 = 0
      · simp only [hl0, if_true]
        exact ⟨alookup_aset_same _ _ _, fun fid' h => alookup_aset_other _ _ _ _ h⟩
      · simp only [hl0, if_false]
        by_cases hc : (decide (r.status = Status.open) && decide ((roundArith f block).1 ≥ p.maxNonce)) = true
        · simp only [hc, if_true]
          exact ⟨alookup_aset_same _ _ _, fun fid' h => alookup_aset_other _ _ _ _ h⟩
        · simp only [hc, if_false]
          exact ⟨hr, fun _ _ => rfl⟩


/-- context.go SealRound for one feeder (without EndBlock): its round entry changes as in the slice,
other feeders' entries are untouched, and a token id is reported as failed (⇒ GrowRoundID ⇒ the
stored id advances by one) exactly when the slice's counter advances. -/
theorem C12_seal_refines_slice (p : Params) (h : Nat) (force : Bool) (g : Agc) (fid : Nat) (f : Feeder) (n : Nat)
    (hf : p.feeder? fid = some f) (hend : f.endBlock = 0) :
    alookup fid (sealOne p h force g fid).1.rounds =
      (slSeal p.maxNonce h force { round := alookup fid g.rounds, next := n }).round ∧
    (slSeal p.maxNonce h force { round := alookup fid g.rounds, next := n }).next =
      n + (if (sealOne p h force g fid).2.1.isSome then 1 else 0) ∧
    ((sealOne p h force g fid).2.1 = none ∨ (sealOne p h force g fid).2.1 = some f.tokenID) ∧
    ∀ fid', fid' ≠ fid → alookup fid' (sealOne p h force g fid).1.rounds = alookup fid' g.rounds := by
  unfold sealOne slSeal
  cases hr : alookup fid g.rounds with
  | none => simp [hr]
  | some r =>
    simp only [hf, Option.getD_some, hend, Nat.lt_irrefl, decide_false, Bool.false_and, Bool.false_or]
    rcases status_cases r.status with hs | hs
    · by_cases hc : (decide (h - r.basedBlock ≥ p.maxNonce) || force) = true
      · simp only [hs, hc, if_true, decide_true, Bool.and_self, Bool.false_eq_true, if_false]
        cases hw : alookup fid (adel fid g.workers) with
        | none =>
          simp only [Option.isSome_some, if_true]
          exact ⟨alookup_aset_same _ _ _, trivial, Or.inr trivial, fun fid' hne => alookup_aset_other _ _ _ _ hne⟩
        | some w =>
          by_cases hsd : w.sealed = true
          · simp only [hsd, if_true, Option.isSome_some]
            exact ⟨alookup_aset_same _ _ _, trivial, Or.inr trivial, fun fid' hne => alookup_aset_other _ _ _ _ hne⟩
          · simp only [hsd, Bool.false_eq_true, if_false, Option.isSome_some, if_true]
            exact ⟨alookup_aset_same _ _ _, trivial, Or.inr trivial, fun fid' hne => alookup_aset_other _ _ _ _ hne⟩
      · have hc' : (decide (h - r.basedBlock ≥ p.maxNonce) || force) = false := by simpa using hc
        simp only [hs, hc', if_true, decide_true, Bool.and_false, Bool.false_eq_true, if_false]
        cases hw : alookup fid g.workers with
        | none => simp [hr]
        | some w => by_cases hsd : w.sealed = true <;> simp [hsd, hr]
    · have hno : ¬ (Status.closed = Status.open) := by intro h'; cases h'
      simp only [hs, hno, if_false, decide_false, Bool.false_and, Bool.false_eq_true]
      cases hw : alookup fid g.workers with
      | none => simp [hr]
      | some w => by_cases hsd : w.sealed = true <;> simp [hsd, hr]


/-! ## the full statement fails on the code as it is (F-09c) -/

def wParams : Params :=
  { maxNonce := 3, thA := 2, thB := 3, maxDetID := 5, maxSizePrices := 100,
    sources := [{ valid := false, det := false }, { valid := true, det := true }],
    rules := [[], [1]], tokenDecimals := [0, 0],
    feeders := [default, { tokenID := 1, ruleID := 1, startRoundID := 2, startBaseBlock := 2, interval := 7, endBlock := 0 }] }

def wAgc : Agc :=
  { params := some wParams, vals := [(0, 1)], total := 1,
    rounds := [(1, { basedBlock := 2, nextRoundID := 2, status := .open })], workers := [] }

def wState : State :=
  { store := { prices := [(1, { next := 2, rounds := [(1, { price := some 1, decimal := 0, ts := -1, roundID := 1 })] })],
               nonces := [((0, 1), 0)], recentMsgs := [], msgIndex := [], recentParams := [], paramsIndex := [],
               vuBlock := none, params := wParams },
    agc := some wAgc, cache := some Cache.empty, dogfood := [(0, 1)], height := 3, blockTime := 100 }

def wMsg (n : Int) : Msg :=
  { creator := 0, feederID := 1, basedBlock := 2, nonce := n,
    prices := [{ sourceID := 1, prices := [{ price := 2, decimal := 0, ts := 100, tsKind := 0, detID := "9" }] }] }

def wTx : Tx := { size := 300, infos := [{ pubkeyMatches := true, sigValid := true }], msgs := [wMsg 1, wMsg 2] }

theorem w_out : (deliverTx wState wTx).2 = .msg 1 (.invalidMsg "round") := by decide
theorem w_next : ((deliverTx wState wTx).1.store.token 1).nextRoundID = 2 := by decide
theorem w_round : ((deliverTx wState wTx).1.agc.bind (fun g => alookup 1 g.rounds)).map (·.status) = some .closed := by decide
/-- "Every round closes exactly once — with a price or by carrying the previous one forward":
whenever a delivered transaction closes a feeder's open round in memory, the stored round id of
the feeder's token has advanced by one. -/
def C12_full : Prop :=
  ∀ (s : State) (tx : Tx) (fid : Nat) (g g' : Agc) (p : Params) (f : Feeder) (r r' : Round),
    s.agc = some g → g.params = some p → p.feeder? fid = some f →
    alookup fid g.rounds = some r → r.status = .open →
    (deliverTx s tx).1.agc = some g' → alookup fid g'.rounds = some r' → r'.status = .closed →
    ((deliverTx s tx).1.store.token f.tokenID).nextRoundID = (s.store.token f.tokenID).nextRoundID + 1

theorem C12_full_fails : ¬ C12_full := by
  intro h
  cases hg : (deliverTx wState wTx).1.agc with
  | none =>
    have : (deliverTx wState wTx).1.agc.isSome = true := by decide
    simp [hg] at this
  | some g' =>
    have hr := w_round
    rw [hg] at hr
    simp only [Option.bind_some] at hr
    cases hr' : alookup 1 g'.rounds with
    | none => simp [hr'] at hr
    | some r' =>
      simp only [hr', Option.map_some, Option.some.injEq] at hr
      have := h wState wTx 1 wAgc g' wParams
        { tokenID := 1, ruleID := 1, startRoundID := 2, startBaseBlock := 2, interval := 7, endBlock := 0 }
        { basedBlock := 2, nextRoundID := 2, status := .open } r' rfl rfl (by decide) (by decide) rfl hg hr' hr
      rw [w_next] at this
      revert this
      decide


/-- What does hold: a *single* create-price message that finalizes its round records the round —
the stored id of the token advances by one (by AppendPriceTR, or by GrowRoundID when the ids are
misaligned), provided the latest stored record sits under its own id. So `C12_full` holds for
transactions carrying one message; the failure needs a later message of the same tx to fail. -/
theorem C12_single_message_final_recorded_partial (s : State) (m : Msg) (g g' : Agc) (p : Params) (it : FinalItem)
    (hg : s.agc = some g) (hp : g.params = some p) (hts : checkTimestamp s.blockTime m = true)
    (hck : g.checkMsg p m = none) (hfill : g.fillPrice p m = (g', .final it))
    (hwf : ∀ q, (s.store.token it.tokenID).latest = some q → q.roundID + 1 = (s.store.token it.tokenID).nextRoundID) :
    (createPrice s m).2 = .ok ∧
    ((createPrice s m).1.store.token it.tokenID).nextRoundID = (s.store.token it.tokenID).nextRoundID + 1 := by
  unfold createPrice
  simp only [hts, Bool.not_true, Bool.false_eq_true, if_false, getAgc, hg, hp, hck, hfill]
  refine ⟨trivial, ?_⟩
  have htok : ∀ (st : Store) (tok : Nat) (t : TokenStore) (fid : Nat) (vs : List Nat),
      ((st.setToken tok t).removeNonces fid vs).token tok = t := by
    intro st tok t fid vs
    simp [Store.token, Store.removeNonces, Store.setToken, alookup_aset_same]
  simp only [htok]
  by_cases hok : ((s.store.token it.tokenID).append p.maxSizePrices
      { price := some it.price, decimal := it.decimal, ts := it.ts, roundID := it.roundID }).2 = true
  · simp only [hok, if_true]
    have := append_next (s.store.token it.tokenID) p.maxSizePrices
      { price := some it.price, decimal := it.decimal, ts := it.ts, roundID := it.roundID }
    simp [hok] at this; exact this
  · simp only [hok, Bool.false_eq_true, if_false]
    exact C12_grow_advances_by_one _ _ hwf


/-- context.go: SetValidatorPowers replaces the whole validator map (it is re-created before the new
set is copied in) and rebuilds the total from the new set: a validator that is not in the new set —
one that left — fails `sanityCheck` ("not-validator") from then on, so nothing it sends reaches the
filter, the calculator or the aggregator, and the threshold is taken against the powers of the new
set only. (module.go: EndBlock hands over the cache's map after the dogfood updates were applied;
a removal deletes the entry there: `cacheAddVals`.) -/
theorem C12_departed_validator_has_no_weight (g : Agc) (vals : List (Nat × Int)) (p : Params) (m : Msg)
    (h : alookup m.creator vals = none) :
    (g.setValidators vals).checkMsg p m = some (.invalidMsg "not-validator") ∧
    (g.setValidators vals).vals = vals ∧
    (g.setValidators vals).total = vals.foldl (fun s kv => s + kv.2) 0 := by
  refine ⟨?_, rfl, rfl⟩
  simp [Agc.setValidators, Agc.checkMsg, Agc.sanityCheck, h]


example : alookup 2 [((0 : Nat), (10 : Int)), (1, 10)] = none := by decide

end ExoVerif.Oracle
