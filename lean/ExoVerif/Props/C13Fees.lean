import ExoVerif.Model.OracleFees
/-!
# C13 — "… these transactions pay no fee …, and nobody else gets any": the fee-less path is taken by
price transactions only

Statements about the decision table of the Cosmos ante chain (Model/OracleFees.lean), which the
correspondence run `oracle_fees` replays against the real CheckTx / DeliverTx, with the base fee of
the chain positive.
-/
namespace ExoVerif.OracleFees

/-- a tx with any other message is not a price tx — a price message does not buy the rest a free ride -/
theorem C13_mixed_tx_is_not_a_price_tx (t : FeeTx) (h : 0 < t.nOther) : t.isPriceTx = false := by
  unfold FeeTx.isPriceTx
  have : ¬ t.nOther = 0 := by omega
  simp [this]

/-- **Only price transactions are admitted without paying**: with a positive base fee, a tx that gets
past the ante chain having paid nothing is a price tx (a gas limit that covers a tx is positive). -/
theorem C13_feeless_admission_only_price_txs (bf : Nat) (t : FeeTx) (hbf : 0 < bf) (hg : t.gasEnough = true → 0 < t.gas)
    (ha : (anteFee bf t).1 = true) (hp : (anteFee bf t).2 = 0) : t.isPriceTx = true := by
  unfold anteFee at ha hp
  by_cases h1 : t.isPriceTx = true
  · exact h1
  · by_cases h2 : t.gasEnough = true
    · have hgas := hg h2
      by_cases h3 : t.fee < bf * t.gas
      · simp [h1, h2, h3] at ha
      · by_cases h4 : t.fundsOK = true
        · by_cases h5 : t.edSigner = true
          · simp [h1, h2, h3, h4, h5] at ha
          · simp [h1, h2, h3, h4, h5] at hp
            have : 0 < bf * t.gas := Nat.mul_pos hbf hgas
            omega
        · simp [h1, h2, h3, h4] at ha
    · simp [h1, h2] at ha

/-- an admitted tx that is not a price tx has paid its declared fee, and that fee covers its whole gas
limit at the base fee -/
theorem C13_ordinary_tx_pays_for_its_gas_limit (bf : Nat) (t : FeeTx) (hn : t.isPriceTx = false)
    (ha : (anteFee bf t).1 = true) : (anteFee bf t).2 = t.fee ∧ bf * t.gas ≤ t.fee := by
  unfold anteFee at ha ⊢
  by_cases h2 : t.gasEnough = true
  · by_cases h3 : t.fee < bf * t.gas
    · simp [hn, h2, h3] at ha
    · by_cases h4 : t.fundsOK = true
      · by_cases h5 : t.edSigner = true
        · simp [hn, h2, h3, h4, h5] at ha
        · simp [hn, h2, h3, h4, h5]; omega
      · simp [hn, h2, h3, h4] at ha
  · simp [hn, h2] at ha

/-- a price tx is never charged, whatever gas limit and fee it declares; its admission does not depend
on them -/
theorem C13_price_tx_never_charged (bf : Nat) (t : FeeTx) (h : t.isPriceTx = true) :
    anteFee bf t = (t.nonceOK, 0) ∧
    ∀ (gas fee : Nat) (ge fk : Bool), anteFee bf { t with gas := gas, fee := fee, gasEnough := ge, fundsOK := fk } = anteFee bf t := by
  have h' : ∀ (gas fee : Nat) (ge fk : Bool), ({ t with gas := gas, fee := fee, gasEnough := ge, fundsOK := fk } : FeeTx).isPriceTx = true := by
    intro _ _ _ _; exact h
  refine ⟨by unfold anteFee; simp [h], fun gas fee ge fk => ?_⟩
  unfold anteFee
  simp [h, h' gas fee ge fk]

/-- a tx refused by the ante chain pays nothing; a message failing afterwards does not refund the fee -/
theorem C13_fee_follows_the_ante_chain (bf : Nat) (t : FeeTx) :
    ((anteFee bf t).1 = false → deliverTx bf t = ("rej", 0)) ∧
    ((anteFee bf t).1 = true → (deliverTx bf t).2 = (anteFee bf t).2) := by
  unfold deliverTx
  constructor
  · intro h; simp [h]
  · intro h; cases t.msgsOK <;> simp [h]

example : deliverTx 7 { nPrice := 1, nOther := 1, gas := 10, fee := 70, gasEnough := true, edSigner := false, nonceOK := false, msgsOK := false, fundsOK := true } = ("msgfail", 70) := by decide
example : deliverTx 7 { nPrice := 1, nOther := 1, gas := 10, fee := 0, gasEnough := true, edSigner := false, nonceOK := true, msgsOK := true, fundsOK := true } = ("rej", 0) := by decide
example : deliverTx 7 { nPrice := 1, nOther := 0, gas := 10, fee := 70, gasEnough := false, edSigner := false, nonceOK := true, msgsOK := true, fundsOK := false } = ("ok", 0) := by decide

end ExoVerif.OracleFees
