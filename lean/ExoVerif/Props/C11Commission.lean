import ExoVerif.Model.OperatorReg
import ExoVerif.Props.C17
/-!
# C11 — input validation of operator registrations, as far as block processing relies on it

`x/feedistribution/keeper/allocation.go: AllocateTokensToValidator` (BeginBlock, no recover) computes
`tokens.Sub(tokens.MulDec(ops.GetCommission().Rate))`; `DecCoins.Sub` panics on a negative result. `C17_no_halt`
proves that the allocation never panics *if every validator's commission rate lies in [0,1]* — a hypothesis about
state written by another module: the operator records of x/operator, which are written by exactly two paths
(`storeKeyWriters_OperatorInfo`): a `RegisterOperatorReq` transaction and the genesis file. A record cannot be
edited or deleted afterwards. This file proves the hypothesis for every history of registrations over a validated
genesis, on the model `ExoVerif.OpReg` (Model/OperatorReg.lean) of the two validators, and discharges it.

The clause of C11 decided here: "such inputs end as a rejected transaction" — a registration whose commission would
halt a later BeginBlock is rejected before anything is stored.
-/
namespace ExoVerif.OpReg
open ExoVerif ExoVerif.KV

/-! ## the validator -/

/-- `CommissionRates.Validate` returns nil exactly for three present rates with
0 ≤ rate ≤ max ≤ 1 and 0 ≤ change ≤ max. -/
theorem C11_commission_validate_iff (r : Rates) :
    commissionValidate r = .ok ↔
      ∃ rt mx ch, r = ⟨some rt, some mx, some ch⟩ ∧ 0 ≤ rt ∧ rt ≤ mx ∧ mx ≤ PREC ∧ 0 ≤ ch ∧ ch ≤ mx := by
  rcases r with ⟨_ | rt, _ | mx, _ | ch⟩ <;> simp only [commissionValidate] <;>
    (repeat' split) <;> simp_all <;> (try omega)
  exact ⟨rt, mx, ch, ⟨rfl, rfl, rfl⟩, by omega, by omega, by omega, by omega, by omega⟩

/-- what the block code needs of an accepted triple: the rate is a proportion -/
theorem C11_commission_validate_rate_in_unit (r : Rates) (h : commissionValidate r = .ok) :
    ∃ x, recOf r = some x ∧ 0 ≤ x.rate ∧ x.rate ≤ PREC := by
  obtain ⟨rt, mx, ch, rfl, h0, h1, h2, _, _⟩ := (C11_commission_validate_iff r).1 h
  exact ⟨⟨rt, mx, ch⟩, rfl, h0, by simp only []; omega⟩

/-- a message passes `ValidateBasic` only with a commission that passes `CommissionRates.Validate`: none of the
earlier checks of `OperatorInfo.ValidateBasic` returns nil -/
theorem C11_validate_basic_checks_commission (m : RegMsg) (h : msgValidateBasic m = .ok) :
    commissionValidate m.rates = .ok := by
  unfold msgValidateBasic infoValidateBasic at h
  repeat' split at h
  all_goals first | exact h | cases h

/-- a panic of the validator (nil Dec) and every error are a rejected transaction that writes nothing -/
theorem C11_registration_rejected_is_noop (s : Reg) (m : RegMsg) (h : (deliver s m).2 = false) :
    (deliver s m).1 = s := by
  unfold deliver at h ⊢
  repeat' split
  all_goals first | rfl | (simp_all; done)

theorem C11_registration_not_validated_is_rejected (s : Reg) (m : RegMsg) (h : msgValidateBasic m ≠ .ok) :
    deliver s m = (s, false) := by
  unfold deliver
  split
  · rename_i h'; exact absurd h' h
  · rfl

/-! ## the store invariant -/

/-- every stored operator record carries a commission that passed the validator -/
def RatesOk (s : Reg) : Prop :=
  ∀ e ∈ s, 0 ≤ e.2.rate ∧ e.2.rate ≤ e.2.max ∧ e.2.max ≤ PREC ∧ 0 ≤ e.2.change ∧ e.2.change ≤ e.2.max

theorem mem_set_cases (s : Reg) (k : String) (v : Rec) (e : String × Rec) (h : e ∈ set s k v) :
    e ∈ s ∨ e = (k, v) := by
  induction s with
  | nil => simp only [KV.set, List.mem_singleton] at h; exact Or.inr h
  | cons x rest ih =>
    obtain ⟨k', v'⟩ := x
    simp only [KV.set] at h
    split at h
    · simp only [List.mem_cons] at h
      rcases h with h | h
      · exact Or.inr h
      · exact Or.inl (by simp [h])
    · simp only [List.mem_cons] at h
      rcases h with h | h
      · exact Or.inl (by simp [h])
      · rcases ih h with h | h
        · exact Or.inl (by simp [h])
        · exact Or.inr h

/-- one transaction keeps the invariant, whatever it carries -/
theorem C11_registration_keeps_rates_ok (s : Reg) (m : RegMsg) (h : RatesOk s) : RatesOk (deliver s m).1 := by
  by_cases hv : msgValidateBasic m = .ok
  · have hc := C11_validate_basic_checks_commission m hv
    obtain ⟨rt, mx, ch, hr, h0, h1, h2, h3, h4⟩ := (C11_commission_validate_iff m.rates).1 hc
    unfold deliver
    rw [hv]
    simp only []
    split
    · exact h
    · split
      · exact h
      · rw [hr]
        simp only [recOf]
        intro e he
        rcases mem_set_cases s m.sender ⟨rt, mx, ch⟩ e he with he | he
        · exact h e he
        · subst he; exact ⟨h0, h1, h2, h3, h4⟩
  · rw [C11_registration_not_validated_is_rejected s m hv]; exact h

/-- an accepted registration stores a rate in [0,1] under the sender's address -/
theorem C11_registration_accepted_rate_in_unit (s : Reg) (m : RegMsg) (h : (deliver s m).2 = true) :
    ∃ x, find? (deliver s m).1 m.sender = some x ∧ recOf m.rates = some x ∧ 0 ≤ x.rate ∧ x.rate ≤ PREC := by
  by_cases hv : msgValidateBasic m = .ok
  · obtain ⟨x, hx, h0, h1⟩ :=
      C11_commission_validate_rate_in_unit m.rates (C11_validate_basic_checks_commission m hv)
    refine ⟨x, ?_, hx, h0, h1⟩
    unfold deliver at h ⊢
    rw [hv] at h ⊢
    simp only [] at h ⊢
    split
    · rename_i hh; simp [hh] at h
    · split
      · rename_i _ hh; simp [hh] at h
      · rw [hx]; simp only []; exact find?_set_same s m.sender x
  · rw [C11_registration_not_validated_is_rejected s m hv] at h; cases h

/-- every history of registration transactions — well-formed or malformed, from any sender — keeps it -/
theorem C11_registry_rates_ok (ms : List RegMsg) : ∀ s : Reg, RatesOk s → RatesOk (run s ms) := by
  induction ms with
  | nil => intro s h; exact h
  | cons m rest ih =>
    intro s h
    simp only [run, List.foldl_cons]
    exact ih _ (C11_registration_keeps_rates_ok s m h)

/-- a genesis file that passes `ValidateOperators` starts with it -/
theorem C11_genesis_rates_ok : ∀ (l : List (String × Rates)) (s : Reg), genesis l = some s → RatesOk s := by
  intro l
  induction l with
  | nil => intro s h; simp only [genesis, Option.some.injEq] at h; subst h; intro e he; cases he
  | cons a rest ih =>
    intro s h
    obtain ⟨k, r⟩ := a
    simp only [genesis] at h
    split at h
    · cases h
    · rename_i x hx
      split at h
      · rename_i hval
        split at h
        · rename_i s' hs'
          simp only [Option.some.injEq] at h; subst h
          obtain ⟨rt, mx, ch, hr, h0, h1, h2, h3, h4⟩ := (C11_commission_validate_iff r).1 hval
          subst hr
          simp only [recOf, Option.some.injEq] at hx; subst hx
          intro e he
          simp only [List.mem_cons] at he
          rcases he with he | he
          · subst he; exact ⟨h0, h1, h2, h3, h4⟩
          · exact ih s' hs' e he
        · cases h
      · cases h

/-- **The clause.** Over a validated genesis and every history of registration transactions, every stored
operator record — hence every record a later BeginBlock can read — has its commission rate in [0,1]. -/
theorem C11_every_stored_commission_in_unit (l : List (String × Rates)) (s0 : Reg) (ms : List RegMsg)
    (hg : genesis l = some s0) : ∀ e ∈ run s0 ms, 0 ≤ e.2.rate ∧ e.2.rate ≤ PREC := by
  intro e he
  obtain ⟨h0, h1, h2, _, _⟩ := C11_registry_rates_ok ms s0 (C11_genesis_rates_ok l s0 hg) e he
  exact ⟨h0, by omega⟩

/-! ## discharging the commission hypothesis of `C17_no_halt` -/

/-- the validator view AllocateTokens builds reads each commission rate from the operator store -/
def ReadsRegistry (reg : Reg) (v : Distr.ValIn) : Prop :=
  0 ≤ v.power ∧ (∀ o ∈ v.stakers, 0 ≤ o.2) ∧ ∃ x, (v.op, x) ∈ reg ∧ v.rate = x.rate

/-- After every history of registrations over a validated genesis the fee allocation of BeginBlock never panics:
the commission bound of `C17_no_halt` is a consequence of input validation, not an assumption. (The other
hypotheses are as in C17: non-negative fees, a community tax in [0,1] (C17Tax), powers that add up to at most the
stored total.) -/
theorem C11_registered_validators_allocation_never_halts (l : List (String × Rates)) (s0 : Reg) (ms : List RegMsg)
    (hg : genesis l = some s0) (st : Distr.St) (total tax : Int) (vals : List Distr.ValIn)
    (hfc : 0 ≤ st.fc) (ht0 : 0 ≤ total) (htax0 : 0 ≤ tax) (htax1 : tax ≤ PREC)
    (hv : ∀ v ∈ vals, ReadsRegistry (run s0 ms) v) (hsum : Distr.foundPower vals ≤ total) :
    Distr.allocateTokens st total tax vals ≠ none := by
  have hsane : ∀ v ∈ vals, Distr.SaneVal v := by
    intro v hvm
    obtain ⟨hp, hs, x, hx, hr⟩ := hv v hvm
    obtain ⟨h0, h1⟩ := C11_every_stored_commission_in_unit l s0 ms hg (v.op, x) hx
    exact ⟨hp, by rw [hr]; exact h0, by rw [hr]; exact h1, hs⟩
  have h := Distr.C17_no_halt st total tax vals hfc ht0 htax0 htax1 hsane hsum
  intro hn; rw [hn] at h; simp at h

/-! ## the bound is needed, and the check `Rate > MaxRate` is what provides it (regression, seed C11-h) -/

private def emptyPool : Distr.Pool := { community := 0, commission := [], rewards := [], outstanding := [] }
private def wSt : Distr.St := { supply := 5000, fc := 1000, mint := 0, distr := 0, pool := emptyPool }
/-- rate 1.5, max rate 1, max change rate 1 -/
private def wRates : Rates := ⟨some (3 * PREC / 2), some PREC, some PREC⟩
private def wVal (rate : Int) : Distr.ValIn :=
  { op := "v", power := 1, rate := rate, found := true, stakers := [("s", PREC)] }

/-- a validator whose stored commission rate is 1.5 halts the first BeginBlock that allocates fees to it -/
theorem C11_witness_commission_above_one_halts :
    Distr.allocateTokens wSt 1 0 [wVal (3 * PREC / 2)] = none := by decide

/-- the validator re-typed without the case `Rate > MaxRate` (it still bounds the max rate by 1, the rate from
below and the change rate by the max rate) accepts that record; the SDK validator names the missing case -/
theorem C11_regression_validator_without_gt_max_accepts_halting_rate :
    commissionValidateNoGTMax wRates = .ok ∧ commissionValidate wRates = .rej "ErrCommissionGTMaxRate" ∧
      ∃ x, recOf wRates = some x ∧ Distr.allocateTokens wSt 1 0 [wVal x.rate] = none :=
  ⟨by decide, by decide, ⟨3 * PREC / 2, PREC, PREC⟩, by decide, by decide⟩

/-- … while the registration of that record is a rejected transaction that stores nothing -/
theorem C11_witness_rate_above_max_is_rejected (s : Reg) (a : String) :
    deliver s { sender := a, fromOk := true, infoNil := false, earnOk := true, metaLen := 8, approveEmpty := false,
                rates := wRates, earnListOk := true } = (s, false) :=
  C11_registration_not_validated_is_rejected s _ (by simp [msgValidateBasic, infoValidateBasic, maxIdentityLength, wRates, commissionValidate, PREC])

/-! ## non-vacuity -/

private def okMsg (a : String) (rt mx ch : Int) : RegMsg :=
  { sender := a, fromOk := true, infoNil := false, earnOk := true, metaLen := 8, approveEmpty := false,
    rates := ⟨some rt, some mx, some ch⟩, earnListOk := true }

-- a boundary triple (rate = max rate = 1) is accepted, a nil rate panics, 1 + 10^-18 is refused
example : commissionValidate ⟨some PREC, some PREC, some 0⟩ = .ok := by decide
example : commissionValidate ⟨none, some PREC, some 0⟩ = .panic := by decide
example : commissionValidate ⟨some (PREC + 1), some PREC, some 0⟩ = .rej "ErrCommissionGTMaxRate" := by decide
example : commissionValidate ⟨some 0, some (PREC + 1), some 0⟩ = .rej "ErrCommissionHuge" := by decide
-- an accepted registration: the hypothesis of C11_registration_accepted_rate_in_unit is met
example : (deliver [] (okMsg "a" (PREC / 20) (PREC / 5) (PREC / 100))).2 = true := by decide
-- a genesis with two operators and a history with an accepted, a refused and a repeated registration
private def g0 : List (String × Rates) :=
  [("op0", ⟨some 0, some PREC, some PREC⟩), ("op1", ⟨some (PREC / 20), some PREC, some PREC⟩)]
private def h0 : List RegMsg :=
  [okMsg "b" PREC PREC 0, okMsg "c" (3 * PREC / 2) PREC PREC, okMsg "b" 0 0 0]
example : ∃ s0, genesis g0 = some s0 ∧ (run s0 h0).length = 3 ∧ find? (run s0 h0) "b" = some ⟨PREC, PREC, 0⟩ ∧
    find? (run s0 h0) "c" = none := ⟨_, rfl, by decide, by decide, by decide⟩
-- a validator view reading that registry, with fees, meets the hypotheses of the allocation theorem
example : Distr.allocateTokens wSt 201 (PREC / 50)
    [{ op := "op1", power := 100, rate := PREC / 20, found := true, stakers := [("sa", 100 * PREC)] },
     { op := "b", power := 101, rate := PREC, found := true, stakers := [("sb", 101 * PREC)] }] ≠ none :=
  C11_registered_validators_allocation_never_halts g0 _ h0 rfl wSt 201 (PREC / 50) _
    (by decide) (by decide) (by decide) (by decide)
    (by
      intro v hv
      simp only [List.mem_cons, List.mem_nil_iff, or_false] at hv
      rcases hv with hv | hv <;> subst hv
      · exact ⟨by decide, by intro o ho; simp only [List.mem_cons, List.mem_nil_iff, or_false] at ho; subst ho; decide,
          ⟨PREC / 20, PREC, PREC⟩, by decide, rfl⟩
      · exact ⟨by decide, by intro o ho; simp only [List.mem_cons, List.mem_nil_iff, or_false] at ho; subst ho; decide,
          ⟨PREC, PREC, 0⟩, by decide, rfl⟩)
    (by decide)

end ExoVerif.OpReg
