import ExoVerif.Model.AuthOwners
/-!
# C10 — "update, deregistration, task creation … require a listed owner", on every owner list an AVS can reach

Over `Model/AuthOwners.lean` (owner lists as a function of the accepted register / update / deregister calls):
an owner-gated call is admitted only for a sender on the STORED list, whatever history of accepted writes
produced that list — in particular an emptied list admits nobody, for good.
-/
namespace ExoVerif.Props.C10Owners
open ExoVerif.AuthOwners

theorem lookup_erase_self (s : Owners) (a : Addr) : lookup (erase s a) a = none := by
  induction s with
  | nil => rfl
  | cons p rest ih =>
    obtain ⟨k, v⟩ := p
    by_cases h : k = a
    · simp only [erase, h, if_true]; exact ih
    · simp only [erase, h, if_false, lookup]; exact ih

theorem lookup_erase_other (s : Owners) (a b : Addr) (hab : a ≠ b) : lookup (erase s a) b = lookup s b := by
  induction s with
  | nil => rfl
  | cons p rest ih =>
    obtain ⟨k, v⟩ := p
    by_cases h : k = a
    · have hkb : k ≠ b := by rw [h]; exact hab
      simp only [erase, h, if_true, lookup]
      rw [ih]
      have : ¬ a = b := hab
      simp only [this, if_false]
    · simp only [erase, h, if_false, lookup]
      rw [ih]

theorem lookup_set_self (s : Owners) (a : Addr) (l : List Addr) : lookup (put s a l) a = some l := by
  simp only [put, lookup, if_true]

theorem lookup_set_other (s : Owners) (a b : Addr) (l : List Addr) (hab : a ≠ b) : lookup (put s a l) b = lookup s b := by
  have : ¬ a = b := hab
  simp only [put, lookup, this, if_false]
  exact lookup_erase_other s a b hab

/-- The clause, for every state: an admitted update / deregistration / task creation names a sender that is on the
stored owner list of the calling AVS (which therefore exists and is not empty). -/
theorem C10_owners_admit_implies_listed (s : Owners) (op : Op) (ok : Bool)
    (hg : op.gated = true) (h : admitOwn s op ok = true) :
    ∃ l, lookup s op.avs = some l ∧ op.sender ∈ l := by
  have hl : listed s op.avs op.sender = true := by
    cases op with
    | register a sd o => simp [Op.gated] at hg
    | update a sd o => simp only [admitOwn, Bool.and_eq_true] at h; exact h.1
    | deregister a sd => simp only [admitOwn, Bool.and_eq_true] at h; exact h.1
    | createTask a sd => simp only [admitOwn, Bool.and_eq_true] at h; exact h.1
  unfold listed at hl
  cases hlk : lookup s op.avs with
  | none => rw [hlk] at hl; simp at hl
  | some l =>
    rw [hlk] at hl
    refine ⟨l, rfl, ?_⟩
    simpa using hl

/-- an AVS whose stored owner list is empty: every sender is refused at every owner-gated entry point -/
theorem C10_owners_empty_list_admits_nobody (s : Owners) (op : Op) (ok : Bool)
    (hg : op.gated = true) (he : lookup s op.avs = some []) : admitOwn s op ok = false := by
  cases hadm : admitOwn s op ok with
  | false => rfl
  | true =>
    obtain ⟨l, hl, hm⟩ := C10_owners_admit_implies_listed s op ok hg hadm
    rw [he] at hl
    cases hl
    cases hm

/-- … and a sender that is not on the stored list is refused whatever the list is -/
theorem C10_owners_unlisted_sender_rejected (s : Owners) (op : Op) (ok : Bool)
    (hg : op.gated = true) (hn : listed s op.avs op.sender = false) : admitOwn s op ok = false := by
  cases op with
  | register a sd o => simp [Op.gated] at hg
  | update a sd o => simp only [admitOwn, Op.avs, Op.sender] at *; rw [hn]; rfl
  | deregister a sd => simp only [admitOwn, Op.avs, Op.sender] at *; rw [hn]; rfl
  | createTask a sd => simp only [admitOwn, Op.avs, Op.sender] at *; rw [hn]; rfl

/-- "Every other caller is rejected without any state change" -/
theorem C10_owners_reject_changes_nothing (s : Owners) (op : Op) (ok : Bool)
    (h : admitOwn s op ok = false) : step s op ok = s := by
  simp only [step, h, Bool.false_eq_true, if_false]

/-- an accepted update stores exactly the payload's list — the empty one too — and an accepted registration the list it was given -/
theorem C10_owners_update_stores_payload_list (s : Owners) (avs sender : Addr) (owners : List Addr) (ok : Bool)
    (h : admitOwn s (.update avs sender owners) ok = true) :
    lookup (step s (.update avs sender owners) ok) avs = some owners := by
  simp only [step, h, if_true]
  exact lookup_set_self s avs owners

/-- a call of one AVS never touches the owner list of another -/
theorem C10_owners_other_avs_untouched (s : Owners) (op : Op) (ok : Bool) (b : Addr) (hb : op.avs ≠ b) :
    lookup (step s op ok) b = lookup s b := by
  unfold step
  split
  · cases op with
    | register a sd o => exact lookup_set_other s a b o hb
    | update a sd o => exact lookup_set_other s a b o hb
    | deregister a sd => exact lookup_erase_other s a b hb
    | createTask a sd => rfl
  · rfl

/-- once emptied, the list stays empty through every call of anybody -/
theorem C10_owners_empty_list_is_kept (s : Owners) (a : Addr) (op : Op) (ok : Bool)
    (he : lookup s a = some []) : lookup (step s op ok) a = some [] := by
  by_cases hav : op.avs = a
  · have hrej : admitOwn s op ok = false := by
      cases op with
      | register a' sd o =>
        simp only [Op.avs] at hav
        simp only [admitOwn, hav, he, Option.isNone_some, Bool.and_false, Bool.false_and]
      | update a' sd o => exact C10_owners_empty_list_admits_nobody s _ ok rfl (by rw [hav]; exact he)
      | deregister a' sd => exact C10_owners_empty_list_admits_nobody s _ ok rfl (by rw [hav]; exact he)
      | createTask a' sd => exact C10_owners_empty_list_admits_nobody s _ ok rfl (by rw [hav]; exact he)
    rw [C10_owners_reject_changes_nothing s op ok hrej]; exact he
  · rw [C10_owners_other_avs_untouched s op ok a hav]; exact he

/-- Histories: after an owner emptied the list of an AVS (an accepted `update … []`), NO later history of calls — by
former owners, strangers, the AVS's own account, with any payload — gets an owner-gated call of that AVS admitted;
the AVS record stays as it is. -/
theorem C10_owners_emptied_list_locks_for_good (s : Owners) (a : Addr) (h : List (Op × Bool))
    (he : lookup s a = some []) :
    lookup (run s h) a = some [] ∧
    ∀ (pre : List (Op × Bool)) (op : Op) (ok : Bool) (post : List (Op × Bool)),
      h = pre ++ (op, ok) :: post → op.avs = a → admitOwn (run s pre) op ok = false := by
  induction h generalizing s with
  | nil =>
    refine ⟨he, ?_⟩
    intro pre op ok post hh
    cases pre <;> simp at hh
  | cons x rest ih =>
    obtain ⟨op0, ok0⟩ := x
    have he' := C10_owners_empty_list_is_kept s a op0 ok0 he
    obtain ⟨h1, h2⟩ := ih (step s op0 ok0) he'
    refine ⟨h1, ?_⟩
    intro pre op ok post hh hav
    cases pre with
    | nil =>
      simp only [List.nil_append, List.cons.injEq, Prod.mk.injEq] at hh
      obtain ⟨⟨ho, hk⟩, _⟩ := hh
      subst ho; subst hk
      simp only [run]
      cases hop : op0 with
      | register a' sd o =>
        rw [hop] at hav; simp only [Op.avs] at hav
        simp only [admitOwn, hav, he, Option.isNone_some, Bool.and_false, Bool.false_and]
      | update a' sd o => rw [hop] at hav; exact C10_owners_empty_list_admits_nobody s _ ok0 rfl (by rw [hav]; exact he)
      | deregister a' sd => rw [hop] at hav; exact C10_owners_empty_list_admits_nobody s _ ok0 rfl (by rw [hav]; exact he)
      | createTask a' sd => rw [hop] at hav; exact C10_owners_empty_list_admits_nobody s _ ok0 rfl (by rw [hav]; exact he)
    | cons y pre' =>
      simp only [List.cons_append, List.cons.injEq] at hh
      obtain ⟨hy, hrest⟩ := hh
      subst hy
      simp only [run]
      exact h2 pre' op ok post hrest hav

/-- the whole sequence of the seeded scenario on the model: owner 7 registers AVS 1, empties the list, then stranger 9
(and the former owner) are refused at all three entry points and the record is still there -/
example :
    let s := run [] [(.register 1 7 [7], true), (.update 1 7 [], true)]
    lookup s 1 = some [] ∧ admitOwn s (.deregister 1 9) true = false ∧ admitOwn s (.createTask 1 9) true = false ∧
      admitOwn s (.update 1 9 [9]) true = false ∧ admitOwn s (.deregister 1 7) true = false := by decide

/-- non-vacuity: lists that are reached through accepted updates do admitOwn their members, and only them -/
example :
    let s := run [] [(.register 1 7 [7], true), (.update 1 7 [7, 8], true), (.update 1 8 [8], true)]
    lookup s 1 = some [8] ∧ admitOwn s (.deregister 1 8) true = true ∧ admitOwn s (.deregister 1 7) true = false ∧
      lookup (step s (.deregister 1 8) true) 1 = none := by decide

example : admitOwn [(1, [7])] (.update 1 7 []) true = true ∧ (Op.update 1 7 []).gated = true := by decide

end ExoVerif.Props.C10Owners
