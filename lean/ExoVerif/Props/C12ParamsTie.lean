import ExoVerif.Generated.Facts
import ExoVerif.Model.OracleParamsUpdate
/-!
# C12 — tie of the parameter-update model (Model/OracleParamsUpdate.lean) to the Go sources

`updateMaxPriceCount`, `addRules` and the order of `applyUpdate` transcribe these statements; they are
regenerated on every run (tools/exofacts/facts_oracle_fees.go: oracleParamsUpdateShape).
-/
namespace ExoVerif.Oracle
open ExoVerif.Gen

theorem C12_tie_update_max_price_count :
    updateMaxPriceCountBody =
      ["if count < 0 { return p, ErrInvalidParams.Wrap(\"invalid maxPriceCount\") }", "if count > 0 { p.MaxSizePrices = count }", "return p, nil"] := by
  decide

theorem C12_tie_add_rules : addRulesBody = ["p.Rules = append(p.Rules, rules...)", "return p, nil"] := by decide

/-- the handler's chain, in the order `applyUpdate` composes it, ending in Validate before SetParams -/
theorem C12_tie_update_params_chain :
    updateParamsChain =
      ["p.AddSources", "p.AddChains", "p.UpdateTokens", "p.AddRules", "p.UpdateMaxPriceCount", "p.UpdateTokenFeeder", "p.Validate", "ms.SetParams"] := by
  decide

end ExoVerif.Oracle
