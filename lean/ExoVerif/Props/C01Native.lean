import ExoVerif.Props.C01Inv
/-!
C01, native-token clause over every finite history: "for the native token the delegation escrow
account always holds at least the pools plus the pending amounts".

The native token is delegated from bank balances into the `delegated_pool` module account; it has no
staker rows in x/assets and, on the chain as shipped, is not a registered staking asset (`NativeUnreg`,
preserved by every operation because no operation adds or removes a key of the asset table), so a
deposit or withdrawal naming it is refused.
-/
namespace ExoVerif.Ledger
open ExoVerif ExoVerif.KV

/-- the native token is not in the table of registered staking assets -/
def NativeUnreg (s : L) : Prop := find? s.totals nativeAID = none

theorem foldlM_opShare_escrow (es : List ((SID × AID × OID) × DelegRow)) (o : OID) (f : DelegRow → Dec)
    {s s' : L} (h : es.foldlM (fun s e => updPool s o e.1.2.1 0 0 Dec.zero (f e.2)) s = .ok s') :
    s'.escrow = s.escrow := by
  induction es generalizing s with
  | nil => simp only [List.foldlM, pure, Except.pure] at h; injection h with h; subst h; rfl
  | cons e rest ih =>
    simp only [List.foldlM, bind, Except.bind] at h
    split at h
    · cases h
    · rename_i s1 h1
      rw [ih h, updPool_escrow h1]

/-- deposit / withdraw: accepted only for a registered asset; the native figures do not move -/
theorem deposit_native {s s' : L} {st : SID} {a0 : AID} {x : Int} (hu : NativeUnreg s)
    (h : deposit s st a0 x = .ok s') :
    value s' nativeAID = value s nativeAID ∧ s'.escrow = s.escrow ∧ NativeUnreg s' := by
  have hv := (C01_deposit_value nativeAID h).1
  unfold deposit at h
  simp only [bind, Except.bind, pure, Except.pure, throw, throwThe, MonadExceptOf.throw] at h
  split at h
  · cases h
  · split at h
    · cases h
    · rename_i hreg
      have hne : a0 ≠ nativeAID := by
        intro e; subst e
        unfold NativeUnreg at hu
        simp [has, hu] at hreg
      split at h
      · cases h
      · rename_i s1 h1
        split at h
        · cases h
        · rename_i s2 h2
          injection h with h; subst h
          obtain ⟨t, _, hs2⟩ := updTotal_ok h2
          have e1 := updStaker_escrow h1
          have t1 : s1.totals = s.totals := by rw [updStaker_ok h1]
          refine ⟨by rw [hv]; simp [hne], ?_, ?_⟩
          · show s2.escrow = s.escrow
            rw [hs2]; exact e1
          · unfold NativeUnreg
            show find? s2.totals nativeAID = none
            rw [hs2]; simp only []
            rw [find?_set_other _ _ _ _ (fun e => hne e.symm), t1]; exact hu

theorem withdraw_native {s s' : L} {st : SID} {a0 : AID} {x : Int} (hu : NativeUnreg s)
    (h : withdraw s st a0 x = .ok s') :
    value s' nativeAID = value s nativeAID ∧ s'.escrow = s.escrow ∧ NativeUnreg s' := by
  have hv := (C01_withdraw_value nativeAID h).1
  unfold withdraw at h
  simp only [bind, Except.bind, pure, Except.pure, throw, throwThe, MonadExceptOf.throw] at h
  split at h
  · cases h
  · split at h
    · cases h
    · rename_i hreg
      have hne : a0 ≠ nativeAID := by
        intro e; subst e
        unfold NativeUnreg at hu
        simp [has, hu] at hreg
      split at h
      · cases h
      · rename_i s1 h1
        split at h
        · cases h
        · rename_i s2 h2
          injection h with h; subst h
          obtain ⟨t, _, hs2⟩ := updTotal_ok h2
          have e1 := updStaker_escrow h1
          have t1 : s1.totals = s.totals := by rw [updStaker_ok h1]
          refine ⟨by rw [hv]; simp [hne], ?_, ?_⟩
          · show s2.escrow = s.escrow
            rw [hs2]; exact e1
          · unfold NativeUnreg
            show find? s2.totals nativeAID = none
            rw [hs2]; simp only []
            rw [find?_set_other _ _ _ _ (fun e => hne e.symm), t1]; exact hu

theorem nativeUnreg_congr {s s' : L} (hu : NativeUnreg s) (ht : s'.totals = s.totals) : NativeUnreg s' := by
  unfold NativeUnreg at *; rw [ht]; exact hu

/-- C01, native clause, one step -/
theorem C01_escrow_step (s : L) (op : LOp) (hi : RecInv s) (hn : NN s) (hu : NativeUnreg s)
    (hc : EscrowCovers s) (hok : OpOk0 s op) :
    EscrowCovers (lstep s op) ∧ NativeUnreg (lstep s op) := by
  cases op with
  | deposit st a x =>
    simp only [lstep]; split
    · rename_i s' h
      obtain ⟨v, e, u⟩ := deposit_native hu h
      exact ⟨by unfold EscrowCovers at *; rw [v, e]; exact hc, u⟩
    · exact ⟨hc, hu⟩
  | withdraw st a x =>
    simp only [lstep]; split
    · rename_i s' h
      obtain ⟨v, e, u⟩ := withdraw_native hu h
      exact ⟨by unfold EscrowCovers at *; rw [v, e]; exact hc, u⟩
    · exact ⟨hc, hu⟩
  | delegate st a o x =>
    simp only [lstep]; split
    · rename_i s' h
      exact ⟨C01_escrow_covers_delegate hc h, nativeUnreg_congr hu (delegate_nn hn h).2⟩
    · exact ⟨hc, hu⟩
  | undelegate st a o x n hash =>
    simp only [lstep]; split
    · rename_i s' h
      exact ⟨C01_escrow_covers_undelegate hi hok hc h, nativeUnreg_congr hu (undelegate_nn hn h).2⟩
    · exact ⟨hc, hu⟩
  | associate st o =>
    simp only [lstep]; split
    · rename_i s' h
      have t := (associate_nn hn h).2
      refine ⟨?_, nativeUnreg_congr hu t⟩
      unfold associate at h
      simp only [bind, Except.bind, pure, Except.pure, throw, throwThe, MonadExceptOf.throw] at h
      split at h
      · cases h
      · split at h
        · cases h
        · split at h
          · cases h
          · split at h
            · cases h
            · rename_i s1 h1
              injection h with h; subst h
              obtain ⟨v, _⟩ := value_foldlM_opShare _ o (fun r => r.share) nativeAID h1
              have e := foldlM_opShare_escrow _ o (fun r => r.share) h1
              unfold EscrowCovers value at *; simp only [] at *; rw [e]; omega
    · exact ⟨hc, hu⟩
  | dissociate st =>
    simp only [lstep]; split
    · rename_i s' h
      have t := (dissociate_nn hn h).2
      refine ⟨?_, nativeUnreg_congr hu t⟩
      unfold dissociate at h
      simp only [bind, Except.bind, pure, Except.pure, throw, throwThe, MonadExceptOf.throw] at h
      split at h
      · cases h
      · rename_i o ho
        split at h
        · cases h
        · rename_i s1 h1
          injection h with h; subst h
          obtain ⟨v, _⟩ := value_foldlM_opShare _ o (fun r => r.share.neg) nativeAID h1
          have e := foldlM_opShare_escrow _ o (fun r => r.share.neg) h1
          unfold EscrowCovers value at *; simp only [] at *; rw [e]; omega
    · exact ⟨hc, hu⟩
  | hold k => exact ⟨hc, hu⟩
  | release k =>
    simp only [lstep]; split
    · rename_i s' h
      unfold release at h
      simp only [] at h
      split at h
      · cases h
      · injection h with h; subst h; exact ⟨hc, hu⟩
    · exact ⟨hc, hu⟩
  | blockEnd => exact ⟨C01_escrow_covers_endBlock hi hc, nativeUnreg_congr hu (endBlock_nn hn).2⟩
  | slash o inf p =>
    exact ⟨C01_escrow_covers_slash s o inf p hok hn.rc (fun e he => (hn.pl e he).1) hc,
      nativeUnreg_congr hu (slashAssets_nn s o inf p hok hn).2⟩

/-- **C01, native-token clause over every finite history**: the escrow account holds at least the
native pools plus the native amounts owed by pending undelegations, after any finite interleaving of
the ten ledger operations. -/
theorem C01_escrow_reachable (s : L) (ops : List LOp) (hi : RecInv s) (hn : NN s) (hu : NativeUnreg s)
    (hc : EscrowCovers s) (hok : AllOk0 s ops) :
    EscrowCovers (ops.foldl lstep s) := by
  induction ops generalizing s with
  | nil => exact hc
  | cons op rest ih =>
    simp only [List.foldl_cons]
    obtain ⟨h1, h2⟩ := hok
    obtain ⟨c1, u1⟩ := C01_escrow_step s op hi hn hu hc h1
    have i1 := (C01_net_step s op "a" (by decide) hi (opOk_of_nn hn h1)).2
    have n1 := C01_nonneg_step s op hn h1
    exact ih (lstep s op) i1 n1 u1 c1 h2

/-! non-vacuity: native delegation, undelegation, slash while pending, completion -/

private def gN : L :=
  { height := 1, unbonding := 2, totals := [("a", 0)], operators := ["o1"], clientChains := ["0x0"],
    stakers := [], pools := [], deleg := [], slist := [], assoc := [], recs := [], sidx := [], pidx := [],
    holds := [], bal := [("n_0x0", 1000)], escrow := 0, gDep := [], gWd := [], gSlashed := [] }

private def opsN : List LOp :=
  [.delegate "n_0x0" nativeAID "o1" 600, .undelegate "n_0x0" nativeAID "o1" 200 5 "0xh", .blockEnd,
   .slash "o1" 1 ⟨500000000000000000⟩, .blockEnd, .blockEnd, .deposit "n_0x0" nativeAID 5]

example : Fresh gN := ⟨rfl, rfl, rfl, rfl, rfl, rfl, by decide, by decide, by decide, rfl, rfl, rfl⟩
example : NativeUnreg gN := by unfold NativeUnreg; decide
example : EscrowCovers gN := by unfold EscrowCovers; decide
example : (opsN.foldl lstep gN).escrow = 500 ∧ value (opsN.foldl lstep gN) nativeAID = 200 ∧
    (opsN.foldl lstep gN).bal = [("n_0x0", 500)] := by decide

end ExoVerif.Ledger
