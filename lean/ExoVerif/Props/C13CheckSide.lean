import ExoVerif.Proofs.OracleCheckSide
/-! C13 — "a submission that is not admitted changes nothing at all", for submissions whose handlers
ran on the check-side copy of the aggregator context only (BaseApp.Simulate).

Pointer level: with `Copy4CheckTx` as the code makes the copy (a fresh cell per round), NO sequence of
writes through the check-side context changes what the deliver-side context sees — for every heap, every
deliver-side context whose pointers are allocated, every list of writes (`C13_check_side_writes_never_reach_deliver`,
`C13_simulated_final_leaves_deliver_round_open`); the copy shows the deliver side's values at the time
it is made (`C13_check_copy_is_faithful`). With a map clone that keeps the addresses the statement is
false: closing the round on the copy closes it on the deliver side (`C13_shared_cells_leak`).

Node level (`simulateTx` of Model/OracleCheckSide.lean, what the driver replays for `orc.sim`): any number of
simulated transactions leave the deliver-side state as it is and every later DeliverTx / EndBlock gives
the result it would have given without them. -/
namespace ExoVerif.OracleCheckSide
open ExoVerif.Oracle

/-- **The clause at the pointer level.** `d` = the deliver-side context, `(h1, c)` = heap and check-side
context after `Copy4CheckTx`; whatever is then written through `c` — closing rounds (`FillPrice` of a
simulated submission that completes the round), or any other assignment to any field of any of its
rounds, any number of times — `d` sees exactly what it saw before. -/
theorem C13_check_side_writes_never_reach_deliver (h : Heap) (d : Ctx) (hd : d.Below h.next)
    (ws : List (Nat × (Round → Round))) :
    d.view ((copy4CheckTx h d).2.writes (copy4CheckTx h d).1 ws) = d.view h := by
  have hs := copyRounds_spec d.rounds h
  apply view_congr d h _ h.next hd
  intro x hx
  have hc : (copy4CheckTx h d).2.AtLeast h.next := by
    intro ka hka
    exact (hs.2.2 ka hka).1
  rw [writes_below _ h.next hc ws _ x hx]
  exact hs.2.1 x hx

/-- … in particular the round a simulated submission finalised on the copy stays open on the deliver side -/
theorem C13_simulated_final_leaves_deliver_round_open (h : Heap) (d : Ctx) (hd : d.Below h.next) (fid : Nat) :
    d.view ((copy4CheckTx h d).2.closeRound (copy4CheckTx h d).1 fid) = d.view h :=
  C13_check_side_writes_never_reach_deliver h d hd [(fid, fun r => { r with status := .closed })]

/-- the copy is faithful: when every pointer of `d` is allocated and holds a value, the check side starts
from the deliver side's rounds (same feeders, same values) -/
theorem C13_check_copy_is_faithful (l : List (Nat × Nat)) : ∀ (h : Heap),
    (∀ ka ∈ l, ka.2 < h.next ∧ (h.cell ka.2).isSome) →
    (Ctx.mk (copyRounds h l).2).view (copyRounds h l).1 = (Ctx.mk l).view h := by
  induction l with
  | nil => intro h _; simp [copyRounds, Ctx.view]
  | cons e rest ih =>
    intro h hall
    obtain ⟨k, a⟩ := e
    have ha := hall (k, a) (by simp)
    unfold copyRounds
    cases hc : h.cell a with
    | none => simp [hc] at ha
    | some r =>
      simp only
      have hrest : ∀ ka ∈ rest, ka.2 < (h.alloc r).1.next ∧ ((h.alloc r).1.cell ka.2).isSome := by
        intro ka hka
        have := hall ka (by simp [hka])
        simp only [Heap.alloc]
        have hne : ka.2 ≠ h.next := by omega
        exact ⟨by omega, by simp [hne, this.2]⟩
      have ih' := ih (h.alloc r).1 hrest
      have hs := copyRounds_spec rest (h.alloc r).1
      simp only [Ctx.view, List.map_cons] at ih' ⊢
      rw [ih']
      congr 1
      · -- the new cell still holds r after the remaining allocations
        have : (copyRounds (h.alloc r).1 rest).1.cell h.next = (h.alloc r).1.cell h.next :=
          hs.2.1 h.next (by simp [Heap.alloc])
        simp only [Heap.alloc] at this ⊢
        rw [this]; simp [hc]
      · apply List.map_congr_left
        intro ka hka
        have := hall ka (by simp [hka])
        have hne : ka.2 ≠ h.next := by omega
        simp [Heap.alloc, hne]

/-! ### non-vacuity, and why the shape of the copy matters -/

/-- the hypothesis of the theorems above on a concrete heap: two feeders, both rounds open -/
example : exCtx.Below exHeap.next := exCtx_below

/-- the deep copy: the check side sees feeder 1's round closed, the deliver side sees it open -/
example :
    let (h1, c) := copy4CheckTx exHeap exCtx
    let h2 := c.closeRound h1 1
    (c.view h2).map (fun kr => kr.2.map (·.status)) = [some .closed, some .open] ∧
    (exCtx.view h2).map (fun kr => kr.2.map (·.status)) = [some .open, some .open] := by decide

/-- With a clone of the map that keeps the addresses (`maps.Clone(agc.rounds)`), the statement of
`C13_check_side_writes_never_reach_deliver` is false: closing feeder 1's round through the copy closes
it for the deliver side. -/
theorem C13_shared_cells_leak :
    ∃ (h : Heap) (d : Ctx) (fid : Nat), d.Below h.next ∧
      d.view ((copyShallow h d).2.closeRound (copyShallow h d).1 fid) ≠ d.view h :=
  ⟨exHeap, exCtx, 1, exCtx_below, by decide⟩

/-! ### node level -/

/-- A simulated transaction — admitted or not on the check side, counted or not, completing the round
there or not — changes nothing of the deliver-side state: prices, nonces, aggregator context, pending
cache, replay log. -/
theorem C13_simulated_changes_nothing (n : Node) (st : Store) (t : Int) (tx : Tx) :
    (simulateTx n st t tx).1.deliver = n.deliver := rfl

theorem C13_simulations_change_nothing (sims : List (Store × Int × Tx)) :
    ∀ n : Node, (simulateMany n sims).deliver = n.deliver := by
  induction sims with
  | nil => intro n; rfl
  | cons e rest ih =>
    intro n
    obtain ⟨st, t, tx⟩ := e
    simp only [simulateMany]
    rw [ih]
    rfl

/-- … so every submission delivered afterwards is admitted / counted / refused exactly as without the
simulations, with the same resulting state, -/
theorem C13_delivery_unaffected_by_simulations (n : Node) (sims : List (Store × Int × Tx)) (tx : Tx) :
    ((simulateMany n sims).deliverTx tx).2 = (n.deliverTx tx).2 ∧
    ((simulateMany n sims).deliverTx tx).1.deliver = (n.deliverTx tx).1.deliver := by
  simp only [Node.deliverTx, C13_simulations_change_nothing]
  trivial

/-- … and the block ends in the same state (the check-side context is dropped). -/
theorem C13_end_block_unaffected_by_simulations (n : Node) (sims : List (Store × Int × Tx)) (upd : List (Nat × Int)) :
    (simulateMany n sims).endBlock upd = n.endBlock upd := by
  simp only [Node.endBlock, C13_simulations_change_nothing]

end ExoVerif.OracleCheckSide
