import ExoVerif.Props.C07Slash
/-!
# C07 — the gate in front of "slashed and jailed": `ValidatorByConsAddr`

x/slashing's downtime handler and x/evidence's equivocation handler never call
`SlashWithInfractionReason` / `Jail` directly: both first ask the staking keeper for
`ValidatorByConsAddr(consAddr)` and return — no slash, no jail — when the answer is nil.
`validatorTarget` (`Model/ConsKeys.lean`) is that answer (the operator of the returned validator):
the reverse lookup must resolve the address AND the resolved operator must have a current key,
because `ValidatorByConsAddrForChainID` builds the validator from the operator's current public key.

* every current key passes the gate (`C07_gate_current_key`), in particular the key of an operator that
  is opting out, until the opt-out finishes (`C07_gate_removing_key_until_finished`);
* for a REPLACED key that waits in its pruning slot the full statement (`C07_gate_full`) is false on the
  unchanged code: the operator can complete an opt-out — and lose its current key — while the old key
  is still unbonding (`C07_gate_full_fails`, finding F-07d, replayed on the real code by
  harness/dom_conskeys_gate.go: scenarioF07d); it holds as long as the operator keeps a current key
  (`C07_gate_partial`).
-/
namespace ExoVerif.ConsKeys
open ExoVerif.VMap ExoVerif.ValSet

/-- the gate answers `op` iff the reverse index resolves the key to `op`, `op` is a registered
operator and has a current key -/
theorem C07_gate_some_iff (s : St) (key op : Nat) :
    validatorTarget s key = some op ↔
      s.rev key = some op ∧ s.registered op = true ∧ (s.fwd op).isSome = true := by
  unfold validatorTarget
  cases hr : s.rev key with
  | none => simp
  | some o =>
    by_cases hc : (s.registered o && (s.fwd o).isSome) = true
    · simp only [hc, if_true, Option.some.injEq]
      constructor
      · intro h; subst h; simp only [Bool.and_eq_true] at hc; exact ⟨rfl, hc.1, hc.2⟩
      · intro h; exact h.1
    · simp only [hc]
      constructor
      · intro h; simp at h
      · intro h
        have h1 : o = op := Option.some.inj h.1
        subst h1
        exact absurd (by simp only [Bool.and_eq_true]; exact ⟨h.2.1, h.2.2⟩) hc

/-- whoever passes the gate is the operator the slash path hits -/
theorem C07_gate_implies_slash_target (s : St) (key op : Nat) (h : validatorTarget s key = some op) :
    slashTarget s key = some op :=
  ((C07_gate_some_iff s key op).1 h).1

/-- a nil gate for a key the reverse index resolves means: the operator has no current key (or is not
registered) — the only way evidence against a resolvable address is dropped before the slash path -/
theorem C07_gate_none_of_resolvable (s : St) (key op : Nat) (hr : s.rev key = some op)
    (hn : validatorTarget s key = none) : s.registered op = false ∨ s.fwd op = none := by
  unfold validatorTarget at hn
  rw [hr] at hn
  by_cases hc : (s.registered op && (s.fwd op).isSome) = true
  · simp [hc] at hn
  · simp only [Bool.and_eq_true, not_and] at hc
    cases hreg : s.registered op with
    | false => exact Or.inl rfl
    | true =>
      right
      have := hc hreg
      cases hf : s.fwd op with
      | none => rfl
      | some k => rw [hf] at this; simp at this

/-- **Every current key passes the gate** (registry invariant: a current key maps back to its operator):
in particular the key of every validating operator. -/
theorem C07_gate_current_key (s : St) (h : Inv s) (op key : Nat) (hreg : s.registered op = true)
    (hf : s.fwd op = some key) : validatorTarget s key = some op := by
  rw [C07_gate_some_iff]
  exact ⟨h.back op key hf, hreg, by rw [hf]; rfl⟩

/-! ## `registered` is never cleared -/

theorem foldl_completeRemoval_registered (l : List Nat) (t : St) :
    (l.foldl completeRemoval t).registered = t.registered := by
  induction l generalizing t with
  | nil => rfl
  | cons a rest ih =>
    simp only [List.foldl_cons]
    rw [ih]
    unfold completeRemoval
    repeat' split
    all_goals rfl

theorem foldl_releaseUndel_registered (l : List Nat) (t : St) :
    (l.foldl releaseUndel t).registered = t.registered := by
  induction l generalizing t with
  | nil => rfl
  | cons a rest ih => simp only [List.foldl_cons]; rw [ih]; rfl

theorem setKeyCore_registered (t : St) (o key : Nat) : (setKeyCore t o key).2.registered = t.registered := by
  simp only [setKeyCore, hookReplaced]
  repeat' split
  all_goals rfl

theorem step_registered_keep (s : St) (o : Op) (op : Nat) (hi : s.registered op = true) :
    (step s o).2.registered op = true := by
  cases o with
  | register a =>
    show upd s.registered a true op = true
    simp only [upd_apply]; split <;> first | rfl | exact hi
  | optIn a key ok =>
    simp only [step, optIn]
    split
    · exact hi
    · split
      · exact hi
      · split
        · exact hi
        · have := setKeyCore_registered (optInPre s a) a key
          revert this
          generalize setKeyCore _ a key = r
          intro this
          obtain ⟨out, s2⟩ := r
          cases out <;> first
            | exact hi
            | (show s2.registered op = true
               rw [this]
               exact hi)
  | setKey a key =>
    simp only [step, setKey]
    split
    · exact hi
    · rw [setKeyCore_registered]; exact hi
  | optOut a =>
    simp only [step, optOut, setOptOutInformation, completeRemoval]
    repeat' split
    all_goals exact hi
  | jail key b =>
    simp only [step, setJailed]
    repeat' split
    all_goals exact hi
  | undelegate a rec =>
    simp only [step, undelegationStarted]
    repeat' split
    all_goals exact hi
  | setUnbonding n => exact hi
  | epochEnd e => exact hi
  | endBlock power maxVals =>
    simp only [step, endBlock]
    split
    · exact hi
    · simp only []
      show (List.foldl completeRemoval _ _).registered op = true
      rw [foldl_completeRemoval_registered]
      show (List.foldl releaseUndel _ _).registered op = true
      rw [foldl_releaseUndel_registered]
      exact hi

theorem run_registered_keep (s : St) (ops : List Op) (op : Nat) (hi : s.registered op = true) :
    (run s ops).registered op = true := by
  induction ops generalizing s with
  | nil => exact hi
  | cons o rest ih =>
    simp only [run, List.foldl_cons]
    exact ih (step s o).2 (step_registered_keep s o op hi)

/-! ## the property, over every history -/

/-- **Opting out: the gate stays open until the opt-out finishes.** An operator whose opt-out waits for
the end of epoch `f` keeps its current key, so `ValidatorByConsAddr` of that key answers the operator
after ANY sequence of operations in which epoch `f` does not end — whether or not the key is still in the
validator store. -/
theorem C07_gate_removing_key_until_finished (s : St) (ops : List Op) (h : Inv s) (op key : Nat) (f : Int)
    (L : Leaving s op key f) (hi : s.hasInfo op = true) (hreg : s.registered op = true)
    (ho : ∀ o ∈ ops, ∀ e', o = .epochEnd e' → e' ≠ f) :
    validatorTarget (run s ops) key = some op := by
  have h3 := (C07_removing_key_slashable_until_finished s ops h op key f L hi ho).2.2
  exact C07_gate_current_key (run s ops) (C07_inv_reachable s ops h) op key
    (run_registered_keep s ops op hreg) h3.cur

-- non-vacuity: operator 1 (validating with key 2) opts out in epoch 2 (N = 2, finish epoch 4): the opt-out
-- waits (`Leaving`'s fields), the key leaves the validator store at the end of epoch 2, the gate keeps
-- answering operator 1 during epochs 3 and 4 and closes when epoch 4 has ended
private def pwL : Nat → Int := fun op => if op = 0 then 120 else 100
private def histL : List Op :=
  [.register 0, .register 1, .optIn 0 1 true, .optIn 1 2 true, .epochEnd 1, .endBlock pwL 5, .optOut 1]
example :
    let s := run (St.init 2 6 1 2) histL
    s.removing 1 = true ∧ s.optedIn 1 = false ∧ s.fwd 1 = some 2 ∧ 1 ∉ s.pendingOptOuts ∧ 1 ∈ s.optOutsToFinish 4 ∧
    s.hasInfo 1 = true ∧ s.registered 1 = true ∧
    (let t := run s [.epochEnd 2, .endBlock pwL 5, .epochEnd 3, .endBlock pwL 5]
     has t.vs.vals 2 = false ∧ validatorTarget t 2 = some 1) ∧
    validatorTarget (run s [.epochEnd 2, .endBlock pwL 5, .epochEnd 3, .endBlock pwL 5, .epochEnd 4, .endBlock pwL 5]) 2 = none := by
  decide

/-- The full statement for a replaced key: while it waits in the pruning slot of epoch `e` (and resolves
to a registered operator with an opted-in record), the gate answers that operator after any operations in
which epoch `e` does not end. -/
def C07_gate_full : Prop :=
  ∀ (s : St) (ops : List Op) (e : Int) (k op : Nat), Inv s → k ∈ s.addrsToPrune e → s.rev k = some op →
    s.hasInfo op = true → s.registered op = true →
    (∀ o ∈ ops, ∀ e', o = .epochEnd e' → e' ≠ e) →
    validatorTarget (run s ops) k = some op

private def pwG : Nat → Int := fun _ => 100
/-- operator 0 validates with key 1 (epoch 2, N = 2) and replaces it by key 2: key 1 waits in slot 4 -/
private def preG : List Op :=
  [.register 0, .optIn 0 1 true, .epochEnd 1, .endBlock pwG 5, .setKey 0 2]
/-- … is jailed, leaves the set at the end of epoch 2, is unjailed and opts out: neither key is in the
set, the opt-out completes at once (AfterOperatorKeyRemovalInitiated, not-in-set branch) -/
private def opsG : List Op :=
  [.jail 2 true, .epochEnd 2, .endBlock pwG 5, .jail 2 false, .optOut 0]

/-- **F-07d.** The unchanged code does not satisfy the full statement: in epoch 3 key 1 is still in
pruning slot 4 and the slash / jail path still resolves it to operator 0, but the gate is nil (the operator
has no current key), so the SDK's handlers drop evidence against it. -/
theorem C07_gate_full_fails : ¬ C07_gate_full := by
  intro hfull
  have hinv : Inv (run (St.init 1 4 1 2) preG) := C07_inv_reachable _ _ (C07_inv_init 1 4 1 2)
  have h := hfull (run (St.init 1 4 1 2) preG) opsG 4 1 0 hinv (by decide) (by decide) (by decide) (by decide)
    (by
      intro o ho e' he'
      simp only [opsG, List.mem_cons, List.mem_nil_iff, or_false] at ho
      rcases ho with rfl | rfl | rfl | rfl | rfl <;> first
        | (cases he'; decide)
        | (cases he'))
  revert h
  decide

-- the witness state: slot 4 still holds key 1, the slash and jail paths still hit operator 0, the gate is nil
example :
    let s := run (run (St.init 1 4 1 2) preG) opsG
    s.epoch = 3 ∧ 1 ∈ s.addrsToPrune 4 ∧ slashTarget s 1 = some 0 ∧ jailTarget s 1 = some 0 ∧
    validatorTarget s 1 = none ∧ s.fwd 0 = none := by decide

/-- **What holds:** as long as the operator still has a current key, a replaced key waiting in the
pruning slot of epoch `e` passes the gate after any operations in which epoch `e` does not end. -/
theorem C07_gate_partial (s : St) (ops : List Op) (h : Inv s) (e : Int) (k op : Nat)
    (hk : k ∈ s.addrsToPrune e) (hr : s.rev k = some op) (hi : s.hasInfo op = true)
    (hreg : s.registered op = true)
    (ho : ∀ o ∈ ops, ∀ e', o = .epochEnd e' → e' ≠ e)
    (hkey : ((run s ops).fwd op).isSome = true) :
    validatorTarget (run s ops) k = some op := by
  rw [C07_gate_some_iff]
  exact ⟨(C07_active_key_slashable_until_pruned s ops h e k op hk hr hi ho).1,
    run_registered_keep s ops op hreg, hkey⟩

-- the hypotheses of `C07_gate_partial` are met by the history of `Props/C07Slash.lean` (key 1 replaced by
-- operator 0 in epoch 2, operator 0 keeps validating with key 3)
private def pwH : Nat → Int := fun op => if op = 0 then 120 else 100
private def histH : List Op :=
  [.register 0, .register 1, .optIn 0 1 true, .optIn 1 2 true, .epochEnd 1, .endBlock pwH 5, .setKey 0 3]
example :
    let s := run (St.init 2 6 1 2) histH
    1 ∈ s.addrsToPrune 4 ∧ s.rev 1 = some 0 ∧ s.hasInfo 0 = true ∧ s.registered 0 = true ∧
    ((run s [.epochEnd 2, .endBlock pwH 5, .optOut 1]).fwd 0).isSome = true ∧
    validatorTarget (run s [.epochEnd 2, .endBlock pwH 5, .optOut 1]) 1 = some 0 := by decide

end ExoVerif.ConsKeys
