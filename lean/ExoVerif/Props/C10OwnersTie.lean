import ExoVerif.Generated.Facts
import ExoVerif.Model.AuthOwners
/-!
# C10 — tie of Model/AuthOwners.lean to the source (regenerated facts, tools/exofacts/facts_c10owners.go)
-/
namespace ExoVerif.Props.C10OwnersTie
open ExoVerif.Gen

/-- The owner gates are plain membership tests of the sender in the owner list — the STORED one for update, deregistration
and task creation (`AuthOwners.listed`), the argument's for registration — with nothing else in the condition: no helper,
no special case for an empty or missing list. -/
theorem C10_tie_owner_gate_conditions :
    avsOwnerGateConds =
      [("Precompile.RegisterAVS", "!slices.Contains(avsParams.AvsOwnerAddress, avsParams.CallerAddress)"),
       ("Precompile.UpdateAVS", "!slices.Contains(previousAVSInfo.Info.AvsOwnerAddress, avsParams.CallerAddress)"),
       ("Keeper.UpdateAVSInfo", "!slices.Contains(avsInfo.Info.AvsOwnerAddress, params.CallerAddress)"),
       ("Keeper.CreateAVSTask", "!slices.Contains(avsInfo.AvsOwnerAddress, params.CallerAddress)"),
       ("Precompile.GetAVSParamsFromInputs", "!ok || avsOwnerAddress == nil")] ∧
    avsOwnerListHelpers = [] := by decide

/-- The writes of the owner list (`AuthOwners.step`): registration stores the argument's list, an update replaces the
stored list whenever the parameter is non-nil — and the precompile always hands over a `make`d (non-nil) slice, so an
empty `string[]` empties the stored list. -/
theorem C10_tie_owner_list_writes :
    avsOwnerListWrites =
      [("Keeper.UpdateAVSInfo", "literal : AvsOwnerAddress: params.AvsOwnerAddress"),
       ("Keeper.UpdateAVSInfo", "if params.AvsOwnerAddress != nil : avs.AvsOwnerAddress = params.AvsOwnerAddress"),
       ("Precompile.GetAVSParamsFromInputs", "exoAddresses := make([]string, len(avsOwnerAddress))"),
       ("Precompile.GetAVSParamsFromInputs", "if  : avsParams.AvsOwnerAddress = exoAddresses"),
       ("Precompile.GetAVSParamsFromUpdateInputs", "exoAddresses := make([]string, len(avsOwnerAddress))"),
       ("Precompile.GetAVSParamsFromUpdateInputs", "if  : avsParams.AvsOwnerAddress = exoAddresses")] := by decide

end ExoVerif.Props.C10OwnersTie
