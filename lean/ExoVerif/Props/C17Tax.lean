import ExoVerif.Props.C17Params
/-!
# C17 — the community tax in force is always a fraction (repair of F-17c)

`AllocateTokens` multiplies the collected fees by `1 - CommunityTax`. Before commit fb3f03d x/feedistribution
`MsgUpdateParams` stored ANY community tax (`Params.Validate` was `return nil` and the handler did not call it): with a
tax above 1 the fee multiplier is negative, with a negative tax it exceeds the collected fees, and `DecCoins.Sub`
panics inside BeginBlock at the next distribution-epoch end (chain halt, finding F-17c). The repaired handler refuses
a tax outside [0, 1] (`Model/DistributionParams.lean: distrTaxOutOfRange`, tied to the Go guard by
`C17_tie_distrTaxGuard`).

* (a) `C17_tax_accepted_in_unit_interval`: every ACCEPTED update stores a tax in [0, 1];
  `C17_hist_tax_in_unit_interval`: by induction over histories (`runOps`) from a state whose tax is in [0, 1], the tax in
  force is in [0, 1] after every history; `C17_hist_every_block_tax_in_unit_interval`: every block of the history ran under
  such a tax.
* (b) `C17_tax_fee_multiplier_bounds`, `C17_tax_portion_bounds`: with a tax in [0, 1] the fee multiplier lies between 0
  and the collected fees and every validator's portion between 0 and its power-proportional share of the collected
  fees; `C17_tax_block_no_halt`: a block whose view of the validators is sane (powers ≥ 0 adding up to at most the
  total, rates in [0,1], staker powers ≥ 0) does not take the negative-coin halt, whatever notifications it delivers;
  `C17_hist_no_halt`: NO history of parameter-update messages (accepted or refused, any tax, any identifier), non-negative
  fee income and sane blocks halts, from any state with a tax in [0,1], valid mint parameters and a non-negative fee
  collector. The tax hypothesis of `C17_no_halt` is thereby discharged for everything governance can do.
* (c) regression: with the handler as it was (`distrUpdateParamsPreFix`) a tax of 10^18+1 (and of −1) is stored and the
  next distribution-epoch end with fees halts (`C17_regression_F17c_…`); the repaired handler refuses both on the same
  history and the block goes through.

What is NOT covered: the genesis state. `InitGenesis` (keeper/genesis.go) stores the genesis params without calling
`Params.Validate`; `GenesisState.Validate` (called by `validate-genesis` only) does call it. The theorems therefore
start from a state whose tax is in [0, 1] (hypothesis `TaxInUnit h.params.distr.tax`).
-/
namespace ExoVerif.Distr
open ExoVerif ExoVerif.KV ExoVerif.Epochs

/-- the community tax is a fraction: raw LegacyDec value in [0, 10^18] -/
def TaxInUnit (t : Int) : Prop := 0 ≤ t ∧ t ≤ PREC

instance (t : Int) : Decidable (TaxInUnit t) := by unfold TaxInUnit; infer_instance

/-! ## (a) what the repaired handler stores -/

/-- the guard of Params.Validate is exactly "outside [0, 1]" (a nil tax passes and is stored as zero) -/
theorem C17_tax_guard_iff (t : Int) : distrTaxOutOfRange (some t) = false ↔ TaxInUnit t := by
  simp only [distrTaxOutOfRange, TaxInUnit, Bool.or_eq_false_iff, decide_eq_false_iff_not]
  omega

theorem C17_tax_guard_nil : distrTaxOutOfRange none = false ∧ TaxInUnit (DistrMsg.stored { id := "", tax := none }).tax := by
  decide

/-- Every accepted x/feedistribution MsgUpdateParams stores a community tax in [0, 1] — whatever the previous
parameters, the identifier and the known epochs are. -/
theorem C17_tax_accepted_in_unit_interval (known : String → Bool) (prev : DistrParams) (m : DistrMsg) (dp : DistrParams)
    (h : distrUpdateParams known prev m = .ok dp) : TaxInUnit dp.tax ∧ dp = m.stored := by
  unfold distrUpdateParams at h
  split at h
  · cases h
  · rename_i hv
    split at h
    · cases h
    · cases h
      refine ⟨?_, rfl⟩
      simp only [DistrMsg.valid, Bool.not_not, Bool.not_eq_true] at hv
      cases ht : m.tax with
      | none => simp only [DistrMsg.stored, ht, Option.getD_none]; decide
      | some t =>
        rw [ht] at hv
        simpa only [DistrMsg.stored, ht, Option.getD_some] using (C17_tax_guard_iff t).1 hv

/-- … on either path (message of a transaction, or the handler called directly) -/
theorem C17_tax_delivered_in_unit_interval (viaTx : Bool) (known : String → Bool) (prev : DistrParams) (m : DistrMsg)
    (dp : DistrParams) (h : distrDeliver viaTx known prev m = .ok dp) : TaxInUnit dp.tax := by
  rw [C17_params_distr_deliver_eq] at h
  exact (C17_tax_accepted_in_unit_interval known prev m dp h).1

/-- a tax outside [0, 1] is refused before anything else is looked at, and nothing is written -/
theorem C17_tax_outside_refused (viaTx : Bool) (es : List EpochInfo) (p : Params) (id : String) (t : Int)
    (h : ¬ TaxInUnit t) :
    distrDeliver viaTx (knownId es) p.distr { id := id, tax := some t } = .error .taxOutOfRange ∧
    applyDistr viaTx es p { id := id, tax := some t } = p := by
  have hg : distrTaxOutOfRange (some t) = true := by
    cases hh : distrTaxOutOfRange (some t) with
    | true => rfl
    | false => exact absurd ((C17_tax_guard_iff t).1 hh) h
  refine ⟨?_, C17_params_refused_changes_nothing viaTx es p _ (Or.inl hg)⟩
  rw [C17_params_distr_deliver_eq]
  exact (C17_params_distr_update_spec (knownId es) p.distr _).1 hg

/-- one step of a history keeps the tax in force in [0, 1] -/
theorem C17_tax_step_keeps (native : String) (h h' : HS) (op : HOp) (h0 : TaxInUnit h.params.distr.tax)
    (hs : stepOp native h op = some h') : TaxInUnit h'.params.distr.tax := by
  cases op with
  | mintParams viaTx m =>
    simp only [stepOp, Option.some.injEq] at hs
    subst hs
    simp only [applyMint]
    split <;> exact h0
  | distrParams viaTx m =>
    simp only [stepOp, Option.some.injEq] at hs
    subst hs
    simp only [applyDistr]
    split
    · rename_i dp hd
      exact C17_tax_delivered_in_unit_interval viaTx _ _ m dp hd
    · exact h0
  | fee a =>
    simp only [stepOp, Option.some.injEq] at hs
    subst hs
    exact h0
  | block b =>
    rw [(stepOp_block native h h' b hs).1]
    exact h0

/-- The tax in force is in [0, 1] after EVERY history of parameter-update messages (any tax, any identifier, in a
transaction or not, accepted or refused), fee income and blocks that starts with a tax in [0, 1] — so is the tax the
distribution hook reads (`cfgOf`). -/
theorem C17_hist_tax_in_unit_interval (native : String) :
    ∀ (ops : List HOp) (h h' : HS), TaxInUnit h.params.distr.tax → runOps native h ops = some h' →
      TaxInUnit h'.params.distr.tax ∧ TaxInUnit (cfgOf native h'.params).tax := by
  intro ops
  induction ops with
  | nil =>
    intro h h' h0 hr
    simp only [runOps, Option.some.injEq] at hr
    subst hr
    exact ⟨h0, h0⟩
  | cons op rest ih =>
    intro h h' h0 hr
    simp only [runOps] at hr
    split at hr
    · rename_i h1 hs
      exact ih h1 h' (C17_tax_step_keeps native h h1 op h0 hs) hr
    · cases hr

/-- … and every block of the history ran under a tax in [0, 1] (the per-block configurations of `traceOf`, through
which `C17_params_ops_as_blocks` reads an op history as a block history) -/
theorem C17_hist_every_block_tax_in_unit_interval (native : String) :
    ∀ (ops : List HOp) (p : Params) (es : List EpochInfo) (f : Int), TaxInUnit p.distr.tax →
      ∀ x ∈ traceOf native p es f ops, TaxInUnit x.1.tax := by
  intro ops
  induction ops with
  | nil => intro p es f _ x hx; simp [traceOf] at hx
  | cons op rest ih =>
    intro p es f h0 x hx
    cases op with
    | mintParams viaTx m =>
      simp only [traceOf] at hx
      refine ih _ es f ?_ x hx
      simp only [applyMint]
      split <;> exact h0
    | distrParams viaTx m =>
      simp only [traceOf] at hx
      refine ih _ es f ?_ x hx
      simp only [applyDistr]
      split
      · rename_i dp hd
        exact C17_tax_delivered_in_unit_interval viaTx _ _ m dp hd
      · exact h0
    | fee a =>
      simp only [traceOf] at hx
      exact ih p es (f + a) h0 x hx
    | block b =>
      simp only [traceOf, List.mem_cons] at hx
      rcases hx with hx | hx
      · subst hx; exact h0
      · exact ih p _ 0 h0 x hx

/-! ## (b) with a tax in [0, 1] the distribution step does not take the negative-coin halt -/

/-- the fee multiplier `fees × (1 − tax)` lies between 0 and the collected fees -/
theorem C17_tax_fee_multiplier_bounds (fees tax : Int) (hf : 0 ≤ fees) (ht : TaxInUnit tax) :
    0 ≤ feeMultiplier (fees * PREC) tax ∧ feeMultiplier (fees * PREC) tax ≤ fees * PREC :=
  feeMultiplier_bounds (fees * PREC) tax (Int.mul_nonneg hf (Int.le_of_lt PREC_pos)) ht.1 ht.2

/-- every validator's portion lies between 0 and its power-proportional share of the COLLECTED FEES
(portion × total ≤ fees × power): none is negative, none exceeds what was collected -/
theorem C17_tax_portion_bounds (fees tax total power : Int) (hf : 0 ≤ fees) (ht : TaxInUnit tax)
    (hp : 0 ≤ power) (htot : 0 < total) :
    0 ≤ valReward (feeMultiplier (fees * PREC) tax) total power ∧
    valReward (feeMultiplier (fees * PREC) tax) total power * total ≤ fees * PREC * power := by
  obtain ⟨f0, f1⟩ := C17_tax_fee_multiplier_bounds fees tax hf ht
  obtain ⟨a, b, _⟩ := valReward_bounds _ total power f0 hp htot
  exact ⟨a, Int.le_trans b (Int.mul_le_mul_of_nonneg_right f1 hp)⟩

/-- a block's view of the validators as the chain produces it -/
def SaneBlock (b : BlockIn) : Prop := 0 ≤ b.total ∧ (∀ v ∈ b.vals, SaneVal v) ∧ foundPower b.vals ≤ b.total

/-- one notification: no halt, and the fee collector stays non-negative -/
theorem onEpochEnd_no_halt (c : Cfg) (s : St) (id : String) (total : Int) (vals : List ValIn)
    (hr : 0 ≤ c.reward) (ht : TaxInUnit c.tax) (hfc : 0 ≤ s.fc) (ht0 : 0 ≤ total)
    (hv : ∀ v ∈ vals, SaneVal v) (hsum : foundPower vals ≤ total) :
    ∃ s', onEpochEnd c s id total vals = some s' ∧ 0 ≤ s'.fc := by
  have hsome : (onEpochEnd c s id total vals).isSome = true := by
    unfold onEpochEnd
    simp only []
    by_cases hd : (id == c.distrId) = true
    · simp only [hd, if_true]
      have := C17_no_halt s total c.tax vals hfc ht0 ht.1 ht.2 hv hsum
      cases ha : allocateTokens s total c.tax vals with
      | none => rw [ha] at this; simp at this
      | some s1 => rfl
    · simp only [hd, Bool.false_eq_true, if_false]
      rfl
  cases hh : onEpochEnd c s id total vals with
  | none => rw [hh] at hsome; simp at hsome
  | some s' =>
    refine ⟨s', rfl, ?_⟩
    obtain ⟨e1, _, _⟩ := onEpochEnd_sweep c s id total vals s' hh
    have hm : 0 ≤ mintedBy c id := by unfold mintedBy; split <;> omega
    rw [e1]
    split <;> omega

/-- all notifications of one block -/
theorem C17_tax_events_no_halt (c : Cfg) (total : Int) (vals : List ValIn)
    (hr : 0 ≤ c.reward) (ht : TaxInUnit c.tax) (ht0 : 0 ≤ total)
    (hv : ∀ v ∈ vals, SaneVal v) (hsum : foundPower vals ≤ total) :
    ∀ (evs : List Ev) (s : St), 0 ≤ s.fc → ∃ s', onEvents c total vals evs s = some s' ∧ 0 ≤ s'.fc := by
  intro evs
  induction evs with
  | nil => intro s hfc; exact ⟨s, rfl, hfc⟩
  | cons ev rest ih =>
    intro s hfc
    cases ev with
    | epochStart id n => simp only [onEvents]; exact ih s hfc
    | epochEnd id n =>
      obtain ⟨s1, h1, hfc1⟩ := onEpochEnd_no_halt c s id total vals hr ht hfc ht0 hv hsum
      simp only [onEvents, h1]
      exact ih s1 hfc1

/-- With a community tax in [0, 1] (and a non-negative reward and fee collector) a block with a sane view of the
validators does not halt — whatever the block time, the epoch infos and the notifications delivered are. -/
theorem C17_tax_block_no_halt (c : Cfg) (es : List EpochInfo) (s : St) (b : BlockIn)
    (hr : 0 ≤ c.reward) (ht : TaxInUnit c.tax) (hfc : 0 ≤ s.fc) (hb : SaneBlock b) :
    ∃ s', (block c es s b).2.2 = some s' ∧ 0 ≤ s'.fc := by
  simp only [block]
  exact C17_tax_events_no_halt c b.total b.vals hr ht hb.1 hb.2.1 hb.2.2 _ s hfc

/-- the ops a chain can see: non-negative fee income, blocks with a sane view; parameter-update messages are
arbitrary -/
def SaneOp : HOp → Prop
  | .fee a => 0 ≤ a
  | .block b => SaneBlock b
  | _ => True

/-- what every history keeps: tax in [0, 1], valid mint parameters, non-negative fee collector -/
def TaxInv (h : HS) : Prop := TaxInUnit h.params.distr.tax ∧ h.params.mint.valid = true ∧ 0 ≤ h.st.fc

theorem applyMint_valid (viaTx : Bool) (es : List EpochInfo) (p : Params) (m : MintMsg) (hp : p.mint.valid = true) :
    (applyMint viaTx es p m).mint.valid = true := by
  simp only [applyMint]
  split
  · rename_i mp hd
    simp only [mintDeliver] at hd
    split at hd
    · cases hd
    · obtain ⟨mp', e, hv, _⟩ := C17_params_mint_update_spec (knownId es) p.mint m hp
      rw [e] at hd
      cases hd
      exact hv
  · exact hp

theorem cfgOf_reward_nonneg (native : String) (p : Params) (hp : p.mint.valid = true) : 0 ≤ (cfgOf native p).reward := by
  simp only [MintParams.valid, Bool.and_eq_true, decide_eq_true_eq] at hp
  simp only [cfgOf]
  split
  · exact hp.1.2
  · omega

theorem TaxInv_step (native : String) (h : HS) (op : HOp) (hi : TaxInv h) (ho : SaneOp op) :
    ∃ h', stepOp native h op = some h' ∧ TaxInv h' := by
  obtain ⟨i1, i2, i3⟩ := hi
  cases op with
  | mintParams viaTx m =>
    refine ⟨_, rfl, ?_, applyMint_valid viaTx h.es h.params m i2, i3⟩
    exact C17_tax_step_keeps native h _ (.mintParams viaTx m) i1 rfl
  | distrParams viaTx m =>
    refine ⟨_, rfl, C17_tax_step_keeps native h _ (.distrParams viaTx m) i1 rfl, ?_, i3⟩
    simp only [applyDistr]
    split <;> exact i2
  | fee a =>
    simp only [SaneOp] at ho
    exact ⟨_, rfl, i1, i2, by simp only []; omega⟩
  | block b =>
    simp only [SaneOp] at ho
    obtain ⟨s', e, hfc⟩ := C17_tax_block_no_halt (cfgOf native h.params) h.es h.st b
      (cfgOf_reward_nonneg native h.params i2) i1 i3 ho
    simp only [stepOp]
    generalize block (cfgOf native h.params) h.es h.st b = r at e
    obtain ⟨es', evs, os⟩ := r
    simp only [] at e
    subst e
    exact ⟨_, rfl, i1, i2, hfc⟩

/-- NO HALT over histories: from a state with a community tax in [0, 1], valid mint parameters and a non-negative
fee collector, no history of parameter-update messages of either module (arbitrary fields: any tax, any identifier,
any reward or denom; in a transaction or not), non-negative fee income and blocks with a sane view of the validators
makes BeginBlock panic in the distribution or mint hook — and the invariant holds again at the end. -/
theorem C17_hist_no_halt (native : String) :
    ∀ (ops : List HOp) (h : HS), TaxInv h → (∀ op ∈ ops, SaneOp op) →
      ∃ h', runOps native h ops = some h' ∧ TaxInv h' := by
  intro ops
  induction ops with
  | nil => intro h hi _; exact ⟨h, rfl, hi⟩
  | cons op rest ih =>
    intro h hi ho
    obtain ⟨h1, e1, i1⟩ := TaxInv_step native h op hi (ho op (by simp))
    simp only [runOps, e1]
    exact ih h1 i1 (fun o hm => ho o (by simp [hm]))

/-! ## (c) regression: the handler before the repair (F-17c) -/

/-- an op history under the PRE-FIX feedistribution handler (everything else as it is) -/
def stepOpPreFix (native : String) (h : HS) : HOp → Option HS
  | .distrParams _ m =>
    some { h with params := match distrUpdateParamsPreFix (knownId h.es) h.params.distr m with
                            | .ok dp => { h.params with distr := dp }
                            | .error _ => h.params }
  | op => stepOp native h op

def runOpsPreFix (native : String) : HS → List HOp → Option HS
  | h, [] => some h
  | h, op :: rest =>
    match stepOpPreFix native h op with
    | some h' => runOpsPreFix native h' rest
    | none => none

private def mkE (id : String) (dur : Int) : EpochInfo :=
  { identifier := id, startTime := 0, duration := dur, currentEpoch := 1, currentEpochStartTime := 0,
    epochCountingStarted := true, currentEpochStartHeight := 1 }
private def es0 : List EpochInfo := [mkE "day" 86400, mkE "hour" 3600, mkE "minute" 60]
private def p0 : Params :=
  { distr := { id := "minute", tax := 0 }, mint := { denom := "hua", reward := 0, id := "day" } }
private def st0 : St :=
  { supply := 5000, fc := 0, mint := 0, distr := 0,
    pool := { community := 0, commission := [], rewards := [], outstanding := [] } }
private def h0 : HS := { params := p0, es := es0, st := st0 }
private def valsP : List ValIn :=
  [{ op := "a", power := 100, rate := 0, found := true, stakers := [("sa", 100 * PREC)] },
   { op := "b", power := 101, rate := PREC / 20, found := true, stakers := [("sb", 101 * PREC)] }]
private def blk (bt h : Int) : HOp := .block { bt := bt, h := h, total := 201, vals := valsP }
/-- community tax 1.000000000000000001 -/
private def taxAbove : DistrMsg := { id := "minute", tax := some (PREC + 1) }
/-- community tax −0.000000000000000001 -/
private def taxBelow : DistrMsg := { id := "minute", tax := some (-1) }
/-- community tax −0.5 -/
private def taxMinusHalf : DistrMsg := { id := "minute", tax := some (-(PREC / 2)) }
/-- the directed history of the harness (scenario-F17c): the update, 1000 base units of fees, the end of minute
epoch 1 -/
private def opsF17c (m : DistrMsg) : List HOp := [.distrParams true m, .fee 1000, blk 61 2]

/-- F-17c before the repair: a community tax of 10^18+1 (raw) is accepted and stored as it is … -/
theorem C17_regression_F17c_prefix_stores_tax_above_one :
    distrUpdateParamsPreFix (knownId es0) p0.distr taxAbove = .ok { id := "minute", tax := PREC + 1 } ∧
    ¬ TaxInUnit (PREC + 1) ∧
    (runOpsPreFix "hua" h0 [.distrParams true taxAbove]).map (fun h => h.params.distr.tax) = some (PREC + 1) := by
  decide

/-- … and the next distribution-epoch end with fees halts BeginBlock (negative fee multiplier: the first
validator's portion is negative, `tokens.Sub(commission)` / `remaining.Sub` panic) -/
theorem C17_regression_F17c_prefix_halts : runOpsPreFix "hua" h0 (opsF17c taxAbove) = none := by decide

/-- the same with a negative tax: −10^-18 is stored (the truncation of the portions still hides it: no halt with
these fees), with −1/2 the portions add up to 1.5 × the collected fees and `remaining.Sub` panics -/
theorem C17_regression_F17c_prefix_negative_tax_halts :
    distrUpdateParamsPreFix (knownId es0) p0.distr taxBelow = .ok { id := "minute", tax := -1 } ∧
    (runOpsPreFix "hua" h0 (opsF17c taxBelow)).map (fun h => h.params.distr.tax) = some (-1) ∧
    distrUpdateParamsPreFix (knownId es0) p0.distr taxMinusHalf = .ok { id := "minute", tax := -(PREC / 2) } ∧
    runOpsPreFix "hua" h0 (opsF17c taxMinusHalf) = none := by decide

/-- the statement (a) fails for the pre-fix handler: the regression discriminates -/
theorem C17_regression_F17c_prefix_violates_tax_bound :
    ¬ (∀ (known : String → Bool) (prev : DistrParams) (m : DistrMsg) (dp : DistrParams),
        distrUpdateParamsPreFix known prev m = .ok dp → TaxInUnit dp.tax) := by
  intro h
  exact absurd (h (knownId es0) p0.distr taxAbove _ rfl) (by decide)

/-- the repaired handler on the same histories: both updates refused (in a transaction and called directly), the
parameters stay, the block goes through and books exactly what moved -/
theorem C17_regression_F17c_fixed_refuses :
    distrDeliver true (knownId es0) p0.distr taxAbove = .error .taxOutOfRange ∧
    distrDeliver false (knownId es0) p0.distr taxAbove = .error .taxOutOfRange ∧
    distrDeliver true (knownId es0) p0.distr taxBelow = .error .taxOutOfRange ∧
    distrDeliver false (knownId es0) p0.distr taxBelow = .error .taxOutOfRange ∧
    distrDeliver true (knownId es0) p0.distr taxMinusHalf = .error .taxOutOfRange ∧
    (runOps "hua" h0 (opsF17c taxAbove)).map (fun h => (h.params.distr.tax, h.st.fc, h.st.distr, claims h.st.pool)) =
      some (0, 0, 1000, 1000 * PREC) ∧
    (runOps "hua" h0 (opsF17c taxMinusHalf)).map (fun h => (h.params.distr.tax, h.st.fc, h.st.distr, claims h.st.pool)) =
      some (0, 0, 1000, 1000 * PREC) := by decide

/-! ## non-vacuity -/

-- the boundary values: 0 and 1 are fractions, −1 and 1.000000000000000001 are not
example : TaxInUnit 0 ∧ TaxInUnit PREC ∧ TaxInUnit (PREC / 50) ∧ ¬ TaxInUnit (-1) ∧ ¬ TaxInUnit (PREC + 1) ∧
    ¬ TaxInUnit (2 * PREC) := by decide
example : distrTaxOutOfRange (some 0) = false ∧ distrTaxOutOfRange (some PREC) = false ∧
    distrTaxOutOfRange (some (PREC + 1)) = true ∧ distrTaxOutOfRange (some (-1)) = true ∧
    distrTaxOutOfRange none = false := by decide
-- an accepted update at the upper boundary (tax 100 %) and a nil tax (stored as zero)
example : distrUpdateParams (knownId es0) p0.distr { id := "hour", tax := some PREC } = .ok { id := "hour", tax := PREC } ∧
    distrUpdateParams (knownId es0) p0.distr { id := "hour", tax := none } = .ok { id := "hour", tax := 0 } := by decide
-- the order of the checks: a tax out of range AND an unknown identifier is refused for the tax
example : distrUpdateParams (knownId es0) p0.distr { id := "fortnight", tax := some (2 * PREC) } = .error .taxOutOfRange ∧
    distrUpdateParams (knownId es0) p0.distr { id := "fortnight", tax := some PREC } = .error .epochNotFound := by decide
-- the hypotheses of C17_hist_no_halt are met by a concrete history with accepted and refused updates of both
-- modules, fee income and three sane blocks (two of them closing a distribution epoch under a tax of 100 % / 2 %)
private def opsMixed : List HOp :=
  [.fee 1000, .distrParams true { id := "minute", tax := some PREC }, blk 61 2, .distrParams false taxAbove,
   .mintParams true { denom := "hua", reward := some 20, id := "minute" }, .fee 7,
   .distrParams true { id := "minute", tax := some (PREC / 50) }, blk 122 3, .distrParams true taxBelow, blk 130 4]
example : TaxInv h0 := ⟨by decide, by decide, by decide⟩
example : SaneBlock { bt := 61, h := 2, total := 201, vals := valsP } := by
  refine ⟨by decide, ?_, by decide⟩
  intro v hv
  simp only [valsP, List.mem_cons, List.mem_nil_iff, or_false] at hv
  rcases hv with hv | hv <;> subst hv <;> refine ⟨by decide, by decide, by decide, ?_⟩ <;>
    intro o ho <;> simp only [List.mem_cons, List.mem_nil_iff, or_false] at ho <;> subst ho <;> decide
example : (runOps "hua" h0 opsMixed).map (fun h => (h.params.distr.tax, h.params.mint.reward, h.st.supply, h.st.fc, h.st.distr)) =
    some (PREC / 50, 20, 5020, 20, 1007) := by decide
-- the portions of the two validators under a tax of 2 %: non-negative, below their shares of the 1000 collected units
example : 0 ≤ valReward (feeMultiplier (1000 * PREC) (PREC / 50)) 201 100 ∧
    valReward (feeMultiplier (1000 * PREC) (PREC / 50)) 201 100 * 201 ≤ 1000 * PREC * 100 :=
  C17_tax_portion_bounds 1000 (PREC / 50) 201 100 (by decide) (by decide) (by decide) (by decide)
-- … and what a tax above 1 does to them (the pre-fix state): a negative multiplier, a negative portion
example : feeMultiplier (1000 * PREC) (PREC + 1) = -1000 ∧ valReward (-1000) 201 100 = -497 := by decide

end ExoVerif.Distr
