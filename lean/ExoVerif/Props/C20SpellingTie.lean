import ExoVerif.Generated.Facts
import ExoVerif.Model.Avs
/-!
# C20 tie: the x/avs keeper files and finds everything of a task contract under the string as handed in

`ExoVerif.Gen.avsTaskAddrKeys` is regenerated from x/avs/keeper/task.go and avs.go on every run
(tools/exofacts/facts_avs_keys.go): every operand list of `assetstype.GetJoinedStoreKey` (task store, result
store, challenge store), the grouping key of `GroupTasksByIDAndAddress` and the comparisons of
`GetAVSInfoByTaskAddress`. The model (`Model/Avs.lean`: `KV.find? s.tasks (i.taskAddr, i.id)`, the result key
`(i.op, i.taskAddr, i.id)`, `avsByTaskAddr`: `p.2.taskAddr == t`, `signersOf`: `p.2.taskAddr == t`) uses the raw
string in each of these places, which is what `Props/C20Spelling.lean` needs: a lookup that canonicalises the
address or folds its case on one side only (`common.HexToAddress(a).String()`, `strings.EqualFold`) while the
other sides keep the raw string changes the generated list and breaks the `rfl`.
The one place that does not use a string handed in from outside is the challenge store writer
(`taskAddr.String()` of a `common.Address`: the precompile's typed argument).
-/
namespace ExoVerif.Avs
open ExoVerif.Gen

theorem C20_tie_task_addr_keys : avsTaskAddrKeys = [
  ("SetTaskInfo", "key", "assetstype.GetJoinedStoreKey(task.TaskContractAddress, strconv.FormatUint(task.TaskId, 10))"),
  ("GetTaskInfo", "key", "assetstype.GetJoinedStoreKey(taskContractAddress, taskID)"),
  ("IsExistTask", "key", "assetstype.GetJoinedStoreKey(taskContractAddress, taskID)"),
  ("SetTaskResultInfo", "key", "assetstype.GetJoinedStoreKey(info.OperatorAddress, info.TaskContractAddress, strconv.FormatUint(info.TaskId, 10))"),
  ("SetTaskResultInfo", "key", "assetstype.GetJoinedStoreKey(info.OperatorAddress, info.TaskContractAddress, strconv.FormatUint(info.TaskId, 10))"),
  ("IsExistTaskResultInfo", "key", "assetstype.GetJoinedStoreKey(operatorAddress, taskContractAddress, strconv.FormatUint(taskID, 10))"),
  ("GetTaskResultInfo", "key", "assetstype.GetJoinedStoreKey(operatorAddress, taskContractAddress, strconv.FormatUint(taskID, 10))"),
  ("GroupTasksByIDAndAddress", "group", "task.TaskContractAddress + \"_\" + strconv.FormatUint(task.TaskId, 10)"),
  ("SetTaskChallengedInfo", "key", "assetstype.GetJoinedStoreKey(operatorAddress, taskAddr.String(), strconv.FormatUint(taskID, 10))"),
  ("IsExistTaskChallengedInfo", "key", "assetstype.GetJoinedStoreKey(operatorAddress, taskContractAddress, strconv.FormatUint(taskID, 10))"),
  ("GetTaskChallengedInfo", "key", "assetstype.GetJoinedStoreKey(operatorAddress, taskContractAddress, strconv.FormatUint(taskID, 10))"),
  ("GetAVSInfoByTaskAddress", "cmp", "taskAddr == \"\""),
  ("GetAVSInfoByTaskAddress", "cmp", "taskAddr == avsInfo.GetTaskAddr()")] := rfl

end ExoVerif.Avs
