import ExoVerif.Props.C02
import ExoVerif.Props.C02Lists
import ExoVerif.Props.C01Inv
import ExoVerif.Proofs.LedgerAccept
import ExoVerif.Proofs.LedgerNst
/-!
# C02, second sentence, on the state machine — fairness between co-delegators in every reachable state

`C02.lean` proves the fairness bounds for the pure conversion functions (`C02_bystander_delegate`,
`C02_bystander_undelegate`: any pool with T ≤ S.raw, any position b ≤ S). Here they are tied to the ledger:

* `posOf s st a o` — the redeemable value of staker `st`'s position in pool (o, a): what `TokensFromShares`
  returns for its share (`C02_posOf_is_tokensFromShares`).
* `C02_fair_delegate_state` / `C02_fair_undelegate_state`: in every state of the C02 invariant `C02Full` (which
  every finite history preserves, `C02_full_reachable`), an ACCEPTED delegation (undelegation) by staker `st`
  to (from) pool (o, a) changes the redeemable value of every OTHER position — another staker of the same
  pool, or any position of any other pool — by at most one base unit (a delegation never lowers it).
* `C02_fair_reachable`: the same after any finite history from a ledger without pools.
* The round-trip clause ("delegates x and, with no slash in between, undelegates everything gets back at most
  x") holds for the immediate round trip (`C02_roundtrip_bounds`); over HISTORIES in which other delegators
  act in between it is false of the code as it is: `C02_roundtrip_history_fails` (finding candidate F-03d,
  same witness as `C03_withdraw_rejected_after_rounding_gain`): after a slash x delegates 1, co-delegators
  leave — each paid the floor of its value, one of them 0 tokens for 1.33·10¹⁸ shares — and x's position is
  worth 2. No single step moves x's position by more than one unit (the theorem above); the steps add up.
-/
namespace ExoVerif.Ledger
open ExoVerif ExoVerif.KV ExoVerif.Dec

def poolAmt (s : L) (o : OID) (a : AID) : Int := (getD s.pools (o, a) zeroPool).amount

/-- redeemable value of the position of `st` in pool (o, a): ⌊share · amount / totalShare⌋ -/
def posOf (s : L) (st : SID) (a : AID) (o : OID) : Int :=
  tok ⟨shareOf s st a o⟩ ⟨poolShare s o a⟩ (poolAmt s o a)

theorem tok_zero_share (S : Dec) (T : Int) : tok ⟨0⟩ S T = 0 := by
  simp [tok, quoTruncate, mulInt, truncateInt, chopTrunc]

/-- `posOf` is what the Go function TokensFromShares returns for the stored rows (pool with shares) -/
theorem C02_posOf_is_tokensFromShares (s : L) (hi : C02Full s) (st : SID) (a : AID) (o : OID) {d : DelegRow}
    {p : Pool} (hd : find? s.deleg (st, a, o) = some d) (hp : find? s.pools (o, a) = some p)
    (hS : p.totalShare.raw ≠ 0) : tokensFromShares d.share p.totalShare p.amount = .ok (posOf s st a o) := by
  have h1 := share_le_total hi.exact.lists.sums hd hp
  have e : posOf s st a o = tok d.share p.totalShare p.amount := by
    unfold posOf shareOf poolShare poolAmt
    rw [getD_of_find _ _ _ _ hd, getD_of_find _ _ _ _ hp]
  rw [e]
  exact C02_tok_is_tokensFromShares d.share p.totalShare p.amount h1 hS

theorem shareOf_le_poolShare {s : L} (hi : SumsInv s) (st : SID) (a : AID) (o : OID) :
    shareOf s st a o ≤ poolShare s o a := by
  have h1 := atP_le_sumP (shAt o a) s.deleg (st, a, o) (shAt_nonneg hi o a)
  rw [atP_getD (shAt o a) s.deleg (st, a, o) zeroDeleg (by simp [shAt, zeroDeleg, Dec.zero])] at h1
  have h2 := hi.share o a
  unfold shareSum at h2
  simp only [shAt, and_self, if_true] at h1
  unfold shareOf
  omega

/-- positions of a state depend on its pools and delegation rows only -/
theorem posOf_congr {s s' : L} (hp : s'.pools = s.pools) (hd : s'.deleg = s.deleg) (st : SID) (a : AID) (o : OID) :
    posOf s' st a o = posOf s st a o := by
  unfold posOf shareOf poolShare poolAmt; rw [hp, hd]

/-- what a matched share move does to somebody else's position: the share is the same, the pool's figures move
only if it is the pool of the move -/
theorem posOf_move {s s' : L} {st : SID} {a : AID} {o : OID} {δ dA : Int} (m : ShareMove s s' st a o δ dA)
    (st2 : SID) (a2 : AID) (o2 : OID) (hne : (st2, a2, o2) ≠ (st, a, o)) :
    posOf s' st2 a2 o2 = tok ⟨shareOf s st2 a2 o2⟩
      ⟨poolShare s o2 a2 + (if a = a2 ∧ o = o2 then δ else 0)⟩
      (poolAmt s o2 a2 + (if a = a2 ∧ o = o2 then dA else 0)) := by
  unfold posOf poolAmt
  obtain ⟨h1, _, h3⟩ := m.poolShare o2 a2
  rw [m.shareOf st2 a2 o2, h1, h3]
  simp [hne]

/-- **C02, fairness, delegation, every state of the invariant**: an accepted delegation of `x` by `st` to pool
(o, a) never lowers and raises by at most one base unit the redeemable value of any other position. -/
theorem C02_fair_delegate_state (s s' : L) (st : SID) (a : AID) (o : OID) (x : Int) (hi : C02Full s)
    (h : delegate s st a o x = .ok s') (st2 : SID) (a2 : AID) (o2 : OID) (hne : (st2, a2, o2) ≠ (st, a, o)) :
    posOf s st2 a2 o2 ≤ posOf s' st2 a2 o2 ∧ posOf s' st2 a2 o2 ≤ posOf s st2 a2 o2 + 1 := by
  obtain ⟨share, s0, s1, f1, f2, f3, f4, c, hx, m, e⟩ := delegate_move h
  obtain ⟨g1, g2, _, _⟩ := appendStaker_frame s1 o a st
  have e0 : ∀ st' a' o', posOf s0 st' a' o' = posOf s st' a' o' := posOf_congr f1 f2
  have e1 : posOf s' st2 a2 o2 = posOf s1 st2 a2 o2 := by rw [e]; exact posOf_congr g1 g2 _ _ _
  have hm := posOf_move m st2 a2 o2 hne
  have hsh0 : shareOf s0 st2 a2 o2 = shareOf s st2 a2 o2 := by unfold shareOf; rw [f2]
  have hps0 : poolShare s0 o2 a2 = poolShare s o2 a2 := by unfold poolShare; rw [f1]
  have hpa0 : poolAmt s0 o2 a2 = poolAmt s o2 a2 := by unfold poolAmt; rw [f1]
  rw [e1, hm, hsh0, hps0, hpa0]
  by_cases hc : a = a2 ∧ o = o2
  · obtain ⟨ea, eo⟩ := hc; subst ea; subst eo
    simp only [and_self, if_true]
    have hsums := hi.exact.lists.sums
    have hb0 := shareOf_nonneg hsums.shNonneg st2 a o
    have hbS := shareOf_le_poolShare hsums st2 a o
    have hT0 : 0 ≤ poolAmt s o a := amount_nonneg hsums.amtNonneg o a
    by_cases hS0 : poolShare s o a = 0
    · -- a pool without shares: the bystander has no share, its position is worth 0 before and after
      have hb : shareOf s st2 a o = 0 := by omega
      unfold posOf
      rw [hb, tok_zero_share, tok_zero_share]; omega
    · have hSpos : 0 < poolShare s o a := by omega
      have hTpos : 0 < poolAmt s o a := by
        have := hi.zero o a
        unfold poolAmt
        by_contra hcon
        have h0 : (getD s.pools (o, a) zeroPool).amount = 0 := by unfold poolAmt at hT0; omega
        exact hS0 (this h0)
      have hprice : poolAmt s o a ≤ poolShare s o a := hi.exact.price o a
      -- the share minted is SharesFromTokens of the stored pool
      have hmint : share = minted ⟨poolShare s o a⟩ x (poolAmt s o a) := by
        unfold calculateShare at c
        split at c
        · rename_i hnone
          exfalso; apply hS0; unfold poolShare; rw [getD_of_none _ _ _ hnone]; rfl
        · rename_i pl hpl
          have eS : poolShare s o a = pl.totalShare.raw := by unfold poolShare; rw [getD_of_find _ _ _ _ hpl]
          have eT : poolAmt s o a = pl.amount := by unfold poolAmt; rw [getD_of_find _ _ _ _ hpl]
          split at c
          · rename_i hz; exfalso; exact hS0 (by rw [eS]; exact hz)
          · unfold sharesFromTokens at c
            split at c
            · rename_i ha0; exfalso; omega
            · injection c with c
              rw [← c, eS, eT]; rfl
      have key := C02_bystander_delegate ⟨poolShare s o a⟩ ⟨shareOf s st2 a o⟩ (poolAmt s o a) x hTpos hprice hx
        hb0 hbS
      rw [hmint]
      unfold posOf
      exact key
  · simp only [hc, if_false, Int.add_zero]
    unfold posOf
    omega

/-- **C02, fairness, undelegation, every state of the invariant**: an accepted undelegation by `st` from pool
(o, a) changes the redeemable value of any other position by at most one base unit, up or down. -/
theorem C02_fair_undelegate_state (s s' : L) (st : SID) (a : AID) (o : OID) (x : Int) (n : Nat) (hash : String)
    (hi : C02Full s) (h : undelegate s st a o x n hash = .ok s') (st2 : SID) (a2 : AID) (o2 : OID)
    (hne : (st2, a2, o2) ≠ (st, a, o)) :
    posOf s' st2 a2 o2 ≤ posOf s st2 a2 o2 + 1 ∧ posOf s st2 a2 o2 ≤ posOf s' st2 a2 o2 + 1 := by
  unfold undelegate at h
  simp only [bind, Except.bind, throw, throwThe, MonadExceptOf.throw] at h
  split at h
  · cases h
  · split at h
    · cases h
    · split at h
      · cases h
      · rename_i share hshare
        split at h
        · cases h
        · rename_i p1 h1
          obtain ⟨s1, removed⟩ := p1
          simp only [] at h
          obtain ⟨s2, m, hpos, ⟨p, hp, hle, hrem⟩, hd⟩ := removeShare_move h1
          have hsums := hi.exact.lists.sums
          have hsums2 : SumsInv s2 := sumsInv_move hsums m
          have e1 : s1.pools = s2.pools ∧ s1.deleg = s2.deleg := by
            split at hd
            · rw [deleteStaker_spec hd]; exact ⟨rfl, rfl⟩
            · rw [hd]; exact ⟨rfl, rfl⟩
          have e' : posOf s' st2 a2 o2 = posOf s2 st2 a2 o2 := by
            unfold setRecord at h
            split at h
            · cases h
            · injection h with h; rw [← h]
              exact posOf_congr (by simp only []; exact e1.1) (by simp only []; exact e1.2) _ _ _
          have hm := posOf_move m st2 a2 o2 hne
          rw [e', hm]
          by_cases hc : a = a2 ∧ o = o2
          · obtain ⟨ea, eo⟩ := hc; subst ea; subst eo
            simp only [and_self, if_true]
            have eS : poolShare s o a = p.totalShare.raw := by unfold poolShare; rw [getD_of_find _ _ _ _ hp]
            have eT : poolAmt s o a = p.amount := by unfold poolAmt; rw [getD_of_find _ _ _ _ hp]
            have hb0 := shareOf_nonneg hsums.shNonneg st2 a o
            have hT0 : 0 ≤ p.amount := hsums.amtNonneg _ _ hp
            -- the bystander's share fits into what is left of the total (ShareInv after the move)
            have hb2 : shareOf s st2 a o ≤ poolShare s o a + -share.raw := by
              have h2 := shareOf_le_poolShare hsums2 st2 a o
              rw [m.shareOf st2 a o, (m.poolShare o a).1] at h2
              simpa [hne] using h2
            by_cases he : p.totalShare.raw = share.raw
            · -- the last share out: nobody else holds a share
              have hb : shareOf s st2 a o = 0 := by omega
              unfold posOf
              rw [hb, tok_zero_share, tok_zero_share]; omega
            · simp only [he, if_false] at hrem
              have hlt : share.raw < p.totalShare.raw := by omega
              have hTpos : 0 < p.amount := by
                by_contra hcon
                have h0 : (getD s.pools (o, a) zeroPool).amount = 0 := by
                  rw [getD_of_find _ _ _ _ hp]; omega
                have := hi.zero o a h0
                omega
              have hprice : p.amount ≤ p.totalShare.raw := by
                have := hi.exact.price o a
                rw [eS] at this
                unfold poolAmt at eT; rw [eT] at this; exact this
              have hr : removed = tok share p.totalShare p.amount := by
                have := C02_tok_is_tokensFromShares share p.totalShare p.amount hle (by omega)
                rw [this] at hrem; injection hrem with hrem; exact hrem.symm
              have hpay := C02_payout_le_pool share p.totalShare p.amount hT0 (le_of_lt hpos) hle (by omega)
              have key := C02_bystander_undelegate p.totalShare ⟨shareOf s st2 a o⟩ share p.amount hTpos hprice
                hpos hlt hb0 (by rw [eS] at hb2; show shareOf s st2 a o ≤ _; omega) hpay.2
              unfold posOf
              rw [eS, eT, hr]
              simpa [Dec.sub, Int.sub_eq_add_neg] using key
          · simp only [hc, if_false, Int.add_zero]
            unfold posOf
            omega

/-- **C02, fairness, over every finite history**: on a ledger grown from one without pools by any finite
interleaving of the ten ledger operations (each issued under `OpOk`), an accepted delegation or undelegation by
one staker changes the redeemable value of any other position by at most one base unit. -/
theorem C02_fair_reachable (s0 : L) (ops : List LOp) (hp : s0.pools = []) (hd : s0.deleg = [])
    (hl : s0.slist = []) (ha : s0.assoc = []) (hok : AllOk s0 ops) (st : SID) (a : AID) (o : OID) (x : Int)
    (st2 : SID) (a2 : AID) (o2 : OID) (hne : (st2, a2, o2) ≠ (st, a, o)) :
    (∀ s', delegate (ops.foldl lstep s0) st a o x = .ok s' →
      posOf (ops.foldl lstep s0) st2 a2 o2 ≤ posOf s' st2 a2 o2 ∧
      posOf s' st2 a2 o2 ≤ posOf (ops.foldl lstep s0) st2 a2 o2 + 1) ∧
    (∀ n hash s', undelegate (ops.foldl lstep s0) st a o x n hash = .ok s' →
      posOf s' st2 a2 o2 ≤ posOf (ops.foldl lstep s0) st2 a2 o2 + 1 ∧
      posOf (ops.foldl lstep s0) st2 a2 o2 ≤ posOf s' st2 a2 o2 + 1) := by
  have hfull := C02_full_reachable s0 ops (c02Full_empty s0 hp hd hl ha) hok
  exact ⟨fun s' h => C02_fair_delegate_state _ s' st a o x hfull h st2 a2 o2 hne,
    fun n hash s' h => C02_fair_undelegate_state _ s' st a o x n hash hfull h st2 a2 o2 hne⟩

/-! ## the first sentence with the weakest per-operation assumptions

`C02_clauses_reachable` / `C02_list_exact_reachable` assume `AllOk`: besides a fresh nonce and a slash proportion
in [0,1], `OpOk` asks the STATE to have non-negative pools and records when a slash is issued. That is not an
assumption about the environment: it follows from the non-negativity invariant `NN` of C01, which every history
preserves. (The `_partial` versions `C02_list_exact_step_partial` / `C02_list_exact_reachable_partial` carry the
hypothesis `MintsPos` - an accepted delegation mints a non-zero share; it is discharged in `C02_list_exact_step`
by `PriceInv`, TotalAmount ≤ TotalShare.raw, which is itself preserved by every operation: `C02_price_step`.) -/

theorem allOk_of_allOk0 (s : L) (ops : List LOp) (hn : NN s) (h : AllOk0 s ops) : AllOk s ops := by
  induction ops generalizing s with
  | nil => trivial
  | cons op rest ih => exact ⟨opOk_of_nn hn h.1, ih (lstep s op) (C01_nonneg_step s op hn h.1) h.2⟩

/-- **C02, first sentence, from genesis**: on a ledger grown from a fresh one by any finite history of the ten
ledger operations (undelegations with fresh nonces, slash proportions in [0,1] - nothing assumed about any state),
all four clauses hold and the staker list of every pool is exactly the set of its non-zero share holders. -/
theorem C02_clauses_from_genesis (s : L) (ops : List LOp) (hf : Fresh s) (hl : s.slist = []) (ha : s.assoc = [])
    (hok : AllOk0 s ops) :
    C02Full (ops.foldl lstep s) ∧
    (∀ o a st, st ∈ getD (ops.foldl lstep s).slist (o, a) [] ↔
      (getD (ops.foldl lstep s).deleg (st, a, o) zeroDeleg).share.raw ≠ 0) := by
  have h := C02_full_reachable s ops (c02Full_empty s hf.pools hf.deleg hl ha) (allOk_of_allOk0 s ops hf.nn hok)
  exact ⟨h, h.exact.listInv⟩

/-! ## the round trip over histories -/

def LOp.isSlash : LOp → Bool
  | .slash _ _ _ => true
  | _ => false

/-- a delegation or undelegation by staker `st` -/
def LOp.movesSharesOf (st : SID) : LOp → Bool
  | .delegate st' _ _ _ => st' == st
  | .undelegate st' _ _ _ _ _ => st' == st
  | _ => false

/-- the round-trip clause as a statement about histories: a staker without a position in pool (o, a) delegates
`x`; whatever the other stakers do afterwards - no slash, and the staker itself neither delegates nor
undelegates in between - its position is worth at most `x`. -/
def C02_roundtrip_history : Prop :=
  ∀ (s0 : L) (pre mid : List LOp) (st : SID) (a : AID) (o : OID) (x : Int),
    Fresh s0 → AllOk0 s0 (pre ++ LOp.delegate st a o x :: mid) →
    shareOf (pre.foldl lstep s0) st a o = 0 →
    (mid.all fun op => !op.isSlash && !op.movesSharesOf st) = true →
    posOf ((pre ++ LOp.delegate st a o x :: mid).foldl lstep s0) st a o ≤ x

private def r0 : L :=
  { height := 1, unbonding := 2, totals := [("A", 0)], operators := ["o1"], clientChains := ["0x65"],
    stakers := [], pools := [], deleg := [], slist := [], assoc := [], recs := [], sidx := [], pidx := [],
    holds := [], bal := [], escrow := 0, gDep := [], gWd := [], gSlashed := [] }

private def preR : List LOp :=
  [.deposit "z_0x65" "A" 4, .deposit "x_0x65" "A" 1, .deposit "y_0x65" "A" 2,
   .delegate "z_0x65" "A" "o1" 4, .slash "o1" 1 ⟨250000000000000000⟩]

private def midR : List LOp :=
  [.delegate "y_0x65" "A" "o1" 2, .undelegate "y_0x65" "A" "o1" 1 1 "0xh1",
   .undelegate "y_0x65" "A" "o1" 1 2 "0xh2", .undelegate "z_0x65" "A" "o1" 3 3 "0xh3"]

private theorem unitP_q : UnitP ⟨250000000000000000⟩ := by unfold UnitP; decide

private theorem roundR_ok : AllOk0 r0 (preR ++ LOp.delegate "x_0x65" "A" "o1" 1 :: midR) :=
  ⟨trivial, trivial, trivial, trivial, unitP_q, trivial, trivial,
   freshNonce_of_all (by decide), freshNonce_of_all (by decide), freshNonce_of_all (by decide), trivial⟩

/-- x delegates 1 into a pool at 3 tokens : 4·10¹⁸ shares; y joins and leaves in two requests of "1" (paid 0 and
1), z leaves with 3: x's 1.33·10¹⁸ shares are now the whole pool of 2 tokens. -/
theorem C02_roundtrip_history_witness :
    posOf ((preR ++ LOp.delegate "x_0x65" "A" "o1" 1 :: midR).foldl lstep r0) "x_0x65" "A" "o1" = 2 ∧
    find? ((preR ++ LOp.delegate "x_0x65" "A" "o1" 1 :: midR).foldl lstep r0).pools ("o1", "A")
      = some ⟨2, 4, ⟨1333333333333333333⟩, ⟨0⟩⟩ := by
  constructor <;> decide

theorem C02_roundtrip_history_fails : ¬ C02_roundtrip_history := by
  intro hfull
  have h := hfull r0 preR midR "x_0x65" "A" "o1" 1
    ⟨rfl, rfl, rfl, rfl, rfl, rfl, by decide, by decide, by decide, rfl, rfl, rfl⟩ roundR_ok (by decide) (by decide)
  rw [C02_roundtrip_history_witness.1] at h
  exact absurd h (by decide)

/-! ## non-vacuity of the fairness theorems

The state after `preR` + x's and y's delegations (pool 6 tokens : 7.99…·10¹⁸ shares, three delegators) is
reachable, hence satisfies `C02Full`; y's undelegation of "1" is accepted and pays 0 tokens for 1.33·10¹⁸
shares: z's position moves from 3 to 3, x's from 0 to 1 - within one unit, as the theorem says. -/

private def fairOps : List LOp := preR ++ [.delegate "x_0x65" "A" "o1" 1, .delegate "y_0x65" "A" "o1" 2]

private theorem fairOps_ok : AllOk r0 fairOps := by
  refine ⟨trivial, trivial, trivial, trivial, ⟨unitP_q, ?_, ?_⟩, trivial, trivial, trivial⟩
  · unfold RecsNonneg; decide
  · unfold PoolsNonneg; decide

example : C02Full (fairOps.foldl lstep r0) :=
  C02_full_reachable r0 fairOps (c02Full_empty r0 rfl rfl rfl rfl) fairOps_ok

example : posOf (fairOps.foldl lstep r0) "z_0x65" "A" "o1" = 3 ∧ posOf (fairOps.foldl lstep r0) "x_0x65" "A" "o1" = 0 ∧
    posOf (fairOps.foldl lstep r0) "y_0x65" "A" "o1" = 1 := by decide

example : ∀ s', undelegate (fairOps.foldl lstep r0) "y_0x65" "A" "o1" 1 1 "0xh1" = .ok s' →
    posOf s' "x_0x65" "A" "o1" ≤ posOf (fairOps.foldl lstep r0) "x_0x65" "A" "o1" + 1 ∧
    posOf (fairOps.foldl lstep r0) "x_0x65" "A" "o1" ≤ posOf s' "x_0x65" "A" "o1" + 1 :=
  ((C02_fair_reachable r0 fairOps rfl rfl rfl rfl fairOps_ok "y_0x65" "A" "o1" 1 "x_0x65" "A" "o1" (by decide)).2
    1 "0xh1")

example : (match undelegate (fairOps.foldl lstep r0) "y_0x65" "A" "o1" 1 1 "0xh1" with
    | .ok s' => (posOf s' "z_0x65" "A" "o1", posOf s' "x_0x65" "A" "o1")
    | .error _ => (0, 0)) = (3, 1) := by decide

end ExoVerif.Ledger
