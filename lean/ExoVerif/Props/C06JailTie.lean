import ExoVerif.Generated.Facts
import ExoVerif.Props.C06Jail
/-!
# C06 tie: "eligible = … not jailed" in the Go code as the model has it
Regenerated facts (tools/exofacts/facts_jail.go): the guard chain of x/operator/keeper/operator.go:
IsActive, the filter of GetActiveOperatorsForChainID (EndBlock's candidate list), and the guard
chain of IsOperatorJailedForChainID (the status the rest of the chain is told). Both read the
Jailed flag of the same opt-in record (GetOptedInfo(operator, AVS of the chain)) — the extractor
pins the two getter calls — so "jailed" has one meaning.
-/
namespace ExoVerif.ConsKeys
open ExoVerif.Gen

/-- IsActive: has an opt-in record, not opted out, not jailed -/
theorem C06_tie_is_active (infoErr optedOut jailed : Bool) :
    operatorIsActive infoErr optedOut jailed = (!infoErr && !optedOut && !jailed) := by
  cases infoErr <;> cases optedOut <;> cases jailed <;> rfl

/-- GetActiveOperatorsForChainID keeps exactly the operators (with a key for the chain) for which
IsActive holds -/
theorem C06_tie_active_filter :
    activeOperatorsFilter = ["operatorsAddr: k.IsActive(ctx, operator, avsAddrString)"] := by decide

/-- the model's candidate condition (`candsOf`: opted in and not jailed) is IsActive for an
operator that has an opt-in record -/
theorem C06_tie_candidate_condition (s : St) (op : Nat) :
    (s.optedIn op && !s.jailed op) = operatorIsActive false (!s.optedIn op) (s.jailed op) := by
  cases s.optedIn op <;> cases s.jailed op <;> rfl

/-- **one notion of jailed**: for an operator with an opt-in record and a resolvable address `k`,
"IsActive fails because of the Jailed flag" and "the chain reports address `k` as jailed" are the
same statement (regenerated guard chains on both sides). -/
theorem C06_tie_jailed_one_notion (s : St) (k op : Nat) (hk : s.rev k = some op) (hi : s.hasInfo op = true) :
    jailedForChainID (s.rev k).isSome true (!s.hasInfo op) (s.jailed op) =
      !operatorIsActive (!s.hasInfo op) false (s.jailed op) := by
  rw [hk, hi]; cases s.jailed op <;> rfl

end ExoVerif.ConsKeys
