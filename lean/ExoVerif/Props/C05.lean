import ExoVerif.Proofs.VotingPower
/-!
# C05 — Voting power equals priced, eligible stake

Stated for the executable model `ExoVerif.VP` (Model/VotingPower.lean) of UpdateVotingPower /
CalculateUSDValueForOperator / IterateOperatorsForAVS / GetEpochEndAVSs; the arithmetic kernels are
proved equal to the regenerated Go (`Props/C05Tie.lean`) and the model is replayed against the real
application at every epoch end (`./check C05`).
-/
namespace ExoVerif.VP
open ExoVerif ExoVerif.KV

/-- The imperative accumulation over the operator's assets is the closed formula of the property:
total = Σ_{assets the AVS supports} amount × price / 10^(decimals + price decimals), self = the same
over the token equivalent of the operator's own share (both truncated as `LegacyDec.QuoInt` does). -/
theorem C05_vp_matches_spec (cfgs : List (String × AssetCfg)) (assets : List (String × AssetState)) (t f : Int)
    (h : opValue cfgs assets = .ok (t, f)) : t = specTotal cfgs assets ∧ f = specSelf cfgs assets :=
  opValue_spec cfgs assets t f h

/-- After a successful UpdateVotingPower of an AVS, every stored entry of that AVS carries the
formula values, its active value is the total exactly when the self value meets the AVS's minimum
self-delegation (zero otherwise), and the set of operators with an entry is unchanged. -/
theorem C05_self_value_formula (s : St) (avs : String) (i : AvsIn) (cfgs : List (String × AssetCfg)) (m : Int)
    (hok : i.assetsOk = true) (hc : i.cfgs = some cfgs) (hm : i.minSelf = some m)
    (es' : List (String × Opted)) (v : Int)
    (hl : updateLoop cfgs m i.opAssets (getD s.entries avs []) = .ok (es', v)) :
    getD (updateVotingPower s avs i).entries avs [] = es' ∧
    es'.map (·.1) = (getD s.entries avs []).map (·.1) ∧
    ∀ q ∈ es', q.2.total = specTotal cfgs (getD i.opAssets q.1 []) ∧
               q.2.self = specSelf cfgs (getD i.opAssets q.1 []) ∧
               q.2.active = (if m ≤ q.2.self then q.2.total else 0) := by
  obtain ⟨e1, _, e3⟩ := updateLoop_spec cfgs m i.opAssets _ _ _ hl
  refine ⟨?_, e1, e3⟩
  simp [updateVotingPower, hok, hc, hm, hl, getD_set_same]

/-- active = total iff self ≥ minimum, else zero (one entry) -/
theorem C05_active_iff_min_self (cfgs : List (String × AssetCfg)) (m : Int)
    (opAssets : List (String × List (String × AssetState))) (es es' : List (String × Opted)) (v : Int)
    (hl : updateLoop cfgs m opAssets es = .ok (es', v)) (q : String × Opted) (hq : q ∈ es') :
    (m ≤ q.2.self → q.2.active = q.2.total) ∧ (¬ m ≤ q.2.self → q.2.active = 0) := by
  obtain ⟨_, _, e3⟩ := updateLoop_spec cfgs m opAssets _ _ _ hl
  obtain ⟨_, _, ha⟩ := e3 q hq
  constructor
  · intro h; rw [ha, if_pos h]
  · intro h; rw [ha, if_neg h]

/-- the AVS's value is the sum of the active values of its entries -/
theorem C05_avs_value_is_sum_active (s : St) (avs : String) (i : AvsIn) (cfgs : List (String × AssetCfg)) (m : Int)
    (hok : i.assetsOk = true) (hc : i.cfgs = some cfgs) (hm : i.minSelf = some m)
    (es' : List (String × Opted)) (v : Int)
    (hl : updateLoop cfgs m i.opAssets (getD s.entries avs []) = .ok (es', v)) :
    getD (updateVotingPower s avs i).avsVal avs 0 = sumActive (getD (updateVotingPower s avs i).entries avs []) := by
  obtain ⟨_, e2, _⟩ := updateLoop_spec cfgs m i.opAssets _ _ _ hl
  simp [updateVotingPower, hok, hc, hm, hl, getD_set_same, e2]

/-- An operator without an entry (not opted in) reads all zeros and the update does not give it
one: it contributes nothing. -/
theorem C05_not_opted_in_zero (s : St) (avs op : String)
    (h : op ∉ (getD s.entries avs []).map (·.1)) :
    getOpted s avs op = { self := 0, total := 0, active := 0 } := by
  unfold getOpted
  have := find?_of_mem_keys_none (getD s.entries avs []) op h
  rw [show getD (getD s.entries avs []) op ({ self := 0, total := 0, active := 0 } : Opted) =
        (find? (getD s.entries avs []) op).getD { self := 0, total := 0, active := 0 } from rfl, this]
  rfl

theorem C05_not_opted_in_stays_out (s : St) (avs op : String) (i : AvsIn) (cfgs : List (String × AssetCfg)) (m : Int)
    (hok : i.assetsOk = true) (hc : i.cfgs = some cfgs) (hm : i.minSelf = some m)
    (es' : List (String × Opted)) (v : Int)
    (hl : updateLoop cfgs m i.opAssets (getD s.entries avs []) = .ok (es', v))
    (h : op ∉ (getD s.entries avs []).map (·.1)) :
    getOpted (updateVotingPower s avs i) avs op = { self := 0, total := 0, active := 0 } := by
  obtain ⟨e0, e1, _⟩ := C05_self_value_formula s avs i cfgs m hok hc hm es' v hl
  apply C05_not_opted_in_zero
  rw [e0, e1]; exact h

/-- an error anywhere (asset/price lookup, minimum self-delegation, share conversion) leaves the
stored values exactly as they were -/
theorem C05_error_leaves_state (s : St) (avs : String) (i : AvsIn) (hok : i.assetsOk = true)
    (h : i.cfgs = none ∨ i.minSelf = none ∨
         ∃ cfgs m e, i.cfgs = some cfgs ∧ i.minSelf = some m ∧
           updateLoop cfgs m i.opAssets (getD s.entries avs []) = .error e) :
    updateVotingPower s avs i = s := by
  rcases h with h | h | ⟨cfgs, m, e, hc, hm, hl⟩
  · simp [updateVotingPower, hok, h]
  · cases hc : i.cfgs <;> simp [updateVotingPower, hok, h, hc]
  · simp [updateVotingPower, hok, hc, hm, hl]

/-- values never go negative (amounts and prices non-negative) -/
theorem C05_nonneg (cfgs : List (String × AssetCfg)) (assets : List (String × AssetState))
    (hp : ∀ c ∈ cfgs, 0 ≤ c.2.price) (ha : ∀ a ∈ assets, 0 ≤ a.2.totalAmount) :
    0 ≤ specTotal cfgs assets := by
  induction assets with
  | nil => simp [specTotal]
  | cons p rest ih =>
    obtain ⟨a, st⟩ := p
    have hrest := ih (fun x hx => ha x (by simp [hx]))
    simp only [specTotal]
    split
    · omega
    · rename_i c hf
      have hc := hp (a, c) (find?_mem cfgs a c hf)
      have h0 := ha (a, st) (by simp)
      have := usdValue_nonneg st.totalAmount c.price c.decimals c.priceDec h0 hc
      omega

/-- monotone in the amount and in the price, term by term (truncating division is monotone) -/
theorem C05_monotone_amount (a a' p adec pdec : Int) (ha : 0 ≤ a) (haa : a ≤ a') (hp : 0 ≤ p) :
    usdValue a p adec pdec ≤ usdValue a' p adec pdec :=
  usdValue_mono a a' p p adec pdec ha haa hp (Int.le_refl p)

theorem C05_monotone_price (a p p' adec pdec : Int) (ha : 0 ≤ a) (hp : 0 ≤ p) (hpp : p ≤ p') :
    usdValue a p adec pdec ≤ usdValue a p' adec pdec :=
  usdValue_mono a a p p' adec pdec ha (Int.le_refl a) hp hpp

/-- the same assets with pointwise larger (non-negative) pool amounts -/
inductive PoolsLe : List (String × AssetState) → List (String × AssetState) → Prop
  | nil : PoolsLe [] []
  | cons (a : String) (st st' : AssetState) (xs ys : List (String × AssetState)) :
      0 ≤ st.totalAmount → st.totalAmount ≤ st'.totalAmount → PoolsLe xs ys → PoolsLe ((a, st) :: xs) ((a, st') :: ys)

/-- monotone for a whole operator: larger pools at the same prices give a larger total -/
theorem C05_monotone_total (cfgs : List (String × AssetCfg)) (hp : ∀ c ∈ cfgs, 0 ≤ c.2.price)
    (assets assets' : List (String × AssetState)) (h : PoolsLe assets assets') :
    specTotal cfgs assets ≤ specTotal cfgs assets' := by
  induction h with
  | nil => simp [specTotal]
  | cons a st st' xs ys h2 h3 _ ih =>
    simp only [specTotal]
    split
    · omega
    · rename_i c hf
      have hc := hp (a, c) (find?_mem cfgs a c hf)
      have := usdValue_mono st.totalAmount st'.totalAmount c.price c.price c.decimals c.priceDec h2 h3 hc (Int.le_refl _)
      omega

/-- which AVSs are updated at an epoch end: those with that identifier, from the epoch preceding
their starting epoch onwards -/
theorem C05_selected_iff (regs : List AvsReg) (id : String) (n : Int) (avs : String) :
    avs ∈ selected regs id n ↔ ∃ r ∈ regs, r.addr = avs ∧ r.epochId = id ∧ r.startingEpoch - 1 ≤ n := by
  simp only [selected, List.mem_map, List.mem_filter, Bool.and_eq_true, beq_iff_eq, decide_eq_true_eq]
  constructor
  · rintro ⟨r, ⟨hr, h1, h2⟩, h3⟩; exact ⟨r, hr, h3, h1.symm, h2⟩
  · rintro ⟨r, hr, h3, h1, h2⟩; exact ⟨r, ⟨hr, h1.symm, h2⟩, h3⟩

/-! ## an AVS whose asset list is empty vs. one whose list cannot be read -/

/-- the value list with every entry zeroed, operators and order kept -/
def zeroed (es : List (String × Opted)) : List (String × Opted) :=
  es.map (fun e => (e.1, ({ self := 0, total := 0, active := 0 } : Opted)))

theorem opValue_no_assets (assets : List (String × AssetState)) : opValue [] assets = .ok (0, 0) := by
  induction assets with
  | nil => rfl
  | cons a rest ih => obtain ⟨k, st⟩ := a; simp [opValue, find?, ih]

theorem updateLoop_no_assets (m : Int) (opAssets : List (String × List (String × AssetState))) :
    ∀ es : List (String × Opted), updateLoop [] m opAssets es = .ok (zeroed es, 0) := by
  intro es
  induction es with
  | nil => rfl
  | cons e rest ih =>
    obtain ⟨op, o⟩ := e
    simp only [updateLoop, opValue_no_assets, ih, zeroed, List.map_cons]
    by_cases hm : m ≤ 0 <;> simp [hm]

/-- EMPTY asset list (GetAVSSupportedAssets returns an empty, non-nil map — `assetsOk`, no asset
resolved): the code does NOT take the "delete everything" branch; every opted-in operator keeps its
entry, all three values read zero (the sum over no assets), the AVS value is zero. The entries stay
in the index that later epoch ends walk, so the values are re-priced once the list is non-empty. -/
theorem C05_empty_asset_list_zeroes_entries (s : St) (avs : String) (i : AvsIn) (m : Int)
    (hok : i.assetsOk = true) (hc : i.cfgs = some []) (hm : i.minSelf = some m) :
    getD (updateVotingPower s avs i).entries avs [] = zeroed (getD s.entries avs []) ∧
    (getD (updateVotingPower s avs i).entries avs []).map (·.1) = (getD s.entries avs []).map (·.1) ∧
    getD (updateVotingPower s avs i).avsVal avs 0 = 0 := by
  simp [updateVotingPower, hok, hc, hm, updateLoop_no_assets, getD_set_same, zeroed, Function.comp_def]

/-- the asset list CANNOT be read (error / nil map): every entry of the AVS and the AVS value are
deleted, as the code does -/
theorem C05_unreadable_asset_list_deletes_entries (s : St) (avs : String) (i : AvsIn) (hok : i.assetsOk = false) :
    updateVotingPower s avs i = { entries := erase s.entries avs, avsVal := erase s.avsVal avs } := by
  simp [updateVotingPower, hok]

/-- after an epoch end with an empty list, an epoch end with a non-empty list recomputes exactly the
operators that were opted in before: the round trip loses nobody -/
theorem C05_empty_then_restored_recomputes (s : St) (avs : String) (i1 i2 : AvsIn) (m1 m2 : Int)
    (cfgs : List (String × AssetCfg))
    (h1 : i1.assetsOk = true) (c1 : i1.cfgs = some []) (n1 : i1.minSelf = some m1)
    (h2 : i2.assetsOk = true) (c2 : i2.cfgs = some cfgs) (n2 : i2.minSelf = some m2)
    (es' : List (String × Opted)) (v : Int)
    (hl : updateLoop cfgs m2 i2.opAssets (getD (updateVotingPower s avs i1).entries avs []) = .ok (es', v)) :
    (getD (updateVotingPower (updateVotingPower s avs i1) avs i2).entries avs []).map (·.1)
      = (getD s.entries avs []).map (·.1) := by
  obtain ⟨e0, e1, _⟩ := C05_self_value_formula (updateVotingPower s avs i1) avs i2 cfgs m2 h2 c2 n2 es' v hl
  rw [e0, e1, (C05_empty_asset_list_zeroes_entries s avs i1 m1 h1 c1 n1).2.1]

/-! ## several AVSs ending the same epoch: the failure of one does not concern the others

`hookLoop` is the `for _, avs := range avsList` loop of AfterEpochEnd with its error branch
(`continue`); `epochEnd` runs it over `selected`. The theorems below are by induction over the AVS
list and make no assumption at all about the other AVSs of the list. -/

/-- the loop is the left fold, over the AVS list, of "UpdateVotingPower with its error swallowed" -/
theorem C05_hook_loop_is_fold (inputs : List (String × AvsIn)) (l : List String) (s : St) :
    hookLoop inputs s l =
      l.foldl (fun s avs =>
        match find? inputs avs with
        | some i => updateVotingPower s avs i
        | none => s) s :=
  hookLoop_eq_foldl inputs l s

/-- UpdateVotingPower of one AVS never touches the stored values of another one -/
theorem C05_update_frames_other_avs (s : St) (avs a : String) (i : AvsIn) (h : a ≠ avs) :
    getD (updateVotingPower s avs i).entries a [] = getD s.entries a [] ∧
    getD (updateVotingPower s avs i).avsVal a 0 = getD s.avsVal a 0 :=
  updateVotingPower_frame s avs a i h

/-- EVERY AVS of the list whose own update does not fail ends the epoch hook with the spec values,
REGARDLESS of the other AVSs of the list (failing or not, before or after it): its entries are the
result of its own operator loop on the pools/prices of this epoch end, the operator set is
unchanged, every entry carries the closed-formula total / self / active values, and the AVS value
is the sum of the active values. -/
theorem C05_every_nonfailing_avs_recomputed (inputs : List (String × AvsIn)) (s : St) (l : List String)
    (a : String) (i : AvsIn) (cfgs : List (String × AssetCfg)) (m : Int)
    (hmem : a ∈ l) (hin : find? inputs a = some i)
    (hok : i.assetsOk = true) (hc : i.cfgs = some cfgs) (hm : i.minSelf = some m)
    (es' : List (String × Opted)) (v : Int)
    (hl : updateLoop cfgs m i.opAssets (getD s.entries a []) = .ok (es', v)) :
    getD (hookLoop inputs s l).entries a [] = es' ∧
    getD (hookLoop inputs s l).avsVal a 0 = sumActive es' ∧
    es'.map (·.1) = (getD s.entries a []).map (·.1) ∧
    ∀ q ∈ es', q.2.total = specTotal cfgs (getD i.opAssets q.1 []) ∧
               q.2.self = specSelf cfgs (getD i.opAssets q.1 []) ∧
               q.2.active = (if m ≤ q.2.self then q.2.total else 0) := by
  obtain ⟨e1, e2, e3⟩ := updateLoop_spec cfgs m i.opAssets _ _ _ hl
  have hK : ∀ es : List (String × Opted), es.map (·.1) = (getD s.entries a []).map (·.1) →
      updateLoop cfgs m i.opAssets es = .ok (es', v) := by
    intro es hes
    rw [updateLoop_keys_only cfgs m i.opAssets es (getD s.entries a []) hes]; exact hl
  obtain ⟨r1, r2⟩ := hookLoop_recomputes inputs a i cfgs m hin hok hc hm _ es' v hK l s rfl (Or.inl hmem)
  exact ⟨r1, by rw [r2, e2], e1, e3⟩

/-- the same at an epoch end: every AVS selected by GetEpochEndAVSs (identifier matches, from the
epoch preceding its starting epoch on) whose own update does not fail is recomputed -/
theorem C05_epoch_end_recomputes_every_selected_avs (regs : List AvsReg) (inputs : List (String × AvsIn)) (s : St)
    (id : String) (n : Int) (r : AvsReg) (hr : r ∈ regs) (hid : r.epochId = id) (hn : r.startingEpoch - 1 ≤ n)
    (i : AvsIn) (cfgs : List (String × AssetCfg)) (m : Int) (hin : find? inputs r.addr = some i)
    (hok : i.assetsOk = true) (hc : i.cfgs = some cfgs) (hm : i.minSelf = some m)
    (es' : List (String × Opted)) (v : Int)
    (hl : updateLoop cfgs m i.opAssets (getD s.entries r.addr []) = .ok (es', v)) :
    getD (epochEnd regs inputs s id n).entries r.addr [] = es' ∧
    getD (epochEnd regs inputs s id n).avsVal r.addr 0 = sumActive es' ∧
    ∀ q ∈ es', q.2.total = specTotal cfgs (getD i.opAssets q.1 []) ∧
               q.2.self = specSelf cfgs (getD i.opAssets q.1 []) ∧
               q.2.active = (if m ≤ q.2.self then q.2.total else 0) := by
  have hsel : r.addr ∈ selected regs id n := (C05_selected_iff regs id n r.addr).2 ⟨r, hr, rfl, hid, hn⟩
  obtain ⟨a1, a2, _, a4⟩ := C05_every_nonfailing_avs_recomputed inputs s (selected regs id n) r.addr i cfgs m
    hsel hin hok hc hm es' v hl
  exact ⟨a1, a2, a4⟩

/-- an AVS whose prices / decimals / minimum self-delegation cannot be resolved keeps exactly its
stored values through the whole hook, whatever the other AVSs do -/
theorem C05_failing_avs_keeps_values (inputs : List (String × AvsIn)) (s : St) (l : List String) (a : String)
    (i : AvsIn) (hin : find? inputs a = some i) (hok : i.assetsOk = true)
    (hf : i.cfgs = none ∨ i.minSelf = none) :
    getD (hookLoop inputs s l).entries a [] = getD s.entries a [] ∧
    getD (hookLoop inputs s l).avsVal a 0 = getD s.avsVal a 0 :=
  hookLoop_failing_keeps inputs a i hin hok hf l s

/-- the statement of `C05_every_nonfailing_avs_recomputed` for a loop whose error branch is `act` -/
def C05_loop_isolates (act : ErrAction) : Prop :=
  ∀ (inputs : List (String × AvsIn)) (s : St) (l : List String) (a : String) (i : AvsIn)
    (cfgs : List (String × AssetCfg)) (m : Int) (es' : List (String × Opted)) (v : Int),
    a ∈ l → find? inputs a = some i → i.assetsOk = true → i.cfgs = some cfgs → i.minSelf = some m →
    updateLoop cfgs m i.opAssets (getD s.entries a []) = .ok (es', v) →
    getD (hookLoopWith act inputs s l).entries a [] = es'

theorem C05_continue_isolates : C05_loop_isolates .next := by
  intro inputs s l a i cfgs m es' v hmem hin hok hc hm hl
  exact (C05_every_nonfailing_avs_recomputed inputs s l a i cfgs m hmem hin hok hc hm es' v hl).1

private def cfgsU : List (String × AssetCfg) := [("usdt", { price := 1, priceDec := 0, decimals := 6 })]
private def poolsU : List (String × List (String × AssetState)) :=
  [("op", [("usdt", { totalAmount := 80000000, totalShare := 80000000 * PREC, operatorShare := 80000000 * PREC })])]
private def inputsU : List (String × AvsIn) :=
  [("a", { assetsOk := true, cfgs := none, minSelf := some 0, opAssets := poolsU }),
   ("b", { assetsOk := true, cfgs := some cfgsU, minSelf := some 0, opAssets := poolsU })]
private def stU : St :=
  { entries := [("a", [("op", { self := 7, total := 7, active := 7 })]), ("b", [("op", { self := 0, total := 0, active := 0 })])],
    avsVal := [("a", 7)] }

/-- with `return` (or `break`) in the error branch the statement is false: AVS "a" (no price for one
of its assets) fails first and AVS "b", healthy, keeps its opt-in zeros although its operator holds
80 USDT — this is what makes the loop shape a proof obligation (`C05_tie_hook_error_branch`). -/
theorem C05_return_on_error_does_not_isolate : ¬ C05_loop_isolates .stop := by
  intro h
  have := h inputsU stU ["a", "b"] "b" _ cfgsU 0
    [("op", { self := 80 * PREC, total := 80 * PREC, active := 80 * PREC })] (80 * PREC)
    (by decide) rfl rfl rfl rfl rfl
  revert this
  decide

example : getD (hookLoop inputsU stU ["a", "b"]).entries "b" [] =
    [("op", { self := 80 * PREC, total := 80 * PREC, active := 80 * PREC })] ∧
    getD (hookLoop inputsU stU ["a", "b"]).entries "a" [] = [("op", { self := 7, total := 7, active := 7 })] ∧
    getD (hookLoop inputsU stU ["a", "b"]).avsVal "b" 0 = 80 * PREC := by decide

/-! ## the self value after a slash (share price ≠ 1) -/

/-- the amount the self value is computed from is the TOKEN equivalent of the operator's own share:
floor(operator share × pool amount / total share) — not the share itself; the two agree only while
the pool has never been slashed -/
theorem C05_self_tokens_is_token_equivalent (st : AssetState) (h0 : 0 ≤ st.operatorShare)
    (h1 : st.operatorShare ≤ st.totalShare) (h2 : 0 < st.totalShare) (h3 : 0 ≤ st.totalAmount) :
    selfTokens st = (st.operatorShare * st.totalAmount) / st.totalShare ∧
    0 ≤ selfTokens st ∧ selfTokens st ≤ st.totalAmount :=
  ⟨selfTokens_eq_floor st h0 h1 h2 h3, selfTokens_le_amount st h0 h1 h2 h3⟩

/-- pools as the ledger keeps them: 0 ≤ operator share ≤ total share, amount ≥ 0, and an emptied
pool (total share 0) has amount 0 -/
def PoolOk (st : AssetState) : Prop :=
  0 ≤ st.operatorShare ∧ st.operatorShare ≤ st.totalShare ∧ 0 ≤ st.totalAmount ∧
  (st.totalShare = 0 → st.totalAmount = 0)

theorem selfTokens_bounds (st : AssetState) (h : PoolOk st) : 0 ≤ selfTokens st ∧ selfTokens st ≤ st.totalAmount := by
  obtain ⟨h0, h1, h3, h4⟩ := h
  by_cases hz : st.totalShare = 0
  · have ha := h4 hz
    have ho : st.operatorShare = 0 := by omega
    have : selfTokens st = 0 := by
      simp [selfTokens, tokensFromShares, Dec.gt, Dec.isZero, hz, ha, ho]
    omega
  · exact selfTokens_le_amount st h0 h1 (by omega) h3

/-- the self value never exceeds the total value (slashed or not): the self tokens are at most the
pool amount and the truncating division is monotone -/
theorem C05_self_le_total (cfgs : List (String × AssetCfg)) (hp : ∀ c ∈ cfgs, 0 ≤ c.2.price)
    (assets : List (String × AssetState)) (ha : ∀ a ∈ assets, PoolOk a.2) :
    0 ≤ specSelf cfgs assets ∧ specSelf cfgs assets ≤ specTotal cfgs assets := by
  induction assets with
  | nil => simp [specSelf, specTotal]
  | cons p rest ih =>
    obtain ⟨a, st⟩ := p
    obtain ⟨i1, i2⟩ := ih (fun x hx => ha x (by simp [hx]))
    have hst := ha (a, st) (by simp)
    obtain ⟨b1, b2⟩ := selfTokens_bounds st hst
    simp only [specSelf, specTotal]
    split
    · omega
    · rename_i c hf
      have hc := hp (a, c) (find?_mem cfgs a c hf)
      have m1 := usdValue_mono (selfTokens st) st.totalAmount c.price c.price c.decimals c.priceDec b1 b2 hc (Int.le_refl _)
      have m0 := usdValue_nonneg (selfTokens st) c.price c.decimals c.priceDec b1 hc
      omega

example : PoolOk { totalAmount := 135000000, totalShare := 150000000 * PREC, operatorShare := 100000000 * PREC } := by
  unfold PoolOk; decide
example : selfTokens { totalAmount := 135000000, totalShare := 150000000 * PREC, operatorShare := 100000000 * PREC } = 90000000 := by
  decide

/-- a pool slashed by 10 % (amount 90, shares still 100): the self value follows the tokens (90),
so an AVS minimum of 100 makes the operator inactive; with the share figure (100) it would stay
active -/
example : updateLoop cfgsU (100 * PREC)
    [("op", [("usdt", { totalAmount := 90000000, totalShare := 100000000 * PREC, operatorShare := 100000000 * PREC })])]
    [("op", { self := 100 * PREC, total := 100 * PREC, active := 100 * PREC })] =
    .ok ([("op", { self := 90 * PREC, total := 90 * PREC, active := 0 })], 0) := by rfl

/-! ## non-vacuity: two assets (6 / 18 decimals, price decimals 0 / 8), one outside the AVS's list -/
private def cfgs0 : List (String × AssetCfg) :=
  [("usdt", { price := 1, priceDec := 0, decimals := 6 }), ("eth", { price := 250000000000, priceDec := 8, decimals := 18 })]
private def assets0 : List (String × AssetState) :=
  [("btc", { totalAmount := 5, totalShare := 5 * PREC, operatorShare := 5 * PREC }),
   ("eth", { totalAmount := 3 * 10 ^ 18 + 1, totalShare := 3 * PREC, operatorShare := 1 * PREC }),
   ("usdt", { totalAmount := 101000000, totalShare := 101 * PREC, operatorShare := 101 * PREC })]
example : opValue cfgs0 assets0 = .ok (7601 * PREC + 2500, 2601 * PREC) := by rfl
example : (updateLoop cfgs0 (2602 * PREC) [("op", assets0)] [("op", { self := 0, total := 0, active := 0 })]) =
    .ok ([("op", { self := 2601 * PREC, total := 7601 * PREC + 2500, active := 0 })], 0) := by rfl
example : selected [{ addr := "a", epochId := "day", startingEpoch := 5 }] "day" 4 = ["a"] := by decide
example : selected [{ addr := "a", epochId := "day", startingEpoch := 5 }] "day" 3 = [] := by decide

end ExoVerif.VP
