import ExoVerif.Generated.Facts
/-!
# C11: the regenerated local guard of a site implies that the site cannot panic

For every index / integer-division / NewCoin site on a block path for which tools/exofacts/facts_siteguards.go
could translate the panicking operand, `Gen.siteGuard_<Func>_<expr>` is the conjunction of the facts that hold
whenever control reaches the site (dominating `if`s, loop bounds, range / sort-comparator index bounds,
single-assignment definitions, `make` lengths, callee post-conditions, non-negativity of lengths and unsigned
values — each only if nothing writes the variables it mentions in between) and `Gen.siteSafe_<Func>_<expr>` is
the condition under which the operation does not panic. Both are regenerated from the Go source on every run;
the lemmas below hold for ALL values of the parameters, so a weakened guard, a changed bound or a changed
operand makes its lemma fail. Each lemma comes with an assignment that satisfies the guard (found by the
extractor), so none of them holds vacuously.
(Written by tools/gen_c11_review.py; static afterwards.)
-/
namespace ExoVerif.Blocks
open ExoVerif.Gen

/-- closes `guard → safe` once both kernels are unfolded: Bool connectives to propositions, then linear arithmetic -/
macro "c11_site" : tactic => `(tactic| (
  simp only [Bool.and_eq_true, Bool.or_eq_true, Bool.not_eq_true', Bool.not_eq_eq_eq_not, Bool.not_true, Bool.not_false,
    decide_eq_true_eq, decide_eq_false_iff_not, beq_iff_eq, bne_iff_ne, ne_eq, beq_eq_false_iff_ne, bne_eq_false_iff_eq,
    Bool.not_not, Decidable.not_not, Bool.and_true, Bool.true_and] at *
  <;> omega))

/-- utils/store.go:basicKey.AsKey:index:delimiter[0] -/
theorem C11_guard_AsKey_delimiter_0 (len_delimiter : Int)
    (h : siteGuard_AsKey_delimiter_0 len_delimiter = true) : siteSafe_AsKey_delimiter_0 len_delimiter = true := by
  unfold siteGuard_AsKey_delimiter_0 at h; unfold siteSafe_AsKey_delimiter_0
  c11_site
example : siteGuard_AsKey_delimiter_0 1 = true := by decide

/-- utils/utils.go:SortByPower:index:indices[i] -/
theorem C11_guard_SortByPower_indices_i (i : Int) (j : Int) (len_indices : Int) (len_powers : Int)
    (h : siteGuard_SortByPower_indices_i i j len_indices len_powers = true) : siteSafe_SortByPower_indices_i i j len_indices len_powers = true := by
  unfold siteGuard_SortByPower_indices_i at h; unfold siteSafe_SortByPower_indices_i
  c11_site
example : siteGuard_SortByPower_indices_i 5 5 7 7 = true := by decide

/-- utils/utils.go:SortByPower:index:indices[i]#2 -/
theorem C11_guard_SortByPower_indices_i_2 (i : Int) (j : Int) (len_indices : Int) (len_powers : Int)
    (h : siteGuard_SortByPower_indices_i_2 i j len_indices len_powers = true) : siteSafe_SortByPower_indices_i_2 i j len_indices len_powers = true := by
  unfold siteGuard_SortByPower_indices_i_2 at h; unfold siteSafe_SortByPower_indices_i_2
  c11_site
example : siteGuard_SortByPower_indices_i_2 5 5 7 7 = true := by decide

/-- utils/utils.go:SortByPower:index:indices[i]#3 -/
theorem C11_guard_SortByPower_indices_i_3 (i : Int) (j : Int) (len_indices : Int) (len_powers : Int)
    (h : siteGuard_SortByPower_indices_i_3 i j len_indices len_powers = true) : siteSafe_SortByPower_indices_i_3 i j len_indices len_powers = true := by
  unfold siteGuard_SortByPower_indices_i_3 at h; unfold siteSafe_SortByPower_indices_i_3
  c11_site
example : siteGuard_SortByPower_indices_i_3 5 5 7 7 = true := by decide

/-- utils/utils.go:SortByPower:index:indices[j] -/
theorem C11_guard_SortByPower_indices_j (i : Int) (j : Int) (len_indices : Int) (len_powers : Int)
    (h : siteGuard_SortByPower_indices_j i j len_indices len_powers = true) : siteSafe_SortByPower_indices_j i j len_indices len_powers = true := by
  unfold siteGuard_SortByPower_indices_j at h; unfold siteSafe_SortByPower_indices_j
  c11_site
example : siteGuard_SortByPower_indices_j 5 5 7 7 = true := by decide

/-- utils/utils.go:SortByPower:index:indices[j]#2 -/
theorem C11_guard_SortByPower_indices_j_2 (i : Int) (j : Int) (len_indices : Int) (len_powers : Int)
    (h : siteGuard_SortByPower_indices_j_2 i j len_indices len_powers = true) : siteSafe_SortByPower_indices_j_2 i j len_indices len_powers = true := by
  unfold siteGuard_SortByPower_indices_j_2 at h; unfold siteSafe_SortByPower_indices_j_2
  c11_site
example : siteGuard_SortByPower_indices_j_2 5 5 7 7 = true := by decide

/-- utils/utils.go:SortByPower:index:indices[j]#3 -/
theorem C11_guard_SortByPower_indices_j_3 (i : Int) (j : Int) (len_indices : Int) (len_powers : Int)
    (h : siteGuard_SortByPower_indices_j_3 i j len_indices len_powers = true) : siteSafe_SortByPower_indices_j_3 i j len_indices len_powers = true := by
  unfold siteGuard_SortByPower_indices_j_3 at h; unfold siteSafe_SortByPower_indices_j_3
  c11_site
example : siteGuard_SortByPower_indices_j_3 5 5 7 7 = true := by decide

/-- utils/utils.go:SortByPower:index:sortedPowers[i] -/
theorem C11_guard_SortByPower_sortedPowers_i (i : Int) (len_indices : Int) (len_powers : Int) (len_sortedPowers : Int)
    (h : siteGuard_SortByPower_sortedPowers_i i len_indices len_powers len_sortedPowers = true) : siteSafe_SortByPower_sortedPowers_i i len_indices len_powers len_sortedPowers = true := by
  unfold siteGuard_SortByPower_sortedPowers_i at h; unfold siteSafe_SortByPower_sortedPowers_i
  c11_site
example : siteGuard_SortByPower_sortedPowers_i 0 7 7 7 = true := by decide

/-- x/assets/types/keys.go:ParseID:index:keys[0] -/
theorem C11_guard_ParseID_keys_0 (len_keys : Int)
    (h : siteGuard_ParseID_keys_0 len_keys = true) : siteSafe_ParseID_keys_0 len_keys = true := by
  unfold siteGuard_ParseID_keys_0 at h; unfold siteSafe_ParseID_keys_0
  c11_site
example : siteGuard_ParseID_keys_0 2 = true := by decide

/-- x/assets/types/keys.go:ParseID:index:keys[0]#2 -/
theorem C11_guard_ParseID_keys_0_2 (len_keys : Int) (len_keys_0 : Int) (err_isNil : Bool)
    (h : siteGuard_ParseID_keys_0_2 len_keys len_keys_0 err_isNil = true) : siteSafe_ParseID_keys_0_2 len_keys len_keys_0 err_isNil = true := by
  unfold siteGuard_ParseID_keys_0_2 at h; unfold siteSafe_ParseID_keys_0_2
  (cases err_isNil) <;> c11_site
example : siteGuard_ParseID_keys_0_2 2 2 true = true := by decide

/-- x/assets/types/keys.go:ParseID:index:keys[1] -/
theorem C11_guard_ParseID_keys_1 (len_keys : Int) (len_keys_0 : Int)
    (h : siteGuard_ParseID_keys_1 len_keys len_keys_0 = true) : siteSafe_ParseID_keys_1 len_keys len_keys_0 = true := by
  unfold siteGuard_ParseID_keys_1 at h; unfold siteSafe_ParseID_keys_1
  c11_site
example : siteGuard_ParseID_keys_1 2 2 = true := by decide

/-- x/avs/keeper/task.go:Keeper.GroupTasksByIDAndAddress:index:taskGroup[i] -/
theorem C11_guard_GroupTasksByIDAndAddress_taskGroup_i (i : Int) (j : Int) (len_taskGroup : Int)
    (h : siteGuard_GroupTasksByIDAndAddress_taskGroup_i i j len_taskGroup = true) : siteSafe_GroupTasksByIDAndAddress_taskGroup_i i j len_taskGroup = true := by
  unfold siteGuard_GroupTasksByIDAndAddress_taskGroup_i at h; unfold siteSafe_GroupTasksByIDAndAddress_taskGroup_i
  c11_site
example : siteGuard_GroupTasksByIDAndAddress_taskGroup_i 7 5 8 = true := by decide

/-- x/avs/keeper/task.go:Keeper.GroupTasksByIDAndAddress:index:taskGroup[j] -/
theorem C11_guard_GroupTasksByIDAndAddress_taskGroup_j (i : Int) (j : Int) (len_taskGroup : Int)
    (h : siteGuard_GroupTasksByIDAndAddress_taskGroup_j i j len_taskGroup = true) : siteSafe_GroupTasksByIDAndAddress_taskGroup_j i j len_taskGroup = true := by
  unfold siteGuard_GroupTasksByIDAndAddress_taskGroup_j at h; unfold siteSafe_GroupTasksByIDAndAddress_taskGroup_j
  c11_site
example : siteGuard_GroupTasksByIDAndAddress_taskGroup_j 7 5 8 = true := by decide

/-- x/avs/types/types.go:ChainIDWithoutRevision:index:splitStr[0] -/
theorem C11_guard_ChainIDWithoutRevision_splitStr_0 (len_splitStr : Int)
    (h : siteGuard_ChainIDWithoutRevision_splitStr_0 len_splitStr = true) : siteSafe_ChainIDWithoutRevision_splitStr_0 len_splitStr = true := by
  unfold siteGuard_ChainIDWithoutRevision_splitStr_0 at h; unfold siteSafe_ChainIDWithoutRevision_splitStr_0
  c11_site
example : siteGuard_ChainIDWithoutRevision_splitStr_0 1 = true := by decide

/-- x/delegation/keeper/delegation_state.go:Keeper.DeleteStakerForOperator:index:stakers.Stakers[:i] -/
theorem C11_guard_DeleteStakerForOperator_stakers_Stakers_i (i : Int) (len_stakers_Stakers : Int) (stakerID : Int) (v : Int)
    (h : siteGuard_DeleteStakerForOperator_stakers_Stakers_i i len_stakers_Stakers stakerID v = true) : siteSafe_DeleteStakerForOperator_stakers_Stakers_i i len_stakers_Stakers stakerID v = true := by
  unfold siteGuard_DeleteStakerForOperator_stakers_Stakers_i at h; unfold siteSafe_DeleteStakerForOperator_stakers_Stakers_i
  c11_site
example : siteGuard_DeleteStakerForOperator_stakers_Stakers_i 0 7 7 7 = true := by decide

/-- x/delegation/keeper/delegation_state.go:Keeper.DeleteStakerForOperator:index:stakers.Stakers[i+1:] -/
theorem C11_guard_DeleteStakerForOperator_stakers_Stakers_i_1 (i : Int) (len_stakers_Stakers : Int) (stakerID : Int) (v : Int)
    (h : siteGuard_DeleteStakerForOperator_stakers_Stakers_i_1 i len_stakers_Stakers stakerID v = true) : siteSafe_DeleteStakerForOperator_stakers_Stakers_i_1 i len_stakers_Stakers stakerID v = true := by
  unfold siteGuard_DeleteStakerForOperator_stakers_Stakers_i_1 at h; unfold siteSafe_DeleteStakerForOperator_stakers_Stakers_i_1
  c11_site
example : siteGuard_DeleteStakerForOperator_stakers_Stakers_i_1 0 7 7 7 = true := by decide

/-- x/delegation/types/keys.go:ParseStakerAssetIDAndOperator:index:stringList[0] -/
theorem C11_guard_ParseStakerAssetIDAndOperator_stringList_0 (len_stringList : Int) (err_isNil : Bool)
    (h : siteGuard_ParseStakerAssetIDAndOperator_stringList_0 len_stringList err_isNil = true) : siteSafe_ParseStakerAssetIDAndOperator_stringList_0 len_stringList err_isNil = true := by
  unfold siteGuard_ParseStakerAssetIDAndOperator_stringList_0 at h; unfold siteSafe_ParseStakerAssetIDAndOperator_stringList_0
  (cases err_isNil) <;> c11_site
example : siteGuard_ParseStakerAssetIDAndOperator_stringList_0 3 true = true := by decide

/-- x/delegation/types/keys.go:ParseStakerAssetIDAndOperator:index:stringList[1] -/
theorem C11_guard_ParseStakerAssetIDAndOperator_stringList_1 (len_stringList : Int) (err_isNil : Bool)
    (h : siteGuard_ParseStakerAssetIDAndOperator_stringList_1 len_stringList err_isNil = true) : siteSafe_ParseStakerAssetIDAndOperator_stringList_1 len_stringList err_isNil = true := by
  unfold siteGuard_ParseStakerAssetIDAndOperator_stringList_1 at h; unfold siteSafe_ParseStakerAssetIDAndOperator_stringList_1
  (cases err_isNil) <;> c11_site
example : siteGuard_ParseStakerAssetIDAndOperator_stringList_1 3 true = true := by decide

/-- x/delegation/types/keys.go:ParseStakerAssetIDAndOperator:index:stringList[2] -/
theorem C11_guard_ParseStakerAssetIDAndOperator_stringList_2 (len_stringList : Int) (err_isNil : Bool)
    (h : siteGuard_ParseStakerAssetIDAndOperator_stringList_2 len_stringList err_isNil = true) : siteSafe_ParseStakerAssetIDAndOperator_stringList_2 len_stringList err_isNil = true := by
  unfold siteGuard_ParseStakerAssetIDAndOperator_stringList_2 at h; unfold siteSafe_ParseStakerAssetIDAndOperator_stringList_2
  (cases err_isNil) <;> c11_site
example : siteGuard_ParseStakerAssetIDAndOperator_stringList_2 3 true = true := by decide

/-- x/delegation/types/keys.go:ParseUndelegationRecordKey:index:stringList[0] -/
theorem C11_guard_ParseUndelegationRecordKey_stringList_0 (len_stringList : Int) (err_isNil : Bool)
    (h : siteGuard_ParseUndelegationRecordKey_stringList_0 len_stringList err_isNil = true) : siteSafe_ParseUndelegationRecordKey_stringList_0 len_stringList err_isNil = true := by
  unfold siteGuard_ParseUndelegationRecordKey_stringList_0 at h; unfold siteSafe_ParseUndelegationRecordKey_stringList_0
  (cases err_isNil) <;> c11_site
example : siteGuard_ParseUndelegationRecordKey_stringList_0 4 true = true := by decide

/-- x/delegation/types/keys.go:ParseUndelegationRecordKey:index:stringList[1] -/
theorem C11_guard_ParseUndelegationRecordKey_stringList_1 (len_stringList : Int) (err_isNil : Bool)
    (h : siteGuard_ParseUndelegationRecordKey_stringList_1 len_stringList err_isNil = true) : siteSafe_ParseUndelegationRecordKey_stringList_1 len_stringList err_isNil = true := by
  unfold siteGuard_ParseUndelegationRecordKey_stringList_1 at h; unfold siteSafe_ParseUndelegationRecordKey_stringList_1
  (cases err_isNil) <;> c11_site
example : siteGuard_ParseUndelegationRecordKey_stringList_1 4 true = true := by decide

/-- x/delegation/types/keys.go:ParseUndelegationRecordKey:index:stringList[2] -/
theorem C11_guard_ParseUndelegationRecordKey_stringList_2 (len_stringList : Int) (err_isNil : Bool)
    (h : siteGuard_ParseUndelegationRecordKey_stringList_2 len_stringList err_isNil = true) : siteSafe_ParseUndelegationRecordKey_stringList_2 len_stringList err_isNil = true := by
  unfold siteGuard_ParseUndelegationRecordKey_stringList_2 at h; unfold siteSafe_ParseUndelegationRecordKey_stringList_2
  (cases err_isNil) <;> c11_site
example : siteGuard_ParseUndelegationRecordKey_stringList_2 4 true = true := by decide

/-- x/delegation/types/keys.go:ParseUndelegationRecordKey:index:stringList[3] -/
theorem C11_guard_ParseUndelegationRecordKey_stringList_3 (len_stringList : Int) (err_isNil : Bool)
    (h : siteGuard_ParseUndelegationRecordKey_stringList_3 len_stringList err_isNil = true) : siteSafe_ParseUndelegationRecordKey_stringList_3 len_stringList err_isNil = true := by
  unfold siteGuard_ParseUndelegationRecordKey_stringList_3 at h; unfold siteSafe_ParseUndelegationRecordKey_stringList_3
  (cases err_isNil) <;> c11_site
example : siteGuard_ParseUndelegationRecordKey_stringList_3 4 true = true := by decide

/-- x/dogfood/keeper/impl_sdk.go:Keeper.IterateBondedValidatorsByPower:index:prevList[i] -/
theorem C11_guard_IterateBondedValidatorsByPower_prevList_i (i : Int) (j : Int) (len_prevList : Int)
    (h : siteGuard_IterateBondedValidatorsByPower_prevList_i i j len_prevList = true) : siteSafe_IterateBondedValidatorsByPower_prevList_i i j len_prevList = true := by
  unfold siteGuard_IterateBondedValidatorsByPower_prevList_i at h; unfold siteSafe_IterateBondedValidatorsByPower_prevList_i
  c11_site
example : siteGuard_IterateBondedValidatorsByPower_prevList_i 7 5 8 = true := by decide

/-- x/dogfood/keeper/impl_sdk.go:Keeper.IterateBondedValidatorsByPower:index:prevList[j] -/
theorem C11_guard_IterateBondedValidatorsByPower_prevList_j (i : Int) (j : Int) (len_prevList : Int)
    (h : siteGuard_IterateBondedValidatorsByPower_prevList_j i j len_prevList = true) : siteSafe_IterateBondedValidatorsByPower_prevList_j i j len_prevList = true := by
  unfold siteGuard_IterateBondedValidatorsByPower_prevList_j at h; unfold siteSafe_IterateBondedValidatorsByPower_prevList_j
  c11_site
example : siteGuard_IterateBondedValidatorsByPower_prevList_j 7 5 8 = true := by decide

/-- x/dogfood/keeper/validators.go:Keeper.ApplyValidatorChanges:index:ret[i] -/
theorem C11_guard_ApplyValidatorChanges_ret_i (i : Int) (j : Int) (len_ret : Int)
    (h : siteGuard_ApplyValidatorChanges_ret_i i j len_ret = true) : siteSafe_ApplyValidatorChanges_ret_i i j len_ret = true := by
  unfold siteGuard_ApplyValidatorChanges_ret_i at h; unfold siteSafe_ApplyValidatorChanges_ret_i
  c11_site
example : siteGuard_ApplyValidatorChanges_ret_i 7 5 8 = true := by decide

/-- x/dogfood/keeper/validators.go:Keeper.ApplyValidatorChanges:index:ret[i]#2 -/
theorem C11_guard_ApplyValidatorChanges_ret_i_2 (i : Int) (j : Int) (len_ret : Int)
    (h : siteGuard_ApplyValidatorChanges_ret_i_2 i j len_ret = true) : siteSafe_ApplyValidatorChanges_ret_i_2 i j len_ret = true := by
  unfold siteGuard_ApplyValidatorChanges_ret_i_2 at h; unfold siteSafe_ApplyValidatorChanges_ret_i_2
  c11_site
example : siteGuard_ApplyValidatorChanges_ret_i_2 7 5 8 = true := by decide

/-- x/dogfood/keeper/validators.go:Keeper.ApplyValidatorChanges:index:ret[i]#3 -/
theorem C11_guard_ApplyValidatorChanges_ret_i_3 (i : Int) (j : Int) (len_ret : Int)
    (h : siteGuard_ApplyValidatorChanges_ret_i_3 i j len_ret = true) : siteSafe_ApplyValidatorChanges_ret_i_3 i j len_ret = true := by
  unfold siteGuard_ApplyValidatorChanges_ret_i_3 at h; unfold siteSafe_ApplyValidatorChanges_ret_i_3
  c11_site
example : siteGuard_ApplyValidatorChanges_ret_i_3 7 5 8 = true := by decide

/-- x/dogfood/keeper/validators.go:Keeper.ApplyValidatorChanges:index:ret[j] -/
theorem C11_guard_ApplyValidatorChanges_ret_j (i : Int) (j : Int) (len_ret : Int)
    (h : siteGuard_ApplyValidatorChanges_ret_j i j len_ret = true) : siteSafe_ApplyValidatorChanges_ret_j i j len_ret = true := by
  unfold siteGuard_ApplyValidatorChanges_ret_j at h; unfold siteSafe_ApplyValidatorChanges_ret_j
  c11_site
example : siteGuard_ApplyValidatorChanges_ret_j 7 5 8 = true := by decide

/-- x/dogfood/keeper/validators.go:Keeper.ApplyValidatorChanges:index:ret[j]#2 -/
theorem C11_guard_ApplyValidatorChanges_ret_j_2 (i : Int) (j : Int) (len_ret : Int)
    (h : siteGuard_ApplyValidatorChanges_ret_j_2 i j len_ret = true) : siteSafe_ApplyValidatorChanges_ret_j_2 i j len_ret = true := by
  unfold siteGuard_ApplyValidatorChanges_ret_j_2 at h; unfold siteSafe_ApplyValidatorChanges_ret_j_2
  c11_site
example : siteGuard_ApplyValidatorChanges_ret_j_2 7 5 8 = true := by decide

/-- x/dogfood/keeper/validators.go:Keeper.ApplyValidatorChanges:index:ret[j]#3 -/
theorem C11_guard_ApplyValidatorChanges_ret_j_3 (i : Int) (j : Int) (len_ret : Int)
    (h : siteGuard_ApplyValidatorChanges_ret_j_3 i j len_ret = true) : siteSafe_ApplyValidatorChanges_ret_j_3 i j len_ret = true := by
  unfold siteGuard_ApplyValidatorChanges_ret_j_3 at h; unfold siteSafe_ApplyValidatorChanges_ret_j_3
  c11_site
example : siteGuard_ApplyValidatorChanges_ret_j_3 7 5 8 = true := by decide

/-- x/feedistribution/keeper/allocation.go:Keeper.AllocateTokensToStakers:index:globalStakerAddressList[i] -/
theorem C11_guard_AllocateTokensToStakers_globalStakerAddressList_i (i : Int) (j : Int) (len_globalStakerAddressList : Int)
    (h : siteGuard_AllocateTokensToStakers_globalStakerAddressList_i i j len_globalStakerAddressList = true) : siteSafe_AllocateTokensToStakers_globalStakerAddressList_i i j len_globalStakerAddressList = true := by
  unfold siteGuard_AllocateTokensToStakers_globalStakerAddressList_i at h; unfold siteSafe_AllocateTokensToStakers_globalStakerAddressList_i
  c11_site
example : siteGuard_AllocateTokensToStakers_globalStakerAddressList_i 7 5 8 = true := by decide

/-- x/feedistribution/keeper/allocation.go:Keeper.AllocateTokensToStakers:index:globalStakerAddressList[j] -/
theorem C11_guard_AllocateTokensToStakers_globalStakerAddressList_j (i : Int) (j : Int) (len_globalStakerAddressList : Int)
    (h : siteGuard_AllocateTokensToStakers_globalStakerAddressList_j i j len_globalStakerAddressList = true) : siteSafe_AllocateTokensToStakers_globalStakerAddressList_j i j len_globalStakerAddressList = true := by
  unfold siteGuard_AllocateTokensToStakers_globalStakerAddressList_j at h; unfold siteSafe_AllocateTokensToStakers_globalStakerAddressList_j
  c11_site
example : siteGuard_AllocateTokensToStakers_globalStakerAddressList_j 7 5 8 = true := by decide

/-- x/operator/keeper/consensus_keys.go:Keeper.GetOperatorsForChainID:index:iterator.Key()[len(prefix):] -/
theorem C11_guard_GetOperatorsForChainID_iterator_Key_len_prefix (len_iterator_Key : Int) (len_prefix : Int) (isAvs_flag : Bool)
    (h : siteGuard_GetOperatorsForChainID_iterator_Key_len_prefix len_iterator_Key len_prefix isAvs_flag = true) : siteSafe_GetOperatorsForChainID_iterator_Key_len_prefix len_iterator_Key len_prefix isAvs_flag = true := by
  unfold siteGuard_GetOperatorsForChainID_iterator_Key_len_prefix at h; unfold siteSafe_GetOperatorsForChainID_iterator_Key_len_prefix
  (cases isAvs_flag) <;> c11_site
example : siteGuard_GetOperatorsForChainID_iterator_Key_len_prefix 0 0 true = true := by decide

/-- x/operator/keeper/operator.go:Keeper.GetOptedInAVSForOperator:index:keys[1] -/
theorem C11_guard_GetOptedInAVSForOperator_keys_1 (len_keys : Int) (err_isNil : Bool)
    (h : siteGuard_GetOptedInAVSForOperator_keys_1 len_keys err_isNil = true) : siteSafe_GetOptedInAVSForOperator_keys_1 len_keys err_isNil = true := by
  unfold siteGuard_GetOptedInAVSForOperator_keys_1 at h; unfold siteSafe_GetOptedInAVSForOperator_keys_1
  (cases err_isNil) <;> c11_site
example : siteGuard_GetOptedInAVSForOperator_keys_1 2 true = true := by decide

/-- x/oracle/keeper/cache/caches.go:cacheMsgs.commit:index:index.Index[i:] -/
theorem C11_guard_commit_index_Index_i (i : Int) (len_index_Index : Int)
    (h : siteGuard_commit_index_Index_i i len_index_Index = true) : siteSafe_commit_index_Index_i i len_index_Index = true := by
  unfold siteGuard_commit_index_Index_i at h; unfold siteSafe_commit_index_Index_i
  c11_site
example : siteGuard_commit_index_Index_i 0 0 = true := by decide

/-- x/oracle/keeper/cache/caches.go:cacheParams.commit:index:index.Index[i:] -/
theorem C11_guard_commit_index_Index_i_2 (i : Int) (i_v0 : Int) (len_index_Index : Int)
    (h : siteGuard_commit_index_Index_i_2 i i_v0 len_index_Index = true) : siteSafe_commit_index_Index_i_2 i i_v0 len_index_Index = true := by
  unfold siteGuard_commit_index_Index_i_2 at h; unfold siteSafe_commit_index_Index_i_2
  c11_site
example : siteGuard_commit_index_Index_i_2 0 0 0 = true := by decide

/-- x/oracle/keeper/common/types.go:BigIntList.Median:index:b[l/2] -/
theorem C11_guard_Median_b_l_2 (l : Int) (len_b : Int)
    (h : siteGuard_Median_b_l_2 l len_b = true) : siteSafe_Median_b_l_2 l len_b = true := by
  unfold siteGuard_Median_b_l_2 at h; unfold siteSafe_Median_b_l_2
  simp only [Bool.and_eq_true, decide_eq_true_eq, beq_iff_eq] at *
  have hl : 0 ≤ l := by omega
  rw [Int.tmod_eq_emod_of_nonneg hl] at h
  rw [Int.tdiv_eq_ediv_of_nonneg hl]
  omega
example : siteGuard_Median_b_l_2 1 1 = true := by decide

/-- x/oracle/keeper/native_token.go:Keeper.UpdateNSTByBalanceChange:index:stakerInfo.BalanceList[length-1] -/
theorem C11_guard_UpdateNSTByBalanceChange_stakerInfo_BalanceList_length_1 (len_rawData : Int) (len_sl_StakerAddrs : Int) (len_stakerInfo_BalanceList : Int) (length : Int)
    (h : siteGuard_UpdateNSTByBalanceChange_stakerInfo_BalanceList_length_1 len_rawData len_sl_StakerAddrs len_stakerInfo_BalanceList length = true) : siteSafe_UpdateNSTByBalanceChange_stakerInfo_BalanceList_length_1 len_rawData len_sl_StakerAddrs len_stakerInfo_BalanceList length = true := by
  unfold siteGuard_UpdateNSTByBalanceChange_stakerInfo_BalanceList_length_1 at h; unfold siteSafe_UpdateNSTByBalanceChange_stakerInfo_BalanceList_length_1
  c11_site
example : siteGuard_UpdateNSTByBalanceChange_stakerInfo_BalanceList_length_1 32 32 32 32 = true := by decide

/-- x/oracle/keeper/native_token.go:parseBalanceChange:index:changes[byteIndex] -/
theorem C11_guard_parseBalanceChange_changes_byteIndex (byteIndex : Int) (i : Int) (index : Int) (len_changes : Int) (len_sl_StakerAddrs : Int)
    (h : siteGuard_parseBalanceChange_changes_byteIndex byteIndex i index len_changes len_sl_StakerAddrs = true) : siteSafe_parseBalanceChange_changes_byteIndex byteIndex i index len_changes len_sl_StakerAddrs = true := by
  unfold siteGuard_parseBalanceChange_changes_byteIndex at h; unfold siteSafe_parseBalanceChange_changes_byteIndex
  c11_site
example : siteGuard_parseBalanceChange_changes_byteIndex 1 0 2 4 3 = true := by decide

/-- x/oracle/keeper/native_token.go:parseBalanceChange:index:changes[byteIndex]#2 -/
theorem C11_guard_parseBalanceChange_changes_byteIndex_2 (bitsLeft : Int) (byteIndex : Int) (i : Int) (index : Int) (len_changes : Int) (len_sl_StakerAddrs : Int) (lengthBits : Int)
    (h : siteGuard_parseBalanceChange_changes_byteIndex_2 bitsLeft byteIndex i index len_changes len_sl_StakerAddrs lengthBits = true) : siteSafe_parseBalanceChange_changes_byteIndex_2 bitsLeft byteIndex i index len_changes len_sl_StakerAddrs lengthBits = true := by
  unfold siteGuard_parseBalanceChange_changes_byteIndex_2 at h; unfold siteSafe_parseBalanceChange_changes_byteIndex_2
  c11_site
example : siteGuard_parseBalanceChange_changes_byteIndex_2 4 5 2 2 7 7 5 = true := by decide

/-- x/oracle/keeper/native_token.go:parseBalanceChange:index:changes[byteIndex]#3 -/
theorem C11_guard_parseBalanceChange_changes_byteIndex_3 (byteIndex : Int) (i : Int) (index : Int) (lenValue : Int) (len_changes : Int) (len_sl_StakerAddrs : Int)
    (h : siteGuard_parseBalanceChange_changes_byteIndex_3 byteIndex i index lenValue len_changes len_sl_StakerAddrs = true) : siteSafe_parseBalanceChange_changes_byteIndex_3 byteIndex i index lenValue len_changes len_sl_StakerAddrs = true := by
  unfold siteGuard_parseBalanceChange_changes_byteIndex_3 at h; unfold siteSafe_parseBalanceChange_changes_byteIndex_3
  c11_site
example : siteGuard_parseBalanceChange_changes_byteIndex_3 2 1 0 2 4 3 = true := by decide

/-- x/oracle/keeper/native_token.go:parseBalanceChange:index:sl.StakerAddrs[index] -/
theorem C11_guard_parseBalanceChange_sl_StakerAddrs_index (i : Int) (index : Int) (lenValue : Int) (len_sl_StakerAddrs : Int)
    (h : siteGuard_parseBalanceChange_sl_StakerAddrs_index i index lenValue len_sl_StakerAddrs = true) : siteSafe_parseBalanceChange_sl_StakerAddrs_index i index lenValue len_sl_StakerAddrs = true := by
  unfold siteGuard_parseBalanceChange_sl_StakerAddrs_index at h; unfold siteSafe_parseBalanceChange_sl_StakerAddrs_index
  c11_site
example : siteGuard_parseBalanceChange_sl_StakerAddrs_index 5 0 1 6 = true := by decide

/-- x/oracle/keeper/nonce.go:Keeper.removeNonceWithValidatorAndFeederID:index:nonce.NonceList[:i] -/
theorem C11_guard_removeNonceWithValidatorAndFeederID_nonce_NonceList_i (feederID : Int) (i : Int) (len_nonce_NonceList : Int) (n_FeederID : Int) (found_flag : Bool)
    (h : siteGuard_removeNonceWithValidatorAndFeederID_nonce_NonceList_i feederID i len_nonce_NonceList n_FeederID found_flag = true) : siteSafe_removeNonceWithValidatorAndFeederID_nonce_NonceList_i feederID i len_nonce_NonceList n_FeederID found_flag = true := by
  unfold siteGuard_removeNonceWithValidatorAndFeederID_nonce_NonceList_i at h; unfold siteSafe_removeNonceWithValidatorAndFeederID_nonce_NonceList_i
  (cases found_flag) <;> c11_site
example : siteGuard_removeNonceWithValidatorAndFeederID_nonce_NonceList_i 3 5 7 3 true = true := by decide

/-- x/oracle/keeper/nonce.go:Keeper.removeNonceWithValidatorAndFeederID:index:nonce.NonceList[i+1:] -/
theorem C11_guard_removeNonceWithValidatorAndFeederID_nonce_NonceList_i_1 (feederID : Int) (i : Int) (len_nonce_NonceList : Int) (n_FeederID : Int) (found_flag : Bool)
    (h : siteGuard_removeNonceWithValidatorAndFeederID_nonce_NonceList_i_1 feederID i len_nonce_NonceList n_FeederID found_flag = true) : siteSafe_removeNonceWithValidatorAndFeederID_nonce_NonceList_i_1 feederID i len_nonce_NonceList n_FeederID found_flag = true := by
  unfold siteGuard_removeNonceWithValidatorAndFeederID_nonce_NonceList_i_1 at h; unfold siteSafe_removeNonceWithValidatorAndFeederID_nonce_NonceList_i_1
  (cases found_flag) <;> c11_site
example : siteGuard_removeNonceWithValidatorAndFeederID_nonce_NonceList_i_1 3 5 7 3 true = true := by decide

/-- x/oracle/types/native_token.go:StakerInfo.Append:index:s.BalanceList[len(s.BalanceList)-maxSize:] -/
theorem C11_guard_Append_s_BalanceList_len_s_BalanceList_maxSize (len_s_BalanceList : Int)
    (h : siteGuard_Append_s_BalanceList_len_s_BalanceList_maxSize len_s_BalanceList = true) : siteSafe_Append_s_BalanceList_len_s_BalanceList_maxSize len_s_BalanceList = true := by
  unfold siteGuard_Append_s_BalanceList_len_s_BalanceList_maxSize at h; unfold siteSafe_Append_s_BalanceList_len_s_BalanceList_maxSize
  c11_site
example : siteGuard_Append_s_BalanceList_len_s_BalanceList_maxSize 101 = true := by decide

/-- x/oracle/types/params.go:Params.GetAssetIDsFromTokenID:index:p.Tokens[tokenID] -/
theorem C11_guard_GetAssetIDsFromTokenID_p_Tokens_tokenID (len_p_Tokens : Int) (tokenID : Int)
    (h : siteGuard_GetAssetIDsFromTokenID_p_Tokens_tokenID len_p_Tokens tokenID = true) : siteSafe_GetAssetIDsFromTokenID_p_Tokens_tokenID len_p_Tokens tokenID = true := by
  unfold siteGuard_GetAssetIDsFromTokenID_p_Tokens_tokenID at h; unfold siteSafe_GetAssetIDsFromTokenID_p_Tokens_tokenID
  c11_site
example : siteGuard_GetAssetIDsFromTokenID_p_Tokens_tokenID 8 2 = true := by decide

/-- the lemmas above, by name (the review table of C11Tie.lean cites them as strings) -/
def provedSiteGuards : List String := [
  "C11_guard_AsKey_delimiter_0",
  "C11_guard_SortByPower_indices_i",
  "C11_guard_SortByPower_indices_i_2",
  "C11_guard_SortByPower_indices_i_3",
  "C11_guard_SortByPower_indices_j",
  "C11_guard_SortByPower_indices_j_2",
  "C11_guard_SortByPower_indices_j_3",
  "C11_guard_SortByPower_sortedPowers_i",
  "C11_guard_ParseID_keys_0",
  "C11_guard_ParseID_keys_0_2",
  "C11_guard_ParseID_keys_1",
  "C11_guard_GroupTasksByIDAndAddress_taskGroup_i",
  "C11_guard_GroupTasksByIDAndAddress_taskGroup_j",
  "C11_guard_ChainIDWithoutRevision_splitStr_0",
  "C11_guard_DeleteStakerForOperator_stakers_Stakers_i",
  "C11_guard_DeleteStakerForOperator_stakers_Stakers_i_1",
  "C11_guard_ParseStakerAssetIDAndOperator_stringList_0",
  "C11_guard_ParseStakerAssetIDAndOperator_stringList_1",
  "C11_guard_ParseStakerAssetIDAndOperator_stringList_2",
  "C11_guard_ParseUndelegationRecordKey_stringList_0",
  "C11_guard_ParseUndelegationRecordKey_stringList_1",
  "C11_guard_ParseUndelegationRecordKey_stringList_2",
  "C11_guard_ParseUndelegationRecordKey_stringList_3",
  "C11_guard_IterateBondedValidatorsByPower_prevList_i",
  "C11_guard_IterateBondedValidatorsByPower_prevList_j",
  "C11_guard_ApplyValidatorChanges_ret_i",
  "C11_guard_ApplyValidatorChanges_ret_i_2",
  "C11_guard_ApplyValidatorChanges_ret_i_3",
  "C11_guard_ApplyValidatorChanges_ret_j",
  "C11_guard_ApplyValidatorChanges_ret_j_2",
  "C11_guard_ApplyValidatorChanges_ret_j_3",
  "C11_guard_AllocateTokensToStakers_globalStakerAddressList_i",
  "C11_guard_AllocateTokensToStakers_globalStakerAddressList_j",
  "C11_guard_GetOperatorsForChainID_iterator_Key_len_prefix",
  "C11_guard_GetOptedInAVSForOperator_keys_1",
  "C11_guard_commit_index_Index_i",
  "C11_guard_commit_index_Index_i_2",
  "C11_guard_Median_b_l_2",
  "C11_guard_UpdateNSTByBalanceChange_stakerInfo_BalanceList_length_1",
  "C11_guard_parseBalanceChange_changes_byteIndex",
  "C11_guard_parseBalanceChange_changes_byteIndex_2",
  "C11_guard_parseBalanceChange_changes_byteIndex_3",
  "C11_guard_parseBalanceChange_sl_StakerAddrs_index",
  "C11_guard_removeNonceWithValidatorAndFeederID_nonce_NonceList_i",
  "C11_guard_removeNonceWithValidatorAndFeederID_nonce_NonceList_i_1",
  "C11_guard_Append_s_BalanceList_len_s_BalanceList_maxSize",
  "C11_guard_GetAssetIDsFromTokenID_p_Tokens_tokenID"]

end ExoVerif.Blocks
