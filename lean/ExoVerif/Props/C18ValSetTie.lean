import ExoVerif.Generated.Facts
import ExoVerif.Model.GenesisValSet
/-!
# C18 — tie of the validator-set importer (regenerated from x/dogfood/keeper/genesis.go on every run)

`initLoop codeValCfg` / `initVals` (Model/GenesisValSet.lean) carry exactly the statements listed here: the key of every
val_set entry is resolved through x/operator's reverse lookup and the import PANICS when no operator owns it; every other
entry is appended to `out` (no further guard: `codeValCfg.skip` is constantly false — in particular the jail status of the
operator is not consulted); LastTotalPower is taken from the document; the function returns ApplyValidatorChanges(out).
A further `if … => continue` in the loop (seeded change C18-h: entries of jailed operators skipped), a different total or a
different argument of ApplyValidatorChanges changes the regenerated fact and breaks the theorem.
-/
namespace ExoVerif.Genesis
open ExoVerif.Gen

theorem C18_tie_valset_init_loop : dogfoodInitValSet = [
  "for _, val := range genState.ValSet",
  "wrappedKey := keytypes.NewWrappedConsKeyFromHex(val.PublicKey)",
  "if found, _ := k.operatorKeeper.GetOperatorAddressForChainIDAndConsAddr(ctx, chainIDWithoutRevision, wrappedKey.ToConsAddr()); !found => panic",
  "out = append(out, keytypes.WrappedConsKeyWithPower{Key: wrappedKey, Power: val.Power})",
  "k.SetLastTotalPower(ctx, genState.LastTotalPower)",
  "return k.ApplyValidatorChanges(ctx, out)"] := rfl

end ExoVerif.Genesis
