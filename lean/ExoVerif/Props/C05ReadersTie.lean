import ExoVerif.Model.VotingPower
import ExoVerif.Generated.Facts
/-
  Tie A for the readers of the recorded voting power (tools/exofacts/facts_vpreaders.go): the only OptedInfo
  predicate any reader consults is `!IsOptedIn` in GetOperatorOptedUSDValue — the gate of the model's
  `readOpted`. A reader that also looks at IsActive / Jailed / GetOptedInfo changes this list.
-/
namespace ExoVerif.Props.C05ReadersTie
open ExoVerif ExoVerif.VP

/-- the gate of the model's reader, by the name the code calls it -/
def modelGate (name : String) : Option (Option OptedInfo → Bool) :=
  if name == "GetOperatorOptedUSDValue:!IsOptedIn" then some isOptedIn else none

theorem C05_tie_reader_gates : Gen.optedValueReaderGates = ["GetOperatorOptedUSDValue:!IsOptedIn"] := by decide

/-- the model's reader is the gated reader with the gate the code names -/
theorem C05_tie_reader_gate_is_model (s : St) (avs op : String) (info : Option OptedInfo) :
    (Gen.optedValueReaderGates.filterMap modelGate).map (fun g => readOptedWith g s avs op info) =
      [readOpted s avs op info] := by
  rfl

end ExoVerif.Props.C05ReadersTie
