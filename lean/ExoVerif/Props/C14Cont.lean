import ExoVerif.Props.C14
import ExoVerif.Proofs.OracleCont
/-!
# C14 — oracle restart equivalence: the continuation

`Props/C14.lean` proves that a node restarted after a `Faithful` history rebuilds the live process state up
to the *values* of the nonces recorded in the aggregator's filters (`Agc.Z`), and that the transactions of
the restart block give the same results under a side condition evaluated on both runs (`txsBits`).
This file removes the side condition and proves the continuation: **every later block** — the rest of the
restart block, its EndBlock, and any number of further blocks — produces the same transaction results
(accepted / rejected submissions with message index and error class), the same halting behaviour and the
same committed store (finalized prices, round ids, nonces, replay log, params, ValidatorUpdateBlock) on the
restarted node as on the node that never stopped.

What `Z` forgets is controlled from outside the aggregator by the ante handler
(app/ante/cosmos/sigverify.go: IncrementSequenceDecorator → x/oracle/keeper/nonce.go: CheckAndIncreaseNonce,
`anteNonces` / `Store.checkNonce` in the model): the nonce let through is the stored nonce + 1.

* the invariant (`NInv`, Proofs/OracleCont.lean; one state, not a relation): the workers map has unique keys,
  a worker exists only where a round exists, and **every nonce recorded in a filter for (validator v,
  feeder f) is at most the stored nonce of (v, f)** whenever the store holds one. The live filter holds
  nonces in [1, stored]; a recached filter holds 0s (`C14_recached_nonces_zero`) and, later, the nonces let
  through since the restart — both satisfy the same bound, and by `Z` both sets have the same size;
* hence the nonce let through next (stored + 1) is in neither set and `Set.Add` answers alike on both nodes
  (`C14_nonce_bit_agrees_partial`); inside one transaction the check of *all* messages precedes the first
  message, so the bound is kept per pending message: the nonces of one (validator, feeder) increase strictly
  along the message list (`C14_ante_nonce_rule`);
* the invariant is kept by every transaction — including one that fails half way, whose message writes are
  dropped while the in-memory context keeps what the messages did (F-09c) — and by EndBlock: seal, nonce
  cleanup of departed validators and sealed feeders (entries are only removed), cache commit, params commit,
  PrepareRoundEndBlock (workers are only deleted) and the zero nonces of the newly opened feeders (added only
  where the worker is gone) (`C14_nonce_invariant_kept_partial`);
* `CRel s s'` = `SRel s s'` (equal store, cache, validator set, height, time; contexts equal up to `Z`)
  ∧ `NInv s` ∧ `NInv s'` is established by `restartAt` after a `Faithful` history whose live end state
  satisfies the invariant, and kept by every block (`C14_restart_establishes_relation_partial`,
  `C14_block_continuation_partial`); the continuation follows by induction over the blocks.
-/
namespace ExoVerif.Oracle

/-- the decidable extra hypothesis of the continuation: the live state at the restart point satisfies the
nonce invariant `NInv` (`ninvB` evaluates it on the concrete state; `ninvB_sound`). It is not a restriction
of the admissible histories but the link to the part of the history that precedes the theorem's `s0`
(which is an arbitrary state, possibly with arbitrary numbers in its filters): the invariant holds for a
context without workers (first start, `initAgc`), for every freshly recached context whose rounds carry
its workers, and is kept by every block (`C14_nonce_invariant_kept_partial`). -/
def NonceReady (s0 : State) (bs : List Block) : Prop :=
  (match runBlocks s0 bs with
   | some r => ninvB r.1
   | none => false) = true

instance (s0 : State) (bs : List Block) : Decidable (NonceReady s0 bs) := by unfold NonceReady; infer_instance

/-- The ante rule (sigverify.go: IncrementSequenceDecorator, nonce.go: CheckAndIncreaseNonce), for a whole
transaction: if the nonce check of the message list succeeds from store `st` and leaves `st'`, then every
message's nonce exceeds the nonce stored for its (validator, feeder) before the transaction, is at most the
one stored after it, nonce entries are neither created nor lowered, and the nonces of one (validator,
feeder) increase strictly along the list. -/
theorem C14_ante_nonce_rule (mx : Nat) (ms : List Msg) (st st' : Store) (h : anteNonces mx st ms = some st') :
    NGe st st' ∧
    (∀ m ∈ ms, ∃ c, alookup (m.creator, m.feederID) st.nonces = some c ∧ (c : Int) < m.nonce) ∧
    (∀ m ∈ ms, ∀ c, alookup (m.creator, m.feederID) st'.nonces = some c → m.nonce ≤ (c : Int)) ∧
    Incr ms :=
  anteNonces_spec mx ms st st' h

/-- What `Z` forgets does not matter for a nonce above everything recorded: on two contexts that agree up
to nonces, a message whose nonce exceeds every nonce recorded for its sender at its feeder's worker — on
either side — gets the same answer from the nonce filter (`Set.Add`: both sets have the same size, neither
contains the nonce). -/
theorem C14_nonce_bit_agrees_partial (g g' : Agc) (p : Params) (m : Msg) (hZ : g.Z = g'.Z)
    (h1 : ∀ n ∈ nset g m.feederID m.creator, n < m.nonce)
    (h2 : ∀ n ∈ nset g' m.feederID m.creator, n < m.nonce) : okG g p m = okG g' p m :=
  okG_of_fresh g g' p m hZ h1 h2

/-- `orc.restart`, whatever the committed store holds (no hypothesis on the history): the rebuilt context
has a workers map with unique keys and every nonce recorded in its filters is 0 — recacheAggregatorContext
feeds every logged item to FillPrice with nonce 0 (`C14_replay_uses_nonce_zero`), SealRound and
PrepareRoundEndBlock only delete workers. -/
theorem C14_recached_nonces_zero (s : State) (bt : Int) (s' : State) (h : restartAt s bt = some s') :
    ∃ g, s'.agc = some g ∧ (akeys g.workers).Nodup ∧ ∀ fid v n, n ∈ nset g fid v → n = 0 :=
  restartAt_ZI s bt s' h

/-- **The nonce invariant is an invariant** (one node, no restart involved): it is kept by every
transaction (`deliverTx`: ante handler, messages, the store roll-back of a failed transaction that leaves
the in-memory context as the messages left it) and by EndBlock with any validator updates. -/
theorem C14_nonce_invariant_kept_partial (s : State) (hN : NInv s) :
    (∀ tx : Tx, NInv (deliverTx s tx).1) ∧
    (∀ (upd : List (Nat × Int)) (t : State), endBlock s upd = some t → NInv t) :=
  ⟨fun tx => deliverTx_NInv s tx hN, fun upd t ht => endBlock_NInv s upd t hN ht⟩

/-- a node at its first start: no aggregator context in memory and no ValidatorUpdateBlock in the store, so
that the first `GetAggregatorContext` call takes the init path (single.go: initAggregatorContext) -/
def FirstStart (s0 : State) : Prop := s0.agc = none ∧ s0.store.vuBlock = none

instance (s0 : State) : Decidable (FirstStart s0) := by unfold FirstStart; infer_instance

/-- **the invariant holds along every history from a first start**, whatever the blocks contain: after any
number of blocks the node either still has no context (and no ValidatorUpdateBlock: nothing has called
`GetAggregatorContext` yet — impossible after the first EndBlock) or satisfies the nonce invariant. So
`NonceReady` is no restriction on histories that begin at genesis. -/
theorem C14_nonce_invariant_from_first_start (s0 : State) (bs : List Block) (s : State) (outs : List (List TxOut))
    (h0 : FirstStart s0) (hrun : runBlocks s0 bs = some (s, outs)) : FirstStart s ∨ NInv s :=
  runBlocks_PreInv bs s0 s outs (Or.inl h0) hrun

/-- the relation `CRel` is established by the restart: after a `Faithful` history whose live end state
satisfies the nonce invariant, the restarted node (process memory rebuilt by `recacheAgc` from the committed
store alone) and the live node, both after the begin of the next block, have equal store, cache, validator
set, height and time, contexts equal up to nonces, and both satisfy the nonce invariant. -/
theorem C14_restart_establishes_relation_partial (s0 : State) (bs : List Block) (bt : Int)
    (hF : Faithful s0 bs) (hN : NonceReady s0 bs) :
    ∃ s outs s', runBlocks s0 bs = some (s, outs) ∧ restartAt s bt = some s' ∧ CRel (beginBlock s bt) s' := by
  unfold NonceReady at hN
  rcases hrun : runBlocks s0 bs with _ | ⟨s, outs⟩
  · rw [hrun] at hN; cases hN
  · rw [hrun] at hN
    obtain ⟨s', hre, hC⟩ := restart_CRel s0 bs bt hF s outs hrun (ninvB_sound s hN)
    exact ⟨s, outs, s', rfl, hre, hC⟩

/-- the same for a history that begins at a first start: no check of the end state is needed -/
theorem C14_restart_establishes_relation_first_start_partial (s0 : State) (bs : List Block) (bt : Int)
    (h0 : FirstStart s0) (hF : Faithful s0 bs) :
    ∃ s outs s', runBlocks s0 bs = some (s, outs) ∧ restartAt s bt = some s' ∧ CRel (beginBlock s bt) s' := by
  obtain ⟨s, outs, gl, gr, hrun, _, _, _⟩ := restart_equiv s0 bs bt hF
  have hN : NInv s := by
    rcases runBlocks_PreInv bs s0 s outs (Or.inl h0) hrun with h | h
    · obtain ⟨hv, hvu⟩ := faithful_vuBlock s0 bs s outs hF hrun
      rw [h.2] at hvu; cases hvu
    · exact h
  obtain ⟨s', hre, hC⟩ := restart_CRel s0 bs bt hF s outs hrun hN
  exact ⟨s, outs, s', hrun, hre, hC⟩

/-- **one block of the continuation, EndBlock included**: from two states related by `CRel`, the
transactions of a block give the same results; EndBlock (seal, prepare, nonce cleanup for sealed feeders
and departed validators, cache commit, validator updates) halts on both nodes or on neither; the committed
stores are equal and the relation holds again. -/
theorem C14_block_continuation_partial (s s' : State) (b : Block) (h : CRel s s') :
    (runBlock s b = none ∧ runBlock s' b = none) ∨
    ∃ t t' o, runBlock s b = some (t, o) ∧ runBlock s' b = some (t', o) ∧ t'.store = t.store ∧ CRel t t' := by
  rcases runBlock_CRel s s' b h with h1 | ⟨t, t', o, h1, h2, h3⟩
  · exact Or.inl h1
  · exact Or.inr ⟨t, t', o, h1, h2, CRel_store t t' h3, h3⟩

/-- every later block, observed one by one (`runTrace`: per block the transaction results and the
committed store, or the halt): the live node's trace of the restart block (transactions `txs`, updates
`upd`) followed by any continuation equals the restarted node's. -/
theorem C14_continuation_trace_partial (s0 : State) (bs : List Block) (bt : Int)
    (hF : Faithful s0 bs) (hN : NonceReady s0 bs) :
    ∃ s outs s', runBlocks s0 bs = some (s, outs) ∧ restartAt s bt = some s' ∧
      ∀ (txs : List Tx) (upd : List (Nat × Int)) (cont : List Block),
        runTrace s ({ blockTime := bt, txs := txs, updates := upd } :: cont) =
          (match endBlock (runTxs s' txs).1 upd with
           | none => [none]
           | some t' => some ((runTxs s' txs).2, t'.store) :: runTrace t' cont) := by
  obtain ⟨s, outs, s', hrun, hre, hC⟩ := C14_restart_establishes_relation_partial s0 bs bt hF hN
  exact ⟨s, outs, s', hrun, hre, fun txs upd cont => trace_of_CRel s s' bt hC txs upd cont⟩

/-- **C14, the continuation, partial**: the statement `C14_continuation_statement` (Props/C14.lean) with
one added decidable hypothesis. For every state `s0`, every `Faithful` history `bs` from it whose live end
state satisfies the nonce invariant (`NonceReady`), every block time, transaction list and validator
updates of the block in which the node restarts, and every continuation `cont`: the restarted node and the
node that never stopped produce the same results for the transactions of the restart block, both halt in
its EndBlock or neither does, and over the continuation they produce the same results block by block, halt
alike, and end with the same committed store. (`cont` is universally quantified, so the stores agree after
every block, not only the last: `C14_continuation_trace_partial`.)

Hypotheses that remain, and why:
* `Faithful s0 bs` — the hypothesis of the restart theorem, unchanged; it keeps the recorded findings out:
  F-14a (a validator's second message in the replay window: the log has no nonces, the recached filter
  refuses the second nonce-0 replay), F-14b (restart fewer than MaxNonce blocks after a round was closed by
  a final price: the log drops the finalizing message and the round re-opens), and the window-start /
  log conditions. All of them concern what `recacheAgc` can rebuild at the restart; nothing of the kind is
  needed *after* the restart: second messages of a validator, finalizations, forced seals, validator-set
  changes and halts in the continuation are all covered.
* `NonceReady s0 bs` — the nonce invariant on the live end state (see `NonceReady`); `s0` is an arbitrary
  state, so the link between its filters and its stored nonces has to come from somewhere. For a history
  from a first start it is a theorem: `C14_continuation_first_start_partial` needs `Faithful` only.
* the model's boundary: `Tx`/`Msg` as in Model/Oracle.lean (signature verification as boolean inputs), the
  application hash is a function of the committed store. -/
theorem C14_continuation_partial : ∀ (s0 : State) (bs cont : List Block) (bt : Int),
    Faithful s0 bs → NonceReady s0 bs →
    ∀ s outs s', runBlocks s0 bs = some (s, outs) → restartAt s bt = some s' →
      ∀ (txs : List Tx) (upd : List (Nat × Int)),
        (match endBlock (runTxs (beginBlock s bt) txs).1 upd, endBlock (runTxs s' txs).1 upd with
         | some t, some t' =>
           (runTxs (beginBlock s bt) txs).2 = (runTxs s' txs).2 ∧
           (runBlocks t cont).map (fun r => (r.2, r.1.store)) = (runBlocks t' cont).map (fun r => (r.2, r.1.store))
         | none, none => True
         | _, _ => False) := by
  intro s0 bs cont bt hF hN s outs s' hrun hre txs upd
  obtain ⟨s1, outs1, s1', hrun1, hre1, hC⟩ := C14_restart_establishes_relation_partial s0 bs bt hF hN
  rw [hrun] at hrun1
  simp only [Option.some.injEq, Prod.mk.injEq] at hrun1
  obtain ⟨e1, _⟩ := hrun1
  subst e1
  rw [hre] at hre1
  simp only [Option.some.injEq] at hre1
  subst hre1
  exact continuation_of_CRel _ _ hC txs upd cont

/-- **C14, the continuation, for histories from a first start**: `C14_continuation_statement` restricted to
initial states that are a node's first start (no context in memory, no ValidatorUpdateBlock in the store —
a genesis state). The only remaining hypothesis on the history is `Faithful`. -/
theorem C14_continuation_first_start_partial : ∀ (s0 : State) (bs cont : List Block) (bt : Int),
    FirstStart s0 → Faithful s0 bs →
    ∀ s outs s', runBlocks s0 bs = some (s, outs) → restartAt s bt = some s' →
      ∀ (txs : List Tx) (upd : List (Nat × Int)),
        (match endBlock (runTxs (beginBlock s bt) txs).1 upd, endBlock (runTxs s' txs).1 upd with
         | some t, some t' =>
           (runTxs (beginBlock s bt) txs).2 = (runTxs s' txs).2 ∧
           (runBlocks t cont).map (fun r => (r.2, r.1.store)) = (runBlocks t' cont).map (fun r => (r.2, r.1.store))
         | none, none => True
         | _, _ => False) := by
  intro s0 bs cont bt h0 hF s outs s' hrun hre txs upd
  obtain ⟨s1, outs1, s1', hrun1, hre1, hC⟩ := C14_restart_establishes_relation_first_start_partial s0 bs bt h0 hF
  rw [hrun] at hrun1
  simp only [Option.some.injEq, Prod.mk.injEq] at hrun1
  obtain ⟨e1, _⟩ := hrun1
  subst e1
  rw [hre] at hre1
  simp only [Option.some.injEq] at hre1
  subst hre1
  exact continuation_of_CRel _ _ hC txs upd cont

/-! ### non-vacuity: the history of Props/C14.lean (3 validators 20/10/10, one feeder, MaxNonce 3; round 3
with base block 9 holds the prices of v1 and v2 when the node restarts in block 11), continued by three
blocks in which validators submit *again* after the restart:
block 11 (the restart block): v1's second price of the round (nonce 2) — the live filter holds [1, 2]
for v1 afterwards, the recached one [0, 2]; block 12: v2's second price (nonce 2), then EndBlock force-seals
the round (12 − 9 ≥ MaxNonce): the stored round grows, the nonces of the feeder are removed; block 13:
empty; block 14: v1 tries nonce 3 — refused by the ante handler on both nodes (no nonce entry). -/

def exRestartTxs : List Tx := [exTx 1 9 2 "10"]

def exCont : List Block :=
  [{ blockTime := 100, txs := [exTx 2 9 2 "10"], updates := [] },
   exEmpty,
   { blockTime := 100, txs := [exTx 1 9 3 "11"], updates := [] }]

/-- (`Faithful exGenesis exBlocks` is the example of Props/C14.lean) -/
example : NonceReady exGenesis exBlocks := by decide

example : FirstStart exGenesis := by decide

/-- the live end state: stored nonces 1 for v1 and v2 (0 for v0, who never submitted); the restart block's
transaction is accepted on both nodes -/
example :
    ((runBlocks exGenesis exBlocks).bind (fun r => (restartAt r.1 100).map (fun s' =>
      (r.1.store.nonces,
       (runTxs (beginBlock r.1 100) exRestartTxs).2, (runTxs s' exRestartTxs).2)))) =
      some ([((0, 1), 0), ((1, 1), 1), ((2, 1), 1)], [TxOut.ok], [TxOut.ok]) := by decide

/-- after it the live filter holds the nonces [1, 2] for v1, the recached one [0, 2] -/
example :
    ((runBlocks exGenesis exBlocks).bind (fun r => (restartAt r.1 100).map (fun s' =>
      ((runTxs (beginBlock r.1 100) exRestartTxs).1.agc.map (fun g => nset g 1 1),
       (runTxs s' exRestartTxs).1.agc.map (fun g => nset g 1 1))))) =
      some (some [1, 2], some [0, 2]) := by decide

/-- the conclusion evaluates as claimed: equal stores (and different memories) after the restart block -/
example :
    ((runBlocks exGenesis exBlocks).bind (fun r => (restartAt r.1 100).bind (fun s' =>
      match endBlock (runTxs (beginBlock r.1 100) exRestartTxs).1 [], endBlock (runTxs s' exRestartTxs).1 [] with
      | some t, some t' => some (decide (t.store = t'.store), decide (t.agc = t'.agc))
      | _, _ => none))) = some (true, false) := by decide

/-- over the three further blocks the live node accepts v2's second price and refuses v1's third message in
the ante handler … -/
example :
    ((runBlocks exGenesis exBlocks).bind (fun r =>
      (endBlock (runTxs (beginBlock r.1 100) exRestartTxs).1 []).map (fun t =>
        (runTrace t exCont).map (fun (o : Option (List TxOut × Store)) => o.map (·.1))))) =
      some [some [TxOut.ok], some [], some [TxOut.ante "nonce"]] := by decide

/-- … and seals the round at the end of block 12 (NextRoundID 4, the feeder's nonces removed) -/
example :
    ((runBlocks exGenesis exBlocks).bind (fun r =>
      (endBlock (runTxs (beginBlock r.1 100) exRestartTxs).1 []).map (fun t =>
        (runTrace t exCont).map (fun (o : Option (List TxOut × Store)) =>
          o.map (fun (x : List TxOut × Store) => (x.2.nonces.length, (x.2.token 1).next)))))) =
      some [some (0, 4), some (0, 4), some (0, 4)] := by decide

/-- the restarted node, same three blocks: the same results … -/
example :
    ((runBlocks exGenesis exBlocks).bind (fun r => (restartAt r.1 100).bind (fun s' =>
      (endBlock (runTxs s' exRestartTxs).1 []).map (fun t' =>
        (runTrace t' exCont).map (fun (o : Option (List TxOut × Store)) => o.map (·.1)))))) =
      some [some [TxOut.ok], some [], some [TxOut.ante "nonce"]] := by decide

/-- … and the same stored round ids and nonces (the full stores are equal by the theorem; deciding the
equality of three whole stores exceeds the time allowed for one `decide`) -/
example :
    ((runBlocks exGenesis exBlocks).bind (fun r => (restartAt r.1 100).bind (fun s' =>
      (endBlock (runTxs s' exRestartTxs).1 []).map (fun t' =>
        (runTrace t' exCont).map (fun (o : Option (List TxOut × Store)) =>
          o.map (fun (x : List TxOut × Store) => (x.2.nonces.length, (x.2.token 1).next))))))) =
      some [some (0, 4), some (0, 4), some (0, 4)] := by decide

end ExoVerif.Oracle
