import ExoVerif.Props.C12Hist
import ExoVerif.Model.OracleParamsUpdate
/-!
# C12 — "… and all parameter updates in between": what an accepted MsgUpdateParams configures

`Model/OracleParamsUpdate.lean` transcribes the handler's edit-and-validate chain. Here:

* the retention bound after an accepted update is the one the message carries (`C12_update_max_price_count`,
  `C12_accepted_update_configures_retention`); nothing else the round machinery's limits depend on
  (MaxNonce, thresholds, MaxDetId) can be changed by the message (`C12_update_keeps_round_limits`);
  an accepted update leaves valid params (`C12_accepted_update_valid`);
* "no more than the configured number of rounds is retained" across a change of the bound: holds from
  then on when the store already respects the new bound — always the case when the bound is raised
  (`C12_retention_after_update_partial`, `C12_retention_after_raise`) —, and FAILS when the bound is
  lowered below the number of rounds stored: AppendPriceTR deletes exactly the key
  `NextRoundID − MaxSizePrices` of each append, so a round older than that is never deleted again
  (`C12_stale_round_never_expires`, `C12_retention_lowered_full_fails`; finding F-12a, replayed on the
  real application by harness/dom_oracle_paramsupd.go: directedParamsUpdates).
-/
namespace ExoVerif.Oracle

/-! ## the chain -/

/-- types/params.go: UpdateMaxPriceCount — negative: refused; zero: unchanged; positive: the new bound -/
theorem C12_update_max_price_count (p : Params) (count : Int) :
    (count < 0 → updateMaxPriceCount p count = none) ∧
    (count = 0 → updateMaxPriceCount p count = some p) ∧
    (0 < count → updateMaxPriceCount p count = some { p with maxSizePrices := count.toNat }) := by
  unfold updateMaxPriceCount
  refine ⟨fun h => by simp [h], fun h => by subst h; simp, fun h => ?_⟩
  have h1 : ¬ count < 0 := by omega
  simp [h1, h]

/-- the four limits of the round machinery that the message cannot change, and the bound it can -/
structure SameLimits (p q : Params) : Prop where
  maxNonce : q.maxNonce = p.maxNonce
  thA : q.thA = p.thA
  thB : q.thB = p.thB
  maxDetID : q.maxDetID = p.maxDetID

theorem SameLimits.refl (p : Params) : SameLimits p p := ⟨rfl, rfl, rfl, rfl⟩

theorem SameLimits.trans {a b c : Params} (h1 : SameLimits a b) (h2 : SameLimits b c) : SameLimits a c :=
  ⟨h2.maxNonce.trans h1.maxNonce, h2.thA.trans h1.thA, h2.thB.trans h1.thB, h2.maxDetID.trans h1.maxDetID⟩

theorem updateToken_limits (p : Params) (h : Nat) (t : TokenIn) :
    SameLimits p (updateToken p h t) ∧ (updateToken p h t).maxSizePrices = p.maxSizePrices := by
  unfold updateToken
  split
  · split
    · exact ⟨⟨rfl, rfl, rfl, rfl⟩, rfl⟩
    · exact ⟨SameLimits.refl p, rfl⟩
  · exact ⟨⟨rfl, rfl, rfl, rfl⟩, rfl⟩

theorem updateTokens_limits (ts : List TokenIn) : ∀ (p : Params) (h : Nat),
    SameLimits p (updateTokens p h ts) ∧ (updateTokens p h ts).maxSizePrices = p.maxSizePrices := by
  induction ts with
  | nil => intro p h; exact ⟨SameLimits.refl p, rfl⟩
  | cons t rest ih =>
    intro p h
    have h1 := updateToken_limits p h t
    have h2 := ih (updateToken p h t) h
    simp only [updateTokens, List.foldl_cons] at h2 ⊢
    exact ⟨h1.1.trans h2.1, h2.2.trans h1.2⟩

theorem updateTokenFeeder_limits (p p' : Params) (tf : Feeder) (h : Nat) (hu : updateTokenFeeder p tf h = some p') :
    SameLimits p p' ∧ p'.maxSizePrices = p.maxSizePrices := by
  unfold updateTokenFeeder at hu
  split at hu
  · simp only [Option.some.injEq] at hu; subst hu; exact ⟨⟨rfl, rfl, rfl, rfl⟩, rfl⟩
  · simp only at hu
    split at hu
    · split at hu
      · exact absurd hu (by simp)
      · split at hu
        · exact absurd hu (by simp)
        · split at hu
          · simp only [Option.some.injEq] at hu; subst hu; exact ⟨⟨rfl, rfl, rfl, rfl⟩, rfl⟩
          · exact absurd hu (by simp)
    · split at hu
      · split at hu
        · exact absurd hu (by simp)
        · simp only [Option.some.injEq] at hu; subst hu; exact ⟨⟨rfl, rfl, rfl, rfl⟩, rfl⟩
      · split at hu
        · exact absurd hu (by simp)
        · simp only [Option.some.injEq] at hu; subst hu; exact ⟨⟨rfl, rfl, rfl, rfl⟩, rfl⟩

theorem updateTokenFeeders_limits (fs : List Feeder) : ∀ (p p' : Params) (h : Nat),
    updateTokenFeeders p h fs = some p' → SameLimits p p' ∧ p'.maxSizePrices = p.maxSizePrices := by
  induction fs with
  | nil => intro p p' h hu; simp only [updateTokenFeeders, Option.some.injEq] at hu; subst hu; exact ⟨SameLimits.refl p, rfl⟩
  | cons tf rest ih =>
    intro p p' h hu
    simp only [updateTokenFeeders] at hu
    split at hu
    · exact absurd hu (by simp)
    · rename_i p1 h1
      have a := updateTokenFeeder_limits p p1 tf h h1
      have b := ih p1 p' h hu
      exact ⟨a.1.trans b.1, b.2.trans a.2⟩

/-- the chain, unfolded: what an accepted update is made of -/
theorem applyUpdate_some (inp : ParamsIn) (p p' : Params) (h : Nat) (hu : applyUpdate inp p h = some p') :
    ∃ p1 p4, addSources p inp.sources = some p1 ∧
      updateMaxPriceCount (addRules (updateTokens p1 h inp.tokens) inp.rules) inp.maxSizePrices = some p4 ∧
      updateTokenFeeders p4 h inp.feeders = some p' ∧ validateParams p' = true := by
  unfold applyUpdate at hu
  split at hu
  · exact absurd hu (by simp)
  · rename_i p1 h1
    simp only at hu
    split at hu
    · exact absurd hu (by simp)
    · rename_i p4 h4
      split at hu
      · exact absurd hu (by simp)
      · rename_i p5 h5
        split at hu
        · rename_i hv
          simp only [Option.some.injEq] at hu; subst hu
          exact ⟨p1, p4, h1, h4, h5, hv⟩
        · exact absurd hu (by simp)

theorem addSources_limits (p p1 : Params) (ss : List Source) (h : addSources p ss = some p1) :
    SameLimits p p1 ∧ p1.maxSizePrices = p.maxSizePrices := by
  unfold addSources at h
  split at h
  · exact absurd h (by simp)
  · simp only [Option.some.injEq] at h; subst h; exact ⟨⟨rfl, rfl, rfl, rfl⟩, rfl⟩

/-- **An accepted update configures the retention bound it carries**: a positive `max_size_prices`
becomes the bound, zero leaves the bound as it was (a negative one is never accepted). -/
theorem C12_accepted_update_configures_retention (inp : ParamsIn) (p p' : Params) (h : Nat)
    (hu : applyUpdate inp p h = some p') :
    (0 < inp.maxSizePrices → p'.maxSizePrices = inp.maxSizePrices.toNat) ∧
    (inp.maxSizePrices = 0 → p'.maxSizePrices = p.maxSizePrices) ∧ ¬ inp.maxSizePrices < 0 := by
  obtain ⟨p1, p4, h1, h4, h5, _⟩ := applyUpdate_some inp p p' h hu
  have a := addSources_limits p p1 inp.sources h1
  have b := updateTokens_limits inp.tokens p1 h
  have c := updateTokenFeeders_limits inp.feeders p4 p' h h5
  have spec := C12_update_max_price_count (addRules (updateTokens p1 h inp.tokens) inp.rules) inp.maxSizePrices
  refine ⟨fun hpos => ?_, fun hz => ?_, fun hneg => ?_⟩
  · rw [spec.2.2 hpos] at h4
    simp only [Option.some.injEq] at h4; subst h4
    rw [c.2]
  · rw [spec.2.1 hz] at h4
    simp only [Option.some.injEq] at h4; subst h4
    rw [c.2]
    show (updateTokens p1 h inp.tokens).maxSizePrices = p.maxSizePrices
    rw [b.2, a.2]
  · rw [spec.1 hneg] at h4; exact absurd h4 (by simp)

/-- the per-round message limit, the thresholds and MaxDetId are out of the message's reach -/
theorem C12_update_keeps_round_limits (inp : ParamsIn) (p p' : Params) (h : Nat)
    (hu : applyUpdate inp p h = some p') :
    p'.maxNonce = p.maxNonce ∧ p'.thA = p.thA ∧ p'.thB = p.thB ∧ p'.maxDetID = p.maxDetID := by
  obtain ⟨p1, p4, h1, h4, h5, _⟩ := applyUpdate_some inp p p' h hu
  have a := (addSources_limits p p1 inp.sources h1).1
  have b := (updateTokens_limits inp.tokens p1 h).1
  have c := (updateTokenFeeders_limits inp.feeders p4 p' h h5).1
  have d : SameLimits (updateTokens p1 h inp.tokens) p4 := by
    unfold updateMaxPriceCount at h4
    split at h4
    · exact absurd h4 (by simp)
    · split at h4
      · simp only [Option.some.injEq] at h4; subst h4; exact ⟨rfl, rfl, rfl, rfl⟩
      · simp only [Option.some.injEq] at h4; subst h4; exact ⟨rfl, rfl, rfl, rfl⟩
  have e := ((a.trans b).trans d).trans c
  exact ⟨e.maxNonce, e.thA, e.thB, e.maxDetID⟩

/-- an accepted update leaves params that pass Validate; in particular a retention bound ≥ 1 -/
theorem C12_accepted_update_valid (inp : ParamsIn) (p p' : Params) (h : Nat)
    (hu : applyUpdate inp p h = some p') : validateParams p' = true ∧ 1 ≤ p'.maxSizePrices := by
  obtain ⟨_, _, _, _, _, hv⟩ := applyUpdate_some inp p p' h hu
  refine ⟨hv, ?_⟩
  unfold validateParams at hv
  split at hv
  · exact absurd hv (by simp)
  · rename_i hc
    simp only [Bool.or_eq_true, decide_eq_true_eq, not_or, Nat.not_lt] at hc
    exact hc.2

/-! ## retention across a change of the bound -/

/-- From a store that respects the new bound `m'` (every stored id within `m'` of the counter) on,
every sequence of AppendPriceTR calls under `m'` retains at most `m'` rounds. -/
theorem C12_retention_after_update_partial (t t' : TokenStore) (m' : Nat) (hw : TokWf t)
    (hwin : ∀ k q, alookup k t.rounds = some q → t.nextRoundID ≤ k + m')
    (h1 : 1 ≤ m') (hm : m' < 2 ^ 64) (hs : TokSteps m' t t') (hb : t'.nextRoundID ≤ 2 ^ 64) :
    t'.rounds.length ≤ m' := by
  have hv := hs.win t.nextRoundID hw (TokWin_start t m' hwin) h1 hm hb
  exact retained_le t' m' t.nextRoundID (hs.wf hw) hv

/-- … which is always the case when the bound is raised. -/
theorem C12_retention_after_raise (t t' : TokenStore) (m m' : Nat) (hw : TokWf t)
    (hwin : ∀ k q, alookup k t.rounds = some q → t.nextRoundID ≤ k + m) (hmm : m ≤ m')
    (h1 : 1 ≤ m') (hm : m' < 2 ^ 64) (hs : TokSteps m' t t') (hb : t'.nextRoundID ≤ 2 ^ 64) :
    t'.rounds.length ≤ m' :=
  C12_retention_after_update_partial t t' m' hw (fun k q hq => Nat.le_trans (hwin k q hq) (by omega)) h1 hm hs hb

/-- **A round older than the (lowered) bound reaches is never deleted**: stored under id `k` with
`k + m < NextRoundID`, it is still there after every sequence of AppendPriceTR calls under `m`. -/
theorem C12_stale_round_never_expires (m : Nat) (hm : m < 2 ^ 64) (t t' : TokenStore) (hs : TokSteps m t t') :
    ∀ (k : Nat) (q : PriceTR), TokWf t → alookup k t.rounds = some q → k + m < t.nextRoundID → t'.nextRoundID ≤ 2 ^ 64 →
      alookup k t'.rounds = some q := by
  induction hs with
  | refl t => intro k q _ hq _ _; exact hq
  | step t p t' hst ih =>
    intro k q hw hq hk hb
    have hb1 : (t.append m p).1.nextRoundID ≤ 2 ^ 64 := Nat.le_trans hst.mono hb
    by_cases h : t.nextRoundID = p.roundID
    · have hnx := append_nextRoundID_ok t m p h
      have hn : t.nextRoundID < 2 ^ 64 := by rw [hnx] at hb1; omega
      have hws := (wrapSub64_small t.nextRoundID m hn hm).1 (by omega)
      have hq1 : alookup k (t.append m p).1.rounds = some q := by
        rw [append_lookup t m p hw.nodup h k, hws]
        have c1 : ¬ (0 < t.nextRoundID - m ∧ k = t.nextRoundID - m) := by omega
        have c2 : ¬ k = t.nextRoundID := by omega
        simp only [c1, c2, if_false]; exact hq
      exact ih k q (append_wf t m p hw) hq1 (by rw [hnx]; omega) hb
    · have hf : (t.append m p).2 = false := by
        cases hb2 : (t.append m p).2 with
        | false => rfl
        | true => exact absurd ((append_ok_iff t m p).mp hb2) h
      have he := append_fail t m p hf
      rw [he] at ih
      exact ih k q hw hq hk hb

/-- `n` rounds appended, each under the expected id, with retention bound `m` -/
def appendN (m : Nat) : Nat → TokenStore → TokenStore
  | 0, t => t
  | n + 1, t => appendN m n (t.append m { price := some 1, decimal := 0, ts := 0, roundID := t.nextRoundID }).1

/-- the retention clause at full strength across one parameter update: `n1` rounds under bound `m`,
then `n2` rounds under bound `m'` — never more than `m'` retained -/
def C12_retention_configured_full : Prop :=
  ∀ m m' n1 n2 : Nat, 1 ≤ m → 1 ≤ m' →
    (appendN m' n2 (appendN m n1 { next := 0, rounds := [] })).rounds.length ≤ m'

/-- **It fails when the bound is lowered** (finding F-12a): five rounds under bound 100, the bound
lowered to 2, three more rounds — five rounds are retained (1, 2, 3 for ever, and the last two). -/
theorem C12_retention_lowered_full_fails : ¬ C12_retention_configured_full := by
  intro h
  have := h 100 2 5 3 (by decide) (by decide)
  revert this
  decide

example : ((appendN 2 3 (appendN 100 5 { next := 0, rounds := [] })).rounds.map (·.1)) = [1, 2, 3, 7, 8] := by decide

end ExoVerif.Oracle
