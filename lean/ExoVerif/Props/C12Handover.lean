import ExoVerif.Props.C12
import ExoVerif.Model.OracleHandover
/-!
# C12 — "no gaps or repeats" across a feeder hand-over

A running feeder is stopped by an accepted parameter update (end block), a successor feeder of the same token
takes over. The aggregator stamps a final price with the id `StartRoundID + (block − StartBaseBlock)/Interval` of
the feeder it belongs to, the store takes a price only under its own `NextRoundID` (`C12_append_only_expected_id`)
and CreatePrice answers a mismatch by carrying the previous price forward inside the transaction. "Every round
closes exactly once — with that price, or by carrying the previous price forward when its submission window
ends or the validator set changes first" therefore needs the successor's ids to continue the ids of the rounds
the stopped feeder REALLY opened. Here, over the model's transcription of PrepareRoundEndBlock (`prepareOne`) and
of Validate / UpdateTokenFeeder (`validateFeeders`, `applyUpdate`), for all parameter sets / payloads / heights:

* `C12_prepare_skips_inactive_feeder`, `C12_prepare_opens_round`: the model's PrepareRoundEndBlock opens a round
  exactly where `opensRoundAt` says, stamped `roundIDAt`; nothing happens for a feeder at or after its end block;
* `C12_feeder_round_ids_in_range`, `C12_feeder_round_ids_all_opened`, `C12_feeder_round_ids_no_repeat`: one feeder
  opens the ids `StartRoundID … lastRoundID`, each exactly once (no gap, no repeat), `roundsOpened` of them;
* `C12_validate_feeder_ok`, `C12_validate_end_block_outside_window`: what Validate demands of every feeder;
* `C12_chain_round_count_is_last_round_opened`: for an end block Validate accepts, the chain's count
  `StartRoundID + (EndBlock − StartBaseBlock)/Interval` IS the id of the last round opened;
  `C12_end_on_base_block_counts_unopened_round`: for an end block ON a round's base block it is one more — the round
  based at the end block is counted although PrepareRoundEndBlock never opens it (this is why Validate must refuse
  the residue 0 as well as the residues inside the window; seeded change C12-h);
* `C12_handover_round_ids_continuous`: in every parameter set Validate accepts, a feeder's `StartRoundID` is the
  last id its predecessor opens + 1 and it starts after the predecessor's end block; `C12_handover_first_round`:
  so the first round the successor opens carries exactly the next id; `C12_accepted_update_handover`: the same for
  the parameters every accepted MsgUpdateParams leaves behind; `C12_handover_successor_ids_match_store`: glued to
  the block induction of Props/C12.lean — over every history of the successor's blocks the id of each round it
  opens is the stored NextRoundID, so its agreed prices are appended, not replaced by a carried-forward one.
-/
namespace ExoVerif.Oracle

/-! ## PrepareRoundEndBlock and the schedule -/

theorem feederActive_iff (f : Feeder) (b : Nat) :
    feederActive f b = true ↔ f.startBaseBlock ≤ b ∧ (f.endBlock = 0 ∨ b < f.endBlock) := by
  unfold feederActive
  simp only [Bool.not_eq_true', Bool.or_eq_false_iff, Bool.and_eq_false_iff, decide_eq_false_iff_not, Nat.not_lt,
    Nat.not_le, Nat.le_zero_eq, gt_iff_lt]
  constructor
  · rintro ⟨h1, h2⟩; exact ⟨h2, h1⟩
  · rintro ⟨h1, h2⟩; exact ⟨h2, h1⟩

/-- context.go: PrepareRoundEndBlock leaves a feeder that does not take part at `block` — in particular every
feeder at or after its end block — alone: no round is opened at a block `≥ EndBlock`. -/
theorem C12_prepare_skips_inactive_feeder (p : Params) (block : Nat) (g : Agc) (fid : Nat) (f : Feeder)
    (h : feederActive f block = false) : prepareOne p block g fid f = (g, false) := by
  unfold feederActive at h
  simp only [Bool.not_eq_false'] at h
  unfold prepareOne
  simp only [h, if_true]

/-- … and at a block where `opensRoundAt` holds it opens a round based at that block with the id `roundIDAt`,
whatever the feeder's round entry was before. -/
theorem C12_prepare_opens_round (p : Params) (block : Nat) (g : Agc) (fid : Nat) (f : Feeder) (hn : 1 ≤ p.maxNonce)
    (h : opensRoundAt f block = true) :
    (prepareOne p block g fid f).2 = true ∧
    alookup fid (prepareOne p block g fid f).1.rounds =
      some { basedBlock := block, nextRoundID := roundIDAt f block, status := .open } := by
  unfold opensRoundAt at h
  simp only [Bool.and_eq_true, beq_iff_eq] at h
  obtain ⟨ha, hl⟩ := h
  unfold feederActive at ha
  simp only [Bool.not_eq_true'] at ha
  unfold prepareOne roundIDAt
  simp only [ha, Bool.false_eq_true, if_false]
  have hl' : (roundArith f block).1 = 0 := hl
  unfold roundArith at hl' ⊢
  simp only at hl' ⊢
  cases hr : alookup fid g.rounds with
  | none =>
    have hlt : ¬ 0 ≥ p.maxNonce := by omega
    simp only [hl', hlt, if_false, beq_self_eq_true, Nat.sub_zero, alookup_aset_same, and_self]
  | some r =>
    simp only [hl', if_true, Nat.sub_zero, alookup_aset_same, and_self]

/-- the id stamped on a round opened at `b` -/
theorem roundIDAt_eq (f : Feeder) (b : Nat) : roundIDAt f b = f.startRoundID + (b - f.startBaseBlock) / f.interval := rfl

theorem opensRoundAt_iff (f : Feeder) (b : Nat) :
    opensRoundAt f b = true ↔ feederActive f b = true ∧ (b - f.startBaseBlock) % f.interval = 0 := by
  unfold opensRoundAt roundArith
  simp only [Bool.and_eq_true, beq_iff_eq]

/-- **No id outside the range**: every round a feeder with an end block opens carries an id between its
`StartRoundID` and `lastRoundID`. -/
theorem C12_feeder_round_ids_in_range (f : Feeder) (b : Nat) (he : 0 < f.endBlock) (h : opensRoundAt f b = true) :
    f.startRoundID ≤ roundIDAt f b ∧ roundIDAt f b ≤ lastRoundID f := by
  obtain ⟨ha, _⟩ := (opensRoundAt_iff f b).mp h
  obtain ⟨hs, hb⟩ := (feederActive_iff f b).mp ha
  have hb' : b < f.endBlock := by omega
  rw [roundIDAt_eq]
  unfold lastRoundID
  have : (b - f.startBaseBlock) / f.interval ≤ (f.endBlock - 1 - f.startBaseBlock) / f.interval :=
    Nat.div_le_div_right (by omega)
  exact ⟨Nat.le_add_right _ _, Nat.add_le_add_left this _⟩

/-- **No gap**: every id from `StartRoundID` to `lastRoundID` — `roundsOpened` of them — is opened, the `j`-th at
block `StartBaseBlock + j·Interval`. -/
theorem C12_feeder_round_ids_all_opened (f : Feeder) (j : Nat) (hi : 1 ≤ f.interval)
    (he : f.startBaseBlock < f.endBlock) (hj : j < roundsOpened f) :
    opensRoundAt f (f.startBaseBlock + j * f.interval) = true ∧
    roundIDAt f (f.startBaseBlock + j * f.interval) = f.startRoundID + j ∧
    f.startRoundID + j ≤ lastRoundID f := by
  unfold roundsOpened at hj
  have hq := Nat.div_mul_le_self (f.endBlock - 1 - f.startBaseBlock) f.interval
  have hjq : j * f.interval ≤ (f.endBlock - 1 - f.startBaseBlock) / f.interval * f.interval :=
    Nat.mul_le_mul_right _ (by omega)
  have hsub : f.startBaseBlock + j * f.interval - f.startBaseBlock = j * f.interval := by omega
  refine ⟨?_, ?_, ?_⟩
  · rw [opensRoundAt_iff, feederActive_iff, hsub]
    exact ⟨⟨by omega, Or.inr (by omega)⟩, Nat.mul_mod_left _ _⟩
  · rw [roundIDAt_eq, hsub, Nat.mul_div_cancel _ (by omega)]
  · unfold lastRoundID; omega

/-- **No repeat**: two blocks at which the feeder opens a round with the same id are the same block. -/
theorem C12_feeder_round_ids_no_repeat (f : Feeder) (b1 b2 : Nat)
    (h1 : opensRoundAt f b1 = true) (h2 : opensRoundAt f b2 = true) (hid : roundIDAt f b1 = roundIDAt f b2) : b1 = b2 := by
  obtain ⟨ha1, hl1⟩ := (opensRoundAt_iff f b1).mp h1
  obtain ⟨ha2, hl2⟩ := (opensRoundAt_iff f b2).mp h2
  obtain ⟨hs1, _⟩ := (feederActive_iff f b1).mp ha1
  obtain ⟨hs2, _⟩ := (feederActive_iff f b2).mp ha2
  rw [roundIDAt_eq, roundIDAt_eq] at hid
  have e1 := Nat.div_add_mod (b1 - f.startBaseBlock) f.interval
  have e2 := Nat.div_add_mod (b2 - f.startBaseBlock) f.interval
  have hq : (b1 - f.startBaseBlock) / f.interval = (b2 - f.startBaseBlock) / f.interval := by omega
  rw [hl1, hq] at e1
  rw [hl2] at e2
  omega

/-- a feeder that ends opens at least one round, and `lastRoundID` is the id of the last of `roundsOpened` -/
theorem lastRoundID_eq (f : Feeder) : lastRoundID f + 1 = f.startRoundID + roundsOpened f := by
  unfold lastRoundID roundsOpened; omega

/-! ## the chain's count against the rounds really opened -/

/-- **The chain's count is right for the end blocks Validate accepts**: when the end block is not on a round's
base block (`(EndBlock − StartBaseBlock) % Interval ≠ 0`), `StartRoundID + (EndBlock − StartBaseBlock)/Interval`
is the id of the last round the feeder opens. -/
theorem C12_chain_round_count_is_last_round_opened (f : Feeder) (he : f.startBaseBlock < f.endBlock)
    (hr : (f.endBlock - f.startBaseBlock) % f.interval ≠ 0) : chainEndRoundID f = lastRoundID f := by
  unfold chainEndRoundID lastRoundID
  rcases Nat.eq_zero_or_pos f.interval with hz | hi
  · rw [hz, Nat.div_zero, Nat.div_zero]
  have e := Nat.div_add_mod (f.endBlock - f.startBaseBlock) f.interval
  have hlt := Nat.mod_lt (f.endBlock - f.startBaseBlock) hi
  have hq : (f.endBlock - 1 - f.startBaseBlock) / f.interval = (f.endBlock - f.startBaseBlock) / f.interval := by
    apply Nat.div_eq_of_lt_le
    · rw [Nat.mul_comm]; omega
    · rw [Nat.add_mul, Nat.one_mul, Nat.mul_comm]; omega
  rw [hq]

/-- **… and one too many for an end block on a round's base block**: the round based at the end block is counted
although PrepareRoundEndBlock never opens it (`C12_prepare_skips_inactive_feeder`) — a successor forced to
`chainEndRoundID + 1` would skip an id, and every price it agrees on would be refused by the store. -/
theorem C12_end_on_base_block_counts_unopened_round (f : Feeder) (hi : 1 ≤ f.interval) (he : f.startBaseBlock < f.endBlock)
    (hr : (f.endBlock - f.startBaseBlock) % f.interval = 0) :
    chainEndRoundID f = lastRoundID f + 1 ∧ feederActive f f.endBlock = false := by
  refine ⟨?_, ?_⟩
  · unfold chainEndRoundID lastRoundID
    have e := Nat.div_add_mod (f.endBlock - f.startBaseBlock) f.interval
    rw [hr] at e
    have hqpos : 0 < (f.endBlock - f.startBaseBlock) / f.interval := by
      rcases Nat.eq_zero_or_pos ((f.endBlock - f.startBaseBlock) / f.interval) with h | h
      · rw [h] at e; omega
      · exact h
    have hq : (f.endBlock - 1 - f.startBaseBlock) / f.interval = (f.endBlock - f.startBaseBlock) / f.interval - 1 := by
      apply Nat.div_eq_of_lt_le
      · have : ((f.endBlock - f.startBaseBlock) / f.interval - 1) * f.interval + f.interval
            = f.interval * ((f.endBlock - f.startBaseBlock) / f.interval) := by
          rw [Nat.mul_comm f.interval, ← Nat.succ_mul]
          congr 1; omega
        omega
      · have : ((f.endBlock - f.startBaseBlock) / f.interval - 1 + 1) = (f.endBlock - f.startBaseBlock) / f.interval := by omega
        rw [this, Nat.mul_comm]; omega
    rw [hq]; omega
  · cases hact : feederActive f f.endBlock with
    | false => rfl
    | true => obtain ⟨_, h⟩ := (feederActive_iff f f.endBlock).mp hact; omega

/-! ## what Validate demands -/

theorem lastFeederOf_snoc (tok : Nat) (l : List Feeder) (f : Feeder) :
    lastFeederOf tok (l ++ [f]) = if f.tokenID = tok then some f else lastFeederOf tok l := by
  unfold lastFeederOf
  rw [List.foldl_append]
  rfl

theorem lastFeederOf_mem_aux (tok : Nat) : ∀ (l : List Feeder) (acc : Option Feeder) (x : Feeder),
    l.foldl (fun acc f => if f.tokenID = tok then some f else acc) acc = some x → (x ∈ l ∧ x.tokenID = tok) ∨ acc = some x := by
  intro l
  induction l with
  | nil => intro acc x h; exact Or.inr h
  | cons a t ih =>
    intro acc x h
    simp only [List.foldl_cons] at h
    rcases ih _ x h with h1 | h1
    · exact Or.inl ⟨List.mem_cons_of_mem _ h1.1, h1.2⟩
    · by_cases ha : a.tokenID = tok
      · simp only [ha, if_true, Option.some.injEq] at h1
        subst h1
        exact Or.inl ⟨List.mem_cons_self, ha⟩
      · simp only [ha, if_false] at h1
        exact Or.inr h1

/-- the latest feeder of a token in a list is in the list and is a feeder of that token -/
theorem lastFeederOf_mem (tok : Nat) (l : List Feeder) (x : Feeder) (h : lastFeederOf tok l = some x) :
    x ∈ l ∧ x.tokenID = tok := by
  rcases lastFeederOf_mem_aux tok l none x h with h1 | h1
  · exact h1
  · exact absurd h1 (by simp)

/-- one step of the feeder loop of Validate on a feeder with a non-reserved id -/
theorem validateFeeders_cons (p : Params) (prevs : List (Nat × Feeder)) (fid : Nat) (f : Feeder)
    (rest : List (Nat × Feeder)) (hid : fid ≠ 0) (h : validateFeeders p prevs ((fid, f) :: rest) = true) :
    FeederOK p f ∧ (∀ prev, alookup f.tokenID prevs = some prev → Succeeds prev f) ∧
    validateFeeders p (aset f.tokenID f prevs) rest = true := by
  unfold validateFeeders at h
  simp only [hid, if_false] at h
  split at h
  · exact absurd h (by simp)
  rename_i h1
  split at h
  · exact absurd h (by simp)
  rename_i h2
  split at h
  · exact absurd h (by simp)
  rename_i h3
  split at h
  · exact absurd h (by simp)
  rename_i h4
  split at h
  · exact absurd h (by simp)
  rename_i h5
  split at h
  · exact absurd h (by simp)
  rename_i h6
  simp only [Bool.or_eq_true, decide_eq_true_eq, not_or, Nat.not_lt] at h1
  simp only [Bool.and_eq_true, decide_eq_true_eq, not_and, Nat.not_le, Nat.not_lt, gt_iff_lt, ge_iff_le] at h2 h3
  simp only [Nat.not_lt] at h4
  have hok : FeederOK p f :=
    ⟨h1.1.1.1, h1.1.1.2, h1.1.2, h1.2, h4, fun he => ⟨h2 he, h3 he⟩⟩
  split at h
  · rename_i prev hprev
    split at h
    · exact absurd h (by simp)
    rename_i g1
    split at h
    · exact absurd h (by simp)
    rename_i g2
    split at h
    · exact absurd h (by simp)
    rename_i g3
    refine ⟨hok, fun prev' hp => ?_, h⟩
    rw [hprev] at hp
    simp only [Option.some.injEq] at hp
    subst hp
    exact ⟨by omega, by omega, by unfold chainEndRoundID; simpa using g3⟩
  · rename_i hnone
    refine ⟨hok, fun prev' hp => ?_, h⟩
    rw [hnone] at hp
    exact absurd hp (by simp)

/-- the feeder loop of Validate over feeders with non-reserved ids: every feeder is admissible on its own, and
every feeder succeeds the latest earlier feeder of its token. `done` = the feeders already seen, `prevs` = the
Go map `feeders` at that point. -/
theorem validateFeeders_spec (p : Params) : ∀ (l : List (Nat × Feeder)) (prevs : List (Nat × Feeder)) (done : List Feeder),
    (∀ x ∈ l, x.1 ≠ 0) → (∀ tok, alookup tok prevs = lastFeederOf tok done) → validateFeeders p prevs l = true →
    (∀ x ∈ l, FeederOK p x.2) ∧
    (∀ pre i f post prev, l = pre ++ (i, f) :: post →
      lastFeederOf f.tokenID (done ++ pre.map (·.2)) = some prev → Succeeds prev f) := by
  intro l
  induction l with
  | nil =>
    intro prevs done _ _ _
    refine ⟨fun x hx => absurd hx (by simp), fun pre i f post prev hl _ => ?_⟩
    exact absurd hl (by simp)
  | cons a t ih =>
    intro prevs done hids hinv hv
    obtain ⟨fid, g⟩ := a
    have hid : fid ≠ 0 := hids (fid, g) List.mem_cons_self
    obtain ⟨hok, hsucc, hrest⟩ := validateFeeders_cons p prevs fid g t hid hv
    have hinv' : ∀ tok, alookup tok (aset g.tokenID g prevs) = lastFeederOf tok (done ++ [g]) := by
      intro tok
      rw [lastFeederOf_snoc]
      by_cases hk : g.tokenID = tok
      · subst hk; simp only [alookup_aset_same, if_true]
      · rw [alookup_aset_other _ _ _ _ (Ne.symm hk), hinv tok]; simp only [hk, if_false]
    obtain ⟨ihok, ihsucc⟩ := ih (aset g.tokenID g prevs) (done ++ [g]) (fun x hx => hids x (List.mem_cons_of_mem _ hx)) hinv' hrest
    refine ⟨fun x hx => ?_, fun pre i f post prev hl hlast => ?_⟩
    · rcases List.mem_cons.mp hx with hx | hx
      · subst hx; exact hok
      · exact ihok x hx
    · cases pre with
      | nil =>
        simp only [List.nil_append, List.cons.injEq, Prod.mk.injEq] at hl
        obtain ⟨⟨_, hf⟩, _⟩ := hl
        subst hf
        simp only [List.map_nil, List.append_nil] at hlast
        exact hsucc prev (by rw [hinv]; exact hlast)
      | cons x pre' =>
        simp only [List.cons_append, List.cons.injEq] at hl
        obtain ⟨hx, hl'⟩ := hl
        subst hx
        refine ihsucc pre' i f post prev hl' ?_
        simpa only [List.map_cons, List.append_assoc, List.singleton_append] using hlast

/-- the list Validate's feeder loop ranges over, for a feeder list with its reserved entry in front -/
theorem feeders_zipIdx (f0 : Feeder) (rest : List Feeder) :
    ((f0 :: rest).zipIdx.map (fun x => (x.2, x.1))) = (0, f0) :: (rest.zipIdx 1).map (fun x => (x.2, x.1)) := by
  simp only [List.zipIdx_cons, List.map_cons, Nat.zero_add]

theorem validateFeeders_reserved (p : Params) (prevs : List (Nat × Feeder)) (f0 : Feeder) (rest : List (Nat × Feeder)) :
    validateFeeders p prevs ((0, f0) :: rest) = validateFeeders p prevs rest := by
  rw [validateFeeders]; simp only [if_true]

theorem validateParams_feeders (p : Params) (h : validateParams p = true) :
    1 ≤ p.maxNonce ∧ validateFeeders p [] (p.feeders.zipIdx.map (fun x => (x.2, x.1))) = true := by
  unfold validateParams at h
  split at h
  · exact absurd h (by simp)
  rename_i h1
  split at h
  · exact absurd h (by simp)
  rename_i h2
  simp only [Bool.or_eq_true, decide_eq_true_eq, not_or, Nat.not_lt] at h1
  simp only [Bool.not_eq_true', Bool.not_eq_false] at h2
  exact ⟨h1.1.1.1.1, h2⟩

/-- **Every feeder of a parameter set Validate accepts is admissible** (ids, interval ≥ 2·MaxNonce, and — the guard
the hand-over rests on — an end block lies after the start block and outside `[base, base + MaxNonce)` of every
round of the feeder's schedule; with `MaxNonce ≥ 1` in particular never on a base block). -/
theorem C12_validate_feeder_ok (p : Params) (f0 : Feeder) (rest : List Feeder) (hf : p.feeders = f0 :: rest)
    (h : validateParams p = true) : ∀ f ∈ rest, FeederOK p f := by
  obtain ⟨_, hv⟩ := validateParams_feeders p h
  rw [hf, feeders_zipIdx, validateFeeders_reserved] at hv
  have hids : ∀ x ∈ (rest.zipIdx 1).map (fun x => (x.2, x.1)), x.1 ≠ 0 := by
    intro x hx
    obtain ⟨y, hy, rfl⟩ := List.mem_map.mp hx
    have := List.le_snd_of_mem_zipIdx hy
    simp only; omega
  obtain ⟨hok, _⟩ := validateFeeders_spec p _ [] [] hids (fun tok => rfl) hv
  intro f hfm
  have hmap : ((rest.zipIdx 1).map (fun x => (x.2, x.1))).map (·.2) = rest := by
    rw [List.map_map]
    exact List.zipIdx_map_fst 1 rest
  rw [← hmap] at hfm
  obtain ⟨x, hx, rfl⟩ := List.mem_map.mp hfm
  exact hok x hx

/-- the guard in the words of the seeded change: the residue of an accepted end block is neither 0 nor inside the
window -/
theorem C12_validate_end_block_outside_window (p : Params) (f0 : Feeder) (rest : List Feeder) (hf : p.feeders = f0 :: rest)
    (h : validateParams p = true) (f : Feeder) (hfm : f ∈ rest) (he : 0 < f.endBlock) :
    f.startBaseBlock < f.endBlock ∧ (f.endBlock - f.startBaseBlock) % f.interval ≠ 0 ∧
    p.maxNonce ≤ (f.endBlock - f.startBaseBlock) % f.interval := by
  obtain ⟨hn, _⟩ := validateParams_feeders p h
  obtain ⟨h1, h2⟩ := (C12_validate_feeder_ok p f0 rest hf h f hfm).end_ he
  exact ⟨h1, by omega, h2⟩

/-! ## the hand-over -/

/-- **Round ids are continuous across a hand-over.** In every parameter set Validate accepts: a feeder `f` that has
an earlier feeder `prev` of its token (the latest one before it) starts after `prev`'s end block, and its
`StartRoundID` is the id of the LAST ROUND `prev` REALLY OPENS plus one — no id is skipped, none is used twice. -/
theorem C12_handover_round_ids_continuous (p : Params) (f0 : Feeder) (pre post : List Feeder) (f prev : Feeder)
    (hf : p.feeders = f0 :: (pre ++ f :: post)) (h : validateParams p = true)
    (hprev : lastFeederOf f.tokenID pre = some prev) :
    0 < prev.endBlock ∧ prev.endBlock < f.startBaseBlock ∧ f.startRoundID = lastRoundID prev + 1 ∧
    f.startRoundID = prev.startRoundID + roundsOpened prev := by
  obtain ⟨hn, hv⟩ := validateParams_feeders p h
  rw [hf, feeders_zipIdx, validateFeeders_reserved] at hv
  have hids : ∀ x ∈ ((pre ++ f :: post).zipIdx 1).map (fun x => (x.2, x.1)), x.1 ≠ 0 := by
    intro x hx
    obtain ⟨y, hy, rfl⟩ := List.mem_map.mp hx
    have := List.le_snd_of_mem_zipIdx hy
    simp only; omega
  obtain ⟨_, hsucc⟩ := validateFeeders_spec p _ [] [] hids (fun tok => rfl) hv
  have hsplit : ((pre ++ f :: post).zipIdx 1).map (fun x => (x.2, x.1)) =
      ((pre.zipIdx 1).map (fun x => (x.2, x.1))) ++ (1 + pre.length, f) :: ((post.zipIdx (1 + pre.length + 1)).map (fun x => (x.2, x.1))) := by
    simp only [List.zipIdx_append, List.zipIdx_cons, List.map_append, List.map_cons]
  have hmap : ((pre.zipIdx 1).map (fun x => (x.2, x.1))).map (·.2) = pre := by
    rw [List.map_map]
    exact List.zipIdx_map_fst 1 pre
  have hs : Succeeds prev f := by
    refine hsucc _ _ f _ prev hsplit ?_
    rw [List.nil_append, hmap]; exact hprev
  have hprevMem : prev ∈ pre ++ f :: post := List.mem_append_left _ (lastFeederOf_mem _ _ _ hprev).1
  obtain ⟨he1, he2, _⟩ := C12_validate_end_block_outside_window p f0 _ hf h prev hprevMem hs.ended
  have hc := C12_chain_round_count_is_last_round_opened prev he1 he2
  have hl := lastRoundID_eq prev
  refine ⟨hs.ended, hs.after, ?_, ?_⟩
  · rw [hs.continuous, hc]
  · rw [hs.continuous, hc]; omega

/-- **The successor's first round carries exactly the next id**: at its start block PrepareRoundEndBlock opens a
round stamped with the last id of the stopped feeder + 1, and the stopped feeder opens nothing any more. -/
theorem C12_handover_first_round (p : Params) (f0 : Feeder) (pre post : List Feeder) (f prev : Feeder)
    (hf : p.feeders = f0 :: (pre ++ f :: post)) (h : validateParams p = true)
    (hprev : lastFeederOf f.tokenID pre = some prev) :
    opensRoundAt f f.startBaseBlock = true ∧ roundIDAt f f.startBaseBlock = lastRoundID prev + 1 ∧
    (∀ b, f.startBaseBlock ≤ b → feederActive prev b = false) := by
  obtain ⟨he, hafter, hid, _⟩ := C12_handover_round_ids_continuous p f0 pre post f prev hf h hprev
  have hok := C12_validate_feeder_ok p f0 _ hf h f (List.mem_append_right _ List.mem_cons_self)
  refine ⟨?_, ?_, fun b hb => ?_⟩
  · rw [opensRoundAt_iff, feederActive_iff, Nat.sub_self, Nat.zero_mod]
    refine ⟨⟨Nat.le_refl _, ?_⟩, rfl⟩
    rcases Nat.eq_zero_or_pos f.endBlock with hz | hp
    · exact Or.inl hz
    · exact Or.inr (hok.end_ hp).1
  · rw [roundIDAt_eq, Nat.sub_self, Nat.zero_div, Nat.add_zero, hid]
  · cases hact : feederActive prev b with
    | false => rfl
    | true => obtain ⟨_, h2⟩ := (feederActive_iff prev b).mp hact; omega

/-- **… after every accepted MsgUpdateParams**: the parameters the handler's chain leaves behind hand every token
over without a gap or a repeat of round ids. -/
theorem C12_accepted_update_handover (inp : ParamsIn) (p p' : Params) (height : Nat)
    (hu : applyUpdate inp p height = some p') (f0 : Feeder) (pre post : List Feeder) (f prev : Feeder)
    (hf : p'.feeders = f0 :: (pre ++ f :: post)) (hprev : lastFeederOf f.tokenID pre = some prev) :
    prev.endBlock < f.startBaseBlock ∧ f.startRoundID = lastRoundID prev + 1 := by
  have hv : validateParams p' = true := by
    unfold applyUpdate at hu
    split at hu
    · exact absurd hu (by simp)
    · simp only at hu
      split at hu
      · exact absurd hu (by simp)
      · split at hu
        · exact absurd hu (by simp)
        · split at hu
          · rename_i hv
            simp only [Option.some.injEq] at hu; subst hu; exact hv
          · exact absurd hu (by simp)
  obtain ⟨_, h1, h2, _⟩ := C12_handover_round_ids_continuous p' f0 pre post f prev hf hv hprev
  exact ⟨h1, h2⟩

/-- **The successor's agreed prices are taken by the store.** Glue to the block induction of Props/C12.lean
(`C12_round_closes_exactly_once`, the feeder's slice: round entry + stored NextRoundID): when the stored
NextRoundID at the successor's start is what the stopped feeder leaves behind after closing each of the rounds it
opened exactly once (`prev.StartRoundID + roundsOpened prev`; for its running time that is `C12_round_ids_consecutive`),
then for EVERY history of the successor's blocks (which transactions finalized which round, which EndBlocks were
forced seals), whenever a round of the successor opens, the id the aggregator will stamp on its final price IS the
stored NextRoundID — the price is appended (`C12_append_only_expected_id`), not replaced by a carried-forward one. -/
theorem C12_handover_successor_ids_match_store (p : Params) (f0 : Feeder) (pre post : List Feeder) (f prev : Feeder)
    (hf : p.feeders = f0 :: (pre ++ f :: post)) (h : validateParams p = true)
    (hprev : lastFeederOf f.tokenID pre = some prev)
    (n0 : Nat) (hn0 : n0 = prev.startRoundID + roundsOpened prev)
    (evs : List BlockEv) (hb : evs.length % f.interval = 0) :
    ∃ r, (slRun f p.maxNonce f.startBaseBlock evs (slPrepare f p.maxNonce f.startBaseBlock { round := none, next := n0 })).round = some r ∧
      r.status = .open ∧ r.basedBlock = f.startBaseBlock + evs.length ∧
      r.nextRoundID = (slRun f p.maxNonce f.startBaseBlock evs (slPrepare f p.maxNonce f.startBaseBlock { round := none, next := n0 })).next := by
  obtain ⟨hn, _⟩ := validateParams_feeders p h
  have hok := C12_validate_feeder_ok p f0 _ hf h f (List.mem_append_right _ List.mem_cons_self)
  obtain ⟨_, _, _, hid⟩ := C12_handover_round_ids_continuous p f0 pre post f prev hf h hprev
  have hw := hok.window
  obtain ⟨r, hr, hst, hbase, hnr, hnext⟩ :=
    C12_round_closes_exactly_once f p.maxNonce n0 hn (by omega) evs hb
  exact ⟨r, hr, hst, hbase, by rw [hnr, hnext, hn0, hid]⟩

/-! ## non-vacuity and the boundary -/

/-- feeder 1 of token 1 runs from block 1 with interval 10 (rounds from id 2) and ends at block 24 (residue 3 =
MaxNonce: the first admissible block after the base block 21): it opens the rounds 2, 3, 4 at blocks 1, 11, 21;
feeder 2 takes the token over at block 31 with round 5. -/
def exHandover : Params :=
  { maxNonce := 3, thA := 2, thB := 3, maxDetID := 5, maxSizePrices := 100, sources := [default, ⟨true, true⟩],
    rules := [[], [0], [1]], tokenDecimals := [0, 0],
    feeders := [default, ⟨1, 2, 2, 1, 10, 24⟩, ⟨1, 2, 5, 31, 7, 0⟩] }

example : validateParams exHandover = true := by decide
example : lastFeederOf 1 [(⟨1, 2, 2, 1, 10, 24⟩ : Feeder)] = some ⟨1, 2, 2, 1, 10, 24⟩ := by decide
example : roundsOpened ⟨1, 2, 2, 1, 10, 24⟩ = 3 ∧ lastRoundID ⟨1, 2, 2, 1, 10, 24⟩ = 4 := by decide
example : opensRoundAt ⟨1, 2, 2, 1, 10, 24⟩ 21 = true ∧ roundIDAt ⟨1, 2, 2, 1, 10, 24⟩ 21 = 4 := by decide
/-- the hypotheses of `C12_accepted_update_handover` are met by a real update: feeder 1 stopped, the successor added
at height 27 -/
example : applyUpdate { sources := [], tokens := [], rules := [], maxSizePrices := 0, feeders := [⟨1, 2, 5, 31, 7, 0⟩] }
    { exHandover with feeders := [default, ⟨1, 2, 2, 1, 10, 24⟩] } 27 = some exHandover := by decide

/-- the hypotheses of `C12_handover_successor_ids_match_store` are met: seven blocks of the successor without any
final price (round 5 carried forward at the end of its window), the round opened at block 38 carries id 6 = NextRoundID -/
example := C12_handover_successor_ids_match_store exHandover default [⟨1, 2, 2, 1, 10, 24⟩] [] ⟨1, 2, 5, 31, 7, 0⟩ ⟨1, 2, 2, 1, 10, 24⟩
  rfl (by decide) (by decide) 5 (by decide) (List.replicate 7 ⟨false, false⟩) (by decide)

/-- **The end block on a round's base block is refused** (block 21 = 1 + 2·10; so are 22 and 23, inside the window):
the update that asks for it fails as a whole. With it accepted, the only successor the chain would take starts at
round 5 while the store waits for round 4 (`C12_end_on_base_block_counts_unopened_round`). -/
theorem C12_end_on_base_block_refused :
    (∀ e, e = 21 ∨ e = 22 ∨ e = 23 →
      applyUpdate { sources := [], tokens := [], rules := [], maxSizePrices := 0, feeders := [⟨1, 0, 0, 0, 0, e⟩] }
        { exHandover with feeders := [default, ⟨1, 2, 2, 1, 10, 0⟩] } 5 = none) ∧
    (applyUpdate { sources := [], tokens := [], rules := [], maxSizePrices := 0, feeders := [⟨1, 0, 0, 0, 0, 24⟩] }
        { exHandover with feeders := [default, ⟨1, 2, 2, 1, 10, 0⟩] } 5).isSome = true ∧
    chainEndRoundID ⟨1, 2, 2, 1, 10, 21⟩ = 4 ∧ lastRoundID ⟨1, 2, 2, 1, 10, 21⟩ = 3 := by
  refine ⟨fun e he => ?_, by decide, by decide, by decide⟩
  rcases he with h | h | h <;> subst h <;> decide

end ExoVerif.Oracle
