import ExoVerif.Model.GenesisAssets
/-!
# C18 — x/assets: export, validation and re-import

`exportAssets` / `initAssets` / `validateAssets` mirror x/assets ExportGenesis / InitGenesis / GenesisState.Validate.

* `C18_roundtrip_assets`: for every state of the four prefix stores as the keepers leave them (`StoreInv`: ascending keys,
  key = the id(s) of its value, no negative amount, params stored by SetParams) `initAssets (exportAssets s) = some s` —
  no panic, every store reproduced entry by entry (hence the second export equals the first: `C18_assets_reexport`).
* `C18_assets_writer_keeps_store`: `ssSet` — what every setter of the module does — keeps a store sorted.
* validation: `C18_assets_full` (every reachable state's export validates and re-imports) is still REFUTED on the code as
  it is (F-18k, open): the assets precompile admits client chains with more than 20 address bytes (addressLength ≥ 20) and
  their tokens ⇒ ValidateTokens: "not hex address" (`C18_assets_full_fails`, `C18_assets_wide_address_fails`; directed
  scenario D5 of the `genesis` domain reproduces it on the real application).
  `C18_assets_export_validates_partial` is what holds: with 20-byte addresses only, and every pool row being a pool of a
  registered token or of the native token, the export passes Validate.
* F-18j (repaired): a native-token delegation writes an operator pool row under ExocoreAssetID, which is not a registered
  token; ValidateOperatorAssets used to reject the module's own export ("unknown assetID for operator assets"). The model
  carries the repair as `nativeExempt`; `C18_assets_native_pool_validates` is the repaired behaviour on the witness,
  `C18_regression_F18j*` keep the pre-repair counter-example (`validateAssetsPreFix`); directed scenario D4 replays it.
-/
namespace ExoVerif.Genesis

/-! ## store lemmas -/
section Store
variable {α : Type}

theorem ssSet_append (k : String) (v : α) (pre : List (String × α)) (h : ∀ p ∈ pre, p.1 < k) :
    ssSet k v pre = pre ++ [(k, v)] := by
  induction pre with
  | nil => rfl
  | cons p r ih =>
    obtain ⟨k', v'⟩ := p
    have hk : k' < k := h (k', v') (by simp)
    have h1 : ¬ k = k' := fun e => String.lt_irrefl k (by rw [e] at hk ⊢; exact hk)
    have h2 : ¬ k < k' := String.lt_asymm hk
    simp only [ssSet, h1, h2, if_false, List.cons_append]
    rw [ih (fun p hp => h p (by simp [hp]))]

theorem ssGet_none (k : String) (pre : List (String × α)) (h : ∀ p ∈ pre, p.1 < k) : ssGet k pre = none := by
  induction pre with
  | nil => rfl
  | cons p r ih =>
    obtain ⟨k', v'⟩ := p
    have hk : k' < k := h (k', v') (by simp)
    have h1 : ¬ k = k' := fun e => String.lt_irrefl k (by rw [e] at hk ⊢; exact hk)
    simp only [ssGet, h1, if_false]
    exact ih (fun p hp => h p (by simp [hp]))

/-- an import loop over the exported values of a sorted store rebuilds the store, if each setter call on a store whose
    keys are all smaller appends the element under its own key -/
theorem runInit_sorted {β : Type} (step : β → List (String × β) → Option (List (String × β))) (key : β → String)
    (good : β → Prop)
    (hstep : ∀ b pre, (∀ p ∈ pre, p.1 < key b) → good b → step b pre = some (pre ++ [(key b, b)]))
    (l pre : List (String × β)) (hs : Sorted (pre ++ l)) (hk : ∀ p ∈ l, p.1 = key p.2) (hg : ∀ p ∈ l, good p.2) :
    runInit step (l.map (·.2)) pre = some (pre ++ l) := by
  induction l generalizing pre with
  | nil => simp [runInit]
  | cons p l ih =>
    have hlt : ∀ q ∈ pre, q.1 < key p.2 := by
      intro q hq
      have := (List.pairwise_append.mp hs).2.2 q hq p (by simp)
      rw [hk p (by simp)] at this
      exact this
    have hp : (key p.2, p.2) = p := by
      rw [← hk p (by simp)]
    simp only [List.map_cons, runInit, hstep p.2 pre hlt (hg p (by simp)), hp]
    have := ih (pre ++ [p]) (by simpa [List.append_assoc] using hs) (fun q hq => hk q (by simp [hq]))
      (fun q hq => hg q (by simp [hq]))
    simpa [List.append_assoc] using this

theorem groupAdj_flat {β : Type} (key : β → String) (f : String → β → β) (hf : ∀ b, f (key b) b = b) (l : List β) :
    (groupAdj key l).flatMap (fun g => g.2.map (f g.1)) = l := by
  induction l with
  | nil => rfl
  | cons r rs ih =>
    unfold groupAdj
    cases hg : groupAdj key rs with
    | nil =>
      rw [hg] at ih
      simp at ih
      subst ih
      simp [hf]
    | cons g gs =>
      obtain ⟨s, grp⟩ := g
      rw [hg] at ih
      by_cases hs : s = key r
      · subst hs
        simp only [if_true]
        simp only [List.flatMap_cons, List.map_cons, hf, List.cons_append] at ih ⊢
        rw [ih]
      · simp only [hs, if_false]
        simp only [List.flatMap_cons, List.map_cons, List.map_nil, hf, List.cons_append, List.nil_append] at ih ⊢
        rw [ih]

/-- every row of a group carries the group's id -/
theorem groupAdj_key {β : Type} (key : β → String) (l : List β) :
    ∀ g ∈ groupAdj key l, ∀ x ∈ g.2, key x = g.1 := by
  induction l with
  | nil => intro g hg; simp [groupAdj] at hg
  | cons r rs ih =>
    intro g hg
    unfold groupAdj at hg
    cases hgr : groupAdj key rs with
    | nil =>
      rw [hgr] at hg
      simp at hg
      subst hg
      intro x hx
      simp at hx
      rw [hx]
    | cons g0 gs =>
      obtain ⟨s, grp⟩ := g0
      rw [hgr] at hg ih
      by_cases hs : s = key r
      · simp only [hs, if_true, List.mem_cons] at hg
        rcases hg with rfl | hg
        · intro x hx
          simp only [List.mem_cons] at hx
          rcases hx with rfl | hx
          · rfl
          · have := ih (s, grp) (by simp) x hx
            rw [this, hs]
        · exact ih g (by simp [hg])
      · simp only [hs, if_false, List.mem_cons] at hg
        rcases hg with rfl | hg
        · intro x hx; simp at hx; rw [hx]
        · exact ih g (by simpa using hg)

/-- every group is a sublist of the rows -/
theorem groupAdj_sublist {β : Type} (key : β → String) (l : List β) :
    ∀ g ∈ groupAdj key l, g.2.Sublist l := by
  induction l with
  | nil => intro g hg; simp [groupAdj] at hg
  | cons r rs ih =>
    intro g hg
    unfold groupAdj at hg
    cases hgr : groupAdj key rs with
    | nil =>
      rw [hgr] at hg
      simp at hg
      subst hg
      simp
    | cons g0 gs =>
      obtain ⟨s, grp⟩ := g0
      rw [hgr] at hg ih
      by_cases hs : s = key r
      · simp only [hs, if_true, List.mem_cons] at hg
        rcases hg with rfl | hg
        · exact (ih (s, grp) (by simp)).cons_cons r
        · exact (ih g (by simp [hg])).cons r
      · simp only [hs, if_false, List.mem_cons] at hg
        rcases hg with rfl | hg
        · simp
        · exact (ih g (by simpa using hg)).cons r

/-- collapsing runs of equal ids: the ids of the groups AllDeposits / AllOperatorAssets produce -/
def dedupAdj : List String → List String
  | [] => []
  | x :: xs => match dedupAdj xs with
    | y :: ys => if y = x then y :: ys else x :: y :: ys
    | [] => [x]

theorem groupAdj_ids {β : Type} (key : β → String) (l : List β) :
    (groupAdj key l).map (·.1) = dedupAdj (l.map key) := by
  induction l with
  | nil => rfl
  | cons r rs ih =>
    unfold groupAdj
    simp only [List.map_cons, dedupAdj, ← ih]
    cases hgr : groupAdj key rs with
    | nil => simp
    | cons g0 gs =>
      obtain ⟨s, grp⟩ := g0
      by_cases hs : s = key r <;> simp [hs]

/-- the writers keep a prefix store in iteration order: Set under any key leaves the keys strictly ascending -/
theorem ssSet_sorted (k : String) (v : α) (l : List (String × α)) (h : Sorted l) : Sorted (ssSet k v l) := by
  induction l with
  | nil => simp [ssSet, Sorted]
  | cons p r ih =>
    obtain ⟨k', v'⟩ := p
    have hr : Sorted r := (List.pairwise_cons.mp h).2
    have hh : ∀ q ∈ r, k' < q.1 := (List.pairwise_cons.mp h).1
    unfold ssSet
    by_cases h1 : k = k'
    · subst h1
      simp only [if_true]
      exact List.pairwise_cons.mpr ⟨hh, hr⟩
    · by_cases h2 : k < k'
      · simp only [h1, h2, if_true, if_false]
        refine List.pairwise_cons.mpr ⟨?_, h⟩
        intro q hq
        simp only [List.mem_cons] at hq
        rcases hq with rfl | hq
        · exact h2
        · exact String.lt_trans h2 (hh q hq)
      · simp only [h1, h2, if_false]
        have hk'k : k' < k := by
          have hle : k' ≤ k := String.not_lt.mp h2
          apply Classical.byContradiction
          intro hn
          exact h1 (String.le_antisymm (String.not_lt.mp hn) hle)
        refine List.pairwise_cons.mpr ⟨?_, ih hr⟩
        intro q hq
        have hmem : q.1 = k ∨ q ∈ r := by
          clear ih hr h
          induction r with
          | nil => simp [ssSet] at hq; left; rw [hq]
          | cons p2 r2 ih2 =>
            obtain ⟨k2, v2⟩ := p2
            unfold ssSet at hq
            by_cases e1 : k = k2
            · simp only [e1, if_true, List.mem_cons] at hq
              rcases hq with rfl | hq
              · left; exact e1.symm
              · right; simp [hq]
            · by_cases e2 : k < k2
              · simp only [e1, e2, if_true, if_false, List.mem_cons] at hq
                rcases hq with rfl | rfl | hq
                · left; rfl
                · right; simp
                · right; simp [hq]
              · simp only [e1, e2, if_false, List.mem_cons] at hq
                rcases hq with rfl | hq
                · right; simp
                · rcases ih2 (fun q hq => hh q (by simp [hq])) hq with h' | h'
                  · left; exact h'
                  · right; simp [h']
        rcases hmem with h' | h'
        · rw [h']; exact hk'k
        · exact hh q h'

end Store

/-! ## the invariant of the four stores -/

/-- the module's stores as its keepers leave them -/
structure StoreInv (s : Assets) : Prop where
  /-- SetParams stores a well-formed gateway address and topic, lower-cased -/
  paramsOK : isHexAddress s.params.gateway = true ∧ isHexHash s.params.topic = true ∧
             lowerStr s.params.gateway = s.params.gateway ∧ lowerStr s.params.topic = s.params.topic
  chainsSorted : Sorted s.chains
  /-- SetClientChainInfo: key = hexutil.EncodeUint64(LayerZeroChainID) -/
  chainsKey : ∀ p ∈ s.chains, p.1 = hexNat p.2.lzID
  tokensSorted : Sorted s.tokens
  /-- SetStakingAssetInfo: key = asset id of the stored info; UpdateStakingAssetTotalAmount / UpdateStakingAssetMetaInfo
      rewrite the value under the same key without touching address or chain id -/
  tokensKey : ∀ p ∈ s.tokens, p.1 = assetIDOf p.2
  /-- SetStakingAssetInfo refuses decimals > 18 and a negative total; UpdateAssetValue never lets the total go negative -/
  tokensOK : ∀ p ∈ s.tokens, p.2.decimals ≤ 18 ∧ 0 ≤ p.2.total
  depsSorted : Sorted s.deposits
  depsKey : ∀ p ∈ s.deposits, p.1 = p.2.key
  /-- UpdateAssetValue refuses a change below zero (C01: no figure is negative) -/
  depsNN : ∀ p ∈ s.deposits, 0 ≤ p.2.total ∧ 0 ≤ p.2.withdrawable ∧ 0 ≤ p.2.pending
  opsSorted : Sorted s.opAssets
  opsKey : ∀ p ∈ s.opAssets, p.1 = p.2.key
  opsNN : ∀ p ∈ s.opAssets, 0 ≤ p.2.total ∧ 0 ≤ p.2.pending ∧ 0 ≤ p.2.totalShare ∧ 0 ≤ p.2.opShare

theorem updVal_zero (c : Int) (h : 0 ≤ c) : updVal 0 c = some c := by
  unfold updVal
  have : ¬ (c < 0 ∧ (0 : Int) < -c) := by omega
  rw [if_neg this]
  simp

theorem stepDep_fresh (b : DepRow) (pre : List (String × DepRow)) (hlt : ∀ p ∈ pre, p.1 < b.key)
    (hg : 0 ≤ b.total ∧ 0 ≤ b.withdrawable ∧ 0 ≤ b.pending) : stepDep b pre = some (pre ++ [(b.key, b)]) := by
  unfold stepDep
  simp only [ssGet_none b.key pre hlt, Option.getD_none, updVal_zero _ hg.1, updVal_zero _ hg.2.1, updVal_zero _ hg.2.2]
  rw [ssSet_append _ _ _ hlt]

theorem stepOp_fresh (b : OpRow) (pre : List (String × OpRow)) (hlt : ∀ p ∈ pre, p.1 < b.key)
    (hg : 0 ≤ b.total ∧ 0 ≤ b.pending ∧ 0 ≤ b.totalShare ∧ 0 ≤ b.opShare) : stepOp b pre = some (pre ++ [(b.key, b)]) := by
  unfold stepOp
  simp only [ssGet_none b.key pre hlt, Option.getD_none, updVal_zero _ hg.1, updVal_zero _ hg.2.1, updVal_zero _ hg.2.2.1,
    updVal_zero _ hg.2.2.2]
  rw [ssSet_append _ _ _ hlt]

theorem stepToken_fresh (b : TokenInfo) (pre : List (String × TokenInfo)) (hlt : ∀ p ∈ pre, p.1 < assetIDOf b)
    (hg : b.decimals ≤ 18 ∧ 0 ≤ b.total) : stepToken b pre = some (pre ++ [(assetIDOf b, b)]) := by
  unfold stepToken
  have h1 : ¬ b.decimals > 18 := by omega
  have h2 : ¬ b.total < 0 := by omega
  simp only [ssHas, ssGet_none _ pre hlt, h1, h2, decide_false, Option.isSome_none, Bool.or_self, Bool.false_eq_true, if_false]
  rw [ssSet_append _ _ _ hlt]

theorem stepChain_fresh (b : ChainInfo) (pre : List (String × ChainInfo)) (hlt : ∀ p ∈ pre, p.1 < hexNat b.lzID)
    (_ : True) : stepChain b pre = some (pre ++ [(hexNat b.lzID, b)]) := by
  unfold stepChain
  rw [ssSet_append _ _ _ hlt]

theorem flatten_export_deps (rows : List DepRow) :
    flattenDeps ((groupAdj DepRow.staker rows).map (fun g => (g.1, g.2.map DepRow.item))) = rows := by
  have := groupAdj_flat DepRow.staker (fun s r => DepItem.row s r.item) (fun b => by cases b; rfl) rows
  simpa [flattenDeps, List.flatMap_map, List.map_map, Function.comp_def] using this

theorem flatten_export_ops (rows : List OpRow) :
    flattenOps ((groupAdj OpRow.operator rows).map (fun g => (g.1, g.2.map OpRow.item))) = rows := by
  have := groupAdj_flat OpRow.operator (fun s r => OpItem.row s r.item) (fun b => by cases b; rfl) rows
  simpa [flattenOps, List.flatMap_map, List.map_map, Function.comp_def] using this

/-- **x/assets round trip.** Initialising an empty store from the exported document does not panic and reproduces the
    params, client chains, tokens (with StakingTotalAmount), staker rows and operator pool rows exactly. -/
theorem C18_roundtrip_assets (s : Assets) (h : StoreInv s) : initAssets (exportAssets s) = some s := by
  have hp : setParams s.params = some s.params := by
    obtain ⟨a, b, c, d⟩ := h.paramsOK
    unfold setParams
    simp only [a, b, c, d, Bool.not_true, Bool.or_self, Bool.false_eq_true, if_false]
  have hc := runInit_sorted stepChain (fun c => hexNat c.lzID) (fun _ => True) stepChain_fresh s.chains []
    (by simpa using h.chainsSorted) h.chainsKey (fun _ _ => trivial)
  have ht := runInit_sorted stepToken assetIDOf (fun t => t.decimals ≤ 18 ∧ 0 ≤ t.total) stepToken_fresh s.tokens []
    (by simpa using h.tokensSorted) h.tokensKey h.tokensOK
  have hd := runInit_sorted stepDep DepRow.key (fun r => 0 ≤ r.total ∧ 0 ≤ r.withdrawable ∧ 0 ≤ r.pending) stepDep_fresh
    s.deposits [] (by simpa using h.depsSorted) h.depsKey h.depsNN
  have ho := runInit_sorted stepOp OpRow.key (fun r => 0 ≤ r.total ∧ 0 ≤ r.pending ∧ 0 ≤ r.totalShare ∧ 0 ≤ r.opShare)
    stepOp_fresh s.opAssets [] (by simpa using h.opsSorted) h.opsKey h.opsNN
  simp only [List.nil_append] at hc ht hd ho
  unfold initAssets exportAssets
  simp only [hp, hc, ht, flatten_export_deps, flatten_export_ops, hd, ho]

/-- hence exporting the re-imported state yields the same document -/
theorem C18_assets_reexport (s : Assets) (h : StoreInv s) :
    (initAssets (exportAssets s)).map exportAssets = some (exportAssets s) := by
  rw [C18_roundtrip_assets s h]; rfl

/-- every setter of the module is a `Set` under one key: the iteration order survives it -/
theorem C18_assets_writer_keeps_store {α : Type} (k : String) (v : α) (l : List (String × α)) (h : Sorted l) :
    Sorted (ssSet k v l) := ssSet_sorted k v l h

/-! ## validation of the export -/

/-- what Validate checks across the collections and the module's entry points establish -/
structure ValidInv (s : Assets) : Prop where
  /-- one entry per LayerZeroChainID (the store key is its encoding) -/
  chainIDs : (s.chains.map (·.2.lzID)).Nodup
  /-- precompile ClientChainInfoFromInputs: name not empty, addressLength ≥ 20 -/
  chainOK : ∀ p ∈ s.chains, p.2.name ≠ "" ∧ p.2.addrLen ≠ 0
  /-- precompile TokenFromInputs: GetClientChainInfoByIndex must succeed -/
  tokenChain : ∀ p ∈ s.tokens, p.2.lzID ∈ s.chains.map (·.2.lzID)
  /-- the address is hexutil.Encode(bytes) -/
  tokenLower : ∀ p ∈ s.tokens, isLower p.2.addr = true
  /-- rows of one staker are contiguous in key order (key = staker ++ "/" ++ asset, no "/" in ids) -/
  stakerGroups : (dedupAdj (s.deposits.map (·.2.staker))).Nodup
  /-- a staker row exists only for a registered token of the staker's client chain (PerformDepositOrWithdraw:
      IsStakingAsset, both ids built from one ClientChainLzID); its total is part of the token's total and covers the
      withdrawable and pending parts (C01) -/
  depOK : ∀ p ∈ s.deposits, ∃ a n t, parseID p.2.staker = some (a, n) ∧ isLower p.2.staker = true ∧
            n ∈ s.chains.map (·.2.lzID) ∧ ssGet p.2.asset s.tokens = some t ∧
            ((parseID p.2.asset).map (·.2)).getD 0 = n ∧ p.2.total ≤ t.total ∧ p.2.pending + p.2.withdrawable ≤ p.2.total
  opGroups : (dedupAdj (s.opAssets.map (·.2.operator))).Nodup
  /-- a pool never exceeds what was deposited of its token (C01); the operator's own share is part of the total share -/
  opOK : ∀ p ∈ s.opAssets, p.2.opShare ≤ p.2.totalShare ∧ ∀ t, ssGet p.2.asset s.tokens = some t → p.2.total + p.2.pending ≤ t.total

/-- extra hypothesis 1 (fails on the code as it is, F-18k): only 20-byte client-chain addresses -/
def EvmOnly (s : Assets) : Prop :=
  (∀ p ∈ s.tokens, isHexAddress p.2.addr = true) ∧
  (∀ p ∈ s.deposits, ∀ a n, parseID p.2.staker = some (a, n) → isHexAddress a = true)

/-- every operator pool is a pool of a registered token or of the native token (UpdateOperatorAssetState is called by
    x/delegation only, after IsStakingAsset for client-chain assets, or with ExocoreAssetID for MsgDelegation) -/
def PoolsRegistered (s : Assets) : Prop :=
  ∀ p ∈ s.opAssets, (∃ t, ssGet p.2.asset s.tokens = some t) ∨ (p.2.asset = exocoreAssetID ∧ ssGet p.2.asset s.tokens = none)

theorem tokenTotal_of_ssGet (ts : List (String × TokenInfo)) (hk : ∀ p ∈ ts, p.1 = assetIDOf p.2) (k : String) (t : TokenInfo)
    (h : ssGet k ts = some t) : tokenTotal (ts.map (·.2)) k = some t.total := by
  induction ts with
  | nil => simp [ssGet] at h
  | cons p r ih =>
    obtain ⟨k', v'⟩ := p
    have hk' : k' = assetIDOf v' := hk (k', v') (by simp)
    unfold ssGet at h
    by_cases e : k = k'
    · simp only [e, if_true, Option.some.injEq] at h
      subst h
      simp [tokenTotal, ← hk', e]
    · simp only [e, if_false] at h
      have hne : (assetIDOf v' == k) = false := by
        simp only [beq_eq_false_iff_ne, ne_eq, ← hk']
        exact fun h' => e h'.symm
      have := ih (fun p hp => hk p (by simp [hp])) h
      simpa [tokenTotal, List.find?, hne] using this

theorem sorted_values_distinct {β : Type} (l : List (String × β)) (key : β → String) (hk : ∀ p ∈ l, p.1 = key p.2)
    (hs : Sorted l) : (l.map (·.2)).Pairwise (fun a b => key a < key b) := by
  induction l with
  | nil => simp
  | cons p r ih =>
    have h1 := List.pairwise_cons.mp hs
    simp only [List.map_cons]
    refine List.pairwise_cons.mpr ⟨?_, ih (fun q hq => hk q (by simp [hq])) h1.2⟩
    intro b hb
    obtain ⟨q, hq, rfl⟩ := List.mem_map.mp hb
    rw [← hk p (by simp), ← hk q (by simp [hq])]
    exact h1.1 q hq

theorem nodup_of_pairwise_lt {β : Type} (l : List β) (key : β → String) (h : l.Pairwise (fun a b => key a < key b)) :
    (l.map key).Nodup := by
  unfold List.Nodup
  rw [List.pairwise_map]
  exact h.imp (by intro a b hab e; rw [e] at hab; exact String.lt_irrefl _ hab)

/-- inside one group (same first key part) the second key parts are pairwise different -/
theorem group_second_nodup {β : Type} (g : List β) (k1 k2 : β → String) (id : String)
    (hsame : ∀ x ∈ g, k1 x = id) (h : g.Pairwise (fun a b => joinKey (k1 a) (k2 a) < joinKey (k1 b) (k2 b))) :
    (g.map k2).Nodup := by
  unfold List.Nodup
  rw [List.pairwise_map]
  refine h.imp_of_mem ?_
  intro a b ha hb hab e
  rw [hsame a ha, hsame b hb, e] at hab
  exact String.lt_irrefl _ hab

theorem groupAdj_nonempty {β : Type} (key : β → String) (l : List β) : ∀ g ∈ groupAdj key l, g.2 ≠ [] := by
  induction l with
  | nil => intro g hg; simp [groupAdj] at hg
  | cons r rs ih =>
    intro g hg
    unfold groupAdj at hg
    cases hgr : groupAdj key rs with
    | nil => rw [hgr] at hg; simp at hg; subst hg; simp
    | cons g0 gs =>
      obtain ⟨s, grp⟩ := g0
      rw [hgr] at hg ih
      by_cases hs : s = key r
      · simp only [hs, if_true, List.mem_cons] at hg
        rcases hg with rfl | hg
        · simp
        · exact ih g (by simp [hg])
      · simp only [hs, if_false, List.mem_cons] at hg
        rcases hg with rfl | hg
        · simp
        · exact ih g (by simpa using hg)

theorem validateChains_export (s : Assets) (hv : ValidInv s) : validateChains (exportAssets s).chains = true := by
  simp only [validateChains, exportAssets, Bool.and_eq_true, decide_eq_true_eq, List.all_eq_true, List.map_map]
  refine ⟨hv.chainIDs, ?_⟩
  intro c hc
  obtain ⟨p, hp, rfl⟩ := List.mem_map.mp hc
  have := hv.chainOK p hp
  simp [this.1, this.2]

theorem validateTokens_export (s : Assets) (h : StoreInv s) (hv : ValidInv s) (he : EvmOnly s) :
    validateTokens ((exportAssets s).chains.map (·.lzID)) (exportAssets s).tokens = true := by
  simp only [validateTokens, exportAssets, Bool.and_eq_true, decide_eq_true_eq, List.all_eq_true, List.map_map]
  refine ⟨?_, ?_⟩
  · have := nodup_of_pairwise_lt _ assetIDOf (sorted_values_distinct s.tokens assetIDOf h.tokensKey h.tokensSorted)
    simpa [List.map_map] using this
  · intro t ht
    obtain ⟨p, hp, rfl⟩ := List.mem_map.mp ht
    refine ⟨⟨⟨?_, hv.tokenLower p hp⟩, he.1 p hp⟩, (h.tokensOK p hp).2⟩
    have := hv.tokenChain p hp
    simpa [List.contains_iff_mem] using this

theorem validateDeposits_export (s : Assets) (h : StoreInv s) (hv : ValidInv s) (he : EvmOnly s) :
    validateDeposits ((exportAssets s).chains.map (·.lzID)) (exportAssets s).tokens (exportAssets s).deposits = true := by
  simp only [validateDeposits, exportAssets, Bool.and_eq_true, decide_eq_true_eq, List.all_eq_true, List.map_map]
  have hpw := sorted_values_distinct s.deposits DepRow.key h.depsKey h.depsSorted
  refine ⟨?_, ?_⟩
  · have := groupAdj_ids DepRow.staker (s.deposits.map (·.2))
    have e : (List.map ((fun x => x.1) ∘ fun g => (g.1, List.map DepRow.item g.2)) (groupAdj DepRow.staker (List.map (fun x => x.2) s.deposits)))
        = (groupAdj DepRow.staker (s.deposits.map (·.2))).map (·.1) := by
      apply List.map_congr_left; intro g _; rfl
    rw [e, this, List.map_map]
    exact hv.stakerGroups
  · intro g hg
    obtain ⟨g0, hg0, rfl⟩ := List.mem_map.mp hg
    have hkey := groupAdj_key DepRow.staker _ g0 hg0
    have hsub := groupAdj_sublist DepRow.staker _ g0 hg0
    have hrow : ∀ x ∈ g0.2, ∃ a n t, parseID g0.1 = some (a, n) ∧ isLower g0.1 = true ∧ isHexAddress a = true ∧
        n ∈ s.chains.map (·.2.lzID) ∧ ssGet x.asset s.tokens = some t ∧ ((parseID x.asset).map (·.2)).getD 0 = n ∧
        x.total ≤ t.total ∧ x.pending + x.withdrawable ≤ x.total ∧ 0 ≤ x.total ∧ 0 ≤ x.withdrawable ∧ 0 ≤ x.pending := by
      intro x hx
      obtain ⟨p, hp, hpx⟩ := List.mem_map.mp (hsub.subset hx)
      obtain ⟨a, n, t, h1, h2, h3, h4, h5, h6, h7⟩ := hv.depOK p hp
      have hnn := h.depsNN p hp
      have hk := hkey x hx
      simp only [hpx] at h1 h2 h3 h4 h5 h6 h7 hnn
      rw [hk] at h1 h2
      exact ⟨a, n, t, h1, h2, he.2 p hp a n (by rw [hpx, hk]; exact h1), h3, h4, h5, h6, h7, hnn.1, hnn.2.1, hnn.2.2⟩
    obtain ⟨x0, hx0⟩ := List.exists_mem_of_ne_nil _ (groupAdj_nonempty DepRow.staker _ g0 hg0)
    obtain ⟨a0, n0, t0, p1, p2, p3, p4, _⟩ := hrow x0 hx0
    have hvid : validateID g0.1 = some n0 := by simp [validateID, p1, p2, p3]
    simp only [hvid, Bool.and_eq_true, decide_eq_true_eq, List.all_eq_true]
    refine ⟨⟨by simpa [List.contains_iff_mem] using p4, ?_⟩, ?_⟩
    · have := group_second_nodup g0.2 DepRow.staker DepRow.asset g0.1 hkey (hpw.sublist hsub)
      simpa [List.map_map, DepRow.item, Function.comp_def] using this
    · intro d hd
      obtain ⟨x, hx, rfl⟩ := List.mem_map.mp hd
      obtain ⟨a, n, t, q1, _, _, _, q5, q6, q7, q8, q9, q10, q11⟩ := hrow x hx
      have hn : n = n0 := by
        rw [p1] at q1
        simp only [Option.some.injEq, Prod.mk.injEq] at q1
        exact q1.2.symm
      subst hn
      have htt := tokenTotal_of_ssGet s.tokens h.tokensKey _ _ q5
      simp only [validateDepItem, DepRow.item, htt, q6, beq_self_eq_true, Bool.and_eq_true, Bool.true_and]
      exact ⟨⟨⟨⟨decide_eq_true q9, decide_eq_true q10⟩, decide_eq_true q11⟩, decide_eq_true q7⟩, decide_eq_true q8⟩

theorem tokenTotal_none_of_ssGet (ts : List (String × TokenInfo)) (hk : ∀ p ∈ ts, p.1 = assetIDOf p.2) (k : String)
    (h : ssGet k ts = none) : tokenTotal (ts.map (·.2)) k = none := by
  induction ts with
  | nil => rfl
  | cons p r ih =>
    obtain ⟨k', v'⟩ := p
    have hk' : k' = assetIDOf v' := hk (k', v') (by simp)
    unfold ssGet at h
    by_cases e : k = k'
    · simp [e] at h
    · simp only [e, if_false] at h
      have hne : (assetIDOf v' == k) = false := by
        simp only [beq_eq_false_iff_ne, ne_eq, ← hk']
        exact fun h' => e h'.symm
      have := ih (fun p hp => hk p (by simp [hp])) h
      simpa [tokenTotal, List.find?, hne] using this

theorem validateOpAssets_export (s : Assets) (h : StoreInv s) (hv : ValidInv s) (hr : PoolsRegistered s) :
    validateOpAssets true (exportAssets s).tokens (exportAssets s).opAssets = true := by
  simp only [validateOpAssets, exportAssets, Bool.and_eq_true, decide_eq_true_eq, List.all_eq_true, List.map_map]
  have hpw := sorted_values_distinct s.opAssets OpRow.key h.opsKey h.opsSorted
  refine ⟨?_, ?_⟩
  · have := groupAdj_ids OpRow.operator (s.opAssets.map (·.2))
    have e : (List.map ((fun x => x.1) ∘ fun g => (g.1, List.map OpRow.item g.2)) (groupAdj OpRow.operator (List.map (fun x => x.2) s.opAssets)))
        = (groupAdj OpRow.operator (s.opAssets.map (·.2))).map (·.1) := by
      apply List.map_congr_left; intro g _; rfl
    rw [e, this, List.map_map]
    exact hv.opGroups
  · intro g hg
    obtain ⟨g0, hg0, rfl⟩ := List.mem_map.mp hg
    have hkey := groupAdj_key OpRow.operator _ g0 hg0
    have hsub := groupAdj_sublist OpRow.operator _ g0 hg0
    refine ⟨?_, ?_⟩
    · have := group_second_nodup g0.2 OpRow.operator OpRow.asset g0.1 hkey (hpw.sublist hsub)
      simpa [List.map_map, OpRow.item, Function.comp_def] using this
    · intro d hd
      obtain ⟨x, hx, rfl⟩ := List.mem_map.mp hd
      obtain ⟨p, hp, hpx⟩ := List.mem_map.mp (hsub.subset hx)
      have ho := hv.opOK p hp
      rcases hr p hp with ⟨t, ht⟩ | ⟨hnat, hnone⟩
      · simp only [hpx] at ht ho
        have htt := tokenTotal_of_ssGet s.tokens h.tokensKey _ _ ht
        simp only [validateOpItem, OpRow.item, htt, Bool.and_eq_true]
        exact ⟨decide_eq_true (ho.2 t ht), decide_eq_true ho.1⟩
      · simp only [hpx] at hnat hnone ho
        have htt := tokenTotal_none_of_ssGet s.tokens h.tokensKey _ hnone
        rw [hnat] at htt
        simp only [validateOpItem, OpRow.item, hnat, htt, beq_self_eq_true, Bool.true_and]
        exact decide_eq_true ho.1

/-- **What holds for the code as it is.** The export of a state of the stores (`StoreInv`) with the cross-collection
    facts of reachable states (`ValidInv`, `PoolsRegistered`: pools of registered tokens or of the native token) passes
    GenesisState.Validate, provided no client chain has addresses longer than 20 bytes (`EvmOnly`). -/
theorem C18_assets_export_validates_partial (s : Assets) (h : StoreInv s) (hv : ValidInv s) (he : EvmOnly s)
    (hr : PoolsRegistered s) : validateAssets (exportAssets s) = true := by
  unfold validateAssets validateAssetsWith
  rw [validateChains_export s hv, validateTokens_export s h hv he, validateDeposits_export s h hv he,
    validateOpAssets_export s h hv hr]
  simp [validateParams, exportAssets, h.paramsOK.1, h.paramsOK.2.1]

/-- C18 for x/assets at full strength: the export of every state the module can be in validates and re-imports -/
def C18_assets_full : Prop :=
  ∀ s : Assets, StoreInv s → ValidInv s → PoolsRegistered s →
    validateAssets (exportAssets s) = true ∧ initAssets (exportAssets s) = some s

/-! ## a concrete state, the two counter-examples -/

def usdt : TokenInfo := ⟨101, "0xdac17f958d2ee523a2206206994597c13d831ec7", 6, "USDT", 9000000⟩
def usdtID : String := "0xdac17f958d2ee523a2206206994597c13d831ec7_0x65"
def stakerA : String := "0x3e108c058e8066da635321dc3018294ca82ddedf_0x65"
def stakerB : String := "0x90618d1cdb01bf37c24fc012e70029da20fcdbcb_0x65"
def op1 : String := "exo18cggcpvwspnd5c6ny8wrqxpffj5zmhklprtnph"
def nativeID : String := exocoreAssetID
def okParams : AParams := ⟨"0x3e108c058e8066da635321dc3018294ca82ddedf", "0xc6a377bfc4eb120024a8ac08eef205be16b817020812c73223e81d1bdb9708ec"⟩

/-- one client chain, one token, two stakers (one with a pending undelegation), one operator pool -/
def goodState : Assets :=
  { params := okParams,
    chains := [("0x65", ⟨101, "ethereum", 20, "meta"⟩)],
    tokens := [(usdtID, usdt)],
    deposits := [(joinKey stakerA usdtID, ⟨stakerA, usdtID, 5000000, 1000000, 1000000⟩),
                 (joinKey stakerB usdtID, ⟨stakerB, usdtID, 4000000, 4000000, 0⟩)],
    opAssets := [(joinKey op1 usdtID, ⟨op1, usdtID, 3000000, 1000000, 3000000000000000000000000, 0⟩)] }

theorem goodState_store : StoreInv goodState := by
  refine ⟨by decide, ?_, by decide, ?_, by decide, by decide, ?_, by decide, by decide, ?_, by decide, by decide⟩ <;>
    (unfold Sorted; decide)

theorem goodState_valid : ValidInv goodState := by
  refine ⟨by decide, by decide, by decide, by decide, by decide, ?_, by decide, ?_⟩
  · intro p hp
    simp only [goodState, List.mem_cons, List.not_mem_nil, or_false] at hp
    rcases hp with rfl | rfl
    · exact ⟨"0x3e108c058e8066da635321dc3018294ca82ddedf", 101, usdt, by decide, by decide, by decide, by decide, by decide,
        by decide, by decide⟩
    · exact ⟨"0x90618d1cdb01bf37c24fc012e70029da20fcdbcb", 101, usdt, by decide, by decide, by decide, by decide, by decide,
        by decide, by decide⟩
  · intro p hp
    simp only [goodState, List.mem_cons, List.not_mem_nil, or_false] at hp
    subst hp
    refine ⟨by decide, ?_⟩
    intro t ht
    have : t = usdt := by
      have h' : ssGet usdtID goodState.tokens = some usdt := by decide
      have : ssGet usdtID goodState.tokens = some t := ht
      rw [h'] at this
      exact (Option.some.inj this).symm
    subst this
    decide

theorem goodState_evm : EvmOnly goodState := by
  refine ⟨by decide, ?_⟩
  intro p hp a n h
  simp only [goodState, List.mem_cons, List.not_mem_nil, or_false] at hp
  rcases hp with rfl | rfl
  · have h' : parseID stakerA = some ("0x3e108c058e8066da635321dc3018294ca82ddedf", 101) := by decide
    have h2 : parseID stakerA = some (a, n) := h
    rw [h'] at h2
    obtain ⟨rfl, rfl⟩ := Prod.mk.inj (Option.some.inj h2)
    decide
  · have h' : parseID stakerB = some ("0x90618d1cdb01bf37c24fc012e70029da20fcdbcb", 101) := by decide
    have h2 : parseID stakerB = some (a, n) := h
    rw [h'] at h2
    obtain ⟨rfl, rfl⟩ := Prod.mk.inj (Option.some.inj h2)
    decide

theorem goodState_evm_native : EvmOnly { goodState with opAssets := [(joinKey op1 nativeID, ⟨op1, nativeID, 12345, 0, 12345000000000000000000, 0⟩),
                                (joinKey op1 usdtID, ⟨op1, usdtID, 3000000, 1000000, 3000000000000000000000000, 0⟩)] } := goodState_evm

theorem goodState_pools : PoolsRegistered goodState := by
  intro p hp
  simp only [goodState, List.mem_cons, List.not_mem_nil, or_false] at hp
  subst hp
  exact Or.inl ⟨usdt, by decide⟩

/-- non-vacuity: the hypotheses of the round-trip and of the validation theorem are met by a non-trivial state, and the
    model computes what the theorems say -/
example : initAssets (exportAssets goodState) = some goodState := C18_roundtrip_assets _ goodState_store
example : validateAssets (exportAssets goodState) = true :=
  C18_assets_export_validates_partial _ goodState_store goodState_valid goodState_evm goodState_pools
example : (exportAssets goodState).deposits =
    [(stakerA, [⟨usdtID, 5000000, 1000000, 1000000⟩]), (stakerB, [⟨usdtID, 4000000, 4000000, 0⟩])] := by decide
example : validateAssets (exportAssets goodState) = true := by decide

/-- F-18j witness: `goodState` after a native-token delegation of 12345 to op1 — x/delegation delegateTo writes the pool
    row under ExocoreAssetID (UpdateOperatorAssetState does not ask whether the asset is registered) -/
def nativePoolState : Assets :=
  { goodState with opAssets := [(joinKey op1 nativeID, ⟨op1, nativeID, 12345, 0, 12345000000000000000000, 0⟩),
                                (joinKey op1 usdtID, ⟨op1, usdtID, 3000000, 1000000, 3000000000000000000000000, 0⟩)] }

theorem nativePool_store : StoreInv nativePoolState := by
  refine ⟨by decide, ?_, by decide, ?_, by decide, by decide, ?_, by decide, by decide, ?_, by decide, by decide⟩ <;>
    (unfold Sorted; decide)

theorem nativePool_valid : ValidInv nativePoolState := by
  refine ⟨by decide, by decide, by decide, by decide, by decide, goodState_valid.depOK, by decide, ?_⟩
  intro p hp
  simp only [nativePoolState, goodState, List.mem_cons, List.not_mem_nil, or_false] at hp
  rcases hp with rfl | rfl
  · refine ⟨by decide, ?_⟩
    intro t ht
    have h' : ssGet nativeID nativePoolState.tokens = none := by decide
    have : ssGet nativeID nativePoolState.tokens = some t := ht
    rw [h'] at this
    exact absurd this (by simp)
  · refine ⟨by decide, ?_⟩
    intro t ht
    have : t = usdt := by
      have h' : ssGet usdtID nativePoolState.tokens = some usdt := by decide
      have : ssGet usdtID nativePoolState.tokens = some t := ht
      rw [h'] at this
      exact (Option.some.inj this).symm
    subst this
    decide

theorem nativePool_pools : PoolsRegistered nativePoolState := by
  intro p hp
  simp only [nativePoolState, goodState, List.mem_cons, List.not_mem_nil, or_false] at hp
  rcases hp with rfl | rfl
  · exact Or.inr ⟨rfl, by decide⟩
  · exact Or.inl ⟨usdt, by decide⟩

/-- Repaired code (F-18j): the export of a state with a native-token pool passes Validate and re-imports exactly -/
theorem C18_assets_native_pool_validates :
    validateAssets (exportAssets nativePoolState) = true ∧ initAssets (exportAssets nativePoolState) = some nativePoolState :=
  ⟨C18_assets_export_validates_partial _ nativePool_store nativePool_valid goodState_evm_native nativePool_pools,
   C18_roundtrip_assets _ nativePool_store⟩

example : validateAssets (exportAssets nativePoolState) = true := by decide

/-- Pre-repair regression (F-18j): the same export was rejected by ValidateOperatorAssets ("unknown assetID for operator
    assets") … -/
theorem C18_regression_F18j_native_pool_not_validated : validateAssetsPreFix (exportAssets nativePoolState) = false := by decide

/-- … so the full statement failed for the pre-repair Validate on a state reachable by one MsgDelegation -/
theorem C18_regression_F18j : ∃ s : Assets, StoreInv s ∧ ValidInv s ∧ PoolsRegistered s ∧
    initAssets (exportAssets s) = some s ∧ validateAssetsPreFix (exportAssets s) = false :=
  ⟨nativePoolState, nativePool_store, nativePool_valid, nativePool_pools, C18_roundtrip_assets _ nativePool_store,
   C18_regression_F18j_native_pool_not_validated⟩

/-- the exemption is for the native token only: a pool of any other unregistered asset is still rejected -/
theorem C18_assets_unregistered_pool_rejected :
    validateAssets (exportAssets { goodState with opAssets := [(joinKey op1 stakerA, ⟨op1, stakerA, 1, 0, 1, 0⟩)] }) = false := by
  decide

def wideToken : TokenInfo := ⟨207, "0xf99ceaf565cee79e48fbf1089992aed9d0cad78de102738bce39c58b4b2f9223", 9, "WTK", 0⟩

/-- F-18k witness: `goodState` after registerOrUpdateClientChain(207, addressLength 32, …) and registerToken(207, 32 bytes, …)
    through the assets precompile (its checks: addressLength ≥ 20, len(address) ≥ addressLength) -/
def wideChainState : Assets :=
  { goodState with chains := [("0x65", ⟨101, "ethereum", 20, "meta"⟩), ("0xcf", ⟨207, "widechain", 32, "meta"⟩)],
                   tokens := [(usdtID, usdt), (assetIDOf wideToken, wideToken)] }

theorem wideChain_store : StoreInv wideChainState := by
  refine ⟨by decide, ?_, by decide, ?_, by decide, by decide, ?_, by decide, by decide, ?_, by decide, by decide⟩ <;>
    (unfold Sorted; decide)

theorem wideChain_valid : ValidInv wideChainState := by
  refine ⟨by decide, by decide, by decide, by decide, by decide, ?_, by decide, ?_⟩
  · intro p hp
    simp only [wideChainState, goodState, List.mem_cons, List.not_mem_nil, or_false] at hp
    rcases hp with rfl | rfl
    · exact ⟨"0x3e108c058e8066da635321dc3018294ca82ddedf", 101, usdt, by decide, by decide, by decide, by decide, by decide,
        by decide, by decide⟩
    · exact ⟨"0x90618d1cdb01bf37c24fc012e70029da20fcdbcb", 101, usdt, by decide, by decide, by decide, by decide, by decide,
        by decide, by decide⟩
  · intro p hp
    simp only [wideChainState, goodState, List.mem_cons, List.not_mem_nil, or_false] at hp
    subst hp
    refine ⟨by decide, ?_⟩
    intro t ht
    have : t = usdt := by
      have h' : ssGet usdtID wideChainState.tokens = some usdt := by decide
      have : ssGet usdtID wideChainState.tokens = some t := ht
      rw [h'] at this
      exact (Option.some.inj this).symm
    subst this
    decide

theorem wideChain_pools : PoolsRegistered wideChainState := by
  intro p hp
  simp only [wideChainState, goodState, List.mem_cons, List.not_mem_nil, or_false] at hp
  subst hp
  exact Or.inl ⟨usdt, by decide⟩

/-- **F-18k (open).** A state with a registered token of a client chain with 32-byte addresses satisfies every store
    invariant and is re-imported exactly, but its export is rejected by ValidateTokens ("not hex address"): the 20-byte
    hypothesis of `C18_assets_export_validates_partial` cannot be dropped. -/
theorem C18_assets_wide_address_fails :
    StoreInv wideChainState ∧ ¬ EvmOnly wideChainState ∧ initAssets (exportAssets wideChainState) = some wideChainState ∧
    validateAssets (exportAssets wideChainState) = false := by
  refine ⟨wideChain_store, ?_, C18_roundtrip_assets _ wideChain_store, by decide⟩
  intro h
  have := h.1 (assetIDOf wideToken, wideToken) (by simp [wideChainState])
  revert this
  decide

/-- the full statement is still refuted on the code as it is, through F-18k -/
theorem C18_assets_full_fails : ¬ C18_assets_full := by
  intro h
  have := (h wideChainState wideChain_store wideChain_valid wideChain_pools).1
  rw [C18_assets_wide_address_fails.2.2.2] at this
  exact absurd this (by decide)

end ExoVerif.Genesis
