import ExoVerif.Generated.Facts
import ExoVerif.Proofs.EpochsGenesis
/-!
# C15 tie, from the genesis list on

`Model/EpochsGenesis.lean` (`register`, `initGenesis`) against the definitions regenerated from
x/epochs/keeper/{epoch_infos.go, genesis.go, *.go} on every run (tools/exofacts/facts_epochs.go).
Filling in another field at registration, refusing in another order, keeping an AddEpochInfo error in
InitGenesis, or a new writer of the counting fields changes a generated definition and breaks the
corresponding theorem. (The first-tick decision has its own module, `Props/C15TieFirstTick.lean`, so
that a change there leaves these theorems standing.)
-/
namespace ExoVerif.Epochs
open ExoVerif.Gen

/-- how the model reads AddEpochInfo's result -/
def outcomeOf (es : List EpochInfo) (e : EpochInfo) : Except String (Int × Int) → List EpochInfo × RegOutcome
  | .error s => (es, if s = "ErrDuplicateEpochInfo" then .duplicate else .invalid)
  | .ok (st, hg) => (insertSorted { e with startTime := st, currentEpochStartHeight := hg } es, .stored)

/-- the model's `register` is AddEpochInfo: same refusals in the same order, same two fill-ins, every
other field (number, flag, current start time, duration, identifier) written as received. -/
theorem C15_tie_register (es : List EpochInfo) (e : EpochInfo) (bt h : Int) :
    register es e bt h =
      outcomeOf es e (epochsAddEpochInfo (!valid e) (hasId es e.identifier) (e.startTime == zeroTime)
        e.startTime e.currentEpochStartHeight bt h) := by
  unfold register epochsAddEpochInfo fill
  cases hv : valid e
  · simp [outcomeOf]
  · cases hd : hasId es e.identifier
    · by_cases h1 : e.startTime = zeroTime <;> by_cases h2 : e.currentEpochStartHeight = 0 <;>
        simp [outcomeOf, h1, h2]
    · simp [outcomeOf]

/-- InitGenesis = AddEpochInfo of every entry in list order with the error dropped (`initGenesisFrom`) -/
theorem C15_tie_init_genesis :
    epochsInitGenesisBody =
      ["for _, epoch := range genState.Epochs { _ = k.AddEpochInfo(ctx, epoch) }", "return nil"] := by
  decide

/-- the writers of the x/epochs store are the two the model has: AddEpochInfo (start time and start
height only) and BeginBlocker (number, flag, current start time, start height) -/
theorem C15_tie_store_writers :
    epochsStoreWriters =
      ["abci.go:BeginBlocker:CurrentEpoch", "abci.go:BeginBlocker:CurrentEpochStartHeight",
       "abci.go:BeginBlocker:CurrentEpochStartTime", "abci.go:BeginBlocker:EpochCountingStarted",
       "abci.go:BeginBlocker:setEpochInfoUnchecked", "epoch_infos.go:AddEpochInfo:CurrentEpochStartHeight",
       "epoch_infos.go:AddEpochInfo:StartTime", "epoch_infos.go:AddEpochInfo:setEpochInfoUnchecked",
       "epoch_infos.go:setEpochInfoUnchecked:store.Set"] := by
  decide

end ExoVerif.Epochs
