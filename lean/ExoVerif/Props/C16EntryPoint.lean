import ExoVerif.Props.C16
/-!
# C16 — the hold on an undelegation does not depend on the entry point (finding F-16b)

An undelegation request reaches x/delegation either through the keeper object of the app (message server,
genesis) or through the delegation precompile, which owns a COPY of the keeper (app/app.go hands it to
`evmkeeper.AvailablePrecompiles` by value). `UndelegateFrom` ends with `k.Hooks().AfterUndelegationStarted`,
and `Hooks()` of a copy that never saw `SetHooks` is the no-op multi-hook. The model makes the hook part of the
undelegation step and the entry point a parameter: `undelegateVia wired s op rec` (Model/ConsKeys.lean), with
`hooksWired : Entry → Bool` = what app.go wires (tie: `C16_tie_no_hookless_copy_calls_hooks`, Props/C16WiringTie.lean).

* `C16_hold_is_function_of_key_state`: whether and until when a record is held is a function of the operator's
  key state alone (removal marker, stored finish epoch, registration, current / previous key in the validator
  set, current completion epoch) — `holdSlot`;
* `C16_hold_independent_of_entry_point`: for both entry points the step is the `undelegate` operation of the
  model (so every theorem of Props/C16.lean / C16Hist.lean applies to requests through the precompile) and the hold
  is `holdSlot` of the key state — the same for both;
* `C16_regression_F16b_unwired_precompile_not_held` (+ `…_optout`): with the pre-fix wiring
  (`hooksWiredPreFix .precompile = false`) the undelegation of a validating operator is accepted, not held, in no
  queue, and x/delegation's own expiry completes it while the epoch number has not moved — two epoch ends before
  the request through the keeper is released.
-/
namespace ExoVerif.ConsKeys
open ExoVerif.VMap ExoVerif.ValSet

/-- what dogfood's AfterUndelegationStarted reads about the operator (impl_delegation_hooks.go) -/
structure KeyState where
  removing : Bool          -- IsOperatorRemovingKeyFromChainID
  finish : Option Int      -- GetOperatorOptOutFinishEpoch (none = −1)
  registered : Bool
  hasKey : Bool            -- GetOperatorConsKeyForChainID found
  curValidating : Bool     -- GetExocoreValidator(current key) found
  prevValidating : Bool    -- GetExocoreValidator(previous key) found
  completion : Int         -- GetUnbondingCompletionEpoch
deriving DecidableEq, Repr

def keyState (s : St) (op : Nat) : KeyState :=
  { removing := s.removing op, finish := s.optOutFinishEpoch op, registered := s.registered op,
    hasKey := (s.fwd op).isSome,
    curValidating := (match s.fwd op with | some k => has s.vs.vals k | none => false),
    prevValidating := (match s.prevKey op with | some pk => has s.vs.vals pk | none => false),
    completion := completionEpoch s }

/-- the epoch at whose end the record is released (`none` = not held at all), from the key state alone -/
def holdSlot (k : KeyState) : Option Int :=
  if k.removing then k.finish
  else if !k.registered then none
  else if !k.hasKey then none
  else if k.curValidating || k.prevValidating then some k.completion
  else none

/-- AppendUndelegationToMature + SetUndelegationMaturityEpoch + IncrementUndelegationHoldCount -/
def placeHold (s : St) (rec : Nat) : Option Int → St
  | none => s
  | some slot =>
    { s with undelToMature := upd s.undelToMature slot (s.undelToMature slot ++ [rec]),
             undelMaturity := upd s.undelMaturity rec (some slot),
             holds := upd s.holds rec (s.holds rec + 1) }

/-- The hold placement is a function of the operator's key state: the request is always accepted, and the record
is held until the end of epoch `holdSlot (keyState s op)` — or not at all. -/
theorem C16_hold_is_function_of_key_state (s : St) (op rec : Nat) :
    undelegationStarted s op rec = (.ok, placeHold s rec (holdSlot (keyState s op))) := by
  unfold undelegationStarted holdSlot keyState
  by_cases hr : s.removing op = true
  · simp only [hr, if_true]
    cases s.optOutFinishEpoch op <;> rfl
  · have hr' : s.removing op = false := by cases h : s.removing op <;> simp_all
    simp only [hr', Bool.false_eq_true, if_false]
    by_cases hreg : s.registered op = true
    · simp only [hreg, Bool.not_true, Bool.false_eq_true, if_false]
      cases hf : s.fwd op with
      | none => simp [placeHold]
      | some k =>
        simp only [Option.isSome_some, Bool.not_true, Bool.false_eq_true, if_false]
        cases hp : s.prevKey op with
        | none =>
          rcases Bool.eq_false_or_eq_true (has s.vs.vals k) with hv | hv <;> simp [placeHold, hv]
        | some pk =>
          rcases Bool.eq_false_or_eq_true (has s.vs.vals k) with hv | hv <;>
            rcases Bool.eq_false_or_eq_true (has s.vs.vals pk) with hv' | hv' <;> simp [placeHold, hv, hv']
    · have hreg' : s.registered op = false := by cases h : s.registered op <;> simp_all
      simp [hreg', placeHold]

/-- two states in which the operator's key state is the same place the same hold -/
theorem C16_same_key_state_same_hold (s t : St) (op op' rec : Nat) (h : keyState s op = keyState t op') :
    (undelegationStarted s op rec).1 = (undelegationStarted t op' rec).1 ∧
    holdSlot (keyState s op) = holdSlot (keyState t op') ∧
    (undelegationStarted s op rec).2.undelMaturity rec = (placeHold s rec (holdSlot (keyState t op'))).undelMaturity rec := by
  rw [C16_hold_is_function_of_key_state, C16_hold_is_function_of_key_state, h]
  exact ⟨rfl, rfl, rfl⟩

/-- **The hold does not depend on the entry point.** With the wiring of app.go (`hooksWired`) a request through the
delegation precompile and a request through the keeper are the same step — the `undelegate` operation of the model, so
all of Props/C16.lean and Props/C16Hist.lean speaks about both — and the hold it places is `holdSlot` of the
operator's key state, which has no entry-point argument. -/
theorem C16_hold_independent_of_entry_point (s : St) (op rec : Nat) (e₁ e₂ : Entry) :
    undelegateVia (hooksWired e₁) s op rec = undelegateVia (hooksWired e₂) s op rec ∧
    undelegateVia (hooksWired e₁) s op rec = step s (.undelegate op rec) ∧
    undelegateVia (hooksWired e₁) s op rec = (.ok, placeHold s rec (holdSlot (keyState s op))) := by
  refine ⟨rfl, rfl, ?_⟩
  show undelegationStarted s op rec = _
  exact C16_hold_is_function_of_key_state s op rec

/-- through the precompile, an undelegation from a validating operator is held until epoch e + N ends … -/
theorem C16_entry_validator_held (e : Entry) (s : St) (op rec k : Nat) (hnr : s.removing op = false)
    (hreg : s.registered op = true) (hf : s.fwd op = some k) (hval : has s.vs.vals k = true) :
    rec ∈ (undelegateVia (hooksWired e) s op rec).2.undelToMature (s.epoch + s.nUnb) ∧
    (undelegateVia (hooksWired e) s op rec).2.undelMaturity rec = some (s.epoch + s.nUnb) ∧
    (undelegateVia (hooksWired e) s op rec).2.holds rec = s.holds rec + 1 :=
  C16_undelegation_slot s op rec k hnr hreg hf hval

/-- … one from an opting-out operator matures with the opt-out … -/
theorem C16_entry_matures_with_optout (e : Entry) (s : St) (op rec : Nat) (f : Int) (hr : s.removing op = true)
    (hfin : s.optOutFinishEpoch op = some f) :
    (undelegateVia (hooksWired e) s op rec).1 = .ok ∧
    rec ∈ (undelegateVia (hooksWired e) s op rec).2.undelToMature f ∧
    (undelegateVia (hooksWired e) s op rec).2.undelMaturity rec = some f ∧
    (undelegateVia (hooksWired e) s op rec).2.holds rec = s.holds rec + 1 :=
  C16_matures_with_optout s op rec f hr hfin

/-- … and one from an operator whose keys are not in the validator set is not held, whatever the entry point. -/
theorem C16_entry_not_held_if_not_validator (e : Entry) (s : St) (op rec : Nat) (hnr : s.removing op = false)
    (hcur : ∀ k, s.fwd op = some k → has s.vs.vals k = false)
    (hprev : ∀ k, s.prevKey op = some k → has s.vs.vals k = false) :
    undelegateVia (hooksWired e) s op rec = (.ok, s) :=
  C16_not_held_if_not_validator s op rec hnr hcur hprev

/-! ## regression: the pre-fix wiring (finding F-16b) -/

/-- an entry point whose keeper copy has no hooks accepts the request and does nothing else -/
theorem C16_unwired_entry_places_nothing (s : St) (op rec : Nat) : undelegateVia false s op rec = (.ok, s) := rfl

private def pwE : Nat → Int := fun _ => 100

/-- operator 0 validates with key 5 from epoch 2 on (N = 2) -/
private def validating : St := run (St.init 2 6 1 2) [.register 0, .optIn 0 5 true, .epochEnd 1, .endBlock pwE 5]

/-- **F-16b, validating operator.** State: operator 0 validates (epoch 2, N = 2), nothing queued. The request
through the keeper (wired before and after the fix) is held until epoch 4 ends: x/delegation's expiry does not
complete it, not after the end of epoch 2, not after the end of epoch 3, only after the block that closes epoch 4.
The same request through the pre-fix precompile (`hooksWiredPreFix .precompile = false`) is accepted with no
hold, no maturity epoch and no queue entry, and x/delegation's expiry completes it at once — while the epoch number
is still 2, two epoch ends before the unbonding epochs are over. With the repaired wiring the precompile request
is held exactly like the keeper request. -/
theorem C16_regression_F16b_unwired_precompile_not_held :
    let s := validating
    let viaKeeper := (undelegateVia (hooksWiredPreFix .keeper) s 0 0).2
    let viaPrecompilePreFix := (undelegateVia (hooksWiredPreFix .precompile) s 0 0).2
    let viaPrecompile := (undelegateVia (hooksWired .precompile) s 0 0).2
    has s.vs.vals 5 = true ∧ s.fwd 0 = some 5 ∧ s.removing 0 = false ∧ s.epoch = 2 ∧ s.nUnb = 2 ∧
    holdSlot (keyState s 0) = some 4 ∧
    -- through the keeper: held until epoch 4 ends
    viaKeeper.holds 0 = 1 ∧ viaKeeper.undelMaturity 0 = some 4 ∧ viaKeeper.undelToMature 4 = [0] ∧
    delegationExpiryCompletes viaKeeper 0 = false ∧
    delegationExpiryCompletes (run viaKeeper [.endBlock pwE 5, .epochEnd 2, .endBlock pwE 5, .epochEnd 3, .endBlock pwE 5]) 0 = false ∧
    delegationExpiryCompletes (run viaKeeper [.endBlock pwE 5, .epochEnd 2, .endBlock pwE 5, .epochEnd 3, .endBlock pwE 5,
      .epochEnd 4, .endBlock pwE 5]) 0 = true ∧
    -- through the pre-fix precompile: accepted, not held, released before the unbonding epoch
    (undelegateVia (hooksWiredPreFix .precompile) s 0 0).1 = .ok ∧
    viaPrecompilePreFix.holds 0 = 0 ∧ viaPrecompilePreFix.undelMaturity 0 = none ∧ viaPrecompilePreFix.undelToMature 4 = [] ∧
    viaPrecompilePreFix.epoch = 2 ∧ delegationExpiryCompletes viaPrecompilePreFix 0 = true ∧
    -- through the repaired precompile: as through the keeper
    viaPrecompile.holds 0 = 1 ∧ viaPrecompile.undelMaturity 0 = some 4 ∧ delegationExpiryCompletes viaPrecompile 0 = false := by
  decide

/-- **F-16b, opting-out operator.** Operator 0 validates and opts out in epoch 2 (finish epoch 4). Through the
keeper the undelegation matures with the opt-out (slot 4); through the pre-fix precompile it is not held and
x/delegation's expiry completes it in epoch 2, while the operator is still removing its key and validating. -/
theorem C16_regression_F16b_unwired_precompile_optout :
    let s := run validating [.optOut 0]
    let viaKeeper := (undelegateVia (hooksWiredPreFix .keeper) s 0 0).2
    let viaPrecompilePreFix := (undelegateVia (hooksWiredPreFix .precompile) s 0 0).2
    s.removing 0 = true ∧ s.optOutFinishEpoch 0 = some 4 ∧ has s.vs.vals 5 = true ∧
    holdSlot (keyState s 0) = some 4 ∧
    viaKeeper.holds 0 = 1 ∧ viaKeeper.undelMaturity 0 = some 4 ∧ delegationExpiryCompletes viaKeeper 0 = false ∧
    viaPrecompilePreFix.holds 0 = 0 ∧ viaPrecompilePreFix.undelMaturity 0 = none ∧ viaPrecompilePreFix.removing 0 = true ∧
    viaPrecompilePreFix.epoch = 2 ∧ delegationExpiryCompletes viaPrecompilePreFix 0 = true ∧
    (undelegateVia (hooksWired .precompile) s 0 0).2.undelMaturity 0 = some 4 := by
  decide

/-- the pre-fix wiring differs from the repaired one exactly at the precompile -/
theorem C16_regression_F16b_wiring_differs_at_precompile :
    hooksWiredPreFix .keeper = hooksWired .keeper ∧ hooksWiredPreFix .precompile ≠ hooksWired .precompile := by decide

/-- non-vacuity of `C16_entry_validator_held`: the state `validating` meets its hypotheses -/
example : validating.removing 0 = false ∧ validating.registered 0 = true ∧ validating.fwd 0 = some 5 ∧
    has validating.vs.vals 5 = true := by decide

/-- `holdSlot` distinguishes the cases of the property: validating → e + N, opting out → finish epoch, key not in
the set → none, closing block of the opt-out (finish epoch consumed) → none -/
example : holdSlot ⟨false, none, true, true, true, false, 7⟩ = some 7 ∧
          holdSlot ⟨false, none, true, true, false, true, 7⟩ = some 7 ∧
          holdSlot ⟨true, some 5, true, true, true, false, 7⟩ = some 5 ∧
          holdSlot ⟨false, none, true, true, false, false, 7⟩ = none ∧
          holdSlot ⟨true, none, true, true, true, false, 7⟩ = none := by decide

end ExoVerif.ConsKeys
