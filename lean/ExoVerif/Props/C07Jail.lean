import ExoVerif.Proofs.ConsKeys
import ExoVerif.Model.ConsKeysJail
import ExoVerif.Props.C07
/-!
# C07 — "… so that it can still be slashed and jailed": the jail status per chain

Model: `jailedView` (x/operator/keeper/slash.go: IsOperatorJailedForChainID, the status the SDK's
slashing / evidence modules are given through x/dogfood's IsValidatorJailed and
ValidatorByConsAddr), `setJailed` (SetJailedState through Jail / Unjail) and `unjailMsg`
(x/slashing's MsgUnjail over dogfood's staking interface). Replayed by `./check C07` on every
state line (`R=key:operator:jailed`) and on every `ck.unjailmsg`.

All statements are for every registry state / every history (the registry invariant `Inv` of
`C07_inv_reachable` is the only hypothesis).
-/
namespace ExoVerif.ConsKeys
open ExoVerif.VMap ExoVerif.ValSet

/-- The status reported for a consensus address is the Jailed flag of the opt-in record of the
operator the address resolves to — for every resolvable address, be it the operator's current
key, a replaced key that has not matured, or a key that is being removed. -/
theorem C07_jail_view_is_operator_flag (s : St) (k op : Nat) (h : s.rev k = some op) :
    jailedView s k = (s.hasInfo op && s.jailed op) := by
  simp [jailedView, h]

/-- an address that resolves to nobody is never reported as jailed -/
theorem C07_jail_view_unresolvable (s : St) (k : Nat) (h : s.rev k = none) : jailedView s k = false := by
  simp [jailedView, h]

/-- Jail / Unjail by consensus address changes nothing but the flag: the key registry, the
queues and the validator set are untouched, so the address stays resolvable (slashable). -/
theorem C07_jail_keeps_registry (s : St) (k : Nat) (b : Bool) :
    (setJailed s k b).fwd = s.fwd ∧ (setJailed s k b).fwd2 = s.fwd2 ∧ (setJailed s k b).rev = s.rev ∧
    (setJailed s k b).prevKey = s.prevKey ∧ (setJailed s k b).removing = s.removing ∧
    (setJailed s k b).hasInfo = s.hasInfo ∧ (setJailed s k b).optedIn = s.optedIn ∧
    (setJailed s k b).addrsToPrune = s.addrsToPrune ∧ (setJailed s k b).pendingAddrs = s.pendingAddrs ∧
    (setJailed s k b).vs = s.vs := by
  unfold setJailed
  repeat' split
  all_goals exact ⟨rfl, rfl, rfl, rfl, rfl, rfl, rfl, rfl, rfl, rfl⟩

/-- the flag after Jail / Unjail by address `k` -/
theorem setJailed_flag (s : St) (k : Nat) (b : Bool) (op : Nat) :
    (setJailed s k b).jailed op =
      if s.rev k = some op ∧ s.hasInfo op = true then b else s.jailed op := by
  unfold setJailed
  cases hr : s.rev k with
  | none => simp
  | some o =>
    by_cases hi : s.hasInfo o = true
    · by_cases ho : op = o
      · subst ho; simp [hi]
      · have : ¬ o = op := fun e => ho e.symm
        simp [hi, upd_apply, ho, this]
    · by_cases ho : o = op
      · subst ho; simp [hi]
      · simp [hi, ho]

/-- **Jailing through any resolvable address of an operator is seen through every one of them**:
after `Jail(k)` (resp. `Unjail(k)`) with `k` resolving to an operator that has an opt-in
record, every address `k'` that resolves to the same operator reports jailed (resp. not
jailed) — the current key, a replaced key still in its unbonding period, a key being removed. -/
theorem C07_jail_seen_through_every_address (s : St) (k k' op : Nat) (b : Bool)
    (hk : s.rev k = some op) (hk' : s.rev k' = some op) (hi : s.hasInfo op = true) :
    jailedView (step s (.jail k b)).2 k' = b := by
  have hreg := C07_jail_keeps_registry s k b
  show jailedView (setJailed s k b) k' = b
  unfold jailedView
  rw [hreg.2.2.1, hk']
  simp only [hreg.2.2.2.2.2.1, hi, Bool.true_and]
  rw [setJailed_flag]; simp [hk, hi]

/-- … and leaves the status of every address of every other operator as it was. -/
theorem C07_jail_other_operators_untouched (s : St) (k k' op op' : Nat) (b : Bool)
    (hk : s.rev k = some op) (hk' : s.rev k' = some op') (hne : op' ≠ op) :
    jailedView (step s (.jail k b)).2 k' = jailedView s k' := by
  have hreg := C07_jail_keeps_registry s k b
  show jailedView (setJailed s k b) k' = jailedView s k'
  unfold jailedView
  rw [hreg.2.2.1, hk']
  simp only [hreg.2.2.2.2.2.1]
  rw [setJailed_flag]
  have : ¬ (s.rev k = some op' ∧ s.hasInfo op' = true) := by
    intro h; rw [hk] at h; exact hne (Option.some.inj h.1).symm
  simp [this]

/-! ## MsgUnjail -/

/-- whatever its outcome, MsgUnjail leaves the state as it was or clears one flag -/
theorem unjailMsg_state (s : St) (op : Nat) (total self min : Int) (t : Bool) :
    (unjailMsg s op total self min t).2 = s ∨
    ∃ k, (unjailMsg s op total self min t).2 = setJailed s k false := by
  unfold unjailMsg
  repeat' split
  all_goals first
    | exact Or.inl rfl
    | exact Or.inr ⟨_, rfl⟩

/-- MsgUnjail never touches anything but the flag, whatever its outcome … -/
theorem C07_unjail_msg_keeps_registry (s : St) (op : Nat) (total self min : Int) (t : Bool) :
    (unjailMsg s op total self min t).2.fwd = s.fwd ∧ (unjailMsg s op total self min t).2.fwd2 = s.fwd2 ∧
    (unjailMsg s op total self min t).2.rev = s.rev ∧ (unjailMsg s op total self min t).2.hasInfo = s.hasInfo ∧
    (unjailMsg s op total self min t).2.optedIn = s.optedIn ∧ (unjailMsg s op total self min t).2.vs = s.vs := by
  rcases unjailMsg_state s op total self min t with h | ⟨k, h⟩
  · rw [h]; exact ⟨rfl, rfl, rfl, rfl, rfl, rfl⟩
  · rw [h]
    have h := C07_jail_keeps_registry s k false
    exact ⟨h.1, h.2.1, h.2.2.1, h.2.2.2.2.2.1, h.2.2.2.2.2.2.1, h.2.2.2.2.2.2.2.2.2⟩

/-- … and keeps the registry invariant. -/
theorem C07_inv_unjail_msg (s : St) (op : Nat) (total self min : Int) (t : Bool) (h : Inv s) :
    Inv (unjailMsg s op total self min t).2 := by
  rcases unjailMsg_state s op total self min t with e | ⟨k, e⟩
  · rw [e]; exact h
  · rw [e]; exact inv_setJailed s k false h

/-- **When MsgUnjail succeeds.** For a registered operator with a key, in any state satisfying the
registry invariant: the message is accepted iff the operator has value (whole-number total USD
value ≥ 1), its self value meets the AVS minimum, it *is* jailed, and its jail period is over
(not tombstoned). A jailed operator that meets the three conditions always gets out. -/
theorem C07_unjail_msg_ok_iff (s : St) (h : Inv s) (op key : Nat) (total self min : Int) (t : Bool)
    (hreg : s.registered op = true) (hf : s.fwd op = some key) :
    (unjailMsg s op total self min t).1 = .ok ↔
      (0 < total ∧ min ≤ self ∧ (s.hasInfo op = true ∧ s.jailed op = true) ∧ t = true) := by
  have hrev := h.back op key hf
  have hv : jailedView s key = (s.hasInfo op && s.jailed op) := C07_jail_view_is_operator_flag s key op hrev
  unfold unjailMsg
  simp only [hreg, hf, hrev, Bool.not_true, Bool.false_eq_true, if_false, if_true, hv]
  by_cases h1 : total < 0
  · simp [h1]; omega
  · by_cases h2 : total = 0
    · simp [h2]
    · by_cases h3 : self < min
      · simp [h1, h2, h3]; omega
      · cases hi : s.hasInfo op <;> cases hj : s.jailed op <;> cases t <;> simp [h1, h2, h3] <;> omega

/-- An accepted MsgUnjail clears the operator's flag (and nothing else, `C07_unjail_msg_keeps_registry`):
every address of the operator reports "not jailed" afterwards. -/
theorem C07_unjail_msg_effect (s : St) (h : Inv s) (op key k' : Nat) (total self min : Int) (t : Bool)
    (hreg : s.registered op = true) (hf : s.fwd op = some key)
    (hok : (unjailMsg s op total self min t).1 = .ok) (hk' : s.rev k' = some op) :
    (unjailMsg s op total self min t).2.jailed op = false ∧
    jailedView (unjailMsg s op total self min t).2 k' = false := by
  have hrev := h.back op key hf
  have hcond := (C07_unjail_msg_ok_iff s h op key total self min t hreg hf).1 hok
  have hst : (unjailMsg s op total self min t).2 = setJailed s key false := by
    have hv : jailedView s key = true := by
      rw [C07_jail_view_is_operator_flag s key op hrev]; simp [hcond.2.2.1.1, hcond.2.2.1.2]
    have h1 : ¬ total < 0 := by omega
    have h2 : ¬ total = 0 := by omega
    have h3 : ¬ self < min := by omega
    unfold unjailMsg
    simp [hreg, hf, hrev, hv, h1, h2, h3, hcond.2.2.2]
  rw [hst]
  have hflag : (setJailed s key false).jailed op = false := by
    rw [setJailed_flag]; simp [hrev, hcond.2.2.1.1]
  refine ⟨hflag, ?_⟩
  have := C07_jail_seen_through_every_address s key k' op false hrev hk' hcond.2.2.1.1
  exact this

/-- An operator that is not jailed is refused with ErrValidatorNotJailed and nothing changes
(value and self-delegation checks passed). -/
theorem C07_unjail_msg_not_jailed (s : St) (h : Inv s) (op key : Nat) (total self min : Int) (t : Bool)
    (hreg : s.registered op = true) (hf : s.fwd op = some key) (ht : 0 < total) (hs : min ≤ self)
    (hj : s.jailed op = false) :
    unjailMsg s op total self min t = (.errNotJailed, s) := by
  have hrev := h.back op key hf
  have hv : jailedView s key = false := by
    rw [C07_jail_view_is_operator_flag s key op hrev]; simp [hj]
  have h1 : ¬ total < 0 := by omega
  have h2 : ¬ total = 0 := by omega
  have h3 : ¬ self < min := by omega
  unfold unjailMsg
  simp [hreg, hf, hrev, hv, h1, h2, h3]

/-! ## non-vacuity: jail by the old address of a replaced key, seen through the new one; unjail -/

private def pwJ : Nat → Int := fun _ => 100
private def histJ : List Op :=
  [.register 0, .register 1, .optIn 0 1 true, .optIn 1 2 true, .epochEnd 1, .endBlock pwJ 5,
   .setKey 0 3,            -- key 1 replaced by key 3: key 1 stays resolvable for the unbonding period
   .jail 1 true]           -- evidence against the old address

example : let s := run (St.init 2 6 1 2) histJ
    Inv s ∧ jailedView s 1 = true ∧ jailedView s 3 = true ∧ jailedView s 2 = false ∧
    (unjailMsg s 0 100 100 1 true).1 = .ok ∧
    jailedView (unjailMsg s 0 100 100 1 true).2 3 = false ∧
    (unjailMsg s 1 100 100 1 true).1 = .errNotJailed ∧
    (unjailMsg s 0 100 0 1 true).1 = .errSelfTooLow ∧
    (unjailMsg s 0 100 100 1 false).1 = .errJailed := by
  refine ⟨C07_inv_reachable _ histJ (C07_inv_init 2 6 1 2), ?_⟩
  decide

end ExoVerif.ConsKeys
