import ExoVerif.Generated.Facts
/-! # C03 tie: constants and key shapes the undelegation model relies on, re-read from the Go source -/
namespace ExoVerif.Ledger
open ExoVerif.Gen

/-- completion height = start height + UnbondingExpiration (the harness passes the constant to the model) -/
theorem C03_tie_unbonding : unbondingIsStartPlusConst = true ∧ 0 < unbondingExpiration := by decide

/-- GetPendingUndelegationRecKeys iterates the prefix hex(height) ++ "/" — so that "due at height h"
means completion height = h, which is what `pendingRecords` of the model implements
(without the separator, 0x10 would also match 0x100…: the repaired defect F-03b) -/
theorem C03_tie_pending_prefix : pendingPrefixHasSeparator = true := by decide

/-- SetUndelegationRecords refuses a record only when its completion height is strictly below the
current height — the model's `setRecord` (`if r.completeBlock < s.height then error`); a record due in
the current block (a held record re-queued for the first block after a genesis import) is stored -/
theorem C03_tie_set_records_guard : setRecordsRejectsPastOnly = true := by decide

end ExoVerif.Ledger
