import ExoVerif.Proofs.EpochsOrder
/-!
# C15 — "… to subscribers in the fixed order distribution, operator, dogfood, mint, AVS"

`C15_subscriber_order` (Props/C15) states the fan-out order of the model. This file states what
that order *means* for the two coin-moving subscribers (model: `Model/EpochsOrder.lean`), i.e. the
consequence that is observed on the running application by the harness domain `epochsorder`
(monitor `C15.subscriber-order`, replayed by `Driver/EpochsOrder.lean`):

* with distribution before mint, the amount swept to the distribution account at the end of
  epoch n is what the fee collector held before the block — the fees of epoch n plus the reward
  minted at the end of epoch n−1 — and never the reward of n, which stays in the fee collector;
* with mint before distribution (whatever else is in between) the reward of n is swept at end(n)
  and the fee collector is empty after the block; the two outcomes differ iff the reward is not 0.

Everything is stated for all balances, rewards, identifiers, epoch numbers, fee sequences and all
subscriber lists of the given shape.
-/
namespace ExoVerif.Epochs

/-- the subscriber names of the property text, in the order of the model -/
theorem C15_subscriber_names :
    hookOrder.map subName = ["distribution", "operator", "dogfood", "mint", "avs"] := by decide

/-- `fanOut` of Model/Epochs is the MultiEpochHooks fan-out over app.go's list -/
theorem C15_fanOut_is_fanOutWith (evs : List Ev) : fanOut evs = fanOutWith hookOrder evs := rfl

/-- every subscriber sees every notification exactly once, whatever the list: the deliveries of
one notification are the list itself -/
theorem C15_fanOut_each_once (order : List Sub) (ev : Ev) (rest : List Ev) :
    fanOutWith order (ev :: rest) = order.map (fun s => (s, ev)) ++ fanOutWith order rest := by
  simp [fanOutWith]

/-- a block's deliveries are the notifications' deliveries one after the other: state and
movements of `runOrder` (fold over the fan-out) = those of `notifyAll` (per notification) -/
theorem C15_runOrder_eq_notifyAll (cfg : OrderCfg) (order : List Sub) (p : Pots) (evs : List Ev) :
    runOrder cfg order p evs =
      ((notifyAll cfg order p evs).1, ((notifyAll cfg order p evs).2.map (·.2)).flatten) := by
  induction evs generalizing p with
  | nil => simp [runOrder, fanOutWith, notifyAll]
  | cons ev rest ih =>
    have h := ih (notify cfg order p ev).1
    simp only [runOrder] at h ⊢
    rw [C15_fanOut_each_once, List.foldl_append]
    have hn : (order.map (fun s => (s, ev))).foldl (deliver cfg) (p, []) = notify cfg order p ev := rfl
    rw [hn]
    have hsplit : notify cfg order p ev = ((notify cfg order p ev).1, (notify cfg order p ev).2) := rfl
    rw [hsplit, foldl_trace, h]
    simp [notifyAll]

/-- start notifications move nothing, whatever the subscriber list -/
theorem C15_start_moves_nothing (cfg : OrderCfg) (order : List Sub) (p : Pots) (id : String) (n : Int) :
    notify cfg order p (Ev.epochStart id n) = (p, []) := by
  simp [notify, foldl_start]

/-- **distribution before mint** (any list in which distribution precedes mint and the rest are the
subscribers that move no coins): at the end of an epoch of an identifier both listen to, exactly
the balance the fee collector had BEFORE the notification is swept, and the reward minted now
stays in the fee collector. -/
theorem C15_distribution_before_mint (cfg : OrderCfg) (a b c : List Sub) (p : Pots)
    (id : String) (n : Int) (hd : cfg.distrId = id) (hm : cfg.mintId = id) (hr : cfg.reward ≠ 0)
    (ha : ∀ s ∈ a, Quiet s) (hb : ∀ s ∈ b, Quiet s) (hc : ∀ s ∈ c, Quiet s) :
    notify cfg (a ++ .distribution :: (b ++ .mint :: c)) p (Ev.epochEnd id n) =
      ({ feeCollector := cfg.reward, distr := p.distr + p.feeCollector },
       [.sweep p.feeCollector, .mint cfg.reward]) := by
  simp only [notify, List.map_append, List.map_cons, List.foldl_append, List.foldl_cons]
  rw [foldl_quiet cfg _ a ha]
  have h1 : deliver cfg (p, []) (Sub.distribution, Ev.epochEnd id n)
      = ({ feeCollector := 0, distr := p.distr + p.feeCollector }, [.sweep p.feeCollector]) := by
    simp [deliver, hd]
  rw [h1, foldl_quiet cfg _ b hb]
  have h2 : deliver cfg ({ feeCollector := 0, distr := p.distr + p.feeCollector }, [Move.sweep p.feeCollector])
        (Sub.mint, Ev.epochEnd id n)
      = ({ feeCollector := cfg.reward, distr := p.distr + p.feeCollector },
         [.sweep p.feeCollector, .mint cfg.reward]) := by
    simp [deliver, hm, hr]
  rw [h2, foldl_quiet cfg _ c hc]

/-- **mint before distribution**: the reward of the ending epoch is swept in the same block and
the fee collector is left empty. -/
theorem C15_mint_before_distribution (cfg : OrderCfg) (a b c : List Sub) (p : Pots)
    (id : String) (n : Int) (hd : cfg.distrId = id) (hm : cfg.mintId = id) (hr : cfg.reward ≠ 0)
    (ha : ∀ s ∈ a, Quiet s) (hb : ∀ s ∈ b, Quiet s) (hc : ∀ s ∈ c, Quiet s) :
    notify cfg (a ++ .mint :: (b ++ .distribution :: c)) p (Ev.epochEnd id n) =
      ({ feeCollector := 0, distr := p.distr + (p.feeCollector + cfg.reward) },
       [.mint cfg.reward, .sweep (p.feeCollector + cfg.reward)]) := by
  simp only [notify, List.map_append, List.map_cons, List.foldl_append, List.foldl_cons]
  rw [foldl_quiet cfg _ a ha]
  have h1 : deliver cfg (p, []) (Sub.mint, Ev.epochEnd id n)
      = ({ p with feeCollector := p.feeCollector + cfg.reward }, [.mint cfg.reward]) := by
    simp [deliver, hm, hr]
  rw [h1, foldl_quiet cfg _ b hb]
  have h2 : deliver cfg ({ p with feeCollector := p.feeCollector + cfg.reward }, [Move.mint cfg.reward])
        (Sub.distribution, Ev.epochEnd id n)
      = ({ feeCollector := 0, distr := p.distr + (p.feeCollector + cfg.reward) },
         [.mint cfg.reward, .sweep (p.feeCollector + cfg.reward)]) := by
    simp [deliver, hd]
  rw [h2, foldl_quiet cfg _ c hc]

/-- the order of app.go is of the first shape … -/
theorem C15_hookOrder_end (cfg : OrderCfg) (p : Pots) (id : String) (n : Int)
    (hd : cfg.distrId = id) (hm : cfg.mintId = id) (hr : cfg.reward ≠ 0) :
    notify cfg hookOrder p (Ev.epochEnd id n) =
      ({ feeCollector := cfg.reward, distr := p.distr + p.feeCollector },
       [.sweep p.feeCollector, .mint cfg.reward]) := by
  have := C15_distribution_before_mint cfg [] [.operator, .dogfood] [.avs] p id n hd hm hr
    (by simp) (by simp [Quiet]) (by simp [Quiet])
  simpa [hookOrder] using this

/-- … and the order installed by the seeded change C15-f (mint first) of the second. -/
theorem C15_mintFirst_end (cfg : OrderCfg) (p : Pots) (id : String) (n : Int)
    (hd : cfg.distrId = id) (hm : cfg.mintId = id) (hr : cfg.reward ≠ 0) :
    notify cfg mintFirstOrder p (Ev.epochEnd id n) =
      ({ feeCollector := 0, distr := p.distr + (p.feeCollector + cfg.reward) },
       [.mint cfg.reward, .sweep (p.feeCollector + cfg.reward)]) := by
  have := C15_mint_before_distribution cfg [] [] [.operator, .dogfood, .avs] p id n hd hm hr
    (by simp) (by simp) (by simp [Quiet])
  simpa [mintFirstOrder] using this

/-- **the order matters**: for every state and every non-zero reward the two orders leave
different balances (so the order is observable from the balances after ONE epoch-end block). -/
theorem C15_order_matters (cfg : OrderCfg) (p : Pots) (id : String) (n : Int)
    (hd : cfg.distrId = id) (hm : cfg.mintId = id) (hr : cfg.reward ≠ 0) :
    (notify cfg hookOrder p (Ev.epochEnd id n)).1 ≠ (notify cfg mintFirstOrder p (Ev.epochEnd id n)).1 := by
  rw [C15_hookOrder_end cfg p id n hd hm hr, C15_mintFirst_end cfg p id n hd hm hr]
  intro h
  have := congrArg Pots.feeCollector h
  exact hr this

/-- with a zero reward the mint subscriber does nothing (the Go hook returns early), so the two
orders cannot be told apart: the observation needs `reward ≠ 0`. -/
theorem C15_order_unobservable_without_reward (cfg : OrderCfg) (p : Pots) (id : String) (n : Int)
    (hr : cfg.reward = 0) :
    notify cfg hookOrder p (Ev.epochEnd id n) = notify cfg mintFirstOrder p (Ev.epochEnd id n) := by
  by_cases hd : id = cfg.distrId <;> simp [notify, hookOrder, mintFirstOrder, deliver, hd, hr]

/-- **History statement.** Over any number of consecutive epochs of an identifier both modules
listen to, with fees `f₁, f₂, …` collected during them: the amount swept at the end of the first
epoch is the initial balance plus f₁, and at the end of every later epoch k it is
`reward + f_k` — the reward minted at the END OF THE PREVIOUS epoch plus this epoch's fees, never
the reward minted at end(k). -/
theorem C15_swept_is_previous_reward_plus_fees (cfg : OrderCfg) (id : String)
    (hd : cfg.distrId = id) (hm : cfg.mintId = id) (hr : cfg.reward ≠ 0)
    (p : Pots) (n : Int) (fee : Int) (fees : List Int) :
    (runEpochs cfg hookOrder id p n (fee :: fees)).2
      = (p.feeCollector + fee) :: fees.map (fun f => cfg.reward + f) ∧
    (runEpochs cfg hookOrder id p n (fee :: fees)).1.feeCollector = cfg.reward := by
  induction fees generalizing p n fee with
  | nil =>
    simp [runEpochs, C15_hookOrder_end cfg _ id n hd hm hr, sweeps]
  | cons g rest ih =>
    have h := ih { feeCollector := cfg.reward, distr := p.distr + (p.feeCollector + fee) } (n + 1) g
    simp only [runEpochs, C15_hookOrder_end cfg _ id n hd hm hr] at h ⊢
    obtain ⟨h1, h2⟩ := h
    refine ⟨?_, h2⟩
    rw [h1]
    simp [sweeps]

/-- the counterfactual history: with mint first every sweep contains the reward of its own epoch
and the fee collector is empty after every epoch end. -/
theorem C15_swept_mintFirst (cfg : OrderCfg) (id : String)
    (hd : cfg.distrId = id) (hm : cfg.mintId = id) (hr : cfg.reward ≠ 0)
    (p : Pots) (n : Int) (fee : Int) (fees : List Int) :
    (runEpochs cfg mintFirstOrder id p n (fee :: fees)).2
      = (p.feeCollector + fee + cfg.reward) :: fees.map (fun f => f + cfg.reward) ∧
    (runEpochs cfg mintFirstOrder id p n (fee :: fees)).1.feeCollector = 0 := by
  induction fees generalizing p n fee with
  | nil =>
    simp [runEpochs, C15_mintFirst_end cfg _ id n hd hm hr, sweeps]
  | cons g rest ih =>
    have h := ih { feeCollector := 0, distr := p.distr + (p.feeCollector + fee + cfg.reward) } (n + 1) g
    simp only [runEpochs, C15_mintFirst_end cfg _ id n hd hm hr] at h ⊢
    obtain ⟨h1, h2⟩ := h
    refine ⟨?_, h2⟩
    rw [h1]
    simp [sweeps]

/-- nothing is created or lost by the order: either way `fee collector + distribution account`
grows by exactly the reward at a shared epoch end (the order only decides WHERE the reward is). -/
theorem C15_order_conserves (cfg : OrderCfg) (p : Pots) (id : String) (n : Int)
    (hd : cfg.distrId = id) (hm : cfg.mintId = id) (hr : cfg.reward ≠ 0) :
    let q := (notify cfg hookOrder p (Ev.epochEnd id n)).1
    let q' := (notify cfg mintFirstOrder p (Ev.epochEnd id n)).1
    q.feeCollector + q.distr = p.feeCollector + p.distr + cfg.reward ∧
    q'.feeCollector + q'.distr = p.feeCollector + p.distr + cfg.reward := by
  rw [C15_hookOrder_end cfg p id n hd hm hr, C15_mintFirst_end cfg p id n hd hm hr]
  constructor <;> simp <;> omega

/-! ## non-vacuity: the demonstration of seeded/C15-f (reward 20, three epochs, no other fees) -/

private def demoCfg : OrderCfg := { distrId := "minute", mintId := "minute", reward := 20 }

-- unchanged order: after end(1), end(2), end(3) the fee collector holds 20 and the distribution
-- account (n−1)·20; swept amounts 0, 20, 20
example : (runEpochs demoCfg hookOrder "minute" ⟨0, 0⟩ 1 [0, 0, 0]) = (⟨20, 40⟩, [0, 20, 20]) := by decide
-- mint first: fee collector 0, distribution account n·20; swept 20, 20, 20
example : (runEpochs demoCfg mintFirstOrder "minute" ⟨0, 0⟩ 1 [0, 0, 0]) = (⟨0, 60⟩, [20, 20, 20]) := by decide
-- identifiers that differ: store order decides (the "day" end is notified before the "minute" end)
example : (runOrder { distrId := "minute", mintId := "day", reward := 7 } hookOrder ⟨5, 0⟩
    [Ev.epochEnd "day" 1, Ev.epochStart "day" 2, Ev.epochEnd "minute" 9, Ev.epochStart "minute" 10])
    = (⟨0, 12⟩, [.mint 7, .sweep 12]) := by decide

end ExoVerif.Epochs
