import ExoVerif.Proofs.Avs
/-!
# C20 — AVS registry and task windows are enforced

Property theorems only (helper lemmas and invariants live in `Proofs/Avs.lean`). Everything is
stated for the executable model `ExoVerif.Avs.step` / `run` of the x/avs keeper surface
(`Model/Avs.lean`), which is tied to the Go code by the regenerated guard skeletons and window
predicates (`Props/C20Tie.lean`) and by the correspondence run of `./check C20` (every keeper call
and every BeginBlock of seeded histories on the real application reproduced line by line).

Histories are arbitrary lists of operations (`run init ops`): any interleaving of AVS
register / update / deregister, opt-in / opt-out, task creation, phase-one / phase-two submissions,
challenges, epoch ends and arbitrary changes of the epoch numbers, with arbitrary payloads.

Four clauses did NOT hold for the code as first examined and were repaired in the repository
(fix: commits for F-11b, F-20a, F-20b, F-20c); the model follows the repaired code, the former
`def …_full : Prop` are now theorems, and for each finding the pre-fix shape is kept as a
machine-checked regression counter-example (`C20_regress_…`) that the harness's directed scenarios
replay on the real application (same `sig`s: a re-introduction is a VIOLATION):
  * F-11b `C20_no_halt_full`          — an empty-but-present phase-one signature halted the chain;
  * F-20a `C20_optin_min_full`        — `int64(MinSelfDelegation)` wrapped for minima ≥ 2^63;
  * F-20b `C20_challenge_full`        — a challenge with a wrong task hash "succeeded" at any time;
  * F-20c `C20_stats_nonsigners_full` — `Difference` is symmetric: an outsider that signed was also a non-signer.
-/
namespace ExoVerif.Avs
open ExoVerif

/-! ## registry: an AVS address / a task-contract address is registered to at most one AVS -/

/-- After every history, two AVS records with the same address are the same record, and the record
stored under an address carries that address. -/
theorem C20_avs_addr_unique (ops : List Op) (hw : ∀ o ∈ ops, o.wf) :
    let s := run init ops
    (∀ p ∈ s.avss, ∀ q ∈ s.avss, p.1 = q.1 → p = q) ∧ (∀ p ∈ s.avss, p.2.addr = p.1) := by
  have hi := regInv_run ops init regInv_init hw
  refine ⟨?_, fun p hp => (hi.2.1 p hp).1⟩
  intro p hp q hq he
  have h1 := KV.find?_of_memA _ p hi.1 hp
  have h2 := KV.find?_of_memA _ q hi.1 hq
  rw [he, h2] at h1
  exact Prod.ext he (Option.some.inj h1).symm

/-- After every history (register, update — including a change of the task address — and
deregister in any order), a non-empty task-contract address is used by at most one AVS. -/
theorem C20_task_addr_unique (ops : List Op) (hw : ∀ o ∈ ops, o.wf) :
    let s := run init ops
    ∀ p ∈ s.avss, ∀ q ∈ s.avss, p.2.taskAddr = q.2.taskAddr → p.2.taskAddr ≠ "" → p = q := by
  intro s p hp q hq he hne
  have hi := regInv_run ops init regInv_init hw
  have hk := hi.2.2 p hp q hq he hne
  exact (C20_avs_addr_unique ops hw).1 p hp q hq hk

/-- Consequently the result of `GetAVSInfoByTaskAddress` (first match in store order) does not
depend on the iteration order: it is *the* AVS that uses the task address. -/
theorem C20_task_lookup_order_irrelevant (ops : List Op) (hw : ∀ o ∈ ops, o.wf) (t : Addr) (ht : t ≠ "") :
    let s := run init ops
    ∀ p ∈ s.avss, p.2.taskAddr = t → avsByTaskAddr s t = some p.2 := by
  intro s p hp he
  have hi := regInv_run ops init regInv_init hw
  cases hb : avsByTaskAddr s t with
  | none => exact absurd he (avsByTaskAddr_none s t ht hb p hp)
  | some a =>
    obtain ⟨_, ha, k, hk⟩ := avsByTaskAddr_some s t a hb
    have := C20_task_addr_unique ops hw p hp (k, a) hk (by simp [he, ha]) (by simp [he, ht])
    rw [this]

/-! ## opt-in -/

/-- An opt-in (through the AVS keeper's OperatorOptAction or OperatorKeeper.OptIn directly) is
accepted only from a registered operator, only for a registered AVS, only if the operator is not
opted in already, and only if its self-delegated USD value is at least the AVS's configured
minimum (`MinSelfDelegation` USD, compared as 18-decimal integers). -/
theorem C20_optin_requires (s s' : State) (d : Bool) (op : String) (avs : Addr) (u : Option Int)
    (h : step s (.opt d 1 op avs u) = (s', "ok")) :
    op ∈ s.operators ∧ ∃ a usd, KV.find? s.avss avs = some a ∧ u = some usd ∧
      (a.minSelf : Int) * PREC ≤ usd ∧ isOptedIn s op avs = false ∧ isOptedIn s' op avs = true := by
  unfold step at h
  by_cases hh : s.halted = true
  · simp [hh] at h
  · simp only [hh, Bool.false_eq_true, if_false] at h
    rcases optAction_optin_spec s d op avs u with ⟨_, h2⟩ | ⟨h1, a, usd, h2, h3, h4, h5, h6⟩
    · rw [h] at h2; exact absurd rfl h2
    · refine ⟨h1, a, usd, h2, h3, h5, h4, ?_⟩
      rw [h6] at h
      have : s' = { s with opted := KV.set s.opted (op, avs) true } := (Prod.mk.inj h).1.symm
      subst this
      simp [isOptedIn, KV.find?_set_same]

/-- full clause (holds since the repair of F-20a): the self-delegated value meets the AVS's
configured minimum, for every uint64 minimum -/
theorem C20_optin_min_full (s s' : State) (d : Bool) (op : String) (avs : Addr) (u : Option Int)
    (h : step s (.opt d 1 op avs u) = (s', "ok")) :
    ∃ a usd, KV.find? s.avss avs = some a ∧ u = some usd ∧ (a.minSelf : Int) * PREC ≤ usd := by
  obtain ⟨_, a, usd, h1, h2, h3, _, _⟩ := C20_optin_requires s s' d op avs u h
  exact ⟨a, usd, h1, h2, h3⟩

/-- The minimum clause on the exact values: an accepted opt-in means that the operator's self-delegated
USD value, as the 18-decimal LegacyDec it is, is not below the AVS's minimum as a LegacyDec
(`SelfUSDValue.LT(min)` is false, `SelfUSDValue.GTE(min)` is true) — no rounding of either side: a
value of m − 10^-18 is refused. -/
theorem C20_optin_exact_min (s s' : State) (d : Bool) (op : String) (avs : Addr) (u : Option Int)
    (h : step s (.opt d 1 op avs u) = (s', "ok")) :
    ∃ a usd, KV.find? s.avss avs = some a ∧ u = some usd ∧
      selfDelegationTooLow ⟨usd⟩ (minSelfDec a.minSelf) = false ∧
      Dec.gte ⟨usd⟩ (minSelfDec a.minSelf) = true ∧ ¬ usd ≤ (a.minSelf : Int) * PREC - 1 := by
  obtain ⟨a, usd, h1, h2, h3⟩ := C20_optin_min_full s s' d op avs u h
  refine ⟨a, usd, h1, h2, ?_, ?_, by omega⟩
  · cases hb : selfDelegationTooLow ⟨usd⟩ (minSelfDec a.minSelf) with
    | false => rfl
    | true => exact absurd ((selfDelegationTooLow_min usd a.minSelf).1 hb) (by omega)
  · unfold Dec.gte minSelfDec Dec.ofInt
    exact decide_eq_true h3

/-- The guard is the exact order of the raw 18-decimal integers, for all values. -/
theorem C20_optin_guard_is_exact_order (self min : Dec) :
    selfDelegationTooLow self min = true ↔ self.raw < min.raw := selfDelegationTooLow_iff self min

/-- Converse of the clause: a registered operator that is not opted in to a registered AVS and whose
self-delegated value is at least the minimum IS opted in (by either entry point). -/
theorem C20_optin_accepts_eligible (s : State) (d : Bool) (op : String) (avs : Addr) (a : AVS) (usd : Int)
    (hh : s.halted = false) (h1 : op ∈ s.operators) (h2 : KV.find? s.avss avs = some a)
    (h3 : isOptedIn s op avs = false) (h4 : (a.minSelf : Int) * PREC ≤ usd) :
    step s (.opt d 1 op avs (some usd)) = ({ s with opted := KV.set s.opted (op, avs) true }, "ok") := by
  have c4 : selfDelegationTooLow ⟨usd⟩ (minSelfDec a.minSelf) = false := by
    cases hb : selfDelegationTooLow ⟨usd⟩ (minSelfDec a.minSelf) with
    | false => rfl
    | true => exact absurd ((selfDelegationTooLow_min usd a.minSelf).1 hb) (by omega)
  have hhas : KV.has s.avss avs = true := by simp [KV.has, h2]
  cases d <;> simp [step, hh, optAction, optInCore, h1, h2, h3, c4, hhas]

/-- regression shape (rounded comparison): comparing `RoundInt` of both sides instead of the values
accepts a self-delegated value of 2.6 USD against a minimum of 3 USD — the model's guard refuses it. -/
theorem C20_regress_rounded_min_compare :
    let self : Dec := ⟨2600000000000000000⟩
    decide (Dec.roundInt self < Dec.roundInt (minSelfDec 3)) = false ∧
    selfDelegationTooLow self (minSelfDec 3) = true := by decide

/-- pre-fix shape of GetAVSMinimumSelfDelegation: `LegacyNewDec(int64(min))` -/
def minSelfRawPre (n : Nat) : Int := toI64 n * PREC

/-- F-20a regression counter-example: with the pre-fix conversion a minimum of 2^63 USD compared as
a negative number, so a self-delegated value of 0 passed `!SelfUSDValue.LT(min)`; the exact value
does not. -/
theorem C20_regress_F20a_int64_wrap :
    minSelfRawPre (2 ^ 63) ≤ 0 ∧ ¬ ((2 ^ 63 : Nat) : Int) * PREC ≤ 0 ∧
    ∀ n : Nat, n < 2 ^ 63 → minSelfRawPre n = (n : Int) * PREC := by
  refine ⟨by decide, by decide, ?_⟩
  intro n hn
  unfold minSelfRawPre toI64
  have h64 : n % 2 ^ 64 = n := Nat.mod_eq_of_lt (by omega)
  rw [h64]; simp [hn]

/-! ## task identifiers -/

/-- After every history, for every task contract the identifiers handed out by the accepted
CreateAVSTask calls are, in order, exactly 1, 2, 3, …, n (strictly increasing from 1, no gap,
no repeat — whatever happened to the AVS in between, deregistration and re-registration included). -/
theorem C20_task_ids_strictly_increasing_from_1 (ops : List Op) (a : Addr) :
    let s := run init ops
    (s.created.filter (fun p => p.1 == a)).map (·.2) = List.range' 1 (counter s a) :=
  taskInv_run ops init taskInv_init a

/-- one step: an accepted creation needs a registered AVS for the task address and an owner as
caller, gets the next identifier, starts in the next epoch, and records the opted-in operators. -/
theorem C20_task_create_requires (s s' : State) (p : TaskParams) (h : step s (.task p) = (s', "ok")) :
    ∃ a cur t, avsByTaskAddr s p.taskAddr = some a ∧ p.caller ∈ a.owners ∧ curEpoch s a.epochId = some cur ∧
      KV.find? s'.tasks (p.taskAddr, counter s p.taskAddr + 1) = some t ∧ t.id = counter s p.taskAddr + 1 ∧
      t.startingEpoch = cur + 1 ∧ t.optIn = optedOps s a.addr ∧ counter s' p.taskAddr = counter s p.taskAddr + 1 := by
  unfold step at h
  by_cases hh : s.halted = true
  · simp [hh] at h
  · simp only [hh, Bool.false_eq_true, if_false] at h
    rcases createTask_spec s p with ⟨_, h2⟩ | ⟨a, cur, t, h1, _, h3, _, h5, h6, _, h8, h9, _, _, _, h13⟩
    · rw [h] at h2; exact absurd rfl h2
    · rw [h13] at h
      have hs : s' = afterCreate s p t := (Prod.mk.inj h).1.symm
      subst hs
      have hn := nextTaskId_eq s p.taskAddr
      refine ⟨a, cur, t, h1, h3, h5, ?_, by rw [h6, hn], h8, h9, ?_⟩
      · simp only [afterCreate]; rw [← hn]; exact KV.find?_set_same _ _ _
      · simp only [afterCreate, counter, KV.find?_set_same, Option.getD_some]; exact hn

/-! ## task results -/

/-- A task result (either phase) is accepted only when the sender is the operator it names, that
operator is registered, has a registered BLS key, and the task exists. -/
theorem C20_submit_requires_operator_and_key (s s' : State) (i : Submit) (h : step s (.submit i) = (s', "ok")) :
    i.fromAddr = i.op ∧ i.op ∈ s.operators ∧ (∃ pk, KV.find? s.pubkeys i.op = some pk ∧ pk ≠ "") ∧
    (∃ task, KV.find? s.tasks (i.taskAddr, i.id) = some task) ∧ (i.stage = "1" ∨ i.stage = "2") := by
  unfold step at h
  by_cases hh : s.halted = true
  · simp [hh] at h
  · simp only [hh, Bool.false_eq_true, if_false] at h
    rcases submit_spec s i with ⟨_, h2⟩ | ⟨h1, h2, h3, task, cur, h4, _, h6⟩
    · rw [h] at h2; exact absurd rfl h2
    · exact ⟨h1, h2, h3, ⟨task, h4⟩, h6.elim (fun x => Or.inl x.1) (fun x => Or.inr x.1)⟩

/-- Phase one is accepted only until the response period ends (current epoch ≤ starting epoch +
response period, boundary included), only with a non-empty signature and without a response, and only if no
result of that operator for that task is stored yet. -/
theorem C20_phase1_window_once (s s' : State) (i : Submit) (hs : i.stage = "1")
    (h : step s (.submit i) = (s', "ok")) :
    ∃ task cur, KV.find? s.tasks (i.taskAddr, i.id) = some task ∧ epochOfTaskAddr s i.taskAddr = some cur ∧
      cur ≤ task.startingEpoch + task.resp ∧ KV.has s.results (i.op, i.taskAddr, i.id) = false ∧
      (norm i.sig).isSome = true ∧ i.response = none ∧ i.respHash = "" ∧ s' = afterOne s i := by
  unfold step at h
  by_cases hh : s.halted = true
  · simp [hh] at h
  · simp only [hh, Bool.false_eq_true, if_false] at h
    rcases submit_spec s i with ⟨_, h2⟩ | ⟨_, _, _, task, cur, h4, h5, h6⟩
    · rw [h] at h2; exact absurd rfl h2
    · rcases h6 with ⟨_, h6⟩ | ⟨h6, _⟩
      · rcases submitOne_spec s i task cur with ⟨_, h7⟩ | ⟨g1, g2, g3, g4, g5, g6⟩
        · rw [← h6, h] at h7; exact absurd rfl h7
        · rw [h6, g6] at h
          refine ⟨task, cur, h4, h5, ?_, g1, g2, g4, g3, (Prod.mk.inj h).1.symm⟩
          simp only [phase1TooLate, decide_eq_false_iff_not] at g5; omega
      · rw [hs] at h6; exact absurd h6 (by decide)

/-- "only once", over whole histories: the log of accepted phase-one submissions never contains the
same (operator, task contract, task id) twice. -/
theorem C20_phase1_once_history (ops : List Op) : ((run init ops).accepted1.map (·.1)).Nodup :=
  (resInv_run ops init resInv_init).2.2.1

/-- Phase two is accepted only during the statistical period (starting epoch + response period <
current epoch ≤ … + statistical period), only with a response, only when a result of that operator
for that task is stored and carries the same signature, only when the response names the same task
id, and only when the BLS signature verifies. -/
theorem C20_phase2_window_sig_id_bls (s s' : State) (i : Submit) (hs : i.stage = "2")
    (h : step s (.submit i) = (s', "ok")) :
    ∃ task cur res, KV.find? s.tasks (i.taskAddr, i.id) = some task ∧ epochOfTaskAddr s i.taskAddr = some cur ∧
      task.startingEpoch + task.resp < cur ∧ cur ≤ task.startingEpoch + task.resp + task.stat ∧
      KV.find? s.results (i.op, i.taskAddr, i.id) = some res ∧ res.sig = norm i.sig ∧
      i.response.isSome = true ∧ i.respTaskId = some i.id ∧ i.blsOk = true ∧ s' = afterTwo s i := by
  unfold step at h
  by_cases hh : s.halted = true
  · simp [hh] at h
  · simp only [hh, Bool.false_eq_true, if_false] at h
    rcases submit_spec s i with ⟨_, h2⟩ | ⟨_, _, _, task, cur, h4, h5, h6⟩
    · rw [h] at h2; exact absurd rfl h2
    · rcases h6 with ⟨h6, _⟩ | ⟨_, h6⟩
      · rw [hs] at h6; exact absurd h6 (by decide)
      · rcases submitTwo_spec s i task cur with ⟨_, h7⟩ | ⟨g1, ⟨res, g2, g3⟩, g4, g5, g6, g7, g8⟩
        · rw [← h6, h] at h7; exact absurd rfl h7
        · rw [h6, g8] at h
          refine ⟨task, cur, res, h4, h5, ?_, ?_, g2, g3, g1, g6, g7, (Prod.mk.inj h).1.symm⟩
          · simp only [phase2TooSoon, decide_eq_false_iff_not] at g4; omega
          · simp only [phase2TooLate, decide_eq_false_iff_not] at g5; omega

/-- "only with the phase-one signature", over whole histories: every stored result (whatever its
stage) carries exactly the signature that was accepted in phase one for that operator and task. -/
theorem C20_stored_sig_is_phase1_sig (ops : List Op) :
    let s := run init ops
    ∀ p ∈ s.results, (p.1, p.2.sig) ∈ s.accepted1 :=
  (resInv_run ops init resInv_init).2.2.2.2

/-! ## challenges -/

/-- A challenge is RECORDED only during the challenge period (… + statistical period < current
epoch ≤ … + challenge period), only against a stored phase-two result whose digest matches, and only
if none is recorded yet for that operator and task. -/
theorem C20_challenge_window_once (s s' : State) (c : Challenge) (r : String)
    (h : step s (.challenge c) = (s', r)) (hrec : s'.challenges ≠ s.challenges) :
    r = "ok" ∧ ∃ task cur res resp, KV.find? s.tasks (c.taskAddr, c.id) = some task ∧ task.hash = c.taskHash ∧
      KV.find? s.results (c.op, c.taskAddr, c.id) = some res ∧ res.response = some resp ∧ c.abiHashOk = true ∧
      epochOfTaskAddr s task.taskAddr = some cur ∧
      task.startingEpoch + task.resp + task.stat < cur ∧ cur ≤ task.startingEpoch + task.resp + task.stat + task.chal ∧
      KV.has s.challenges (c.op, c.taskAddr, c.id) = false ∧ s' = afterChallenge s c := by
  unfold step at h
  by_cases hh : s.halted = true
  · simp [hh] at h; rw [h.1] at hrec; exact absurd rfl hrec
  · simp only [hh, Bool.false_eq_true, if_false] at h
    have hs' : s' = (challenge s c).1 := by rw [h]
    rcases challenge_spec s c with ⟨h2, _⟩ | ⟨task, res, resp, g1, g2, g3, g4, g5⟩
    · rw [hs', h2] at hrec; exact absurd rfl hrec
    · rcases challengeCore_spec s c task with ⟨h2, _⟩ | ⟨k1, k2, ⟨cur, k3, k4, k5⟩, k6⟩
      · rw [hs', g5, h2] at hrec; exact absurd rfl hrec
      · rw [g5, k6] at h
        refine ⟨(Prod.mk.inj h).2.symm, task, cur, res, resp, g1, g2, g3, g4, k1, k3, ?_, ?_, k2, (Prod.mk.inj h).1.symm⟩
        · simp only [challengeTooSoon, decide_eq_false_iff_not] at k4; omega
        · simp only [challengeTooLate, decide_eq_false_iff_not] at k5; omega

/-- "once per operator and task", over whole histories -/
theorem C20_challenge_once_history (ops : List Op) : (run init ops).challenged.Nodup :=
  (chInv_run ops init chInv_init).1

/-- full clause in the property's words (holds since the repair of F-20b): a challenge is ACCEPTED
(the keeper returns success, the precompile returns true) only during the challenge period, only
with the task's own hash, only if none was accepted before — and then it is recorded. -/
theorem C20_challenge_full (s s' : State) (c : Challenge) (h : step s (.challenge c) = (s', "ok")) :
    ∃ task cur, KV.find? s.tasks (c.taskAddr, c.id) = some task ∧ task.hash = c.taskHash ∧
      epochOfTaskAddr s task.taskAddr = some cur ∧
      task.startingEpoch + task.resp + task.stat < cur ∧ cur ≤ task.startingEpoch + task.resp + task.stat + task.chal ∧
      KV.has s.challenges (c.op, c.taskAddr, c.id) = false ∧ KV.has s'.challenges (c.op, c.taskAddr, c.id) = true := by
  unfold step at h
  by_cases hh : s.halted = true
  · simp [hh] at h
  · simp only [hh, Bool.false_eq_true, if_false] at h
    rcases challenge_spec s c with ⟨_, h2⟩ | ⟨task, res, resp, g1, g2, g3, g4, g5⟩
    · rw [h] at h2; exact absurd rfl h2
    · rcases challengeCore_spec s c task with ⟨_, h2⟩ | ⟨k1, k2, ⟨cur, k3, k4, k5⟩, k6⟩
      · rw [← g5, h] at h2; exact absurd rfl h2
      · rw [g5, k6] at h
        have hs : s' = afterChallenge s c := (Prod.mk.inj h).1.symm
        refine ⟨task, cur, g1, g2, k3, ?_, ?_, k2, ?_⟩
        · simp only [challengeTooSoon, decide_eq_false_iff_not] at k4; omega
        · simp only [challengeTooLate, decide_eq_false_iff_not] at k5; omega
        · subst hs; simp [afterChallenge, KV.has, KV.find?_set_same]

private def wrapAVS : AVS :=
  { addr := "A", name := "n", taskAddr := "T", owners := [], assets := [], minSelf := 0, unbonding := 0,
    epochId := "minute", startingEpoch := 1 }
private def chTask : Task :=
  { taskAddr := "T", id := 1, name := "t", hash := "aa", resp := 1, stat := 1, chal := 1, startingEpoch := 3,
    optIn := [], signed := [], noSigned := [], powers := [], totalPower := 0, actualThreshold := 0 }
private def chState : State :=
  { epochs := [("minute", 2)], avss := [("A", wrapAVS)], tasks := [(("T", 1), chTask)] }
private def chBad : Challenge :=
  { taskAddr := "T", id := 1, op := "o", taskHash := "WRONG", abiHashOk := false, callerOk := true, caller := "c" }

/-- pre-fix shape of RaiseAndResolveChallenge: the hash-mismatch branch returned
`errorsmod.Wrap(nil, …)`, i.e. nil -/
def challengePre (s : State) (c : Challenge) : State × String :=
  match KV.find? s.tasks (c.taskAddr, c.id) with
  | none => (s, "rej")
  | some task => if task.hash ≠ c.taskHash then (s, "ok") else challenge s c

/-- F-20b regression counter-example: in epoch 2, with the challenge period (5, 6], a challenge
naming a wrong task hash was answered with success by the pre-fix code and recorded nothing; the
repaired code answers ErrHashValue. -/
theorem C20_regress_F20b_wrong_hash :
    challengePre chState chBad = (chState, "ok") ∧ challenge chState chBad = (chState, "ErrHashValue") := by
  decide

/-! ## statistics at the end of the statistical period -/

/-- What the epoch hook writes for a task: the signer list is exactly the (sorted) operators with a
stored result for that task carrying a signature — i.e. exactly the accepted results —, each with
the active power the operator module reports, the task total is the AVS's voting power, and the
non-signers are exactly the task's opted-in operators that are not signers. Everything else of the
task is unchanged. -/
theorem C20_stats_reflect_accepted (s : State) (pw : Powers) (t t' : Task) (h : statTask s pw t = some t') :
    (∀ o, o ∈ t'.signed ↔ ∃ p ∈ s.results, p.2.taskAddr = t.taskAddr ∧ p.2.id = t.id ∧ p.2.sig.isSome = true ∧ p.2.op = o) ∧
    t'.powers = t'.signed.map (fun o => (o, KV.getD pw.active (avsAddrOfTask s t.taskAddr, o) 0)) ∧
    t'.totalPower = KV.getD pw.avsTotal (avsAddrOfTask s t.taskAddr) 0 ∧
    (∀ o, o ∈ t'.noSigned ↔ (o ∈ t.optIn ∧ o ∉ t'.signed)) ∧
    t'.optIn = t.optIn ∧ t'.taskAddr = t.taskAddr ∧ t'.id = t.id := by
  obtain ⟨h1, _, h3, h4, h5, h6, h7, h8, _⟩ := statTask_spec s pw t t' h
  refine ⟨?_, h4, h5, ?_, h6, h7, h8⟩
  · intro o; rw [h1]; exact mem_signersOf s t.taskAddr t.id o
  · intro o; rw [h3]; exact mem_subtract t.optIn t'.signed o

/-- full clause (holds since the repair of F-20c): the non-signers are the opted-in operators that
did not sign — in particular no signer is a non-signer -/
theorem C20_stats_nonsigners_full (s : State) (pw : Powers) (t t' : Task) (h : statTask s pw t = some t') :
    (∀ o, o ∈ t'.noSigned ↔ (o ∈ t.optIn ∧ o ∉ t'.signed)) ∧ (∀ o ∈ t'.signed, o ∉ t'.noSigned) := by
  have h1 := (C20_stats_reflect_accepted s pw t t' h).2.2.2.1
  exact ⟨h1, fun o ho hn => ((h1 o).1 hn).2 ho⟩

/-- F-20c regression counter-example: the pre-fix hook used the symmetric `types.Difference`; an
operator outside the opted-in list that signed was then a non-signer too. `Subtract` is one-sided. -/
theorem C20_regress_F20c_symmetric_difference :
    "out" ∈ difference ["in"] ["in", "out"] ∧ subtract ["in"] ["in", "out"] = [] ∧
    subtract ["a", "b", "c"] ["b"] = ["a", "c"] := by decide

/-- After every history every stored result carries a (non-empty) signature, hence no due task
that has a stored result is skipped by the hook. -/
theorem C20_results_signed (ops : List Op) :
    let s := run init ops
    (∀ p ∈ s.results, p.2.sig.isSome = true) ∧
    (∀ (pw : Powers) (t : Task), hasResults s t = true → (statTask s pw t).isSome = true) := by
  intro s
  have hi : SigInv s := sigInv_run ops init resInv_init (by intro p hp; simp [init] at hp)
  exact ⟨hi, fun pw t hh => statTask_isSome s pw t hi hh⟩

/-- The hook as a whole, after every history: `AfterEpochEnd(id, n)` succeeds, the stored record of
every task whose statistical period ends with epoch `n` of its AVS's identifier (and that has at
least one stored result) is exactly the record described by `C20_stats_reflect_accepted`, computed
from the results stored before the hook; every other task, and every result, is untouched. -/
theorem C20_stats_epoch_end (ops : List Op) (id : String) (n : Int) (pw : Powers) :
    let s := run init ops
    let s' := (epochEnd s id n pw).1
    (epochEnd s id n pw).2 = "ok" ∧
    (∀ kt ∈ dueTasks s id n, ∃ t', statTask s pw kt.2 = some t' ∧ KV.find? s'.tasks kt.1 = some t') ∧
    (∀ k, k ∉ (dueTasks s id n).map (·.1) → KV.find? s'.tasks k = KV.find? s.tasks k) ∧
    s'.results = s.results := by
  intro s s'
  have hnd : KV.NoDup s.tasks := tasksNoDup_run ops init (by simp [TasksNoDup, init, KV.NoDup, KV.keys])
  obtain ⟨h1, _, h2, _, h3⟩ := epochEnd_spec s id n pw hnd
  refine ⟨h1, ?_, h3, (epochEnd_frame s id n pw).2.2.2.1⟩
  intro kt hkt
  have hh : hasResults s kt.2 = true := by
    simp only [dueTasks, List.mem_filter, Bool.and_eq_true] at hkt; exact hkt.2.2
  have hsome := (C20_results_signed ops).2 pw kt.2 hh
  cases hs : statTask s pw kt.2 with
  | none => rw [hs] at hsome; simp at hsome
  | some t' => exact ⟨t', rfl, h2 kt hkt t' hs⟩

/-- a task is due exactly when the ended epoch is the last one of its statistical period, under the
epoch identifier of the AVS that currently owns its task address -/
theorem C20_stats_due_iff (s : State) (id : String) (n : Int) (kt : (Addr × Nat) × Task) :
    kt ∈ dueTasks s id n ↔ kt ∈ s.tasks ∧ hasResults s kt.2 = true ∧
      ∃ a, avsByTaskAddr s kt.2.taskAddr = some a ∧ a.epochId = id ∧ n = kt.2.startingEpoch + kt.2.resp + kt.2.stat := by
  simp only [dueTasks, List.mem_filter, Bool.and_eq_true, statDue]
  constructor
  · rintro ⟨h1, h2, h3⟩
    refine ⟨h1, h3, ?_⟩
    cases ha : avsByTaskAddr s kt.2.taskAddr with
    | none => simp [ha] at h2
    | some a =>
      simp only [ha, Bool.and_eq_true, beq_iff_eq, statEnd] at h2
      exact ⟨a, rfl, h2.1, h2.2⟩
  · rintro ⟨h1, h3, a, ha, h4, h5⟩
    refine ⟨h1, ?_, h3⟩
    simp [ha, h4, h5, statEnd]

/-! ## the epoch hook and chain liveness (F-11b) -/

/-- full clause (holds since the repair of F-11b): no history — whatever it contains, empty-but-
present signatures included — makes BeginBlock panic in the AVS epoch hook. -/
theorem C20_no_halt_full (ops : List Op) : (run init ops).halted = false :=
  no_halt_run ops init rfl

private def haltOps : List Op :=
  [ .setEpochs [("minute", 1)], .setEnv ["o"] ["asset"],
    .update { action := 1, avsAddr := "A", name := "n", taskAddr := "T", owners := some ["own"], assets := some ["asset"],
              unbonding := 7, minSelf := 0, epochId := "minute", caller := "own" },
    .bls "o" "pk" true,
    .task { taskAddr := "T", caller := "own", name := "t", hash := "aa", resp := 1, stat := 1, chal := 1, givenId := 0, powerOk := true },
    .submit { fromAddr := "o", op := "o", taskAddr := "T", id := 1, stage := "1", sig := some "", response := none,
              respHash := "", respTaskId := none, blsOk := false, digest := "" },
    .epochEnd "minute" 4 ⟨[], []⟩ ]

/-- a store that still holds a pre-fix result without signature (it reads back as nil) -/
private def legacyState : State :=
  { epochs := [("minute", 4)], avss := [("A", wrapAVS)], tasks := [(("T", 1), { chTask with startingEpoch := 2 })],
    results := [(("o", "T", 1), { op := "o", taskAddr := "T", id := 1, stage := "1", sig := none, response := none, respHash := "" })] }

/-- F-11b regression counter-example. Pre-fix: phase one only refused a nil signature
(`x.isNone`), so the empty-but-present one passed, was stored as nil, made the group of its task
signer-less (`statTask = none`), and in that case the hook dereferenced a nil task: panic in
BeginBlock. Post-fix: the history that halted the chain ends with no stored result and a live
chain, and a store that already holds such a result is skipped by the hook. -/
theorem C20_regress_F11b_empty_signature :
    (some "" : Option String).isNone = false ∧ (norm (some "")).isNone = true ∧
    (run init haltOps).results = [] ∧ (run init haltOps).halted = false ∧
    statTask legacyState ⟨[], []⟩ { chTask with startingEpoch := 2 } = none ∧
    epochEnd legacyState "minute" 4 ⟨[], []⟩ = (legacyState, "ok") := by decide

/-! ## non-vacuity: a concrete history in which every kind of acceptance happens -/

private def okOps : List Op :=
  [ .setEpochs [("minute", 1)], .setEnv ["o"] ["asset"],
    .update { action := 1, avsAddr := "A", name := "n", taskAddr := "T", owners := some ["own"], assets := some ["asset"],
              unbonding := 7, minSelf := 5, epochId := "minute", caller := "own" },
    .opt false 1 "o" "A" (some (5 * PREC)),
    .bls "o" "pk" true,
    .task { taskAddr := "T", caller := "own", name := "t", hash := "aa", resp := 1, stat := 1, chal := 1, givenId := 0, powerOk := true },
    .submit { fromAddr := "o", op := "o", taskAddr := "T", id := 1, stage := "1", sig := some "5167", response := none,
              respHash := "", respTaskId := none, blsOk := false, digest := "" },
    .setEpochs [("minute", 4)],
    .submit { fromAddr := "o", op := "o", taskAddr := "T", id := 1, stage := "2", sig := some "5167", response := some "7b7d",
              respHash := "0x1", respTaskId := some 1, blsOk := true, digest := "0x1" },
    .epochEnd "minute" 4 ⟨[("A", 5 * PREC)], [(("A", "o"), 5 * PREC)]⟩,
    .setEpochs [("minute", 5)],
    .challenge { taskAddr := "T", id := 1, op := "o", taskHash := "aa", abiHashOk := true, callerOk := true, caller := "c" } ]

example : ∀ o ∈ okOps, o.wf := by decide
-- one AVS, one opt-in, task #1, a phase-two result, one recorded challenge, statistics written:
example : (run init okOps).avss.length = 1 ∧ (run init okOps).created = [("T", 1)] ∧
    (run init okOps).accepted1.length = 1 ∧ (run init okOps).challenged = [("o", "T", 1)] ∧
    ((run init okOps).tasks.map (fun p => (p.2.signed, p.2.noSigned, p.2.totalPower, p.2.actualThreshold))) =
      [(["o"], [], 5 * PREC, 100 * 10 ^ 18 % 2 ^ 64)] := by decide
-- boundary: phase one exactly on the last admissible epoch (cur = start + resp) is accepted, one later is not
private def subB : Submit :=
  { fromAddr := "o", op := "o", taskAddr := "T", id := 1, stage := "1", sig := some "aa", response := none,
    respHash := "", respTaskId := none, blsOk := false, digest := "" }
example : (submitOne (run init (okOps.take 6)) subB chTask 4).2 = "ok" := by decide
example : (submitOne (run init (okOps.take 6)) subB chTask 5).2 = "ErrSubmitTooLateError" := by decide
-- opt-in boundary on the exact values: minimum 5 USD; exactly 5 is accepted, 5 − 10^-18 and 4.6 (which rounds
-- to 5) are refused, 5 + 10^-18 is accepted; the hypotheses of C20_optin_exact_min / C20_optin_accepts_eligible
-- are met by the first three operations of okOps
example : (step (run init (okOps.take 3)) (.opt true 1 "o" "A" (some (5 * PREC)))).2 = "ok" ∧
    (step (run init (okOps.take 3)) (.opt true 1 "o" "A" (some (5 * PREC - 1)))).2 = "ErrMinDelegationNotMet" ∧
    (step (run init (okOps.take 3)) (.opt false 1 "o" "A" (some 4600000000000000000))).2 = "ErrMinDelegationNotMet" ∧
    (step (run init (okOps.take 3)) (.opt false 1 "o" "A" (some (5 * PREC + 1)))).2 = "ok" ∧
    (run init (okOps.take 3)).halted = false ∧ "o" ∈ (run init (okOps.take 3)).operators ∧
    isOptedIn (run init (okOps.take 3)) "o" "A" = false := by decide
-- period lengths of zero: the statistical period (start+0, start+0+0] is empty, phase two is never admissible
example : ∀ cur : Int, phase2TooSoon cur 3 0 = true ∨ phase2TooLate cur 3 0 0 = true := by
  intro cur; simp only [phase2TooSoon, phase2TooLate, decide_eq_true_eq]; omega

end ExoVerif.Avs
