import ExoVerif.Generated.Facts
import ExoVerif.Model.GenesisDue
/-!
# C18 — tie of the record heights and of the writer's height guard (regenerated from the Go source on every run)

`rejects codeDueCfg h c = decide (c < h)` is the guard of SetUndelegationRecords (`<`, not `<=`: a record completing AT the
current height is admitted — which is what an import at the export height needs, see Props/C18Due.lean), `endBlockRec`
re-queues a held record at `height + 1`, `undelegate` writes `height + UnbondingExpiration` with UnbondingExpiration = 10.
A changed comparison (seeded change C18-a), a further guard in the loop, another re-queue height or delay changes the
regenerated fact and breaks the theorem.
-/
namespace ExoVerif.Genesis
open ExoVerif.Gen

theorem C18_tie_due_heights : delegationDueHeights = [
  ("SetUndelegationRecords", "currentHeight := ctx.BlockHeight()"),
  ("SetUndelegationRecords", "for i := range records"),
  ("SetUndelegationRecords", "if record.CompleteBlockNumber < uint64(currentHeight) => return"),
  ("EndBlock", "GetPendingUndelegationRecords(originalCtx, uint64(originalCtx.BlockHeight()))"),
  ("EndBlock", "if k.GetUndelegationHoldCount(cc, recordID) > 0"),
  ("EndBlock", "record.CompleteBlockNumber = uint64(cc.BlockHeight()) + 1"),
  ("UndelegateFrom", "BlockNumber: uint64(ctx.BlockHeight())"),
  ("UndelegateFrom", "r.CompleteBlockNumber = k.operatorKeeper.GetUnbondingExpirationBlockNumber(ctx, params.OperatorAddress, r.BlockNumber)"),
  ("GetUnbondingExpirationBlockNumber", "return startHeight + operatortypes.UnbondingExpiration"),
  ("operatortypes", "UnbondingExpiration = 10")] := rfl

/-- the model's side of the tie: the comparison, the re-queue height and the delay the rows above spell out -/
theorem C18_tie_due_model (h c : Int) :
    rejects codeDueCfg h c = decide (c < h) ∧
    endBlockRec h ⟨"r", h, c, 1⟩ = some ⟨"r", h + 1, c, 1⟩ ∧
    undelegate h "r" c 0 [] = [⟨"r", h + 10, c, 0⟩] := by
  refine ⟨by simp [rejects, codeDueCfg], by simp [endBlockRec], by simp [undelegate, unbondingExpiration]⟩

end ExoVerif.Genesis
