import ExoVerif.Model.Auth
/-!
# C10 — Privileged entry points act only for their rightful caller

Decision logic stated outright (Cedar style): for each entry point, `admit … = true` implies the
caller is the rightful one. The decision functions mirror the code as it is; two of them do not
satisfy the property's words and are refuted with a witness (F-10b: opt-in/out and BLS registration
through the AVS precompile). F-10a (forged oracle price) was repaired in the code (8ec350f) and its
statement is now a theorem.
-/
namespace ExoVerif.Auth

/-- deposit / withdraw / delegate / undelegate / associate / dissociate / client-chain and token
registration / reward: admitted only when the precompile is invoked by the configured gateway -/
theorem C10_gateway_admit_implies_rightful (st : AuthState) (r : Request)
    (h : admitGateway st r = true) : r.callerAddress = st.gateway := by
  simpa [admitGateway] using h

/-- … whatever the origin, the arguments and the signature status are -/
theorem C10_gateway_other_caller_rejected (st : AuthState) (r : Request)
    (h : r.callerAddress ≠ st.gateway) : admitGateway st r = false := by
  simp [admitGateway, h]

/-- AVS update / deregistration / task creation bind to the calling contract's own address and
require an owner listed *in the stored AVS* -/
theorem C10_manageAVS_admit_implies_rightful (st : AuthState) (r : Request)
    (h : admitManageAVS st r = true) :
    st.isAVS (actsFor .updateAVS r) = true ∧ actsFor .updateAVS r = r.callerAddress ∧
    r.arg0 ∈ st.avsOwners r.callerAddress := by
  simp only [admitManageAVS, Bool.and_eq_true, List.contains_iff_mem] at h
  exact ⟨h.1, rfl, h.2⟩

/-- AVS registration binds to the calling contract's own address (the owner list is the caller's to
choose: the membership test is between two arguments) -/
theorem C10_registerAVS_admit_implies_rightful (st : AuthState) (r : Request) (owners : List Addr)
    (h : admitRegisterAVS st r owners = true) :
    actsFor .registerAVS r = r.callerAddress ∧ r.arg0 ∈ owners ∧ st.isAVS r.callerAddress = false := by
  simp only [admitRegisterAVS, Bool.and_eq_true, List.contains_iff_mem, Bool.not_eq_true'] at h
  exact ⟨rfl, h.1, h.2⟩

/-- operator / delegation / AVS messages take effect only for the signer of the transaction -/
theorem C10_sdkMsg_admit_implies_rightful (r : Request) (h : admitSdkMsg r = true) :
    r.sig = .valid ∧ actsFor .sdkMsg r = r.origin := by
  simp only [admitSdkMsg, Bool.and_eq_true, beq_iff_eq] at h
  exact ⟨h.1, h.2⟩

/-- task results take effect only for the signer of the transaction — in EVERY phase of the two-phase
commit, whatever else the payload satisfies: the stored record that changes is the signer's own -/
theorem C10_task_result_only_signer (st : AuthState) (r : Request) (payloadOk : Bool)
    (h : admitTaskResult st r payloadOk = true) :
    actsFor .taskResult r = r.origin ∧ r.sig = .valid ∧ st.isOperator r.origin = true := by
  simp only [admitTaskResult, Bool.and_eq_true, beq_iff_eq] at h
  obtain ⟨⟨⟨⟨h1, h2⟩, h3⟩, h4⟩, _⟩ := h
  have hs : r.subject = r.origin := by rw [← h3, h2]
  exact ⟨hs, h1, by rw [← hs]; exact h4⟩

/-- stated per phase: a submission naming another operator is rejected in phase one, in phase two and for
any other stage value, even with an otherwise perfectly admissible payload (replayed phase-one signature,
open window) -/
theorem C10_task_result_foreign_signer_rejected (st : AuthState) (r : Request) (payloadOk : Bool)
    (h : r.subject ≠ r.origin) : ∀ ph : Phase, admitTaskResult st { r with phase := ph } payloadOk = false := by
  intro ph
  by_cases h2 : r.arg0 = r.origin
  · have : ¬ r.arg0 = r.subject := by intro h3; exact h (by rw [← h3, h2])
    simp [admitTaskResult, this]
  · simp [admitTaskResult, h2]

/-- parameter changes on mainnet chain ids only by the governance authority, signed by it -/
theorem C10_params_only_authority_on_mainnet (st : AuthState) (r : Request) (hm : st.mainnet = true)
    (h : admitUpdateParams st r = true) : r.arg0 = st.authority ∧ r.origin = st.authority ∧ r.sig = .valid := by
  simp only [admitUpdateParams, Bool.and_eq_true, beq_iff_eq, Bool.or_eq_true, Bool.not_eq_true', hm] at h
  obtain ⟨⟨h1, h2⟩, h3⟩ := h
  have h4 : r.arg0 = st.authority := by simpa using h3
  exact ⟨h4, by rw [← h2, h4], h1⟩

/-- off mainnet the handlers accept any correctly signing account (what "(on mainnet chain IDs)" leaves open) -/
theorem C10_params_open_off_mainnet (st : AuthState) (r : Request) (hm : st.mainnet = false)
    (hs : r.sig = .valid) (ho : r.arg0 = r.origin) : admitUpdateParams st r = true := by
  simp [admitUpdateParams, hm, hs, ho]

/-- price submissions take effect only when signed by the consensus key of the validator they are
attributed to (F-10a, fixed by 8ec350f: the result of VerifySignature is now checked) -/
theorem C10_oraclePrice_admit_implies_rightful (st : AuthState) (r : Request)
    (h : admitOraclePrice st r = true) : r.sig = .valid ∧ st.isValidator (actsFor .oraclePrice r) = true := by
  simp only [admitOraclePrice, Bool.and_eq_true, beq_iff_eq] at h
  exact h

/-- in particular a forged or key-mismatching submission is rejected for every state -/
theorem C10_oraclePrice_forged_rejected (st : AuthState) (r : Request) (h : r.sig ≠ .valid) :
    admitOraclePrice st r = false := by
  simp [admitOraclePrice, h]

/-- a create-price transaction carrying the submissions of several validators: admitted ⇒ EVERY
submission is signed by the consensus key of the validator it is attributed to, whatever its slot -/
theorem C10_oraclePriceTx_admit_implies_every_signer_rightful (st : AuthState) (rs : List Request)
    (h : admitOraclePriceTx st rs = true) :
    ∀ r ∈ rs, r.sig = .valid ∧ st.isValidator (actsFor .oraclePrice r) = true := by
  intro r hr
  simp only [admitOraclePriceTx, List.all_eq_true] at h
  exact C10_oraclePrice_admit_implies_rightful st r (h r hr)

/-- … so one forged, missing or key-mismatching signature in ANY slot refuses the whole transaction
(the valid signatures of the other signers do not cover it) -/
theorem C10_oraclePriceTx_any_forged_rejected (st : AuthState) (rs : List Request) (r : Request)
    (hr : r ∈ rs) (h : r.sig ≠ .valid) : admitOraclePriceTx st rs = false := by
  cases hadm : admitOraclePriceTx st rs with
  | false => rfl
  | true => exact absurd (C10_oraclePriceTx_admit_implies_every_signer_rightful st rs hadm r hr).1 h

/-- the decision "verify the first slot, then go on" (a `return next(…)` inside the signature loop):
stated here only to be refuted — it is NOT the property -/
def admitOraclePriceTxFirstSlotOnly (st : AuthState) : List Request → Bool
  | [] => false
  | r :: rest => admitOraclePrice st r && rest.all (fun q => st.isValidator q.arg0)

theorem C10_oraclePriceTx_first_slot_only_is_not_enough :
    ∃ (st : AuthState) (rs : List Request), admitOraclePriceTxFirstSlotOnly st rs = true ∧
      admitOraclePriceTx st rs = false ∧ ∃ r ∈ rs, r.sig ≠ .valid ∧ st.isValidator (actsFor .oraclePrice r) = true :=
  ⟨{ gateway := 1, avsOwners := fun _ => [], isAVS := fun _ => false, isOperator := fun _ => false,
     isValidator := fun a => a == 30 || a == 31, authority := 99, mainnet := true },
   [{ callerAddress := 0, origin := 30, arg0 := 30, sig := .valid }, { callerAddress := 0, origin := 30, arg0 := 31, sig := .forged }],
   by decide, by decide, { callerAddress := 0, origin := 30, arg0 := 31, sig := .forged }, by simp, by decide, by decide⟩

def exState : AuthState :=
  { gateway := 1, avsOwners := fun a => if a = 50 then [60] else [], isAVS := fun a => a == 50 || a == 77,
    isOperator := fun a => a == 20, isValidator := fun a => a == 30, authority := 99, mainnet := true }

example : admitOraclePriceTx { exState with isValidator := fun a => a == 30 || a == 31 }
    [{ callerAddress := 0, origin := 30, arg0 := 30, sig := .valid }, { callerAddress := 0, origin := 31, arg0 := 31, sig := .valid }] = true := by decide
example : admitOraclePriceTx { exState with isValidator := fun a => a == 30 || a == 31 }
    [{ callerAddress := 0, origin := 30, arg0 := 30, sig := .valid }, { callerAddress := 0, origin := 30, arg0 := 31, sig := .forged }] = false := by decide

/-- operator opt-in/out and BLS key registration through the AVS precompile: the property wants them
to take effect only for the signer of the transaction -/
def C10_avsOpt_full : Prop :=
  ∀ (st : AuthState) (r : Request), admitAvsOpt st r = true → actsFor .avsOptIn r = r.origin

/-- F-10b: caller 77 (any account that registered itself as an AVS) opts operator 20 in; 20 signed nothing -/
theorem C10_avsOpt_full_fails : ¬ C10_avsOpt_full := by
  intro h
  have := h exState { callerAddress := 77, origin := 77, arg0 := 20, sig := .valid } (by decide)
  exact absurd this (by decide)

/-- what does hold for the AVS-precompile opt-in/out: the AVS side is the caller's own address -/
theorem C10_avsOpt_admit_binds_avs_partial (st : AuthState) (r : Request) (h : admitAvsOpt st r = true) :
    st.isAVS r.callerAddress = true ∧ st.isOperator (actsFor .avsOptIn r) = true := by
  simp only [admitAvsOpt, Bool.and_eq_true] at h
  exact ⟨h.2, h.1⟩

/-- challenges "require a listed owner" in the property's words; the code consults no owner list (F-10d) -/
def C10_challenge_full : Prop :=
  ∀ (st : AuthState) (r : Request) (p : Bool), admitChallenge st r p = true → r.arg0 ∈ st.avsOwners r.callerAddress

theorem C10_challenge_full_fails : ¬ C10_challenge_full := by
  intro h
  have := h exState { callerAddress := 50, origin := 50, arg0 := 61, sig := .valid } true (by decide)
  exact absurd this (by decide)

/-- what holds for a challenge: it is bound to the calling contract's own address -/
theorem C10_challenge_binds_caller_partial (r : Request) : actsFor .challenge r = r.callerAddress := rfl

def C10_registerBLS_full : Prop :=
  ∀ (st : AuthState) (r : Request) (p k : Bool), admitRegisterBLS st r p k = true → actsFor .registerBLSKey r = r.origin

theorem C10_registerBLS_full_fails : ¬ C10_registerBLS_full := by
  intro h
  have := h exState { callerAddress := 5, origin := 5, arg0 := 20, sig := .valid } true false (by decide)
  exact absurd this (by decide)

/-! non-vacuity -/
example : admitGateway exState { callerAddress := 1, origin := 7, arg0 := 3, sig := .valid } = true := by decide
example : admitManageAVS exState { callerAddress := 50, origin := 60, arg0 := 60, sig := .valid } = true := by decide
example : admitManageAVS exState { callerAddress := 50, origin := 61, arg0 := 61, sig := .valid } = false := by decide
example : admitUpdateParams exState { callerAddress := 0, origin := 99, arg0 := 99, sig := .valid } = true := by decide
example : admitUpdateParams exState { callerAddress := 0, origin := 7, arg0 := 7, sig := .valid } = false := by decide
example : admitSdkMsg { callerAddress := 0, origin := 7, arg0 := 7, sig := .forged } = false := by decide
example : admitTaskResult exState { callerAddress := 0, origin := 20, arg0 := 20, sig := .valid, subject := 20, phase := .two } true = true := by decide
example : admitTaskResult exState { callerAddress := 0, origin := 7, arg0 := 7, sig := .valid, subject := 20, phase := .two } true = false := by decide
example : admitTaskResult exState { callerAddress := 0, origin := 7, arg0 := 7, sig := .valid, subject := 20, phase := .one } true = false := by decide
example : admitOraclePrice exState { callerAddress := 0, origin := 30, arg0 := 30, sig := .valid } = true := by decide
example : admitOraclePrice exState { callerAddress := 0, origin := 66, arg0 := 30, sig := .forged } = false := by decide

end ExoVerif.Auth
