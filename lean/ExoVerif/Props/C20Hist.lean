import ExoVerif.Props.C20
import ExoVerif.Proofs.AvsHist
/-!
# C20 — history-level completion (clause-by-clause audit, round 5)

`Props/C20.lean` states the registry clauses, the identifier sequence, "only once" and "only with the phase-one
signature" over every history, and the window clauses for one step from an arbitrary state. This file adds what a
step-level statement cannot say:

* the TASK STORE against the identifier sequence: after every history the stored tasks of a contract are exactly
  the identifiers 1..n, each record carries its key, and an accepted creation never overwrites a record
  (`C20_hist_task_store_matches_counter`, `C20_hist_create_never_overwrites`) — whatever happened to the AVS in
  between (deregistration, re-registration, the task contract moving to another AVS);
* a task's identity and its three periods never change after creation, so the windows enforced at ANY later point
  of a history are the ones fixed when the task was created (`C20_hist_task_window_fixed`,
  `C20_hist_submit_windows_use_creation_values`, `C20_hist_challenge_window_uses_creation_values`);
* "only registered AVSs accept opt-ins, and opting in requires …" as provenance over histories: whenever an
  operator is opted in to an AVS, there is an earlier accepted opt-in of exactly that operator to exactly that
  AVS, made while the AVS was registered, the operator registered and its self-delegated value ≥ the minimum
  (`C20_hist_opted_in_only_by_accepted_optin`);
* "phase one only until the response period ends" as a statement about TIME over a history — once the response
  period of a task is over, no phase-one submission is accepted later: FALSE on the unchanged code
  (`C20_hist_closed_window_stays_closed_full`, `…_fails`): UpdateAVSInfo lets an AVS replace its epoch identifier
  while tasks are in flight; the task's StartingEpoch is a number of the OLD identifier's clock and is from then on
  compared with the NEW identifier's (smaller) number, so a closed window re-opens. Proved with the explicit
  hypothesis that the clock of the task address does not run backwards (`…_partial`), which holds in every history
  whose later part contains no registry update and moves epochs forward only (`…_no_update`).
-/
namespace ExoVerif.Avs
open ExoVerif

/-! ## the task store and the identifier sequence -/

/-- After every history (any interleaving, AVS deregistration / re-registration and task-contract changes
included): every stored task record carries the key it is stored under, its identifier lies in 1..n where n is the
contract's counter, every identifier 1..n IS stored, and no key is stored twice — the stored identifiers per task
contract are exactly 1, 2, …, n. -/
theorem C20_hist_task_store_matches_counter (ops : List Op) :
    let s := run init ops
    KV.NoDup s.tasks ∧
    (∀ k t, KV.find? s.tasks k = some t → t.taskAddr = k.1 ∧ t.id = k.2 ∧ 1 ≤ k.2 ∧ k.2 ≤ counter s k.1) ∧
    (∀ a i, 1 ≤ i → i ≤ counter s a → KV.has s.tasks (a, i) = true) :=
  taskStoreInv_run ops init taskStoreInv_init

theorem create_never_overwrites_aux (s : State) (hi : TaskStoreInv s) (p : TaskParams) (s' : State)
    (h : step s (.task p) = (s', "ok")) :
    KV.find? s.tasks (p.taskAddr, counter s p.taskAddr + 1) = none ∧
    KV.has s'.tasks (p.taskAddr, counter s p.taskAddr + 1) = true ∧
    (∀ k t, KV.find? s.tasks k = some t → KV.find? s'.tasks k = some t) := by
  obtain ⟨a, cur, t, _, _, _, h4, _, _, _, _⟩ := C20_task_create_requires s s' p h
  have hfresh := create_key_fresh s p.taskAddr hi
  rw [nextTaskId_eq] at hfresh
  refine ⟨hfresh, by simp [KV.has, h4], ?_⟩
  intro k t0 hf
  unfold step at h
  by_cases hh : s.halted = true
  · simp [hh] at h
  · simp only [hh, Bool.false_eq_true, if_false] at h
    rcases createTask_cases s p with g | ⟨t1, _, _, g⟩
    · have hs' : s' = (createTask s p).1 := by rw [h]
      rw [hs', g]; exact hf
    · rw [g] at h
      have hs' : s' = afterCreate s p t1 := (Prod.mk.inj h).1.symm
      subst hs'
      have hne : k ≠ (p.taskAddr, nextTaskId s p.taskAddr) := by
        intro e
        rw [e, create_key_fresh s p.taskAddr hi] at hf
        cases hf
      simp only [afterCreate]
      rw [KV.find?_set_other _ _ _ _ hne]; exact hf

/-- Uniqueness at the store: an accepted CreateAVSTask, after any history, writes a key that was not stored
before (the next identifier of its contract), and every task stored before is still stored, unchanged. -/
theorem C20_hist_create_never_overwrites (ops : List Op) (p : TaskParams) (s' : State)
    (h : step (run init ops) (.task p) = (s', "ok")) :
    KV.find? (run init ops).tasks (p.taskAddr, counter (run init ops) p.taskAddr + 1) = none ∧
    KV.has s'.tasks (p.taskAddr, counter (run init ops) p.taskAddr + 1) = true ∧
    (∀ k t, KV.find? (run init ops).tasks k = some t → KV.find? s'.tasks k = some t) :=
  create_never_overwrites_aux (run init ops) (taskStoreInv_run ops init taskStoreInv_init) p s' h

/-- A task's identity (contract, identifier, hash, name), its starting epoch, its response / statistical /
challenge periods and its opted-in snapshot never change: whatever is appended to a history, a stored task stays
stored with the same values. Only the statistics fields are ever rewritten (by the epoch hook). -/
theorem C20_hist_task_window_fixed (pre post : List Op) (k : Addr × Nat) (t : Task)
    (hf : KV.find? (run init pre).tasks k = some t) :
    ∃ t', KV.find? (run init (pre ++ post)).tasks k = some t' ∧
      t'.taskAddr = t.taskAddr ∧ t'.id = t.id ∧ t'.startingEpoch = t.startingEpoch ∧ t'.resp = t.resp ∧
      t'.stat = t.stat ∧ t'.chal = t.chal ∧ t'.optIn = t.optIn ∧ t'.hash = t.hash ∧ t'.name = t.name := by
  rw [run_append]
  exact task_kept_run post (run init pre) (taskStoreInv_run pre init taskStoreInv_init) k t hf

/-- The windows enforced on a submission at ANY later point of a history are computed from the starting epoch and
the periods the task was created with: phase one is accepted only while the current epoch of the task address's
AVS is ≤ start + response period, phase two only in (start + response, start + response + statistical]. -/
theorem C20_hist_submit_windows_use_creation_values (pre mid : List Op) (t : Task) (i : Submit) (s' : State)
    (hf : KV.find? (run init pre).tasks (i.taskAddr, i.id) = some t)
    (h : step (run init (pre ++ mid)) (.submit i) = (s', "ok")) :
    ∃ cur, epochOfTaskAddr (run init (pre ++ mid)) i.taskAddr = some cur ∧
      ((i.stage = "1" ∧ cur ≤ t.startingEpoch + t.resp) ∨
       (i.stage = "2" ∧ t.startingEpoch + t.resp < cur ∧ cur ≤ t.startingEpoch + t.resp + t.stat)) := by
  obtain ⟨t', hf', _, _, e3, e4, e5, _⟩ := C20_hist_task_window_fixed pre mid _ t hf
  rcases (C20_submit_requires_operator_and_key _ s' i h).2.2.2.2 with hs | hs
  · obtain ⟨task, cur, g1, g2, g3, _⟩ := C20_phase1_window_once _ s' i hs h
    rw [hf'] at g1; cases g1
    exact ⟨cur, g2, Or.inl ⟨hs, by omega⟩⟩
  · obtain ⟨task, cur, res, g1, g2, g3, g4, _⟩ := C20_phase2_window_sig_id_bls _ s' i hs h
    rw [hf'] at g1; cases g1
    exact ⟨cur, g2, Or.inr ⟨hs, by omega, by omega⟩⟩

/-- the same for challenges: accepted only in (start + response + statistical, … + challenge period] of the values
the task was created with -/
theorem C20_hist_challenge_window_uses_creation_values (pre mid : List Op) (t : Task) (c : Challenge) (s' : State)
    (hf : KV.find? (run init pre).tasks (c.taskAddr, c.id) = some t)
    (h : step (run init (pre ++ mid)) (.challenge c) = (s', "ok")) :
    ∃ cur, epochOfTaskAddr (run init (pre ++ mid)) t.taskAddr = some cur ∧
      t.startingEpoch + t.resp + t.stat < cur ∧ cur ≤ t.startingEpoch + t.resp + t.stat + t.chal := by
  obtain ⟨t', hf', e1, _, e3, e4, e5, e6, _⟩ := C20_hist_task_window_fixed pre mid _ t hf
  obtain ⟨task, cur, g1, _, g3, g4, g5, _⟩ := C20_challenge_full _ s' c h
  rw [hf'] at g1; cases g1
  exact ⟨cur, by rw [← e1]; exact g3, by omega, by omega⟩

/-! ## opt-ins: provenance over histories -/

/-- Only registered AVSs accept opt-ins, only from registered operators whose self-delegated value meets the
minimum — over every history: whenever operator `op` is opted in to `avs`, the history contains an ACCEPTED opt-in
of `op` to `avs`, and at that moment `avs` was a registered AVS, `op` a registered operator not yet opted in, and
its self-delegated USD value was at least the AVS's minimum. -/
theorem C20_hist_opted_in_only_by_accepted_optin (ops : List Op) (op : String) (avs : Addr)
    (h : isOptedIn (run init ops) op avs = true) :
    ∃ pre d u post, ops = pre ++ Op.opt d 1 op avs u :: post ∧
      (step (run init pre) (.opt d 1 op avs u)).2 = "ok" ∧
      op ∈ (run init pre).operators ∧
      ∃ a usd, KV.find? (run init pre).avss avs = some a ∧ u = some usd ∧ (a.minSelf : Int) * PREC ≤ usd ∧
        isOptedIn (run init pre) op avs = false := by
  have h0 : ¬ (isOptedIn init op avs = true) := by simp [isOptedIn, init]
  obtain ⟨pre, o, post, e1, e2, e3⟩ := exists_flip (fun s => isOptedIn s op avs = true) ops init h0 h
  have e2' : isOptedIn (run init pre) op avs = false := by simpa using e2
  obtain ⟨d, u, ho, hok⟩ := opted_step (run init pre) o op avs e2' e3
  subst ho
  have hstep : step (run init pre) (.opt d 1 op avs u) = ((step (run init pre) (.opt d 1 op avs u)).1, "ok") :=
    Prod.ext rfl hok
  obtain ⟨g1, a, usd, g2, g3, g4, g5, _⟩ := C20_optin_requires _ _ d op avs u hstep
  exact ⟨pre, d, u, post, e1, hok, g1, a, usd, g2, g3, g4, g5⟩

/-! ## "until the response period ends", over time: false on the unchanged code (epoch-identifier switch) -/

/-- The clause read over a history: epochs move forward only (C15); once the response period of a task is over
(the current epoch of the task address's AVS is past start + response period), no phase-one submission for that
task is accepted at any later point. -/
def C20_hist_closed_window_stays_closed_full : Prop :=
  ∀ (pre mid : List Op) (i : Submit) (t : Task) (cur : Int),
    (∀ o ∈ pre ++ mid, o.wf) → ForwardHist init (pre ++ mid) = true →
    KV.find? (run init pre).tasks (i.taskAddr, i.id) = some t →
    epochOfTaskAddr (run init pre) i.taskAddr = some cur → t.startingEpoch + t.resp < cur →
    i.stage = "1" → (step (run init (pre ++ mid)) (.submit i)).2 ≠ "ok"

/-- AVS "A" on the minute clock; task 1 of contract "T" created in minute epoch 1 (start 2, response period 1: phase
one admissible through minute epoch 3); the minute clock advances to 6 -/
def swPre : List Op :=
  [ .setEpochs [("minute", 1), ("hour", 1)], .setEnv ["o"] ["asset"],
    .update { action := 1, avsAddr := "A", name := "n", taskAddr := "T", owners := some ["own"], assets := some ["asset"],
              unbonding := 7, minSelf := 0, epochId := "minute", caller := "own" },
    .bls "o" "pk" true,
    .task { taskAddr := "T", caller := "own", name := "t", hash := "aa", resp := 1, stat := 1, chal := 1, givenId := 0, powerOk := true },
    .setEpochs [("minute", 6), ("hour", 1)] ]
/-- the AVS replaces its epoch identifier (UpdateAction with EpochIdentifier = "hour"; hour epoch 1) -/
def swMid : List Op :=
  [ .update { action := 3, avsAddr := "A", name := "", taskAddr := "", owners := none, assets := none,
              unbonding := 0, minSelf := 0, epochId := "hour", caller := "own" } ]
def swSubmit : Submit :=
  { fromAddr := "o", op := "o", taskAddr := "T", id := 1, stage := "1", sig := some "5167", response := none,
    respHash := "", respTaskId := none, blsOk := false, digest := "" }
def swTask : Task :=
  { taskAddr := "T", id := 1, name := "t", hash := "aa", resp := 1, stat := 1, chal := 1, startingEpoch := 2,
    optIn := [], signed := [], noSigned := [], powers := [], totalPower := 0, actualThreshold := 0 }

/-- Witness: in minute epoch 6 the response period (through epoch 3) is over and phase one is refused as too late;
the AVS then switches its epoch identifier to "hour" (epoch 1 ≤ 3) and the same phase-one submission is ACCEPTED. -/
theorem C20_hist_closed_window_stays_closed_fails : ¬ C20_hist_closed_window_stays_closed_full := by
  intro h
  exact h swPre swMid swSubmit swTask 6 (by decide) (by decide) (by decide) (by decide) (by decide) rfl (by decide)

/-- the same witness spelled out: refused before the switch, accepted after it, nothing else changed -/
theorem C20_hist_epoch_switch_reopens_phase1 :
    (step (run init swPre) (.submit swSubmit)).2 = "ErrSubmitTooLateError" ∧
    (step (run init (swPre ++ swMid)) (.submit swSubmit)).2 = "ok" ∧
    epochOfTaskAddr (run init swPre) "T" = some 6 ∧ epochOfTaskAddr (run init (swPre ++ swMid)) "T" = some 1 ∧
    (run init (swPre ++ swMid)).tasks = (run init swPre).tasks := by decide

/-- What IS true: if the clock of the task address has not run backwards between the two points of the history,
a response window that was closed stays closed. -/
theorem C20_hist_closed_window_stays_closed_partial (pre mid : List Op) (i : Submit) (t : Task) (cur : Int)
    (hf : KV.find? (run init pre).tasks (i.taskAddr, i.id) = some t)
    (_hc : epochOfTaskAddr (run init pre) i.taskAddr = some cur) (hclosed : t.startingEpoch + t.resp < cur)
    (hs : i.stage = "1")
    (hclock : ∀ cur2, epochOfTaskAddr (run init (pre ++ mid)) i.taskAddr = some cur2 → cur ≤ cur2) :
    (step (run init (pre ++ mid)) (.submit i)).2 ≠ "ok" := by
  intro hok
  have hstep : step (run init (pre ++ mid)) (.submit i) = ((step (run init (pre ++ mid)) (.submit i)).1, "ok") :=
    Prod.ext rfl hok
  obtain ⟨cur2, g1, g2⟩ := C20_hist_submit_windows_use_creation_values pre mid t i _ hf hstep
  have := hclock cur2 g1
  rcases g2 with ⟨_, g⟩ | ⟨g, _⟩
  · omega
  · rw [hs] at g; exact absurd g (by decide)

/-- The hypothesis holds — and therefore the clause — in every history whose later part contains no AVS
register / update / deregister and moves the epochs forward only. -/
theorem C20_hist_closed_window_stays_closed_no_update (pre mid : List Op) (i : Submit) (t : Task) (cur : Int)
    (hn : ∀ o ∈ mid, o.noUpdate) (hfw : ForwardHist (run init pre) mid = true)
    (hf : KV.find? (run init pre).tasks (i.taskAddr, i.id) = some t)
    (hc : epochOfTaskAddr (run init pre) i.taskAddr = some cur) (hclosed : t.startingEpoch + t.resp < cur)
    (hs : i.stage = "1") :
    (step (run init (pre ++ mid)) (.submit i)).2 ≠ "ok" := by
  apply C20_hist_closed_window_stays_closed_partial pre mid i t cur hf hc hclosed hs
  intro cur2 h2
  obtain ⟨a1, a2⟩ := run_noUpdate_clock mid (run init pre) hn hfw
  obtain ⟨cur', b1, b2⟩ := epochOfTaskAddr_mono (run init pre) (run (run init pre) mid) i.taskAddr a1 a2 cur hc
  rw [run_append] at h2
  rw [b1] at h2; cases h2
  exact b2

/-! ## non-vacuity -/

-- the history of Props/C20.lean's non-vacuity section, restated here (private there)
private def hOps : List Op :=
  [ .setEpochs [("minute", 1)], .setEnv ["o"] ["asset"],
    .update { action := 1, avsAddr := "A", name := "n", taskAddr := "T", owners := some ["own"], assets := some ["asset"],
              unbonding := 7, minSelf := 5, epochId := "minute", caller := "own" },
    .opt false 1 "o" "A" (some (5 * PREC)),
    .bls "o" "pk" true,
    .task { taskAddr := "T", caller := "own", name := "t", hash := "aa", resp := 1, stat := 1, chal := 1, givenId := 0, powerOk := true },
    .task { taskAddr := "T", caller := "own", name := "t2", hash := "bb", resp := 0, stat := 2, chal := 0, givenId := 0, powerOk := true },
    -- the AVS deregisters and registers again under the same task contract: the counter goes on
    .update { action := 2, avsAddr := "A", name := "n", taskAddr := "T", owners := none, assets := none,
              unbonding := 0, minSelf := 0, epochId := "", caller := "own" },
    .update { action := 1, avsAddr := "A", name := "n", taskAddr := "T", owners := some ["own"], assets := some ["asset"],
              unbonding := 7, minSelf := 5, epochId := "minute", caller := "own" },
    .task { taskAddr := "T", caller := "own", name := "t3", hash := "cc", resp := 1, stat := 1, chal := 1, givenId := 0, powerOk := true } ]

example : (run init hOps).created = [("T", 1), ("T", 2), ("T", 3)] ∧ counter (run init hOps) "T" = 3 ∧
    (run init hOps).tasks.map (·.1) = [("T", 1), ("T", 2), ("T", 3)] ∧ (run init hOps).avss.length = 1 := by decide
example : isOptedIn (run init hOps) "o" "A" = true := by decide
private def hTask3 : TaskParams :=
  { taskAddr := "T", caller := "own", name := "t3", hash := "cc", resp := 1, stat := 1, chal := 1, givenId := 0, powerOk := true }
example : (step (run init (hOps.take 9)) (.task hTask3)).2 = "ok" := by decide
-- the hypotheses of the `_no_update` theorem are met by the witness prefix with a non-update continuation
example : ∀ o ∈ [Op.setEpochs [("minute", 7), ("hour", 1)], Op.bls "x" "pk" true], o.noUpdate := by decide
example : ForwardHist (run init swPre) [Op.setEpochs [("minute", 7), ("hour", 1)], Op.bls "x" "pk" true] = true := by decide
example : KV.find? (run init swPre).tasks (swSubmit.taskAddr, swSubmit.id) = some swTask ∧
    epochOfTaskAddr (run init swPre) swSubmit.taskAddr = some 6 := by decide
-- and a backwards `setEpochs` is what ForwardHist excludes
example : ForwardHist (run init swPre) [Op.setEpochs [("minute", 2), ("hour", 1)]] = false := by decide

end ExoVerif.Avs
