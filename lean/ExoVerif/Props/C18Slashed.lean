import ExoVerif.Model.GenesisDelegation
/-!
# C18 — a slashed pending undelegation is exported as a document the module's own validation accepts

`UndelegateFrom` writes a record with `0 < Amount = ActualCompletedAmount`, pending, `BlockNumber ≤ CompleteBlockNumber`
(`UndOk`). Operator slashes (any proportion in [0, 1], any number of them) and native-restaking balance decreases keep
`0 ≤ ActualCompletedAmount ≤ Amount` and never touch the other fields; `ValidateUndelegations` accepts every such record, in
particular the record slashed to ZERO (which a 100 % slash produces from every record: `C18_full_slash_zeroes`).
-/
namespace ExoVerif.Genesis

/-- the invariant of a stored pending record -/
def UndOk (u : UndRec) : Prop := u.pending = true ∧ u.submitted ≤ u.complete ∧ 0 ≤ u.actual ∧ u.actual ≤ u.amount

instance (u : UndRec) : Decidable (UndOk u) := by unfold UndOk; infer_instance

theorem C18_slashed_und_inv (u : UndRec) (sa : Int) (h : UndOk u) (hsa : 0 ≤ sa) : UndOk (slashUnd sa u).1 := by
  obtain ⟨hp, hc, h0, h1⟩ := h
  unfold slashUnd
  split
  · exact ⟨hp, hc, h0, h1⟩
  · split
    · exact ⟨hp, hc, by simp, by simp; omega⟩
    · refine ⟨hp, hc, ?_, ?_⟩ <;> simp <;> omega

theorem C18_nst_slashed_und_inv (u : UndRec) (pend : Int) (h : UndOk u) (hp0 : 0 ≤ pend) : UndOk (nstSlashUnd pend u).1 := by
  obtain ⟨hp, hc, h0, h1⟩ := h
  unfold nstSlashUnd
  by_cases hr : pend - u.actual > 0
  · simp only [hr, if_true]
    exact ⟨hp, hc, by simp, by simp; omega⟩
  · simp only [hr, if_false]
    refine ⟨hp, hc, ?_, ?_⟩ <;> simp <;> omega

/-- every record satisfying the invariant passes the module's validation -/
theorem C18_undok_validates (u : UndRec) (h : UndOk u) : validateUnd u = true := by
  obtain ⟨hp, hc, _, h1⟩ := h
  simp [validateUnd, hp]
  omega

theorem C18_slash_history_inv (evs : List SlashEv) : ∀ (u : UndRec), UndOk u → (∀ e ∈ evs, 0 ≤ e.amount) → UndOk (slashHistory u evs) := by
  induction evs with
  | nil => intro u h _; exact h
  | cons e es ih =>
    intro u h hall
    have he : 0 ≤ e.amount := hall e (List.mem_cons_self ..)
    have hstep : UndOk (applySlashEv u e) := by
      cases e with
      | operator sa => exact C18_slashed_und_inv u sa h he
      | nst p => exact C18_nst_slashed_und_inv u p h he
    exact ih (applySlashEv u e) hstep (fun e' he' => hall e' (List.mem_cons_of_mem _ he'))

/-- THE CLAUSE: whatever slashes a pending undelegation went through, the exported record passes ValidateUndelegations -/
theorem C18_slashed_export_validates (u : UndRec) (evs : List SlashEv) (h : UndOk u) (hall : ∀ e ∈ evs, 0 ≤ e.amount) :
    validateUnd (slashHistory u evs) = true :=
  C18_undok_validates _ (C18_slash_history_inv evs u h hall)

/-- a slash only rewrites ActualCompletedAmount: the record completes at the same height with the same submitted amount -/
theorem C18_slash_history_keeps_schedule (evs : List SlashEv) : ∀ (u : UndRec),
    (slashHistory u evs).complete = u.complete ∧ (slashHistory u evs).submitted = u.submitted ∧
    (slashHistory u evs).amount = u.amount ∧ (slashHistory u evs).pending = u.pending := by
  induction evs with
  | nil => intro u; exact ⟨rfl, rfl, rfl, rfl⟩
  | cons e es ih =>
    intro u
    have hs : (applySlashEv u e).complete = u.complete ∧ (applySlashEv u e).submitted = u.submitted ∧
        (applySlashEv u e).amount = u.amount ∧ (applySlashEv u e).pending = u.pending := by
      cases e with
      | operator sa =>
        simp only [applySlashEv, slashUnd]
        by_cases h0 : u.actual = 0
        · simp [h0]
        · by_cases h1 : sa ≥ u.actual
          · simp [h0, h1]
          · simp [h0, h1]
      | nst p => exact ⟨rfl, rfl, rfl, rfl⟩
    obtain ⟨a, b, c, d⟩ := ih (applySlashEv u e)
    obtain ⟨a', b', c', d'⟩ := hs
    exact ⟨a.trans a', b.trans b', c.trans c', d.trans d'⟩

/-- a slash of 100 % (sa = Amount ≥ ActualCompletedAmount) leaves ZERO in a record that still held something -/
theorem C18_full_slash_zeroes (u : UndRec) (sa : Int) (hle : u.actual ≤ sa) : (slashUnd sa u).1.actual = 0 := by
  unfold slashUnd
  by_cases h0 : u.actual = 0
  · simp [h0]
  · have h1 : sa ≥ u.actual := hle
    simp [h0, h1]

/-- … and that record is a valid genesis record -/
theorem C18_zeroed_record_validates (u : UndRec) (h : UndOk u) : validateUnd (slashUnd u.amount u).1 = true ∧ (slashUnd u.amount u).1.actual = 0 :=
  ⟨C18_undok_validates _ (C18_slashed_und_inv u u.amount h (by obtain ⟨_, _, h0, h1⟩ := h; omega)), C18_full_slash_zeroes u u.amount h.2.2.2⟩

/-- a balance decrease of at least what the record holds leaves zero as well -/
theorem C18_nst_full_decrease_zeroes (u : UndRec) (pend : Int) (hle : u.actual ≤ pend) : (nstSlashUnd pend u).1.actual = 0 := by
  unfold nstSlashUnd
  by_cases hr : pend - u.actual > 0
  · have : u.actual < pend := by omega
    simp [this]
  · have h1 : ¬ u.actual < pend := by omega
    simp [h1]; omega

/-- regression (the shape of seeded change C18-i): a validation that rejects non-positive amounts rejects a reachable record -/
theorem C18_regression_nonpositive_guard_rejects_reachable :
    ∃ u sa, UndOk u ∧ 0 ≤ sa ∧ validateUnd (slashUnd sa u).1 = true ∧ validateUndStrict (slashUnd sa u).1 = false :=
  ⟨⟨3, 13, 2500000, 2500000, true⟩, 2500000, by decide, by decide, by decide, by decide⟩

/-- the strict shape agrees with the code on every record that no slash has emptied -/
theorem C18_regression_strict_differs_only_on_emptied (u : UndRec) (h : UndOk u) (hpos : 0 < u.actual) :
    validateUndStrict u = validateUnd u := by
  obtain ⟨_, _, _, h1⟩ := h
  have : 0 < u.amount := by omega
  simp [validateUndStrict, hpos, this]

-- non-vacuity: a record as UndelegateFrom writes it, a 50 % + 5 % + 100 % history, an NST decrease
example : UndOk ⟨3, 13, 2500000, 2500000, true⟩ := by decide
example : slashHistory ⟨3, 13, 2500000, 2500000, true⟩ [.operator 1250000, .operator 125000, .nst 500000] = ⟨3, 13, 2500000, 625000, true⟩ := by decide
example : slashHistory ⟨3, 13, 2500000, 2500000, true⟩ [.operator 1250000, .operator 2500000, .operator 7] = ⟨3, 13, 2500000, 0, true⟩ := by decide
example : validateUnd ⟨3, 13, 2500000, 0, true⟩ = true := by decide
example : validateUnd ⟨3, 13, 2500000, 2500001, true⟩ = false := by decide
example : validateUnd ⟨14, 13, 5, 5, true⟩ = false := by decide
example : validateUnd ⟨3, 13, 5, 5, false⟩ = false := by decide
example : (nstSlashUnd 3000000 ⟨3, 13, 2000000, 2000000, true⟩) = (⟨3, 13, 2000000, 0, true⟩, 1000000) := by decide

end ExoVerif.Genesis
