import ExoVerif.Generated.Facts
import ExoVerif.Model.Distribution
/-!
# C17 tie: the Go functions the model `ExoVerif.Distr` transcribes are the ones it was written against

`ExoVerif.Gen.shape…` are regenerated from the Go sources on every run (tools/exofacts/facts_rewards.go):
every statement of the function that is not logging / event emission, in source order. The
translator's Go subset has no loops or multi-value assignments, so these functions are tied by their
shape (here) and by the line-by-line differential run of the model against the real application;
any change of a rounding method (`MulDecTruncate`/`QuoTruncate`/`MulDec`), of an operand, of the
order of the writes, or a dropped statement changes the regenerated list and breaks these theorems.
Model counterparts: shapeAllocateTokens ↔ `allocateTokensWith`/`valLoopWith`/`valReward`/`feeMultiplier`;
shapeAllocateTokensToValidator ↔ `allocValidatorWith`; shapeAllocateTokensToStakers ↔ `allocStakers`/
`stakerLoop`/`powerAcc`/`occTotal`; shapeAllocateTokensToSingleStaker ↔ `bookAdd`;
shapeDistrAfterEpochEnd / shapeMintAfterEpochEnd ↔ `onEpochEnd`/`mintHook`.
-/
namespace ExoVerif.Distr
open ExoVerif.Gen

theorem C17_tie_shapeAllocateTokens : shapeAllocateTokens =
  [
    "feeCollector := k.authKeeper.GetModuleAccount(ctx, k.feeCollectorName)",
    "feesCollectedInt := k.bankKeeper.GetAllBalances(ctx, feeCollector.GetAddress())",
    "feesCollected := sdk.NewDecCoinsFromCoins(feesCollectedInt...)",
    "if err := k.bankKeeper.SendCoinsFromModuleToModule(ctx, k.feeCollectorName, types.ModuleName, feesCollectedInt); err != nil",
    "return err",
    "end if",
    "feePool := k.GetFeePool(ctx)",
    "if totalPreviousPower == 0",
    "feePool.CommunityPool = feePool.CommunityPool.Add(feesCollected...)",
    "k.SetFeePool(ctx, feePool)",
    "return nil",
    "end if",
    "remaining := feesCollected",
    "communityTax, err := k.GetCommunityTax(ctx)",
    "if err != nil",
    "return err",
    "end if",
    "feeMultiplier := feesCollected.MulDecTruncate(math.LegacyOneDec().Sub(communityTax))",
    "allValidators := k.StakingKeeper.GetAllExocoreValidators(ctx)",
    "range allValidators key i value val",
    "pk, err := val.ConsPubKey()",
    "if err != nil",
    "continue",
    "end if",
    "validatorDetail, found := k.StakingKeeper.ValidatorByConsAddrForChainID( ctx, sdk.GetConsAddress(pk), avstypes.ChainIDWithoutRevision(ctx.ChainID()), )",
    "if !found",
    "continue",
    "end if",
    "if totalPreviousPower == 0",
    "return nil",
    "end if",
    "powerFraction := math.LegacyNewDec(val.Power).QuoTruncate(math.LegacyNewDec(totalPreviousPower))",
    "reward := feeMultiplier.MulDecTruncate(powerFraction)",
    "k.AllocateTokensToValidator(ctx, validatorDetail, reward, feePool)",
    "remaining = remaining.Sub(reward)",
    "end range",
    "feePool.CommunityPool = feePool.CommunityPool.Add(remaining...)",
    "k.SetFeePool(ctx, feePool)",
    "return nil"] := rfl

theorem C17_tie_shapeAllocateTokensToValidator : shapeAllocateTokensToValidator =
  [
    "valBz := val.GetOperator()",
    "accAddr := sdk.AccAddress(valBz)",
    "ops, err := k.StakingKeeper.OperatorInfo(ctx, accAddr.String())",
    "if err != nil",
    "end if",
    "commission := tokens.MulDec(ops.GetCommission().Rate)",
    "shared := tokens.Sub(commission)",
    "currentCommission := k.GetValidatorAccumulatedCommission(ctx, valBz)",
    "currentCommission.Commission = currentCommission.Commission.Add(commission...)",
    "k.SetValidatorAccumulatedCommission(ctx, valBz, currentCommission)",
    "operatorAccAddress := sdk.AccAddress(valBz)",
    "k.AllocateTokensToStakers(ctx, operatorAccAddress, shared, feePool)",
    "outstanding := k.GetValidatorOutstandingRewards(ctx, valBz)",
    "outstanding.Rewards = outstanding.Rewards.Add(tokens...)",
    "k.SetValidatorOutstandingRewards(ctx, valBz, outstanding)"] := rfl

theorem C17_tie_shapeAllocateTokensToStakers : shapeAllocateTokensToStakers =
  [
    "avsList, err := k.StakingKeeper.GetOptedInAVSForOperator(ctx, operatorAddress.String())",
    "if err != nil",
    "return",
    "end if",
    "stakersPowerMap, curTotalStakersPowers := make(map[string]math.LegacyDec), math.LegacyNewDec(0)",
    "globalStakerAddressList := make([]string, 0)",
    "range avsList key _ value avsAddress",
    "avsAssets, err := k.StakingKeeper.GetAVSSupportedAssets(ctx, avsAddress)",
    "if err != nil",
    "continue",
    "end if",
    "range avsAssets key assetID",
    "stakerList, err := k.StakingKeeper.GetStakersByOperator(ctx, operatorAddress.String(), assetID)",
    "if err != nil",
    "continue",
    "end if",
    "range stakerList.Stakers key _ value staker",
    "if curStakerPower, err := k.StakingKeeper.CalculateUSDValueForStaker(ctx, staker, avsAddress, operatorAddress.Bytes()); err != nil",
    "else",
    "if prevPower, seen := stakersPowerMap[staker]; seen",
    "stakersPowerMap[staker] = prevPower.Add(curStakerPower)",
    "else",
    "stakersPowerMap[staker] = curStakerPower",
    "globalStakerAddressList = append(globalStakerAddressList, staker)",
    "end if",
    "curTotalStakersPowers = curTotalStakersPowers.Add(curStakerPower)",
    "end if",
    "end range",
    "end range",
    "end range",
    "sort.Slice(…)",
    "return stakersPowerMap[globalStakerAddressList[i]].GT(stakersPowerMap[globalStakerAddressList[j]])",
    "end call",
    "remaining := rewardToAllStakers",
    "if curTotalStakersPowers.IsPositive()",
    "range globalStakerAddressList key _ value staker",
    "stakerPower := stakersPowerMap[staker]",
    "powerFraction := stakerPower.QuoTruncate(curTotalStakersPowers)",
    "rewardToSingleStaker := rewardToAllStakers.MulDecTruncate(powerFraction)",
    "k.AllocateTokensToSingleStaker(ctx, staker, rewardToSingleStaker)",
    "remaining = remaining.Sub(rewardToSingleStaker)",
    "end range",
    "end if",
    "feePool.CommunityPool = feePool.CommunityPool.Add(remaining...)"] := rfl

theorem C17_tie_shapeAllocateTokensToSingleStaker : shapeAllocateTokensToSingleStaker =
  [
    "currentStakerRewards := k.GetStakerRewards(ctx, stakerAddress)",
    "currentStakerRewards.Rewards = currentStakerRewards.Rewards.Add(reward...)",
    "k.SetStakerRewards(ctx, stakerAddress, currentStakerRewards)"] := rfl

theorem C17_tie_shapeDistrAfterEpochEnd : shapeDistrAfterEpochEnd =
  [
    "expEpochID := wrapper.keeper.GetParams(ctx).EpochIdentifier",
    "if strings.Compare(epochIdentifier, expEpochID) == 0",
    "previousTotalPower := wrapper.keeper.StakingKeeper.GetLastTotalPower(ctx)",
    "err := wrapper.keeper.AllocateTokens(ctx, previousTotalPower.Int64())",
    "if err != nil",
    "return",
    "end if",
    "end if"] := rfl

theorem C17_tie_shapeMintAfterEpochEnd : shapeMintAfterEpochEnd =
  [
    "params := wrapper.keeper.GetParams(ctx)",
    "if strings.Compare(identifier, params.EpochIdentifier) == 0",
    "if params.EpochReward.IsZero()",
    "return",
    "end if",
    "mintedCoin := sdk.NewCoin( params.MintDenom, params.EpochReward, )",
    "mintedCoins := sdk.NewCoins(mintedCoin)",
    "err := wrapper.keeper.MintCoins(ctx, mintedCoins)",
    "if err != nil",
    "return",
    "end if",
    "err = wrapper.keeper.AddCollectedFees(ctx, mintedCoins)",
    "if err != nil",
    "return",
    "end if",
    "end if"] := rfl

theorem C17_tie_shapeMintCoins : shapeMintCoins =
  [
    "return k.bankKeeper.MintCoins(ctx, types.ModuleName, newCoins)"] := rfl

theorem C17_tie_shapeAddCollectedFees : shapeAddCollectedFees =
  [
    "return k.bankKeeper.SendCoinsFromModuleToModule( ctx, types.ModuleName, k.feeCollectorName, fees, )"] := rfl

theorem C17_tie_stakersCommunityArg : stakersCommunityArg =
  "remaining" := rfl

/-- the only exit of AllocateTokensToStakers before the remainder is booked to the community pool is
the error of GetOptedInAVSForOperator; in particular an EMPTY collected staker list does not return
early (model: `allocStakers … [] R = some (rw, community + R)`, C17_empty_staker_list_remainder_to_community) -/
theorem C17_tie_stakersReturnsBeforeBooking : stakersReturnsBeforeBooking = ["err != nil"] := rfl

/-- position of a name in a list -/
def idxOf (x : String) : List String → Nat
  | [] => 0
  | y :: rest => if y == x then 0 else idxOf x rest + 1

/-- the distribution hook runs before the operator hook (voting-power update) and before the mint
hook at every epoch end — the order `onEpochEnd` uses -/
theorem C17_tie_hook_order :
    idxOf "DistrKeeper" epochHookOrder < idxOf "OperatorKeeper" epochHookOrder ∧
    idxOf "OperatorKeeper" epochHookOrder < idxOf "ExomintKeeper" epochHookOrder ∧
    idxOf "ExomintKeeper" epochHookOrder < epochHookOrder.length := by decide

/-- the epoch clock ticks before every other module's BeginBlocker that could touch the state the
hooks read (only upgrade and capability precede it) -/
theorem C17_tie_epochs_begin_first : idxOf "epochstypes" orderBeginBlockers = 2 := by decide

end ExoVerif.Distr
