import ExoVerif.Props.C13
import ExoVerif.Model.OracleParamsUpdate
import ExoVerif.Props.C12Params
/-!
# C13 — "its sources and decimals match the feeder's rule and token", against the CONFIGURED params

* a parameter update cannot touch the per-round message limit (`C13_update_keeps_quota`);
* a counted submission names only configured sources that are flagged valid (or the custom source 0)
  (`C13_counted_sources_valid`: x/oracle/types/params.go IsValidSource through sanityCheck);
* the rule clause at full strength — every source the feeder's rule lists is present — FAILS on the
  code as it is: CheckRules overwrites `notFound` per listed source, so only the LAST one is required
  (`C13_counted_sources_match_rule_full_fails`: rule [1, 2], submission [2, 2]; finding F-13b, replayed
  on the real application by harness/dom_oracle_rules.go); what holds is the count and the last source
  (`C13_counted_sources_match_rule_partial`).
-/
namespace ExoVerif.Oracle

theorem C13_update_keeps_quota (inp : ParamsIn) (p p' : Params) (h : Nat)
    (hu : applyUpdate inp p h = some p') : p'.maxNonce = p.maxNonce :=
  (C12_update_keeps_round_limits inp p p' h hu).1

/-- every source of a message that passes sanityCheck is the custom source 0 or a configured source
flagged valid -/
theorem C13_counted_sources_valid (p : Params) : ∀ (srcs : List PSource), sanitySources p srcs = none →
    ∀ s ∈ srcs, s.sourceID = 0 ∨ (s.sourceID < p.sources.length ∧ (p.sources.getD s.sourceID default).valid = true) := by
  intro srcs
  induction srcs with
  | nil => intro _ s hs; simp at hs
  | cons ps rest ih =>
    intro h s hs
    unfold sanitySources at h
    split at h
    · exact absurd h (by simp)
    · split at h
      · exact absurd h (by simp)
      · rename_i hrange
        split at h
        · exact absurd h (by simp)
        · rename_i hvalid
          have hrest : sanitySources p rest = none := by
            split at h
            · split at h
              · exact absurd h (by simp)
              · exact h
            · split at h
              · exact absurd h (by simp)
              · exact h
          rcases List.mem_cons.mp hs with e | e
          · subst e
            by_cases h0 : s.sourceID = 0
            · exact Or.inl h0
            · right
              simp only [ne_eq, h0, not_false_eq_true, decide_true, Bool.true_and, decide_eq_true_eq, Nat.not_le,
                Bool.not_eq_true', Bool.not_eq_false] at hrange hvalid
              constructor
              · omega
              · rw [List.getD_eq_getElem?_getD]; exact hvalid
          · exact ih hrest s e

/-- the sources feeder `fid`'s rule asks for: the listed ones, or — rule `[0, …]` — every source
flagged valid -/
def requiredSources (p : Params) (fid : Nat) : List Nat :=
  let rule := p.rules.getD ((p.feeder? fid).getD default).ruleID []
  if rule.headD 0 = 0 then (List.range p.sources.length).filter (fun sID => sID ≠ 0 && (p.sources.getD sID default).valid)
  else rule

/-- the clause at full strength: a submission that passes CheckRules carries every required source -/
def C13_counted_sources_match_rule_full : Prop :=
  ∀ (p : Params) (fid : Nat) (srcs : List PSource), checkRules p fid srcs = true →
    ∀ s ∈ requiredSources p fid, ∃ x ∈ srcs, x.sourceID = s

def wRuleParams : Params :=
  { maxNonce := 3, thA := 2, thB := 3, maxDetID := 5, maxSizePrices := 100,
    sources := [default, { valid := true, det := true }, { valid := true, det := false }],
    rules := [[0], [1, 2]], tokenDecimals := [0, 0],
    feeders := [default, { tokenID := 1, ruleID := 1, startRoundID := 1, startBaseBlock := 1, interval := 6, endBlock := 0 }] }

def wRuleSrcs : List PSource := [{ sourceID := 2, prices := [] }, { sourceID := 2, prices := [] }]

/-- **F-13b**: under rule [1, 2] the source list [2, 2] passes CheckRules — source 1 is missing. -/
theorem C13_counted_sources_match_rule_full_fails : ¬ C13_counted_sources_match_rule_full := by
  intro h
  have h1 := h wRuleParams 1 wRuleSrcs (by decide) 1 (by decide)
  revert h1
  decide

theorem foldl_last_only {α} (f : α → Bool) : ∀ (l : List α) (a : Bool),
    l.foldl (fun _ s => f s) a = match l.getLast? with | none => a | some x => f x := by
  intro l
  induction l with
  | nil => intro a; rfl
  | cons x rest ih =>
    intro a
    rw [List.foldl_cons, ih]
    cases rest with
    | nil => rfl
    | cons y r =>
      have hl : (y :: r).getLast? = some ((y :: r).getLast (by simp)) := List.getLast?_eq_some_getLast (by simp)
      simp only [List.getLast?_cons_cons, hl]

/-- what CheckRules does enforce for a rule that lists its sources: as many sources as the rule
lists, and the LAST listed one among them -/
theorem C13_counted_sources_match_rule_partial (p : Params) (fid : Nat) (srcs : List PSource)
    (rule : List Nat) (hr : p.rules.getD ((p.feeder? fid).getD default).ruleID [] = rule)
    (hne : rule ≠ []) (h0 : rule.headD 0 ≠ 0) (hc : checkRules p fid srcs = true) :
    srcs.length = rule.length ∧ ∃ last, rule.getLast? = some last ∧ ∃ x ∈ srcs, x.sourceID = last := by
  unfold checkRules at hc
  simp only [hr] at hc
  have hl : rule.length > 0 := by cases rule with | nil => exact absurd rfl hne | cons _ _ => simp
  simp only [hl, if_true, h0, if_false] at hc
  split at hc
  · exact absurd hc (by simp)
  · rename_i hlen
    simp only [ne_eq, Decidable.not_not] at hlen
    refine ⟨hlen.symm, ?_⟩
    rw [foldl_last_only] at hc
    cases hg : rule.getLast? with
    | none =>
      cases rule with
      | nil => exact absurd rfl hne
      | cons a r => simp [List.getLast?_eq_none_iff] at hg
    | some last =>
      refine ⟨last, rfl, ?_⟩
      simp only [hg, Bool.not_not] at hc
      simpa [List.any_eq_true] using hc

end ExoVerif.Oracle
