import ExoVerif.Proofs.Oracle
/-!
# C14 — oracle restart equivalence

`recacheAgc` (Model/Oracle.lean) is the transcription of recacheAggregatorContext; the
correspondence run replays real restarts against it line by line. The theorems below isolate why
recovery is *not* equivalent in general (the replay log keeps neither nonces nor the finalizing
message) and what does hold.
-/
namespace ExoVerif.Oracle

/-- what the replay log hands back for a logged message: nonce 0, base block 0 (single.go) -/
def replayed (m : Msg) : Msg := { m with nonce := 0, basedBlock := 0 }

/-- recacheAggregatorContext feeds every logged message to FillPrice with nonce 0. -/
theorem C14_replay_uses_nonce_zero (g : Agc) (p : Params) (it : ItemM) (rest : List ItemM) :
    replayMsgs g (some p) (it :: rest) =
      replayMsgs (g.fillPrice p { creator := it.validator, feederID := it.feederID, basedBlock := 0, nonce := 0, prices := it.srcs }).1 (some p) rest := rfl

/-- Equivalence at the filter, stated outright: the sources that reach the calculator/aggregator
from two messages of a round are the same on a recached node (nonces lost) as on the node that
never stopped. -/
def C14_full : Prop :=
  ∀ (f : Filter) (m1 m2 : Msg), m1.nonce ≠ m2.nonce →
    ((f.filtrate (replayed m1)).1.filtrate (replayed m2)).2 = ((f.filtrate m1).1.filtrate m2).2

def f0 : Filter := { maxNonce := 3, maxDetID := 5, vNonce := [], vSource := [] }
def pA : PriceTD := { price := 2, decimal := 0, ts := 100, tsKind := 0, detID := "9" }
def pB : PriceTD := { price := 2, decimal := 0, ts := 100, tsKind := 0, detID := "10" }
def mA : Msg := { creator := 0, feederID := 1, basedBlock := 2, nonce := 1, prices := [{ sourceID := 1, prices := [pA] }] }
def mB : Msg := { creator := 0, feederID := 1, basedBlock := 2, nonce := 2, prices := [{ sourceID := 1, prices := [pB] }] }

/-- It fails (F-14a): a validator's second message of a round is processed by the continuous node
and silently dropped by the recached one, because both replayed messages carry nonce 0 and the
filter refuses a repeated nonce. -/
theorem C14_full_fails : ¬ C14_full := by
  intro h
  have := h f0 mA mB (by decide)
  revert this
  have l9 : "9".length = 1 := by decide
  have l10 : "10".length = 2 := by decide
  simp [Filter.filtrate, Filter.addPSource, filterDetIDs, setAdd, replayed, f0, mA, mB, pA, pB, alookup, aset, l9, l10]

/-- The general shape of the loss: `Set.Add` refuses a value it already holds, so once one replayed
message (nonce 0) of a validator went through, every further replayed message of that validator is
refused by the nonce filter whatever it carries. -/
theorem C14_repeated_nonce_refused (size : Nat) (s : List Int) (n : Int) (h : n ∈ s) :
    setAdd size s n = (s, false) := by
  unfold setAdd
  by_cases h1 : (s.length == size) = true
  · simp [h1]
  · have : s.contains n = true := by simp [h]
    simp [h1, h]

/-- What does hold (the hypothesis the harness evaluates on the real state before choosing a
restart point): a validator's *first* message of a round passes the nonce filter whatever nonce it
carries, so replaying it with nonce 0 is faithful; rounds with at most one accepted message per
validator that are still open are restored exactly (checked on the real application at every
eligible height of every generated history). -/
theorem C14_first_message_nonce_irrelevant_partial (size : Nat) (n : Int) (h : 0 < size) :
    setAdd size ([] : List Int) n = ([n], true) := by
  unfold setAdd
  have : ¬ (0 = size) := by omega
  simp [this]

example : alookup mA.creator f0.vNonce = none ∧ 0 < f0.maxNonce := by decide

end ExoVerif.Oracle
