import ExoVerif.Proofs.Oracle
import ExoVerif.Proofs.OracleRestart
/-!
# C14 — oracle restart equivalence

`recacheAgc` (Model/Oracle.lean) is the transcription of recacheAggregatorContext; the
correspondence run replays real restarts against it line by line. The theorems below isolate why
recovery is *not* equivalent in general (the replay log keeps neither nonces nor the finalizing
message) and what does hold.
-/
namespace ExoVerif.Oracle

/-- what the replay log hands back for a logged message: nonce 0, base block 0 (single.go) -/
def replayed (m : Msg) : Msg := { m with nonce := 0, basedBlock := 0 }

/-- recacheAggregatorContext feeds every logged message to FillPrice with nonce 0. -/
theorem C14_replay_uses_nonce_zero (g : Agc) (p : Params) (it : ItemM) (rest : List ItemM) :
    replayMsgs g (some p) (it :: rest) =
      replayMsgs (g.fillPrice p { creator := it.validator, feederID := it.feederID, basedBlock := 0, nonce := 0, prices := it.srcs }).1 (some p) rest := rfl

/-- Equivalence at the filter, stated outright: the sources that reach the calculator/aggregator
from two messages of a round are the same on a recached node (nonces lost) as on the node that
never stopped. -/
def C14_full : Prop :=
  ∀ (f : Filter) (m1 m2 : Msg), m1.nonce ≠ m2.nonce →
    ((f.filtrate (replayed m1)).1.filtrate (replayed m2)).2 = ((f.filtrate m1).1.filtrate m2).2

def f0 : Filter := { maxNonce := 3, maxDetID := 5, vNonce := [], vSource := [] }
def pA : PriceTD := { price := 2, decimal := 0, ts := 100, tsKind := 0, detID := "9" }
def pB : PriceTD := { price := 2, decimal := 0, ts := 100, tsKind := 0, detID := "10" }
def mA : Msg := { creator := 0, feederID := 1, basedBlock := 2, nonce := 1, prices := [{ sourceID := 1, prices := [pA] }] }
def mB : Msg := { creator := 0, feederID := 1, basedBlock := 2, nonce := 2, prices := [{ sourceID := 1, prices := [pB] }] }

/-- It fails (F-14a): a validator's second message of a round is processed by the continuous node
and silently dropped by the recached one, because both replayed messages carry nonce 0 and the
filter refuses a repeated nonce. -/
theorem C14_full_fails : ¬ C14_full := by
  intro h
  have := h f0 mA mB (by decide)
  revert this
  have l9 : "9".length = 1 := by decide
  have l10 : "10".length = 2 := by decide
  simp [Filter.filtrate, Filter.addPSource, filterDetIDs, setAdd, replayed, f0, mA, mB, pA, pB, alookup, aset, l9, l10]

/-- The general shape of the loss: `Set.Add` refuses a value it already holds, so once one replayed
message (nonce 0) of a validator went through, every further replayed message of that validator is
refused by the nonce filter whatever it carries. -/
theorem C14_repeated_nonce_refused (size : Nat) (s : List Int) (n : Int) (h : n ∈ s) :
    setAdd size s n = (s, false) := by
  unfold setAdd
  by_cases h1 : (s.length == size) = true
  · simp [h1]
  · have : s.contains n = true := by simp [h]
    simp [h1, h]

/-- What does hold (the hypothesis the harness evaluates on the real state before choosing a
restart point): a validator's *first* message of a round passes the nonce filter whatever nonce it
carries, so replaying it with nonce 0 is faithful; rounds with at most one accepted message per
validator that are still open are restored exactly (checked on the real application at every
eligible height of every generated history). -/
theorem C14_first_message_nonce_irrelevant_partial (size : Nat) (n : Int) (h : 0 < size) :
    setAdd size ([] : List Int) n = ([n], true) := by
  unfold setAdd
  have : ¬ (0 = size) := by omega
  simp [this]

example : alookup mA.creator f0.vNonce = none ∧ 0 < f0.maxNonce := by decide

/-! ## the restart equivalence, proved under the hypotheses that exclude the recorded findings

Definitions (Proofs/OracleRestart.lean): `Block`, `beginBlock`, `runTxs`, `runBlock`, `runBlocks` —
the live run, block by block, through the model's own `deliverTx` / `endBlock` exactly as
Driver/Oracle.lean steps `orc.begin` / `orc.tx` / `orc.end`; `restartAt s bt` — `orc.restart` after the
begin of the next block (process memory dropped, `getAgc` → `recacheAgc` over the committed store);
`Agc.Z` — the in-memory context with every recorded nonce replaced by 0 (everything else kept,
including which validators have a nonce set, how many nonces, and all list orders). -/

/-- **The property, stated outright** (plain equality of the rebuilt process memory, for every
history). It does not hold: F-14a, F-14b (`C14_full_fails` and the two directed harness runs) and the
nonce values themselves (a recached filter holds 0 where the live one holds the real nonce). -/
def C14_equivalence_statement : Prop :=
  ∀ (s0 : State) (bs : List Block) (bt : Int) (s : State) (outs : List (List TxOut)),
    s0.agc = none → runBlocks s0 bs = some (s, outs) →
    restartAt s bt = some { beginBlock s bt with cache := some s.cacheD }

/-- the decidable hypothesis of the partial theorem. `faithful s0 bs` evaluates the live run and
requires (conjunct → why it is needed):
* the run does not halt, `ValidatorUpdateBlock = h` exists and the params log is the single entry
  written at init, older than the window, equal to the current params (the model has no params-change
  message: this is the model's own shape, not a restriction of the histories);
* `from < to` for `from = max(h+1, to − MaxNonce + 1)`, `to` = restart height: the last validator-set
  change is at least two blocks back and `MaxNonce ≥ 2` (otherwise recache takes the branch without
  any replay, which this proof does not cover; before the F-14c repair that branch did not prepare
  the rounds at all — `C14_restart_after_valset_change_regression`);
* `startOK`: after EndBlock of height `from − 1` the live context equals (up to nonces) the context
  `recacheAgc` starts its replay from — empty, prepared at `from − 1` — and the cache is the one a
  recached node holds: no round is in progress with messages older than the window, every round that
  the arithmetic puts outside its price window is closed, every one inside it at offset 0 is open
  (rung 4 of the ladder is taken as this precise, decidable hypothesis; it fails e.g. for a restart
  fewer than `MaxNonce` blocks after a round was finalized — F-14b and its tail);
* `winOK` over the `to − from` blocks of the window: no validator update (EndBlock force-seals on any
  non-empty update list, but only an effective change is persisted as ValidatorUpdateBlock); every
  message that passes `checkMsg` is (a) "cached" — logged, i.e. neither ignored nor the finalizing
  message whose block entries `RemoveCache` drops (F-14b), (b) the first of its validator at that
  worker (F-14a: the log has no nonces), (c) reproduced when the *logged* sources (the filter's
  output) are fed back to the same state; and the persisted `RecentMsg` of that height is exactly
  what the block cached (a check on the committed store, not derived from the pruning logic; before
  the F-14d repair it failed on a chain younger than `MaxNonce`, where the uint64 subtraction in
  `cacheMsgs.commit` wrapped and the commit erased the whole log — `C14_young_chain_log_kept_regression`). -/
def Faithful (s0 : State) (bs : List Block) : Prop := faithful s0 bs = true

instance (s0 : State) (bs : List Block) : Decidable (Faithful s0 bs) := by unfold Faithful; infer_instance

/-- Rung 1 (the heart): a validator's first message at a worker is processed identically whatever
nonce it carries — replaying the logged item with nonce 0 / base block 0 yields the same result and
the same context up to the recorded nonce, from any two contexts that agree up to nonces. -/
theorem C14_first_message_replay_partial (g g' : Agc) (p : Params) (m m' : Msg) (hZ : g.Z = g'.Z)
    (hc : m.creator = m'.creator) (hf : m.feederID = m'.feederID) (hp : m.prices = m'.prices)
    (hfresh : nonceSet g p m = []) :
    (g.fillPrice p m).1.Z = (g'.fillPrice p m').1.Z ∧ (g.fillPrice p m).2 = (g'.fillPrice p m').2 :=
  Agc.fillPrice_sim g g' p m m' hZ hc hf hp (okG_fresh g g' p m m' hZ hc hf hfresh)

/-- Rungs 2–3: over any number of blocks that satisfy the window monitor, the live run (real
`deliverTx` with the ante handler and `checkMsg`, real `endBlock`) and `replayLoop` over the persisted
log stay in step: at every block boundary the live context is, up to nonces, the replay state after
its pending `PrepareRoundEndBlock`; the cache and the validator set are unchanged. -/
theorem C14_window_replay_partial (p : Params) (c0 : Cache) (dog : List (Nat × Int)) (recent : List (Nat × Params))
    (msgs : List (Nat × List ItemM)) (prev : Nat)
    (hm : c0.msgs = []) (hv : c0.vUpdate = false) (hpu : c0.pUpdate = false) (win : List Block)
    (s : State) (g : Agc) (hB : Boundary p c0 dog s g) (hw : winOK msgs s win = true) :
    ∃ s' outs g', runBlocks s win = some (s', outs) ∧
      replayLoop recent msgs win.length (s.height + 1) prev g [] = some (g', prev, []) ∧
      Boundary p c0 dog s' g' ∧ s'.height = s.height + win.length :=
  window_sim p c0 dog recent msgs prev hm hv hpu win s g hB hw

/-- **C14, partial**: for every genesis state (any parameters, any validator set), every finite block
sequence that is `Faithful`, and every block time of the next block: the node restarted after the
last committed block rebuilds — solely from the committed store, through `recacheAgc` — a process
state that is *equal* to the live one in every component (store, cache, validator set, height, time)
except the aggregator context, and the rebuilt context equals the live one up to the values of the
recorded nonces (`Agc.Z`). -/
theorem C14_restart_equivalence_partial (s0 : State) (bs : List Block) (bt : Int) (hF : Faithful s0 bs) :
    ∃ s outs gl gr, runBlocks s0 bs = some (s, outs) ∧ s.agc = some gl ∧
      restartAt s bt = some { beginBlock s bt with agc := some gr } ∧ gr.Z = gl.Z :=
  restart_equiv s0 bs bt hF

/-! ### non-vacuity: 3 validators (20/10/10), one feeder (start 2, interval 7, MaxNonce 3), 10 blocks.
Round 2 (base 2) receives v1's price in block 3, misses the threshold and is closed at block 5 with
the previous price carried forward (stored round 2); round 3 (base 9) is open and holds the prices
of v1 and v2 (block 10, inside the replay window 9..10) when the node restarts in block 11.
(A round closed by a *final price* cannot be evaluated by `decide`: `median` sorts by `List.mergeSort`,
a well-founded recursion the kernel does not unfold; the harness runs cover that case.) -/

def exParams : Params :=
  { maxNonce := 3, thA := 2, thB := 3, maxDetID := 5, maxSizePrices := 100,
    sources := [{ valid := false, det := false }, { valid := true, det := true }],
    rules := [[], [0], [1]], tokenDecimals := [0, 0],
    feeders := [{ tokenID := 0, ruleID := 0, startRoundID := 0, startBaseBlock := 0, interval := 0, endBlock := 0 },
                { tokenID := 1, ruleID := 2, startRoundID := 2, startBaseBlock := 2, interval := 7, endBlock := 0 }] }

def exGenesis : State :=
  { store := { prices := [(1, { next := 2, rounds := [(1, { price := some 1, decimal := 0, ts := -1, roundID := 1 })] })],
               nonces := [], recentMsgs := [], msgIndex := [], recentParams := [], paramsIndex := [], vuBlock := none,
               params := exParams },
    agc := none, cache := none, dogfood := [(0, 20), (1, 10), (2, 10)], height := 0, blockTime := 0 }

def exTx (v based : Nat) (nonce : Int) (det : String) : Tx :=
  { size := 271, infos := [{ pubkeyMatches := true, sigValid := true }],
    msgs := [{ creator := v, feederID := 1, basedBlock := based, nonce := nonce,
               prices := [{ sourceID := 1, prices := [{ price := 2, decimal := 0, ts := 100, tsKind := 0, detID := det }] }] }] }

def exEmpty : Block := { blockTime := 100, txs := [], updates := [] }

def exBlocks : List Block :=
  [exEmpty, exEmpty,
   { blockTime := 100, txs := [exTx 1 2 1 "9"], updates := [] },
   exEmpty, exEmpty, exEmpty, exEmpty, exEmpty, exEmpty,
   { blockTime := 100, txs := [exTx 1 9 1 "9", exTx 2 9 1 "9"], updates := [] }]

example : Faithful exGenesis exBlocks := by decide

/-- the conclusion evaluates as claimed on that history: all three transactions accepted, stored
round 2 carried forward (failed round), round 3 open; the restarted node's memory differs from the
live one (the nonces) and agrees with it up to `Z`; store and cache are identical. -/
example :
    ((runBlocks exGenesis exBlocks).map (fun r => (r.2, (r.1.store.token 1).next))) =
      some ([[], [], [TxOut.ok], [], [], [], [], [], [], [TxOut.ok, TxOut.ok]], 3) := by decide

example :
    ((runBlocks exGenesis exBlocks).bind (fun r => r.1.agc.map (fun g => g.rounds))) =
      some [(1, { basedBlock := 9, nextRoundID := 3, status := Status.open })] := by decide

example :
    ((runBlocks exGenesis exBlocks).bind (fun r => (restartAt r.1 100).map (fun s' =>
      (decide (s'.agc = r.1.agc), decide (s'.agc.map Agc.Z = r.1.agc.map Agc.Z), decide (s'.cache = r.1.cache),
       decide (s'.store = r.1.store))))) = some (false, true, true, true) := by decide

/-! ## after the restart: results of the following transactions

`SRel s s'`: the two process states are equal except for the aggregator context, which agrees up to
nonces. `txsBits s s' txs` (decidable, evaluated on both runs in lockstep): for every message that
reaches `FillPrice`, the nonce filter computes the same bit on both nodes. This is what `Z` forgets;
on the real chain it is enforced from outside the aggregator by the ante handler
(`CheckAndIncreaseNonce`: the nonce let through is the stored nonce + 1, hence ≥ 1 and larger than every
nonce recorded in the live filter, while a recached filter holds only 0s and the nonces let through since
the restart; both sets have the same size). Not proved here: that link to the stored nonces, and the
composition through `EndBlock` on the State level (its context operations are covered by
`C14_seal_prepare_agree_partial`). -/

/-- the full continuation statement: every later block agrees (results and stored state).
Proved with one added decidable hypothesis (the nonce invariant on the live end state), and without it for
histories from a first start, in Props/C14Cont.lean: `C14_continuation_partial`,
`C14_continuation_first_start_partial`. -/
def C14_continuation_statement : Prop :=
  ∀ (s0 : State) (bs cont : List Block) (bt : Int), Faithful s0 bs →
    ∀ s outs s', runBlocks s0 bs = some (s, outs) → restartAt s bt = some s' →
      ∀ (txs : List Tx) (upd : List (Nat × Int)),
        (match endBlock (runTxs (beginBlock s bt) txs).1 upd, endBlock (runTxs s' txs).1 upd with
         | some t, some t' =>
           (runTxs (beginBlock s bt) txs).2 = (runTxs s' txs).2 ∧
           (runBlocks t cont).map (fun r => (r.2, r.1.store)) = (runBlocks t' cont).map (fun r => (r.2, r.1.store))
         | none, none => True
         | _, _ => False)

/-- proved instance: all transactions of the block in which the node restarted. Accepted / rejected
submissions (`TxOut` per transaction, incl. the message index and error class) are identical, and
after them the two nodes still hold identical stores (finalized prices, round ids, nonces, replay
log), caches and validator sets, and contexts equal up to nonces. -/
theorem C14_restart_block_results_partial (s0 : State) (bs : List Block) (bt : Int) (hF : Faithful s0 bs) :
    ∃ s outs s', runBlocks s0 bs = some (s, outs) ∧ restartAt s bt = some s' ∧ SRel (beginBlock s bt) s' ∧
      ∀ txs : List Tx, txsBits (beginBlock s bt) s' txs = true →
        (runTxs (beginBlock s bt) txs).2 = (runTxs s' txs).2 ∧
        SRel (runTxs (beginBlock s bt) txs).1 (runTxs s' txs).1 := by
  obtain ⟨s, outs, gl, gr, hrun, ha, hre, hz⟩ := restart_equiv s0 bs bt hF
  have hR : SRel (beginBlock s bt) { beginBlock s bt with agc := some gr } := ⟨gl, gr, ha, rfl, hz.symm⟩
  exact ⟨s, outs, _, hrun, hre, hR, fun txs hb => runTxs_rel txs _ _ hR hb⟩

/-- `SealRound` and `PrepareRoundEndBlock` (the context operations of EndBlock) return the same failed
/ sealed / newly opened feeder lists on two contexts that agree up to nonces, and keep them so. -/
theorem C14_seal_prepare_agree_partial (g g' : Agc) (p : Params) (h : Nat) (force : Bool) (hz : g.Z = g'.Z) :
    (g.sealRound p h force).2 = (g'.sealRound p h force).2 ∧
    (g.sealRound p h force).1.Z = (g'.sealRound p h force).1.Z ∧
    (g.prepareRound h).2 = (g'.prepareRound h).2 ∧ (g.prepareRound h).1.Z = (g'.prepareRound h).1.Z :=
  ⟨(sealRound_rel g g' p h force hz).1, (sealRound_rel g g' p h force hz).2,
   (prepareRound_rel g g' h hz).1, (prepareRound_rel g g' h hz).2⟩

/-! ## two restart points at which the unrepaired code diverged (F-14c, F-14d): regression theorems

Both were found as false proof goals of the development above, exhibited in the model, reproduced on
the real application (harness `oracle_restart`, scenarios `f14c=1` / `f14d=1`: DeliverTx `ok` vs
`oracle:2`; stored NextRoundID 3 vs 2) and repaired; the model follows the repaired code, the pre-fix
behaviour is kept as `recacheShortBranchPreFix` / `commitMsgsPreFix` (Proofs/OracleRestart.lean). -/

/-- a validator-set change in block 9, the block at which round 3 opens; restart in block 10 -/
def exBlocksVU : List Block :=
  [exEmpty, exEmpty, exEmpty, exEmpty, exEmpty, exEmpty, exEmpty, exEmpty,
   { blockTime := 100, txs := [], updates := [(2, 11)] }]

/-- F-14c. Restart in the block right after a validator-set change: `recacheAggregatorContext` takes
its `from >= to` branch. Before the repair that branch set params and validators but never called
`PrepareRoundEndBlock`: the restarted node had no rounds and refused ("round", oracle:2) the price the
continuous node accepts for the round that opened in that block. Repaired (prepare(to−2), seal(to−1,
forced iff the validator set changed there), prepare(to−1)): the rebuilt context and cache are *equal*
to the live ones and the price is accepted. (The history is outside `Faithful` — the theorem's proof
does not cover this branch — hence the direct evaluation.) -/
theorem C14_restart_after_valset_change_regression :
    ((runBlocks exGenesis exBlocksVU).bind (fun r => (recacheShortBranchPreFix (beginBlock r.1 100)).map
      (fun g => (g.rounds, g.checkMsg exParams ((exTx 0 9 1 "9").msgs.headD default)))) =
      some ([], some (MsgErr.invalidMsg "round"))) ∧
    ((runBlocks exGenesis exBlocksVU).map (fun r => (deliverTx (beginBlock r.1 100) (exTx 0 9 1 "9")).2) = some TxOut.ok) ∧
    ((runBlocks exGenesis exBlocksVU).bind (fun r => (restartAt r.1 100).map (fun s' =>
      (decide (s'.agc = r.1.agc), decide (s'.cache = r.1.cache), (deliverTx s' (exTx 0 9 1 "9")).2))) =
      some (true, true, TxOut.ok)) := by decide

/-- a chain younger than MaxNonce (= 5 here; feeder starts at block 1) -/
def exFeeder5 : Feeder := { tokenID := 1, ruleID := 2, startRoundID := 2, startBaseBlock := 1, interval := 9, endBlock := 0 }
def exParams5 : Params := { exParams with maxNonce := 5, feeders := [exParams.feeders.getD 0 default, exFeeder5] }
def exGenesis5 : State := { exGenesis with store := { exGenesis.store with params := exParams5 } }
def exBlocksYoung : List Block :=
  [exEmpty,
   { blockTime := 100, txs := [exTx 1 1 1 "9"], updates := [] },
   { blockTime := 100, txs := [exTx 2 1 1 "9"], updates := [] }]

/-- F-14d. At heights below MaxNonce the uint64 expression `block - MaxNonce` in `cacheMsgs.commit`
wrapped, so the commit of block 3 erased the log entry of block 2 although the replay window of a
restart in block 4 starts at block 2 (`commitMsgsPreFix` on the very store and cache of block 3 keeps
only key 3). Repaired (no pruning while `block ≤ MaxNonce`): both entries are kept, the history is
`Faithful`, so `C14_restart_equivalence_partial` applies, and the rebuilt context agrees with the live
one up to nonces. -/
theorem C14_young_chain_log_kept_regression :
    ((runBlocks exGenesis5 (exBlocksYoung.take 2)).map (fun r =>
        let s := (runTxs (beginBlock r.1 100) [exTx 2 1 1 "9"]).1
        ((commitMsgsPreFix s.store 5 3 s.cacheD.msgs).recentMsgs.map (·.1),
         (commitMsgs s.store 5 3 s.cacheD.msgs).recentMsgs.map (·.1))) = some ([3], [2, 3])) ∧
    ((runBlocks exGenesis5 exBlocksYoung).map (fun r => (r.2, r.1.store.recentMsgs.map (·.1))) =
      some ([[], [TxOut.ok], [TxOut.ok]], [2, 3])) ∧
    ((runBlocks exGenesis5 exBlocksYoung).bind (fun r => (restartAt r.1 100).map (fun s' =>
      decide (s'.agc.map Agc.Z = r.1.agc.map Agc.Z))) = some true) ∧
    faithful exGenesis5 exBlocksYoung = true := by decide

/-- MaxNonce 5 on a chain older than MaxNonce: feeder base 6, v1's price in block 7, v2's in block 8 -/
def exFeederW : Feeder := { tokenID := 1, ruleID := 2, startRoundID := 2, startBaseBlock := 6, interval := 11, endBlock := 0 }
def exParamsW : Params := { exParams with maxNonce := 5, feeders := [exParams.feeders.getD 0 default, exFeederW] }
def exGenesisW : State := { exGenesis with store := { exGenesis.store with params := exParamsW } }
def exBlocksW : List Block :=
  [exEmpty, exEmpty, exEmpty, exEmpty, exEmpty, exEmpty,
   { blockTime := 100, txs := [exTx 1 6 1 "9"], updates := [] },
   { blockTime := 100, txs := [exTx 2 6 1 "9"], updates := [] },
   exEmpty]

/-- F-14f. `recacheAggregatorContext` computed the start of its replay window from the package variable
`common.MaxNonce` before any params were read; a freshly started process holds the compiled-in default 3
there. With MaxNonce 5 a restart in block 10 replayed from block 8 and lost the report logged at block 7,
which is still in the store (reproduced on the real application: NextRoundID 3 vs 2). Repaired (window
from the stored params): the replay starts at block 6, the history is `Faithful`, and the rebuilt
context agrees with the live one up to nonces. -/
theorem C14_replay_window_from_params_regression :
    ((runBlocks exGenesisW exBlocksW).map (fun r =>
        (r.1.store.recentMsgs.map (·.1), replayFromIPreFix r.1 1, replayFromI r.1 1)) = some ([7, 8], 8, 6)) ∧
    ((runBlocks exGenesisW exBlocksW).bind (fun r => (restartAt r.1 100).map (fun s' =>
      decide (s'.agc.map Agc.Z = r.1.agc.map Agc.Z))) = some true) ∧
    faithful exGenesisW exBlocksW = true := by decide

/-- caches.go: cacheValidator.add — every update that changes the cached validator map (a removal,
a changed power, a new validator) raises the `update` flag, which is what makes CommitCache persist
ValidatorUpdateBlock: if the map after `add` differs from the map before, the flag is set. -/
theorem C14_valset_change_persisted (cur upd : List (Nat × Int)) :
    (cacheAddVals cur upd).1 ≠ cur → (cacheAddVals cur upd).2 = true := by
  intro hne
  have := cacheAddVals_flag upd (cur, false)
  simp only at this
  rcases this with h | h
  · exact h
  · exfalso
    apply hne
    have : cacheAddVals cur upd = (cur, false) := h
    rw [this]


/-- a pure removal in block 9 (validator 2 leaves), the block at which round 3 opens -/
def exBlocksRemoval : List Block :=
  [exEmpty, exEmpty, exEmpty, exEmpty, exEmpty, exEmpty, exEmpty, exEmpty,
   { blockTime := 100, txs := [], updates := [(2, 0)] }]

/-- on that history ValidatorUpdateBlock is the block of the removal, the departed validator is gone
from the context and the cache, and the node restarted in block 10 rebuilds exactly the live context -/
example :
    ((runBlocks exGenesis exBlocksRemoval).map (fun r => (r.1.store.vuBlock, r.1.agc.map (·.vals), r.1.agc.map (·.total))) =
      some (some 9, some [(0, 20), (1, 10)], some 30)) ∧
    ((runBlocks exGenesis exBlocksRemoval).bind (fun r => (restartAt r.1 100).map (fun s' =>
      (decide (s'.agc = r.1.agc), decide (s'.cache = r.1.cache)))) = some (true, true)) := by decide

end ExoVerif.Oracle
