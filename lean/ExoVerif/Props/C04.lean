import ExoVerif.Proofs.LedgerSlash
/-!
# C04 — Slashing is bounded, proportional, hits only stake at risk, once per event

Model: `slashAssets s o infraction p` (x/operator/keeper/slash.go: SlashAssets for the re-based,
capped proportion p), `slashProportion` (the re-basing), `cutPool`, `slashFromUndelegation`.
-/
namespace ExoVerif.Ledger
open ExoVerif ExoVerif.KV ExoVerif.Dec

/-- the effective proportion min(1, power·factor / value) lies in [0, 1] for every power ≥ 0,
factor ≥ 0 and value > 0 — in particular when the operator's value has shrunk to almost nothing
since the infraction -/
theorem C04_proportion_in_unit_interval (power : Int) (factor value : Dec) (hpw : 0 ≤ power)
    (hf : 0 ≤ factor.raw) (hv : 0 < value.raw) : UnitP (slashProportion power factor value) := by
  unfold slashProportion UnitP Dec.minDec
  have hnum : 0 ≤ (Dec.mul (Dec.ofInt power) factor).raw := by
    unfold Dec.mul Dec.ofInt
    have : 0 ≤ power * PREC * factor.raw := Int.mul_nonneg (Int.mul_nonneg hpw (by decide)) hf
    rw [chopRound_of_nonneg _ this]; exact chopRoundNonneg_nonneg _ this
  have hq : 0 ≤ (Dec.quo (Dec.mul (Dec.ofInt power) factor) value).raw := by
    unfold Dec.quo
    have h1 : 0 ≤ (Dec.mul (Dec.ofInt power) factor).raw * (PREC * PREC) := Int.mul_nonneg hnum (by decide)
    have h2 := tdiv_nonneg' _ _ h1 hv
    rw [chopRound_of_nonneg _ h2]; exact chopRoundNonneg_nonneg _ h2
  split
  · simp only [Dec.ofInt]; constructor <;> simp [PREC]
  · rename_i hlt
    have h1 : (Dec.ofInt 1).raw = PREC := by simp [Dec.ofInt]
    rw [h1] at hlt
    exact ⟨hq, by omega⟩

/-- each pool of the operator loses trunc(p·amount): between 0 and what is there; its pending
figure is untouched -/
theorem C04_pool_cut (pl : Pool) (p : Dec) (hl : Bool) (hp : UnitP p) (ha : 0 ≤ pl.amount) :
    (cutPool pl p hl).2 = (Dec.mulInt p pl.amount).truncateInt ∧
    (cutPool pl p hl).1.amount = pl.amount - (cutPool pl p hl).2 ∧
    0 ≤ (cutPool pl p hl).2 ∧ (cutPool pl p hl).2 ≤ pl.amount ∧
    (cutPool pl p hl).1.pending = pl.pending := cutPool_spec pl p hl hp ha

/-- each at-risk pending undelegation loses min(trunc(p·original amount), what is left of it) -/
theorem C04_undelegation_cut (r : URec) (p : Dec) (hp : UnitP p) (ha : 0 ≤ r.amount) (hact : 0 ≤ r.actual) :
    (slashFromUndelegation r p).2 = min ((Dec.mulInt p r.amount).truncateInt) r.actual ∧
    (slashFromUndelegation r p).1 = { r with actual := r.actual - (slashFromUndelegation r p).2 } ∧
    0 ≤ (slashFromUndelegation r p).2 ∧ (slashFromUndelegation r p).2 ≤ r.actual :=
  slashFromUndelegation_spec r p hp ha hact

/-- frame for records: undelegations of other operators, and undelegations of this operator
started before the infraction height, are untouched; when the infraction is not strictly before
the current height no record is touched at all; an at-risk record changes only as `C04_undelegation_cut` says -/
theorem C04_records_frame (s : L) (o : OID) (inf : Nat) (p : Dec) (k : RecKey) :
    find? (slashAssets s o inf p).recs k =
      (find? s.recs k).map (fun r =>
        if inf < s.height ∧ k.op = o ∧ inf ≤ k.height then (slashFromUndelegation r p).1 else r) := by
  unfold slashAssets
  by_cases hh : inf < s.height
  · simp only [hh, if_true, true_and]
    exact slashRecords_find s.recs o inf p k
  · simp only [hh, if_false, false_and]
    cases find? s.recs k <;> rfl

/-- frame for pools: pools of other operators are untouched -/
theorem C04_other_pools_frame (s : L) (o : OID) (inf : Nat) (p : Dec) (k : OID × AID) (hk : k.1 ≠ o) :
    find? (slashAssets s o inf p).pools k = find? s.pools k := by
  unfold slashAssets
  simp only []
  generalize s.pools = pools
  induction pools with
  | nil => rfl
  | cons e rest ih =>
    by_cases he : e.1 = k
    · obtain ⟨ek, ev⟩ := e
      simp only at he
      subst he
      simp only [List.map_cons, hk, if_false, find?, if_true]
    · by_cases ho : e.1.1 = o
      · simp only [List.map_cons, ho, if_true, find?, he, if_false]; exact ih
      · simp only [List.map_cons, ho, if_false, find?, he]; exact ih

/-- frame: no staker balance, staking total, association, index or hold count changes -/
theorem C04_frame (s : L) (o : OID) (inf : Nat) (p : Dec) :
    (slashAssets s o inf p).stakers = s.stakers ∧ (slashAssets s o inf p).totals = s.totals ∧
    (slashAssets s o inf p).assoc = s.assoc ∧ (slashAssets s o inf p).sidx = s.sidx ∧
    (slashAssets s o inf p).pidx = s.pidx ∧ (slashAssets s o inf p).holds = s.holds ∧
    (slashAssets s o inf p).height = s.height := by
  unfold slashAssets
  by_cases hh : inf < s.height <;> simp [hh]

/-- nothing increases: a slash removes a non-negative amount from the ledger value of every asset -/
theorem C04_value_never_increases (s : L) (o : OID) (inf : Nat) (p : Dec) (a : AID) (hp : UnitP p)
    (hr : RecsNonneg s.recs) (hpl : PoolsNonneg s.pools) :
    value (slashAssets s o inf p) a ≤ value s a := by
  obtain ⟨cut, h0, h⟩ := slashAssets_value s o inf p a hp hr hpl
  omega

/-! ## once per event -/

/-- `Slash` = SlashAssets + UpdateOperatorSlashInfo in ONE cache context (after the repair of
F-04a; tied to the Go source by the regenerated fact `slashCommitAfterInfo`): the slash ID is
looked up first; a known ID is rejected and nothing is written. -/
def slashOnce (s : L) (ids : List (OID × String × String)) (o : OID) (avs id : String) (inf : Nat) (p : Dec) :
    Except String (L × List (OID × String × String)) :=
  if ids.contains (o, avs, id) then .error "ErrSlashInfoExist"
  else .ok (slashAssets s o inf p, (o, avs, id) :: ids)

/-- presenting the same slash identifier for the same operator and AVS again has no further effect -/
theorem C04_replay_no_effect (s s1 : L) (ids ids1 : List (OID × String × String)) (o : OID) (avs id : String)
    (inf inf2 : Nat) (p p2 : Dec) (h : slashOnce s ids o avs id inf p = .ok (s1, ids1)) :
    ∃ e, slashOnce s1 ids1 o avs id inf2 p2 = .error e := by
  unfold slashOnce at h
  split at h
  · cases h
  · injection h with h; injection h with h1 h2
    subst h2
    exact ⟨"ErrSlashInfoExist", by simp [slashOnce]⟩

/-! non-vacuity -/
example : UnitP ⟨50000000000000000⟩ := by unfold UnitP; decide
example : (cutPool ⟨101000000, 0, ⟨101000000000000000000000000⟩, ⟨0⟩⟩ ⟨50000000000000000⟩ true).2 = 5050000 := by decide

end ExoVerif.Ledger
