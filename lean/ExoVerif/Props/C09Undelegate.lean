import ExoVerif.Props.C09Values
import ExoVerif.Proofs.AtomicUndelegate
/-!
# C09 for `undelegate` through the delegation precompile

precompiles/delegation/tx.go: Undelegate calls x/delegation's UndelegateFrom on the EVM call's own context
(no cache context; `Run` answers `false` for an error and keeps the writes).  UndelegateFrom writes four rows
in RemoveShare — operator pool, staker row, delegation row, the operator's staker list — *before* it stores
the undelegation record (SetUndelegationRecords, which can refuse) and calls the dogfood hook (which ends in
IncrementUndelegationHoldCount, which can refuse).  By shape the entry point is therefore not atomic
(`C09_precompileUndelegate_shape_not_atomic`); it is atomic because none of the seven checks that stand after
the first write can fail once the fifteen before it have passed:

* `C09_precompileUndelegate_fail_atomic_partial` — the order-level statement, the seven checks assumed;
* `C09_undelegate_late_steps_cannot_fail`, `C09_undelegate_fail_atomic_values` — the assumption discharged
  with the real meaning of the steps (`Model/AtomicUndelegate.lean`), for **every request** — any staker,
  operator, amount, LayerZero nonce and transaction hash, in particular a nonce / hash / block that a stored
  record already uses — in every state that has no negative pool amount and lists every delegator
  (`Undelegate.Good`), and `C09_undelegate_fail_atomic_invariant` / `_reachable`: those two facts are part of
  the C01 / C02 invariants proved for all histories.  The remaining premises are the codec round trip of the
  operator address and a hold count below 2⁶⁴−1 (one increment per accepted undelegation of the key);
* what carries the theorem is that SetUndelegationRecords **overwrites**: its only refusal tests the
  completion height, which is the current height plus a constant.  `C09_undelegate_refusing_setter_witness`:
  the same program with a setter that refuses a stored key — the "set once" check its TODO comment
  suggests — answers `false` with the three rows changed as soon as two messages of one Ethereum transaction
  carry one nonce.  Tied to the source by `C09_tie_undelegate_error_paths`.

`C09_pathwise_shape_fail_atomic` is the general tool (late checks pass *along the run*).
-/
namespace ExoVerif.Atomic
open ExoVerif ExoVerif.KV ExoVerif.AtomicValues

/-- **The pathwise guarded shape theorem.**  Leading checks `pre`, then `rest`; if — once the guards have
passed on the entry state — every check of `inf` passes in the state the run of `rest` reaches it in
(`lateOkFrom`), and `rest` has the check/write shape relative to `inf`, a failing run returns the entry state.
(`C09_guarded_shape_fail_atomic` asks the late checks to pass in every state of a write-invariant relation;
this form also covers a late check that reads what an earlier write of the same run has changed.) -/
theorem C09_pathwise_shape_fail_atomic {σ : Type} (I : Impl σ) (inf pre : List String) (rest : Prog) (s : σ)
    (H : (∀ g, g ∈ pre → I.chk g s s = none) → lateOkFrom I s inf rest s)
    (hs : shapeOK inf rest false false 0 = true)
    (e : Err) (h : (run I (pre.map Step.check ++ rest) s).1 = .error e) :
    (run I (pre.map Step.check ++ rest) s).2 = s :=
  run_fail_atomic_guarded_path I inf pre rest s H hs e h

/-! ## order level -/

/-- undelegate: after UpdateOperatorAssetState's write, the staker-row update, UpdateDelegationState,
DeleteStakerForOperator, SetUndelegationRecords and the hook's IncrementUndelegationHoldCount may still fail -/
def undelegateAssumed : List String :=
  ["UpdateAssetValue(TotalDepositAmount)", "UpdateAssetValue(WithdrawableAmount)",
   "UpdateAssetValue(PendingUndelegationAmount)", "UpdateDelegationState", "DeleteStakerForOperator",
   "SetUndelegationRecords", "IncrementUndelegationHoldCount"]

theorem C09_precompileUndelegate_fail_atomic_partial {σ : Type} (I : Impl σ) (s : σ)
    (hinf : ∀ n, n ∈ undelegateAssumed → ∀ c, I.chk n s c = none) (e : Err)
    (h : (run I precompileUndelegate s).1 = .error e) : (run I precompileUndelegate s).2 = s :=
  run_fail_atomic_assuming I undelegateAssumed _ s hinf (by decide) e h

theorem C09_precompileUndelegate_shape_not_atomic : atomicShape precompileUndelegate = false := by decide

/-- which refusals of the undelegate precompile can leave a trace, by position (what the correspondence run
compares with the byte snapshots): everything up to UpdateOperatorAssetState's own checks is clean,
everything from the staker-row update on is not -/
theorem C09_undelegate_refusal_positions :
    (["CheckExocoreGatewayAddr", "GetDelegationParamsFromInputs", "ctx.Value(TxHash)", "OpAmount.IsPositive", "IsOperator",
      "ValidateUndelegationAmount", "share.IsPositive", "GetOperatorSpecifiedAssetInfo", "share.GT(TotalShare)",
      "TokensFromShares", "UpdateAssetValue(operator.TotalAmount)", "UpdateAssetDecValue(OperatorShare)"].all
        (fun n => dirtyAt precompileUndelegate n false false 0 == some false)) = true ∧
    (undelegateAssumed.all (fun n => dirtyAt precompileUndelegate n false false 0 == some true)) = true := by
  decide

/-- order-level witness: a refusal of SetUndelegationRecords comes after four writes -/
theorem C09_undelegate_late_refusal_witness :
    precompileCall (run (counting ["SetUndelegationRecords"]) precompileUndelegate) 0
      = (.failed "SetUndelegationRecords", 4) ∧
    precompileCall (run (counting ["ValidateUndelegationAmount"]) precompileUndelegate) 0
      = (.failed "ValidateUndelegationAmount", 0) ∧
    precompileCall (run (counting []) precompileUndelegate) 0 = (.ok, 7) := by
  refine ⟨?_, ?_, ?_⟩ <;> decide

/-! ## value level -/

/-- the late checks discharged below are exactly the ones the `_partial` theorem assumes, and the split of
the program into guards and rest is the program -/
theorem C09_undelegate_values_discharge_the_partial_assumptions :
    Undelegate.late = undelegateAssumed ∧
    precompileUndelegate = Undelegate.guards.map Step.check ++ Undelegate.rest := ⟨rfl, Undelegate.prog_split⟩

/-- **steps after the first write cannot fail.**  In a good entry state, once the fifteen checks that precede
UpdateOperatorAssetState's write have passed, each of the seven later checks passes in the state the run is in
when it reaches it: the staker-row update adds a non-negative amount; UpdateDelegationState subtracts a share
ValidateUndelegationAmount has bounded by the row's share, from the row no earlier step has written;
DeleteStakerForOperator finds the list key because the delegator held a positive share; SetUndelegationRecords
gets a completion height of the current height plus the unbonding period — whatever key the record has, stored
or not; the hold count is below its maximum. -/
theorem C09_undelegate_late_steps_cannot_fail (r : Undelegate.Req) (s : Ledger.L) (hg : Undelegate.Good r s)
    (G : ∀ g, g ∈ Undelegate.guards → (Undelegate.impl r).chk g s s = none) :
    lateOkFrom (Undelegate.impl r) s undelegateAssumed Undelegate.rest s :=
  Undelegate.late_ok r s hg G

/-- undelegate through the precompile, value level: from a good entry state a call that reports failure
leaves the ledger — pools, staker rows, delegation rows, staker lists, the three undelegation stores, the hold
counts — exactly as it was.  Every request: `r.nonce`, `r.hash` and the current height may be those of a
stored record. -/
theorem C09_undelegate_fail_atomic_values (r : Undelegate.Req) (s : Ledger.L) (hg : Undelegate.Good r s)
    (h : (precompileCall (run (Undelegate.impl r) precompileUndelegate) s).1.isFailure = true) :
    (precompileCall (run (Undelegate.impl r) precompileUndelegate) s).2 = s :=
  C09_precompile_of_run _ s (fun e he => Undelegate.fail_atomic r s hg e he) h

namespace Reach
open ExoVerif.Ledger

/-- a listed delegator: the list key exists -/
theorem list_key_of_mem {s : L} {o : OID} {a : AID} {st : SID} (h : st ∈ listOf s o a) :
    (find? s.slist (o, a)).isSome = true := by
  unfold listOf at h
  cases hf : find? s.slist (o, a) with
  | some l => rfl
  | none => rw [getD_of_none _ _ _ hf] at h; cases h

/-- the C01 / C02 invariants give the two state premises of `Undelegate.Good` -/
theorem good {s : L} (hi : C02Full s) (hn : NN s) (r : Undelegate.Req)
    (hh : r.hooked = true → getD s.holds (Undelegate.recKey r s) 0 < Undelegate.maxHold)
    (hc : r.parseOk = true → r.opCanonValid = true) : Undelegate.Good r s :=
  ⟨(goodRow hi hn r.o r.a).1,
   fun h0 => list_key_of_mem (hi.exact.lists.slist.sup r.o r.a r.st h0), hh, hc⟩

end Reach

open ExoVerif.Ledger in
/-- **C09 for undelegate, from every state of the invariants** (no negative figure, every delegator with a
non-zero share listed: `C02Full`, `NN` — e.g. an imported genesis with delegations and pending records) -/
theorem C09_undelegate_fail_atomic_invariant (s : L) (hi : C02Full s) (hn : NN s) (r : Undelegate.Req)
    (hh : r.hooked = true → getD s.holds (Undelegate.recKey r s) 0 < Undelegate.maxHold)
    (hc : r.parseOk = true → r.opCanonValid = true)
    (h : (precompileCall (run (Undelegate.impl r) precompileUndelegate) s).1.isFailure = true) :
    (precompileCall (run (Undelegate.impl r) precompileUndelegate) s).2 = s :=
  C09_undelegate_fail_atomic_values r s (Reach.good hi hn r hh hc) h

open ExoVerif.Ledger in
/-- **C09 for undelegate, in every reachable state.**  After every finite history of deposits, withdrawals,
delegations, undelegations, associations, dissociations, holds, releases, block ends and slashes from genesis,
and for every request — in particular one whose (block, nonce, tx hash, operator) is the key of a record the
history has stored — the undelegate precompile either succeeds or reports failure having written nothing. -/
theorem C09_undelegate_fail_atomic_reachable (s0 : L) (ops : List LOp) (hg : Reach.Genesis s0)
    (hok : AllOk0 s0 ops) (r : Undelegate.Req)
    (hh : r.hooked = true → getD (ops.foldl lstep s0).holds (Undelegate.recKey r (ops.foldl lstep s0)) 0 < Undelegate.maxHold)
    (hc : r.parseOk = true → r.opCanonValid = true)
    (h : (precompileCall (run (Undelegate.impl r) precompileUndelegate) (ops.foldl lstep s0)).1.isFailure = true) :
    (precompileCall (run (Undelegate.impl r) precompileUndelegate) (ops.foldl lstep s0)).2 = ops.foldl lstep s0 := by
  obtain ⟨hi, hn⟩ := Reach.inv s0 ops (Reach.genesis_inv hg) hok
  exact C09_undelegate_fail_atomic_invariant _ hi hn r hh hc h

open ExoVerif.Ledger in
/-- the value-level steps are those of the ledger model: when `Ledger.undelegate` (compared with the Go keeper
call by call in the `ledger` domain) accepts, the run of `precompileUndelegate` under `Undelegate.impl` passes
every check and ends in the same state — plus one on the record key's hold count when the dogfood hook tracks
the undelegation (`Ledger.hold`, an environment operation of the ledger model) -/
theorem C09_undelegate_values_agree_with_ledger (r : Undelegate.Req) (s s' : L) (hgw : r.gatewayOk = true)
    (hp : r.parseOk = true) (htx : r.txHashOk = true) (hcv : r.opCanonValid = true)
    (hh : r.hooked = true → getD s.holds (Undelegate.recKey r s) 0 ≠ Undelegate.maxHold)
    (h : undelegate s r.st r.a r.o r.x r.nonce r.hash = .ok s') :
    precompileCall (run (Undelegate.impl r) precompileUndelegate) s
      = (.ok, if r.hooked then hold s' (Undelegate.recKey r s) else s') := by
  unfold precompileCall
  rw [Undelegate.run_eq_undelegate r s s' hgw hp htx hcv hh h]

/-! ## witnesses -/

namespace UWitness
open ExoVerif.Ledger

/-- deposit 100, delegate 70 to o1, undelegate 10 with nonce 7 in transaction 0xaa (block 1) -/
def hist : List LOp :=
  [.deposit "s_0x65" "a" 100, .delegate "s_0x65" "a" "o1" 70, .undelegate "s_0x65" "a" "o1" 10 7 "0xaa"]

def st : L := hist.foldl lstep Witness.g0

/-- the same message again: same staker, operator, nonce, transaction hash, block -/
def again (x : Int) : Undelegate.Req :=
  { gatewayOk := true, parseOk := true, txHashOk := true, opCanonValid := true, hooked := true,
    st := "s_0x65", a := "a", o := "o1", x := x, nonce := 7, hash := "0xaa" }

/-- the value-level meaning with ONE change: SetUndelegationRecords refuses a record key that is already
stored (the "can only be set once" check its TODO comment suggests) -/
def implRefusing (r : Undelegate.Req) : Impl L :=
  { Undelegate.impl r with
    chk := fun n s0 cur =>
      if n = "SetUndelegationRecords" ∧ has cur.recs (Undelegate.recKey r cur) then some (.reject "ErrUndelegationRecordExists")
      else Undelegate.chk r n s0 cur }

theorem hist_ok : AllOk0 Witness.g0 hist := by
  refine ⟨trivial, trivial, ?_, trivial⟩
  show FreshNonce _ _
  intro k r h
  have e : (lstep (lstep Witness.g0 (.deposit "s_0x65" "a" 100)) (.delegate "s_0x65" "a" "o1" 70)).recs = [] := by decide
  rw [e] at h
  cases h

end UWitness

open ExoVerif.Ledger in
/-- non-vacuity of the reachable theorem **on the colliding input**: a genesis ledger and a history meet its
hypotheses; the reached state holds the record (o1, block 1, nonce 7, 0xaa) and 60 delegated tokens; the same
message again — the same record key — is accepted (the record is overwritten, the pool moves 10 more tokens to
pending, the hold count goes to 1); a request for more than is delegated is refused and — by the theorem as
well as by evaluation — leaves the state -/
theorem C09_undelegate_reachable_witness :
    Reach.Genesis Witness.g0 ∧ AllOk0 Witness.g0 UWitness.hist ∧
    has UWitness.st.recs ⟨"o1", 1, 7, "0xaa"⟩ = true ∧
    find? UWitness.st.pools ("o1", "a") = some ⟨60, 10, ⟨60000000000000000000⟩, ⟨0⟩⟩ ∧
    (precompileCall (run (Undelegate.impl (UWitness.again 10)) precompileUndelegate) UWitness.st).1 = .ok ∧
    find? (precompileCall (run (Undelegate.impl (UWitness.again 10)) precompileUndelegate) UWitness.st).2.pools ("o1", "a")
      = some ⟨50, 20, ⟨50000000000000000000⟩, ⟨0⟩⟩ ∧
    getD (precompileCall (run (Undelegate.impl (UWitness.again 10)) precompileUndelegate) UWitness.st).2.holds
      ⟨"o1", 1, 7, "0xaa"⟩ 0 = 1 ∧
    precompileCall (run (Undelegate.impl (UWitness.again 61)) precompileUndelegate) UWitness.st
      = (.failed "ErrInsufficientShares", UWitness.st) := by
  refine ⟨Witness.g0_genesis, UWitness.hist_ok, by decide, by decide, by decide, by decide, by decide, by decide⟩

open ExoVerif.Ledger in
/-- **the overwrite is what carries the theorem.**  With a setter that refuses a stored key, the same message
again is answered `false` (ErrUndelegationRecordExists) in the reachable state of the witness above, with the
pool row, the staker row and the delegation row changed and no record for the 10 tokens moved to pending; a
message with a fresh nonce is still accepted, and a refusal before the first write is still clean -/
theorem C09_undelegate_refusing_setter_witness :
    (precompileCall (run (UWitness.implRefusing (UWitness.again 10)) precompileUndelegate) UWitness.st).1
      = .failed "ErrUndelegationRecordExists" ∧
    (precompileCall (run (UWitness.implRefusing (UWitness.again 10)) precompileUndelegate) UWitness.st).2 ≠ UWitness.st ∧
    find? (precompileCall (run (UWitness.implRefusing (UWitness.again 10)) precompileUndelegate) UWitness.st).2.pools ("o1", "a")
      = some ⟨50, 20, ⟨50000000000000000000⟩, ⟨0⟩⟩ ∧
    (precompileCall (run (UWitness.implRefusing (UWitness.again 10)) precompileUndelegate) UWitness.st).2.recs = UWitness.st.recs ∧
    (precompileCall (run (UWitness.implRefusing { UWitness.again 10 with nonce := 8 }) precompileUndelegate) UWitness.st).1 = .ok ∧
    precompileCall (run (UWitness.implRefusing (UWitness.again 61)) precompileUndelegate) UWitness.st
      = (.failed "ErrInsufficientShares", UWitness.st) := by
  refine ⟨by decide, by decide, by decide, by decide, by decide, by decide⟩

/-- `Undelegate.Good` holds of the witness state and request (and fails for a hold count at its maximum) -/
example : Undelegate.Good (UWitness.again 10) UWitness.st :=
  ⟨by decide, fun _ => by decide, fun _ => by decide, fun _ => rfl⟩

end ExoVerif.Atomic
