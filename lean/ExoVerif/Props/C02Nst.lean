import ExoVerif.Props.C02Extra
import ExoVerif.Props.C01Nst
import ExoVerif.Props.C03Accept
import ExoVerif.Proofs.LedgerListsNst
/-!
# C02 over histories that contain native-restaking balance adjustments

`C02_full_reachable` / `C02_clauses_reachable` cover every finite history of the ten ledger operations.
`UpdateNSTBalance` (third phase) also moves shares: it calls RemoveShare(isUndelegation = false) for every
delegation of the adjusted staker. `nstUpdate_shareWorld` (Proofs/LedgerListsNst.lean) shows that the whole C02
invariant survives it, so:

* `C02_full_nst_step` / `C02_full_reachable_with_nst` — `C02Full` (total share = Σ delegators' shares, self-share =
  Σ over associated delegators, staker list = exactly the non-zero share holders, TotalAmount ≤ TotalShare.raw,
  amount 0 ⇒ shares 0) after every finite history of the ten ledger operations AND balance adjustments;
* `C02_clauses_from_genesis_with_nst` — the four clauses of the first sentence, from genesis, nothing assumed about
  any state (per-operation: fresh undelegation nonces, slash proportions in [0,1]);
* `C02_fair_reachable_with_nst` — the fairness bound in every such state;
* `C03_undelegation_accepted_reachable_with_nst` — and C03's acceptance of an undelegation within the position.
-/
namespace ExoVerif.Ledger
open ExoVerif ExoVerif.KV

theorem C02Full.shareWorld {s : L} (h : C02Full s) : ShareWorld s := ⟨h.exact.lists, h.exact.sub, h.exact.price, h.zero⟩
theorem ShareWorld.c02Full {s : L} (h : ShareWorld s) : C02Full s := ⟨⟨h.lists, h.sub, h.price⟩, h.zero⟩

/-- an accepted balance adjustment keeps the C02 invariant -/
theorem C02_full_nst {s s' : L} {st : SID} {a : AID} {x : Int} (hi : C02Full s)
    (h : nstUpdate s st a x = .ok s') : C02Full s' := (nstUpdate_shareWorld hi.shareWorld h).c02Full

/-- one step of any of the eleven operations, accepted or rejected -/
theorem C02_full_nst_step (s : L) (op : LOp') (hi : C02Full s) (hn : NN s) (hok : OpOk0' s op) :
    C02Full (lstep' s op) := by
  cases op with
  | base op => exact C02_full_step s op hi (opOk_of_nn hn hok)
  | nst st a x =>
    simp only [lstep']
    cases h : nstUpdate s st a x with
    | error e => exact hi
    | ok s' => exact C02_full_nst hi h

/-- **C02, first sentence, over every finite history with balance adjustments** -/
theorem C02_full_reachable_with_nst (s : L) (ops : List LOp') (hi : C02Full s) (hr : RecInv s) (hn : NN s)
    (hok : AllOk0' s ops) : C02Full (ops.foldl lstep' s) := by
  induction ops generalizing s with
  | nil => exact hi
  | cons op rest ih =>
    simp only [List.foldl_cons]
    obtain ⟨h1, h2⟩ := hok
    obtain ⟨_, _, nn1, i1⟩ := C01_nst_net_step s op "a" (by decide) hr hn h1
    exact ih (lstep' s op) (C02_full_nst_step s op hi hn h1) i1 nn1 h2

/-- from genesis: the four clauses of the first sentence -/
theorem C02_clauses_from_genesis_with_nst (s : L) (ops : List LOp') (hf : Fresh s) (hl : s.slist = [])
    (ha : s.assoc = []) (hok : AllOk0' s ops) :
    let s' := ops.foldl lstep' s
    (∀ o a, (getD s'.pools (o, a) zeroPool).totalShare.raw = sumP (shAt o a) s'.deleg) ∧
    (∀ o a, (getD s'.pools (o, a) zeroPool).opShare.raw = sumP (opAt s'.assoc o a) s'.deleg) ∧
    (∀ o a st, st ∈ getD s'.slist (o, a) [] ↔ (getD s'.deleg (st, a, o) zeroDeleg).share.raw ≠ 0) ∧
    (∀ o a, (getD s'.slist (o, a) []).Nodup) ∧
    (∀ o a, (getD s'.pools (o, a) zeroPool).amount = 0 →
      (getD s'.pools (o, a) zeroPool).totalShare.raw = 0 ∧
      ∀ st, (getD s'.deleg (st, a, o) zeroDeleg).share.raw = 0) := by
  have h := C02_full_reachable_with_nst s ops (c02Full_empty s hf.pools hf.deleg hl ha) hf.recInv hf.nn hok
  refine ⟨h.exact.lists.sums.share, h.exact.lists.sums.opShare, h.exact.listInv, h.exact.lists.slist.nodup, ?_⟩
  intro o a h0
  exact ⟨h.zero o a h0, C02_zero_pool_delegators _ h.exact.lists h.zero o a h0⟩

/-- fairness in every state reachable with balance adjustments -/
theorem C02_fair_reachable_with_nst (s0 : L) (ops : List LOp') (hf : Fresh s0) (hl : s0.slist = [])
    (ha : s0.assoc = []) (hok : AllOk0' s0 ops) (st : SID) (a : AID) (o : OID) (x : Int)
    (st2 : SID) (a2 : AID) (o2 : OID) (hne : (st2, a2, o2) ≠ (st, a, o)) :
    (∀ s', delegate (ops.foldl lstep' s0) st a o x = .ok s' →
      posOf (ops.foldl lstep' s0) st2 a2 o2 ≤ posOf s' st2 a2 o2 ∧
      posOf s' st2 a2 o2 ≤ posOf (ops.foldl lstep' s0) st2 a2 o2 + 1) ∧
    (∀ n hash s', undelegate (ops.foldl lstep' s0) st a o x n hash = .ok s' →
      posOf s' st2 a2 o2 ≤ posOf (ops.foldl lstep' s0) st2 a2 o2 + 1 ∧
      posOf (ops.foldl lstep' s0) st2 a2 o2 ≤ posOf s' st2 a2 o2 + 1) := by
  have hfull := C02_full_reachable_with_nst s0 ops (c02Full_empty s0 hf.pools hf.deleg hl ha) hf.recInv hf.nn hok
  exact ⟨fun s' h => C02_fair_delegate_state _ s' st a o x hfull h st2 a2 o2 hne,
    fun n hash s' h => C02_fair_undelegate_state _ s' st a o x n hash hfull h st2 a2 o2 hne⟩

/-- C03's acceptance of an undelegation within the position, in every state reachable from genesis by the ten
ledger operations and balance adjustments -/
theorem C03_undelegation_accepted_reachable_with_nst (s0 : L) (ops : List LOp') (hf : Fresh s0)
    (hl : s0.slist = []) (ha : s0.assoc = []) (hok : AllOk0' s0 ops) (st : SID) (a : AID) (o : OID) (x : Int)
    (n : Nat) (hash : String) (hop : (ops.foldl lstep' s0).operators.contains o = true) (hx : 0 < x)
    {d : DelegRow} {p : Pool} (hd : find? (ops.foldl lstep' s0).deleg (st, a, o) = some d)
    (hp : find? (ops.foldl lstep' s0).pools (o, a) = some p) {pos : Int}
    (hpos : tokensFromShares d.share p.totalShare p.amount = .ok pos) (hle : x ≤ pos) :
    ∃ s', undelegate (ops.foldl lstep' s0) st a o x n hash = .ok s' :=
  C03_undelegation_always_accepted _ st a o x n hash
    (C02_full_reachable_with_nst s0 ops (c02Full_empty s0 hf.pools hf.deleg hl ha) hf.recInv hf.nn hok)
    hop hx hd hp hpos hle

/-! non-vacuity: a history with a balance decrease that reaches the delegated positions of two pools -/

private def n0 : L :=
  { height := 1, unbonding := 2, totals := [("A", 0)], operators := ["o1", "o2"], clientChains := [],
    stakers := [], pools := [], deleg := [], slist := [], assoc := [], recs := [], sidx := [], pidx := [],
    holds := [], bal := [], escrow := 0, gDep := [], gWd := [], gSlashed := [] }

private def nops : List LOp' :=
  [.base (.deposit "s" "A" 1000), .base (.deposit "t" "A" 500), .base (.delegate "s" "A" "o1" 300),
   .base (.delegate "s" "A" "o2" 200), .base (.delegate "t" "A" "o1" 500),
   .base (.slash "o1" 1 ⟨250000000000000000⟩), .nst "s" "A" (-700)]

private theorem n0_fresh : Fresh n0 := ⟨rfl, rfl, rfl, rfl, rfl, rfl, by decide, by decide, by decide, rfl, rfl, rfl⟩
private theorem nq : UnitP ⟨250000000000000000⟩ := by unfold UnitP; decide
private theorem nops_ok : AllOk0' n0 nops := ⟨trivial, trivial, trivial, trivial, trivial, nq, trivial, trivial⟩

example : C02Full (nops.foldl lstep' n0) :=
  C02_full_reachable_with_nst n0 nops (c02Full_empty n0 rfl rfl rfl rfl) n0_fresh.recInv n0_fresh.nn nops_ok

-- the decrease of 700 took the withdrawable 500 and cut both of s's positions (225 and 200 tokens' worth)
example : (nops.foldl lstep' n0).pools.map (fun e => (e.1.1, e.2.amount)) = [("o1", 495), ("o2", 106)] ∧
    find? (nops.foldl lstep' n0).stakers ("s", "A") = some ⟨301, 0, 0⟩ := by decide

end ExoVerif.Ledger
