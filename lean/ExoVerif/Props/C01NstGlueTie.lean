import ExoVerif.Generated.Facts
import ExoVerif.Model.NstGlue
/-!
# C01 tie for the glue that decides the amount of a native-restaking adjustment

`Model/NstGlue.lean` is a hand transcription of precompiles/assets/tx.go: DepositOrWithdraw (its native-restaking
branch), x/oracle/keeper/native_token.go: UpdateNSTValidatorListForStaker and UpdateNSTByBalanceChange.
tools/exofacts (facts_nstglue.go) re-reads the three Go functions on every run and renders their control skeleton
(`if` conditions, the assignments to the amounts and lists they juggle, the calls that matter, loop exits) in source
order; the theorems compare the regenerated skeletons with the ones the model was transcribed from. An edit that
changes the shape — the sign handed to the oracle for a withdrawal dropped or moved, another cap than 32, the range
check of a report loosened, the record stored although its balance is not positive — breaks them, and the
correspondence run `nstglue` then looks for a concrete history (model-diff / C01.nst-reported / C01.conservation).
-/
namespace ExoVerif.NstGlue
open ExoVerif.Gen

/-- DepositOrWithdraw as transcribed -/
def depositOrWithdrawTranscribed : List String := [
  "call CheckExocoreGatewayAddr(contract.CallerAddress)",
  "call CacheContext()",
  -- depositNST / withdrawNST: Ledger.deposit / Ledger.withdraw on the staker row and the staking total
  "call PerformDepositOrWithdraw(depositWithdrawParams)",
  "if depositWithdrawParams.Action==assetstypes.DepositNST||depositWithdrawParams.Action==assetstypes.WithdrawNST",
  -- the amount handed to the oracle record: x for a deposit …
  "assign opAmount := depositWithdrawParams.OpAmount",
  "if depositWithdrawParams.Action==assetstypes.WithdrawNST",
  -- … and -x for a withdrawal (withdrawNST: updateValidatorList … (-x))
  "assign opAmount = opAmount.Neg()",
  "call UpdateNSTValidatorListForStaker(assetID,hexutil.Encode(depositWithdrawParams.StakerAddress),hexutil.Encode(depositWithdrawParams.ValidatorPubkey),opAmount)",
  -- one cache context: all or nothing (Except)
  "call writeFunc()",
  "return method.Outputs.Pack(true,info.TotalDepositAmount.BigInt())"]

/-- the amount handed to the oracle record is the booked amount for a deposit and its NEGATION for a withdrawal -/
theorem C01_tie_nst_withdraw_sign : Gen.nstGlueDepositOrWithdrawSkeleton = depositOrWithdrawTranscribed := by rfl

/-- UpdateNSTValidatorListForStaker as transcribed -/
def validatorListTranscribed : List String := [
  "assign stakerInfo := &types.StakerInfo{}",
  "if value==nil",
  -- valsOf = [] for a new record: [pk]
  "assign stakerInfo = types.NewStakerInfo(stakerAddr,validatorPubkey)",
  "call NewStakerInfo(stakerAddr,validatorPubkey)",
  "if amount.IsPositive()",
  -- deposit: valsOf ++ [pk]
  "assign stakerInfo.ValidatorPubkeyList = append(stakerInfo.ValidatorPubkeyList,validatorPubkey)",
  "assign newBalance := types.BalanceInfo{}",
  "if latestIndex>=0",
  -- balOf: the Balance of the latest entry (0 without one)
  "assign newBalance = *(stakerInfo.BalanceList[latestIndex])",
  "if amount.IsPositive()",
  "if vPubkey==validatorPubkey",
  -- withdrawal: (valsOf).erase pk, first occurrence only (break)
  "assign stakerInfo.ValidatorPubkeyList = append(stakerInfo.ValidatorPubkeyList[:i],stakerInfo.ValidatorPubkeyList[i+1:]...)",
  "break",
  "assign efbUnit := sdkmath.NewIntWithDecimal(int64(maxEffectiveBalance[assetID]),decimal)",
  -- effUnits
  "if amount.GTE(efbUnit)",
  "assign newBalance.Balance += int64(maxEffectiveBalance[assetID])",
  "assign newBalance.Balance += amount.Quo(decimalInt).Int64()",
  "assign stakerList.StakerAddrs = make([]string,0,1)",
  "if valueStakerList!=nil",
  "assign exists := false",
  "if stakerExists==stakerAddr",
  -- listed staker: leaves the list when the balance falls to 0 or below
  "if newBalance.Balance<=0",
  "assign stakerList.StakerAddrs = append(stakerList.StakerAddrs[:idx],stakerList.StakerAddrs[idx+1:]...)",
  "if len(stakerList.StakerAddrs)==0",
  "call Delete(keyStakerList)",
  "call Set(keyStakerList)",
  "if valueMoved!=nil",
  "call Set(keyMoved)",
  "assign exists = true",
  "break",
  "if !exists",
  -- unlisted staker: only a deposit is accepted ("remove unexist validator")
  "if !amount.IsPositive()",
  "assign stakerList.StakerAddrs = append(stakerList.StakerAddrs,stakerAddr)",
  "call Set(keyStakerList)",
  -- listed staker: leaves the list when the balance falls to 0 or below
  "if newBalance.Balance<=0",
  -- record stored iff the balance is positive
  "call Delete(key)",
  "assign stakerInfo.BalanceList = append(stakerInfo.BalanceList,&newBalance)",
  "call Set(key)",
  "if newBalance.Change==types.Action_ACTION_DEPOSIT",
  "return nil"]

theorem C01_tie_nst_validator_list : Gen.nstGlueValidatorListSkeleton = validatorListTranscribed := by rfl

/-- UpdateNSTByBalanceChange as transcribed -/
def balanceChangeTranscribed : List String := [
  "if len(rawData)<32",
  "call GetStakerList(assetID)",
  -- round: "staker list is empty"
  "if len(sl.StakerAddrs)==0",
  "call parseBalanceChange(rawData,sl)",
  -- all stakers or none (roundFrom in Except)
  "call CacheContext()",
  -- roundStaker, for every listed staker in list order; absent = 0
  "assign change := stakerChanges[stakerAddr]",
  -- "stakerInfo does not exist"
  "if value==nil",
  "assign newBalance := types.BalanceInfo{}",
  "if length>0",
  "assign newBalance = *(stakerInfo.BalanceList[length-1])",
  "if newBalance.RoundID==roundID",
  -- maxB = 32 x validators on record
  "assign maxBalance := maxEffectiveBalance[assetID]*(len(stakerInfo.ValidatorPubkeyList))",
  "assign balance := maxBalance+change",
  -- refused as a whole
  "if balance>maxBalance||balance<=0",
  "if delta!=0",
  -- b - r.bal, booked through nstUpdate as (b - r.bal) x 10^decimals
  "assign delta := int64(balance)-newBalance.Balance",
  "call UpdateNSTBalance(getStakerID(stakerAddr,chainID),assetID,sdkmath.NewIntWithDecimal(delta,decimal))",
  -- the record takes the reported balance
  "assign newBalance.Balance = int64(balance)",
  "call Append(&newBalance)",
  "call writeFunc()",
  "return nil"]

theorem C01_tie_nst_balance_change : Gen.nstGlueBalanceChangeSkeleton = balanceChangeTranscribed := by rfl

/-- maxEffectiveBalance is not a literal of these functions; the cap the model uses -/
theorem C01_tie_nst_max_effective : maxEff = 32 := rfl

end ExoVerif.NstGlue
