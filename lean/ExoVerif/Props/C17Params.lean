import ExoVerif.Props.C17Hist
import ExoVerif.Proofs.DistributionParams
/-!
# C17 — histories with parameter-update MESSAGES (x/exomint, x/feedistribution `MsgUpdateParams`)

`Props/C17Hist.lean` proves the clauses over `runBlocksV`, block lists that carry an arbitrary configuration per
block. This file closes the gap between "an arbitrary configuration per block" and what the chain does: the
configuration of a block is the one the accepted `MsgUpdateParams` messages before it left
(`Model/DistributionParams.lean`: `mintUpdateParams`, `distrUpdateParams`, `runOps`; replayed against the real
message servers by the `distribution` domain, ops `distr.mintparams` / `distr.distrparams`).

* `C17_params_ops_as_blocks`: every op history (messages, fee income, blocks) IS a `runBlocksV` history whose
  per-block configuration is `cfgOf` of the parameters in force — so every `C17_hist_…` theorem applies
  (`C17_params_solvency`, `C17_params_claims_backed_exactly`, `C17_params_supply_and_accounts`).
* "minted exactly once at each mint-epoch end" across an identifier switch: the hooks look at the identifier of a
  notification only, never at its epoch NUMBER (`C17_params_hooks_ignore_epoch_numbers`); after an accepted switch
  of the mint identifier the next block mints reward × (ends of the NEW identifier), whatever the current numbers
  of the old and the new identifier are (`C17_params_mint_follows_switch`).
* symmetric for x/feedistribution: every end of the configured identifier sweeps the whole fee collector, ends of
  other identifiers sweep nothing (`C17_params_sweep_once_per_configured_end`,
  `C17_params_quiet_without_configured_end`, `C17_params_sweep_follows_switch`).
* what the messages do: `C17_params_mint_update_spec` (always accepted from valid params, field by field either the
  message's value or the previous one, result valid), `C17_params_mint_update_verbatim` /
  `C17_params_mint_deliver_verbatim` (a fully valid message is stored as it is, in a transaction or not),
  `C17_params_mint_tx_refuses_invalid` (in a transaction ValidateBasic refuses what the handler would override),
  `C17_params_distr_update_spec`, `C17_params_distr_deliver_eq`; the community-tax bound the repaired handler enforces
  (F-17c) and what follows from it over histories is in `Props/C17Tax.lean`.
-/
namespace ExoVerif.Distr
open ExoVerif ExoVerif.KV ExoVerif.Epochs

/-! ## the messages -/

/-- a message all of whose fields are valid, naming an identifier x/epochs has, is stored as it is -/
theorem C17_params_mint_update_verbatim (known : String → Bool) (prev : MintParams) (m : MintMsg) (r : Int)
    (hd : validDenom m.denom = true) (hr : m.reward = some r) (h0 : 0 ≤ r)
    (hi : validEpochId m.id = true) (hk : known m.id = true) :
    mintUpdateParams known prev m = some { denom := m.denom, reward := r, id := m.id } := by
  have hneg : ¬ r < 0 := by omega
  simp [mintUpdateParams, overrideIfRequired, MintParams.valid, hd, hr, hi, hk, hneg, h0]

/-- … on either path: in a transaction (ValidateBasic passes) or with the handler called directly -/
theorem C17_params_mint_deliver_verbatim (viaTx : Bool) (known : String → Bool) (prev : MintParams) (m : MintMsg)
    (r : Int) (hd : validDenom m.denom = true) (hr : m.reward = some r) (h0 : 0 ≤ r)
    (hi : validEpochId m.id = true) (hk : known m.id = true) :
    mintDeliver viaTx known prev m = some { denom := m.denom, reward := r, id := m.id } := by
  have hvb : m.validateBasic = true := by simp [MintMsg.validateBasic, hd, hr, h0, hi]
  simp only [mintDeliver, hvb, Bool.not_true, Bool.and_false, Bool.false_eq_true, if_false]
  exact C17_params_mint_update_verbatim known prev m r hd hr h0 hi hk

/-- In a transaction a message with an invalid denom, a nil or negative reward or a blank identifier is refused by
ValidateBasic and nothing changes: the handler's override rules are reachable only by callers that skip it. -/
theorem C17_params_mint_tx_refuses_invalid (known : String → Bool) (prev : MintParams) (m : MintMsg)
    (h : m.validateBasic = false) : mintDeliver true known prev m = none := by
  simp [mintDeliver, h]

/-- x/exomint UpdateParams from valid parameters: never refused; every field is the message's value when that is
valid (and, for the identifier, known to x/epochs) and the previous value otherwise; the result is valid. -/
theorem C17_params_mint_update_spec (known : String → Bool) (prev : MintParams) (m : MintMsg)
    (hp : prev.valid = true) :
    ∃ mp, mintUpdateParams known prev m = some mp ∧ mp.valid = true ∧
      mp.denom = (if validDenom m.denom then m.denom else prev.denom) ∧
      mp.reward = (match m.reward with | none => prev.reward | some r => if r < 0 then prev.reward else r) ∧
      mp.id = (if validEpochId m.id && known m.id then m.id else prev.id) := by
  simp only [MintParams.valid, Bool.and_eq_true, decide_eq_true_eq] at hp
  obtain ⟨⟨hp1, hp2⟩, hp3⟩ := hp
  have hov : (overrideIfRequired m prev).valid = true := by
    simp only [MintParams.valid, overrideIfRequired, Bool.and_eq_true]
    refine ⟨⟨?_, ?_⟩, ?_⟩
    · split <;> assumption
    · apply decide_eq_true
      cases m.reward with
      | none => exact hp2
      | some r => simp only []; split <;> omega
    · split <;> assumption
  unfold mintUpdateParams
  simp only [hov, Bool.not_true, Bool.false_eq_true, if_false]
  by_cases hk : known (overrideIfRequired m prev).id = true
  · simp only [hk, if_true]
    refine ⟨_, rfl, hov, rfl, rfl, ?_⟩
    by_cases hv : validEpochId m.id = true
    · have : (overrideIfRequired m prev).id = m.id := by simp [overrideIfRequired, hv]
      rw [this] at hk
      simp [overrideIfRequired, hv, hk]
    · simp [overrideIfRequired, hv]
  · simp only [hk, Bool.false_eq_true, if_false]
    refine ⟨_, rfl, ?_, rfl, rfl, ?_⟩
    · simp only [MintParams.valid, Bool.and_eq_true, decide_eq_true_eq]
      simp only [MintParams.valid, Bool.and_eq_true, decide_eq_true_eq] at hov
      exact ⟨hov.1, hp3⟩
    · by_cases hv : validEpochId m.id = true
      · have : (overrideIfRequired m prev).id = m.id := by simp [overrideIfRequired, hv]
        rw [this] at hk
        simp [hv, hk]
      · simp [hv]

/-- x/feedistribution UpdateParams (after the repair of F-17c), completely: a community tax that is negative or
above 1 is refused first, then an identifier x/epochs does not have; everything else is stored as it is (a nil tax
as zero). -/
theorem C17_params_distr_update_spec (known : String → Bool) (prev : DistrParams) (m : DistrMsg) :
    (distrTaxOutOfRange m.tax = true → distrUpdateParams known prev m = .error .taxOutOfRange) ∧
    (distrTaxOutOfRange m.tax = false → known m.id = false → distrUpdateParams known prev m = .error .epochNotFound) ∧
    (distrTaxOutOfRange m.tax = false → known m.id = true → distrUpdateParams known prev m = .ok m.stored) := by
  refine ⟨?_, ?_, ?_⟩ <;> intros <;> simp_all [distrUpdateParams, DistrMsg.valid]

/-- ValidateBasic checks nothing the handler does not check itself: in a transaction or called directly, the
message has the same fate -/
theorem C17_params_distr_deliver_eq (viaTx : Bool) (known : String → Bool) (prev : DistrParams) (m : DistrMsg) :
    distrDeliver viaTx known prev m = distrUpdateParams known prev m := by
  cases viaTx <;> simp only [distrDeliver, distrUpdateParams, DistrMsg.validateBasic, Bool.false_and, Bool.true_and,
    Bool.false_eq_true, if_false]
  split <;> rfl

/-- a refused feedistribution message (tax outside [0,1], or unknown identifier) leaves both modules' parameters
as they were -/
theorem C17_params_refused_changes_nothing (viaTx : Bool) (es : List EpochInfo) (p : Params) (m : DistrMsg)
    (h : distrTaxOutOfRange m.tax = true ∨ knownId es m.id = false) : applyDistr viaTx es p m = p := by
  simp only [applyDistr, C17_params_distr_deliver_eq]
  rcases h with h | h
  · simp [distrUpdateParams, DistrMsg.valid, h]
  · by_cases hv : m.valid = true <;> simp [distrUpdateParams, h, hv]

/-! ## op histories are block histories with the configuration in force -/

/-- the blocks of an op history, each with the configuration in force and the fee income since the block before -/
def traceOf (native : String) : Params → List EpochInfo → Int → List HOp → List (Cfg × Int × BlockIn)
  | _, _, _, [] => []
  | p, es, f, .mintParams viaTx m :: rest => traceOf native (applyMint viaTx es p m) es f rest
  | p, es, f, .distrParams viaTx m :: rest => traceOf native (applyDistr viaTx es p m) es f rest
  | p, es, f, .fee a :: rest => traceOf native p es (f + a) rest
  | p, es, f, .block b :: rest => (cfgOf native p, f, b) :: traceOf native p (beginBlocker es b.bt b.h).1 0 rest

/-- fee income after the last block (it waits in the fee collector) -/
def trailingFee : Int → List HOp → Int
  | f, [] => f
  | f, .mintParams _ _ :: rest => trailingFee f rest
  | f, .distrParams _ _ :: rest => trailingFee f rest
  | f, .fee a :: rest => trailingFee (f + a) rest
  | _, .block _ :: rest => trailingFee 0 rest

/-- Every op history is a `runBlocksV` history: same blocks, each under `cfgOf` of the parameters the messages
before it left, fee income added before the block that follows it. -/
theorem C17_params_ops_as_blocks (native : String) :
    ∀ (ops : List HOp) (p : Params) (es : List EpochInfo) (s : St) (f : Int),
      (runOps native { params := p, es := es, st := { s with fc := s.fc + f } } ops).map (fun h => h.st) =
      (runBlocksV es s (traceOf native p es f ops)).map
        (fun s' => { s' with fc := s'.fc + trailingFee f ops }) := by
  intro ops
  induction ops with
  | nil => intro p es s f; simp [runOps, traceOf, runBlocksV, trailingFee]
  | cons op rest ih =>
    intro p es s f
    cases op with
    | mintParams viaTx m =>
      simp only [runOps, stepOp, traceOf, trailingFee]
      exact ih _ es s f
    | distrParams viaTx m =>
      simp only [runOps, stepOp, traceOf, trailingFee]
      exact ih _ es s f
    | fee a =>
      simp only [runOps, stepOp, traceOf, trailingFee]
      have := ih p es s (f + a)
      rw [← this, Int.add_assoc]
    | block b =>
      simp only [runOps, stepOp, traceOf, trailingFee, runBlocksV]
      have hfst := block_fst (cfgOf native p) es { s with fc := s.fc + f } b
      generalize block (cfgOf native p) es { s with fc := s.fc + f } b = r at hfst ⊢
      obtain ⟨es', evs, os⟩ := r
      simp only [] at hfst
      subst hfst
      cases os with
      | none => simp
      | some s' =>
        simp only []
        have := ih p (beginBlocker es b.bt b.h).1 s' 0
        simp only [Int.add_zero] at this
        exact this

/-- the state an op history ends in, through `runBlocksV` -/
theorem C17_params_run_as_blocks (native : String) (ops : List HOp) (h h' : HS) (hr : runOps native h ops = some h') :
    ∃ s'', runBlocksV h.es h.st (traceOf native h.params h.es 0 ops) = some s'' ∧
      h'.st = { s'' with fc := s''.fc + trailingFee 0 ops } := by
  have := C17_params_ops_as_blocks native ops h.params h.es h.st 0
  simp only [Int.add_zero] at this
  rw [show ({ params := h.params, es := h.es, st := h.st } : HS) = h from rfl, hr] at this
  simp only [Option.map_some] at this
  cases hb : runBlocksV h.es h.st (traceOf native h.params h.es 0 ops) with
  | none => rw [hb] at this; simp at this
  | some s'' =>
    rw [hb] at this
    simp only [Option.map_some, Option.some.injEq] at this
    exact ⟨s'', rfl, this⟩

/-- Solvency over every op history: whatever identifier, reward, denom or tax updates are accepted or refused in
between, the gap between the distribution account and the booked claims never changes. -/
theorem C17_params_solvency (native : String) (ops : List HOp) (h h' : HS)
    (hr : runOps native h ops = some h') : slack h'.st = slack h.st := by
  obtain ⟨s'', hb, hs⟩ := C17_params_run_as_blocks native ops h h' hr
  rw [hs, ← C17_hist_solvency _ _ _ _ hb]
  rfl

/-- from genesis (claims backed exactly) the claims are backed exactly after every op history -/
theorem C17_params_claims_backed_exactly (native : String) (ops : List HOp) (h h' : HS)
    (h0 : claims h.st.pool = h.st.distr * PREC) (hr : runOps native h ops = some h') :
    claims h'.st.pool = h'.st.distr * PREC := by
  have := C17_params_solvency native ops h h' hr
  simp only [slack] at this; omega

/-- Supply and module accounts over every op history: the supply grows by exactly reward-in-force × ends of the
mint identifier in force, block by block (`mintedOver` of the trace); the exomint account is transit only; fee
collector + distribution account grow by the outside fee income plus that mint. -/
theorem C17_params_supply_and_accounts (native : String) (ops : List HOp) (h h' : HS)
    (hr : runOps native h ops = some h') :
    h'.st.supply = h.st.supply + mintedOver h.es (traceOf native h.params h.es 0 ops) ∧
    h'.st.mint = h.st.mint ∧
    h'.st.fc + h'.st.distr = h.st.fc + h.st.distr + feesOver (traceOf native h.params h.es 0 ops) +
      trailingFee 0 ops + mintedOver h.es (traceOf native h.params h.es 0 ops) := by
  obtain ⟨s'', hb, hs⟩ := C17_params_run_as_blocks native ops h h' hr
  obtain ⟨a, b, c⟩ := C17_hist_supply_and_accounts _ _ _ _ hb
  rw [hs]
  simp only []
  refine ⟨a, b, by omega⟩

/-! ## the hooks follow the configured identifier, not the epoch numbers -/

/-- the same notifications with other epoch numbers -/
def renumber (g : String → Int → Int) : List Ev → List Ev
  | [] => []
  | .epochEnd id n :: rest => .epochEnd id (g id n) :: renumber g rest
  | .epochStart id n :: rest => .epochStart id (g id n) :: renumber g rest

/-- Neither hook looks at the epoch NUMBER of a notification: the same identifiers in the same order have the same
effect whatever their numbers (so nothing can depend on how the number of the identifier in force compares with
the numbers of another identifier's past epochs). -/
theorem C17_params_hooks_ignore_epoch_numbers (c : Cfg) (total : Int) (vals : List ValIn) (g : String → Int → Int) :
    ∀ (evs : List Ev) (s : St), onEvents c total vals (renumber g evs) s = onEvents c total vals evs s := by
  intro evs
  induction evs with
  | nil => intro s; rfl
  | cons ev rest ih =>
    intro s
    cases ev with
    | epochStart id n => simp only [renumber, onEvents]; exact ih s
    | epochEnd id n =>
      simp only [renumber, onEvents]
      split
      · rfl
      · exact ih _

/-- After an accepted switch of the mint identifier (and reward) the next block mints the new reward once per end
of the NEW identifier in that block — whatever the epoch numbers of the old and the new identifier — and the
parameters in force are the message's. -/
theorem C17_params_mint_follows_switch (native : String) (h h' : HS) (m : MintMsg) (r : Int) (b : BlockIn)
    (hn : m.denom = native) (hd : validDenom m.denom = true) (hr : m.reward = some r) (h0 : 0 ≤ r)
    (hi : validEpochId m.id = true) (hk : knownId h.es m.id = true)
    (viaTx : Bool) (hrun : runOps native h [.mintParams viaTx m, .block b] = some h') :
    h'.params.mint = { denom := m.denom, reward := r, id := m.id } ∧
    h'.st.supply = h.st.supply + r * countEnds m.id (beginBlocker h.es b.bt b.h).2 ∧
    h'.st.mint = h.st.mint := by
  have hm := C17_params_mint_deliver_verbatim viaTx (knownId h.es) h.params.mint m r hd hr h0 hi hk
  have h1 : stepOp native h (.mintParams viaTx m) =
      some { h with params := { h.params with mint := { denom := m.denom, reward := r, id := m.id } } } := by
    simp only [stepOp, applyMint, hm]
  rw [runOps_two, h1, Option.bind_some] at hrun
  obtain ⟨e1, _, e3⟩ := stepOp_block native _ h' b hrun
  obtain ⟨a, c⟩ := C17_supply_changes_only_by_mint _ b.total b.vals _ _ _ e3
  simp only [cfgOf, hn, beq_self_eq_true, if_true] at a c
  rw [e1]
  exact ⟨rfl, a, c⟩

/-! ## x/feedistribution: every end of the configured identifier sweeps the fee collector exactly once -/

/-- Over one block: the fee collector and the distribution account end exactly where the replay `sweep` says —
the whole collector moves at EVERY end of the configured distribution identifier and at no other notification. -/
theorem C17_params_sweep_once_per_configured_end (c : Cfg) (total : Int) (vals : List ValIn) :
    ∀ (evs : List Ev) (s s' : St) (moved : Int), onEvents c total vals evs s = some s' →
      s'.fc = (sweep c evs (s.fc, moved)).1 ∧ s'.distr + moved = s.distr + (sweep c evs (s.fc, moved)).2 := by
  intro evs
  induction evs with
  | nil => intro s s' moved h; simp only [onEvents, Option.some.injEq] at h; subst h; simp [sweep]
  | cons ev rest ih =>
    intro s s' moved h
    cases ev with
    | epochStart id n => simp only [onEvents] at h; simpa [sweep] using ih s s' moved h
    | epochEnd id n =>
      simp only [onEvents] at h
      split at h
      · cases h
      · rename_i s1 heq
        obtain ⟨e1, e2, _⟩ := onEpochEnd_sweep c s id total vals s1 heq
        simp only [sweep]
        by_cases hd : (id == c.distrId) = true
        · simp only [hd, if_true] at e1 e2 ⊢
          obtain ⟨i1, i2⟩ := ih s1 s' (moved + s.fc) h
          rw [e1] at i1 i2
          rw [Int.zero_add] at i1 i2
          rw [Int.zero_add]
          exact ⟨i1, by omega⟩
        · simp only [hd, Bool.false_eq_true, if_false] at e1 e2 ⊢
          obtain ⟨i1, i2⟩ := ih s1 s' moved h
          rw [e1] at i1 i2
          exact ⟨i1, by omega⟩

/-- A block without an end of the configured distribution identifier (ends of any other identifier — the one
configured before a switch included) moves nothing and books nothing: distribution account and claims stay, the
fee collector only receives the mint. -/
theorem C17_params_quiet_without_configured_end (c : Cfg) (total : Int) (vals : List ValIn) :
    ∀ (evs : List Ev) (s s' : St), countEnds c.distrId evs = 0 → onEvents c total vals evs s = some s' →
      s'.distr = s.distr ∧ s'.pool = s.pool ∧ s'.fc = s.fc + c.reward * countEnds c.mintId evs := by
  intro evs
  induction evs with
  | nil => intro s s' _ h; simp only [onEvents, Option.some.injEq] at h; subst h; simp [countEnds]
  | cons ev rest ih =>
    intro s s' hc h
    cases ev with
    | epochStart id n =>
      simp only [onEvents] at h
      simp only [countEnds] at hc ⊢
      exact ih s s' hc h
    | epochEnd id n =>
      simp only [onEvents] at h
      simp only [countEnds] at hc
      have hnn := countEnds_nonneg c.distrId rest
      have hd : (id == c.distrId) = false := by
        by_cases hx : (id == c.distrId) = true
        · rw [if_pos hx] at hc; omega
        · simpa using hx
      rw [hd] at hc
      simp only [Bool.false_eq_true, if_false, Int.zero_add] at hc
      split at h
      · cases h
      · rename_i s1 heq
        obtain ⟨e1, e2, e3⟩ := onEpochEnd_sweep c s id total vals s1 heq
        obtain ⟨i1, i2, i3⟩ := ih s1 s' hc h
        simp only [hd, Bool.false_eq_true, if_false, Int.add_zero] at e1 e2
        rw [i1, i2, i3, e1, e2, e3 hd]
        refine ⟨rfl, rfl, ?_⟩
        simp only [countEnds, mintedBy]
        by_cases hm : (id == c.mintId) = true
        · simp only [hm, if_true, Int.mul_add, Int.mul_one]; omega
        · simp only [hm, Bool.false_eq_true, if_false, Int.zero_add, Int.add_zero]

/-- After an accepted switch of the distribution identifier the next block sweeps the fee collector at every end
of the NEW identifier and at no end of the old one; the parameters in force are the message's. -/
theorem C17_params_sweep_follows_switch (native : String) (h h' : HS) (viaTx : Bool) (m : DistrMsg) (b : BlockIn)
    (ht : distrTaxOutOfRange m.tax = false) (hk : knownId h.es m.id = true)
    (hrun : runOps native h [.distrParams viaTx m, .block b] = some h') :
    h'.params.distr = m.stored ∧
    h'.st.fc = (sweep (cfgOf native { h.params with distr := m.stored }) (beginBlocker h.es b.bt b.h).2 (h.st.fc, 0)).1 ∧
    h'.st.distr = h.st.distr +
      (sweep (cfgOf native { h.params with distr := m.stored }) (beginBlocker h.es b.bt b.h).2 (h.st.fc, 0)).2 ∧
    (cfgOf native { h.params with distr := m.stored }).distrId = m.id := by
  have hm := (C17_params_distr_update_spec (knownId h.es) h.params.distr m).2.2 ht hk
  have h1 : stepOp native h (.distrParams viaTx m) = some { h with params := { h.params with distr := m.stored } } := by
    simp only [stepOp, applyDistr, C17_params_distr_deliver_eq, hm]
  rw [runOps_two, h1, Option.bind_some] at hrun
  obtain ⟨e1, _, e3⟩ := stepOp_block native _ h' b hrun
  obtain ⟨a, c⟩ := C17_params_sweep_once_per_configured_end _ b.total b.vals _ _ _ 0 e3
  simp only [Int.add_zero] at c
  rw [e1]
  exact ⟨rfl, a, c, rfl⟩

/-! ## non-vacuity: the mint identifier switched hour → day after three hours (day is in its epoch 1) -/

private def mkE (id : String) (dur : Int) : EpochInfo :=
  { identifier := id, startTime := 0, duration := dur, currentEpoch := 1, currentEpochStartTime := 0,
    epochCountingStarted := true, currentEpochStartHeight := 1 }
/-- store order -/
private def es0 : List EpochInfo := [mkE "day" 86400, mkE "hour" 3600, mkE "minute" 60]
private def p0 : Params :=
  { distr := { id := "minute", tax := PREC / 50 }, mint := { denom := "hua", reward := 20, id := "hour" } }
private def st0 : St :=
  { supply := 5000, fc := 0, mint := 0, distr := 0,
    pool := { community := 0, commission := [], rewards := [], outstanding := [] } }
private def h0 : HS := { params := p0, es := es0, st := st0 }
private def valsP : List ValIn :=
  [{ op := "a", power := 100, rate := 0, found := true, stakers := [("sa", 100 * PREC)] },
   { op := "b", power := 101, rate := PREC / 20, found := true, stakers := [("sb", 101 * PREC)] }]
private def blk (bt h : Int) : HOp := .block { bt := bt, h := h, total := 201, vals := valsP }
private def toDay : MintMsg := { denom := "hua", reward := some 20, id := "day" }
/-- three hourly blocks (hour epochs 1–3 end, 20 minted each), the switch to "day", one more hour end (nothing
minted), then the ends of day epochs 1 and 2 (numbers 1 and 2 ≤ 3: 20 minted each all the same) -/
private def opsSwitch : List HOp :=
  [.fee 1000, blk 3601 2, blk 7202 3, blk 10803 4, .mintParams true toDay, .fee 7, blk 14404 5, blk 86401 6, blk 172802 7]

example : p0.mint.valid = true ∧ validDenom "hua" = true ∧ validDenom "x" = false ∧ validDenom "1abc" = false ∧
    validEpochId "day" = true ∧ validEpochId " \t " = false ∧ validEpochId "" = false := by decide
example : knownId es0 "day" = true ∧ knownId es0 "fortnight" = false := by decide
-- the message is accepted as it is; blank / unknown identifiers, invalid denoms, nil / negative rewards keep the
-- previous values; feedistribution refuses an unknown identifier
example : mintUpdateParams (knownId es0) p0.mint toDay = some { denom := "hua", reward := 20, id := "day" } := by decide
example : mintUpdateParams (knownId es0) p0.mint { denom := "x", reward := none, id := " " } = some p0.mint ∧
    mintUpdateParams (knownId es0) p0.mint { denom := "", reward := some (-1), id := "fortnight" } = some p0.mint ∧
    mintUpdateParams (knownId es0) p0.mint { denom := "uother", reward := some 0, id := "week" } =
      some { denom := "uother", reward := 0, id := "hour" } := by decide
-- the same invalid messages in a transaction: refused by ValidateBasic
example : mintDeliver true (knownId es0) p0.mint { denom := "x", reward := none, id := " " } = none ∧
    mintDeliver true (knownId es0) p0.mint { denom := "hua", reward := some (-1), id := "day" } = none ∧
    mintDeliver true (knownId es0) p0.mint { denom := "hua", reward := some 5, id := "week" } =
      some { denom := "hua", reward := 5, id := "hour" } := by decide
example : distrUpdateParams (knownId es0) p0.distr { id := "fortnight", tax := some 0 } = .error .epochNotFound ∧
    distrUpdateParams (knownId es0) p0.distr { id := "hour", tax := some 7 } = .ok { id := "hour", tax := 7 } ∧
    distrUpdateParams (knownId es0) p0.distr { id := "hour", tax := none } = .ok { id := "hour", tax := 0 } ∧
    distrUpdateParams (knownId es0) p0.distr { id := "hour", tax := some (PREC + 1) } = .error .taxOutOfRange ∧
    distrUpdateParams (knownId es0) p0.distr { id := "fortnight", tax := some (-1) } = .error .taxOutOfRange := by decide
-- before the switch: 3 × 20 minted; the day identifier is still in its epoch 1 while hour is in its epoch 4
example : (runOps "hua" h0 (opsSwitch.take 4)).map (fun h => (h.st.supply, h.es.map (fun e => e.currentEpoch))) =
    some (5060, [1, 4, 4]) := by decide
-- the block that ends day epoch 1 delivers `epochEnd "day" 1` (and the catch-up ends of hour 5 / minute 5)
example : ((runOps "hua" h0 (opsSwitch.take 7)).map (fun h => (beginBlocker h.es 86401 6).2)) =
    some [.epochEnd "day" 1, .epochStart "day" 2, .epochEnd "hour" 5, .epochStart "hour" 6,
          .epochEnd "minute" 5, .epochStart "minute" 6] := by decide
-- after the switch: hour end 4 mints nothing, day ends 1 and 2 mint 20 each
example : (runOps "hua" h0 opsSwitch).map (fun h => (h.st.supply, h.st.mint, h.params.mint.id)) =
    some (5100, 0, "day") := by decide
example : mintedOver es0 (traceOf "hua" p0 es0 0 opsSwitch) = 100 ∧
    feesOver (traceOf "hua" p0 es0 0 opsSwitch) = 1007 ∧ trailingFee 0 opsSwitch = 0 := by decide
-- a mint denom other than the native one: the native supply stays
example : (runOps "hua" h0 [.mintParams true { denom := "uother", reward := some 9, id := "hour" }, blk 3601 2]).map
    (fun h => h.st.supply) = some 5000 := by decide
-- the distribution identifier switched minute → hour: minute ends sweep nothing, the hour end everything at once
example : (runOps "hua" h0 [.fee 1000, .distrParams true { id := "hour", tax := some 0 }, blk 61 2, .fee 5, blk 122 3,
    blk 3601 4]).map (fun h => (h.st.fc, h.st.distr, h.st.supply)) = some (20, 1005, 5020) := by decide

end ExoVerif.Distr
