import ExoVerif.Props.C09
import ExoVerif.Model.Oracle
/-!
# C09 — the oracle's message entry points: a refused message leaves the process memory as it was

"… leaves the state of every restaking module, **and the oracle's in-memory state**, exactly as it was
before the call". No cache context covers the aggregator context `agc` and the cache `cs` (package-
level variables), so for `MsgCreatePrice` and `MsgUpdateParams` atomicity rests on the handler's own
order — all refusing checks before the first mutation of the memory — and, for `UpdateParams`, on the
fact that the value it edits step by step is a private copy decoded from the store.

* order abstraction (`Model/Atomic.lean`, any state type — stores and memory together — and any
  implementation of the steps): `C09_createPrice_fail_atomic`, `C09_updateParams_fail_atomic`;
* the transcribed aggregator (`Model/Oracle.lean`, tied line by line by the C12/C13/C14 runs):
  `C09_createPrice_refused_leaves_memory` — a message refused for its timestamp or by `checkMsg`
  returns the very state it was given (store, context, cache).
-/
namespace ExoVerif.Atomic

/-- CreatePrice: every refusal (timestamp, sanity, round, base block, rule, decimal, sealed worker,
filter) precedes the first mutation of the aggregator context, the store writes and the cache update:
a failing run returns the entry state — memory included — whatever the checks test and the writes store. -/
theorem C09_createPrice_fail_atomic {σ : Type} (I : Impl σ) (s : σ) (e : Err)
    (h : (run I oracleCreatePrice s).1 = .error e) : (run I oracleCreatePrice s).2 = s :=
  run_fail_atomic I _ s (by decide) e h

/-- the same as seen by the correspondence driver: a refusal at any of the eight checks is `clean` -/
theorem C09_createPrice_refusals_clean :
    ["checkTimestamp", "sanityCheck", "round open", "basedBlock", "CheckRules", "CheckDecimal", "worker.sealed", "filtrate"].all
      (fun n => dirtyAt oracleCreatePrice n false false 0 == some false) = true := by decide

/-- shape of the program: checks, then only writes (no check or callee after the first memory write) -/
theorem C09_createPrice_checks_then_writes :
    oracleCreatePrice.head? = some (.check "checkTimestamp") ∧
    ((oracleCreatePrice.dropWhile (fun st => match st with | .check _ => true | _ => false)).all
      (fun st => match st with | .write _ => true | _ => false)) = true ∧
    oracleCreatePrice.contains (.write "mem:aggregator.fillPrice") = true := by decide

/-- the order in which the timestamp is examined only after `NewCreatePrice` has run (seeded change
C09-e): kept to show that the order — i.e. the tie `C09_tie_createPrice_order` — is what separates a
refusal without trace from one that has already been counted -/
def oracleCreatePriceTimestampLast : Prog :=
  [.check "sanityCheck", .check "round open", .check "basedBlock", .check "CheckRules", .check "CheckDecimal",
   .check "worker.sealed", .check "filtrate",
   .write "mem:aggregator.fillPrice", .write "mem:calculator.fillPrice", .write "mem:aggregator.confirmDSPrice",
   .write "mem:round.status=closed+worker.seal",
   .check "checkTimestamp",
   .write "AppendPriceTR|GrowRoundID", .write "RemoveNonceWithFeederIDForValidators", .write "cs.RemoveCache|cs.AddCache"]

theorem C09_createPrice_order_witness :
    atomicShape oracleCreatePriceTimestampLast = false ∧
    blockHook (run (counting ["checkTimestamp"]) oracleCreatePriceTimestampLast) 0 = (.failed "checkTimestamp", 4) ∧
    blockHook (run (counting ["checkTimestamp"]) oracleCreatePrice) 0 = (.failed "checkTimestamp", 0) ∧
    blockHook (run (counting ["filtrate"]) oracleCreatePrice) 0 = (.failed "filtrate", 0) ∧
    blockHook (run (counting []) oracleCreatePrice) 0 = (.ok, 7) := by
  refine ⟨?_, ?_, ?_, ?_, ?_⟩ <;> decide

/-- UpdateParams: every refusing step works on the private copy; the store write and the cache update
come last -/
theorem C09_updateParams_fail_atomic {σ : Type} (I : Impl σ) (s : σ) (e : Err)
    (h : (run I oracleUpdateParams s).1 = .error e) : (run I oracleUpdateParams s).2 = s :=
  run_fail_atomic I _ s (by decide) e h

theorem C09_updateParams_refusals_clean :
    ["authority", "AddSources", "AddChains", "UpdateMaxPriceCount", "UpdateTokenFeeder", "Validate"].all
      (fun n => dirtyAt oracleUpdateParams n false false 0 == some false) = true := by decide

example : blockHook (run (counting ["Validate"]) oracleUpdateParams) 3 = (.failed "Validate", 3) := by decide
example : blockHook (run (counting []) oracleUpdateParams) 3 = (.ok, 5) := by decide

end ExoVerif.Atomic

namespace ExoVerif.Oracle

/-- an initialised process (context and cache exist): `GetAggregatorContext` returns it unchanged -/
theorem getAgc_initialised (s : State) (g : Agc) (c : Cache) (hg : s.agc = some g) (hc : s.cache = some c) :
    getAgc s = some s := by
  cases s with
  | mk store agc cache dogfood height blockTime =>
    simp only at hg hc
    subst hg; subst hc
    simp [getAgc, State.cacheD]

/-- The transcribed handler (`createPrice` = msg_server_create_price.go: CreatePrice on the deliver
side, with the real `checkMsg` / `FillPrice`): a message that is refused for its timestamp
(`formatInvalid`), by `checkMsg` (`invalidMsg`) — or that panics — returns exactly the state it was
given: store, aggregator context, cache. (`ignored`, the refusal by the filter, has consumed the
message's nonce in the filter — the exempted nonce change — and is excluded here.) -/
theorem C09_createPrice_refused_leaves_memory (s s' : State) (m : Msg) (g : Agc) (c : Cache)
    (hg : s.agc = some g) (hc : s.cache = some c) (e : MsgErr)
    (h : createPrice s m = (s', .err e)) (hne : e ≠ .ignored) : s' = s := by
  unfold createPrice at h
  rw [getAgc_initialised s g c hg hc] at h
  simp only [hg] at h
  split at h
  · cases h; rfl
  · split at h
    · cases h; rfl
    · split at h
      · cases h; rfl
      · -- checkMsg passed: the outcome is FillPrice's
        split at h
        · cases h; exact absurd rfl hne
        · cases h
        · cases h

/-! non-vacuity: an initialised state with an open round; the timestamp refusal and the base-block
refusal of an otherwise countable message -/

def exCPParams : Params :=
  { maxNonce := 3, thA := 2, thB := 3, maxDetID := 5, maxSizePrices := 100,
    sources := [{ valid := false, det := false }, { valid := true, det := true }], rules := [[], [0]], tokenDecimals := [0, 0],
    feeders := [default, { tokenID := 1, ruleID := 1, startRoundID := 1, startBaseBlock := 1, interval := 10, endBlock := 0 }] }

def exCPAgc : Agc :=
  { params := some exCPParams, vals := [(0, 101), (1, 100)], total := 201,
    rounds := [(1, { basedBlock := 1, nextRoundID := 1, status := .open })], workers := [] }

def exCPState : State :=
  { store := { prices := [], nonces := [], recentMsgs := [], msgIndex := [], recentParams := [], paramsIndex := [],
               vuBlock := none, params := exCPParams },
    agc := some exCPAgc, cache := some Cache.empty, dogfood := [(0, 101), (1, 100)], height := 2, blockTime := 100 }

def exCPMsg (ts : Int) (b : Nat) : Msg :=
  { creator := 0, feederID := 1, basedBlock := b, nonce := 1,
    prices := [{ sourceID := 1, prices := [{ price := 1, decimal := 0, ts := ts, tsKind := 0, detID := "r1" }] }] }

example :
    (createPrice exCPState (exCPMsg 106 1)).2 = .err .formatInvalid ∧
    (createPrice exCPState (exCPMsg 100 2)).2 = .err (.invalidMsg "baseblock") ∧
    (createPrice exCPState (exCPMsg 100 1)).2 = .ok ∧ (createPrice exCPState (exCPMsg 100 1)).1 ≠ exCPState := by decide

end ExoVerif.Oracle
