import ExoVerif.Generated.Facts
import ExoVerif.Model.ConsKeys
/-!
# C16 tie: no copy of a keeper made before its SetHooks is ever asked to fire the hooks (finding F-16b)

Keepers are struct values; `(&app.X).SetHooks(h)` (app/app.go: NewExocoreApp) writes into the app's own field.
Every by-value copy handed on BEFORE that call keeps `hooks == nil`, and `Hooks()` of such a copy is the no-op
multi-hook. F-16b: `evmkeeper.AvailablePrecompiles(…, app.DelegationKeeper, …)` ran before
`(&app.DelegationKeeper).SetHooks(app.StakingKeeper.DelegationHooks())`; undelegations through the gateway precompile never
reached dogfood's AfterUndelegationStarted.

Regenerated (tools/exofacts/facts_hookwiring.go): `hooklessCopies` (every by-value hand-over of a hooked keeper before
its SetHooks, in source order), `hooklessCopyMethods` (what each receiver can call on its copy: the method set of the
parameter's interface type, read from the receiver's source — repository or module cache; for a parameter of concrete
keeper type the methods the receiving package calls through the field it stores it in), `hookTriggers` (the methods of
each keeper that reach `.Hooks().…`).

`reviewedCopies` is the reviewed table: one row per hookless copy with the reason why the receiver never fires that
keeper's hooks through it. `C16_tie_no_hookless_copy_calls_hooks` pins the regenerated list and method sets to the
table and proves that no method a hookless copy exposes is a hook trigger. A new early copy (the defect class of
F-16b), a receiver interface that grows a hook-firing method, or a keeper method that starts firing hooks breaks it
before any test runs.
-/
namespace ExoVerif.ConsKeys
open ExoVerif.Gen

structure CopyRow where
  keeper : String
  receiver : String
  /-- what the receiver can call on its copy (regenerated; `*concrete:<field>` = the parameter is the concrete keeper
  type and the list is what the receiving package calls through that field) -/
  methods : List String
  why : String

def CopyRow.key (r : CopyRow) : String := r.keeper ++ " -> " ++ r.receiver

/-- the epoch hooks (AfterEpochEnd / BeforeEpochStart) are fired by x/epochs/keeper/abci.go: BeginBlocker only, on the
keeper of `epochs.NewAppModule(appCodec, app.EpochsKeeper)`, which is built after SetHooks (not in this list) -/
private def whyEpochs : String :=
  "reads GetEpochInfo only; the epoch hooks are fired by x/epochs BeginBlocker on the app module's keeper (copied after SetHooks)"

/-- the dogfood hooks (AfterValidatorBonded / Removed / Created) are fired by x/dogfood/keeper/validators.go:
ApplyValidatorChanges only (EndBlock, InitGenesis), on the keeper of `staking.NewAppModule(appCodec, app.StakingKeeper)`,
built after SetHooks -/
private def whyDogfood : String :=
  "validator-set queries / slashing entry points only; the dogfood hooks are fired by ApplyValidatorChanges (EndBlock, InitGenesis) on the app module's keeper (copied after SetHooks)"

def reviewedCopies : List CopyRow := [
  ⟨"EpochsKeeper", "exomintkeeper.NewKeeper", ["GetEpochInfo"], whyEpochs⟩,
  ⟨"EpochsKeeper", "stakingkeeper.NewKeeper", ["GetEpochInfo"], whyEpochs⟩,
  ⟨"DelegationKeeper", "stakingkeeper.NewKeeper",
    ["*concrete:delegationKeeper", "DecrementUndelegationHoldCount", "GetStakersByOperator", "IncrementUndelegationHoldCount"],
    "x/dogfood keeps the copy in Keeper.delegationKeeper and calls the hold counters (impl_delegation_hooks.go, abci.go, genesis.go) and GetStakersByOperator (keeper.go) only: plain store accesses; it never starts a delegation or an undelegation"⟩,
  ⟨"StakingKeeper", "oracleKeeper.NewKeeper",
    ["GetAllExocoreValidators", "GetLastTotalPower", "GetValidatorByConsAddr", "GetValidatorUpdates", "IterateBondedValidatorsByPower"], whyDogfood⟩,
  ⟨"StakingKeeper", "slashingkeeper.NewKeeper",
    ["Delegation", "GetAllValidators", "IsValidatorJailed", "IterateValidators", "Jail", "MaxValidators", "Slash",
     "SlashWithInfractionReason", "Unjail", "Validator", "ValidatorByConsAddr"], whyDogfood⟩,
  ⟨"StakingKeeper", "evidencekeeper.NewKeeper", ["GetParams", "ValidatorByConsAddr"], whyDogfood⟩,
  ⟨"StakingKeeper", "ibckeeper.NewKeeper", ["GetHistoricalInfo", "UnbondingTime"], whyDogfood⟩,
  ⟨"StakingKeeper", "evmkeeper.NewKeeper", ["GetHistoricalInfo", "GetValidatorByConsAddr"], whyDogfood⟩,
  ⟨"EpochsKeeper", "avsManagerKeeper.NewKeeper", ["GetEpochInfo"], whyEpochs⟩,
  ⟨"StakingKeeper", "distrkeeper.NewKeeper",
    ["*concrete:StakingKeeper", "CalculateUSDValueForStaker", "GetAVSSupportedAssets", "GetAllExocoreValidators", "GetLastTotalPower",
     "GetOptedInAVSForOperator", "GetStakersByOperator", "OperatorInfo", "ValidatorByConsAddrForChainID"],
    "x/feedistribution keeps the copy in Keeper.StakingKeeper and reads validators, powers and operator / AVS data through it (allocation.go, hooks.go); it never applies validator changes"⟩,
  ⟨"EpochsKeeper", "distrkeeper.NewKeeper", ["GetEpochInfo"], whyEpochs⟩,
  ⟨"StakingKeeper", "erc20keeper.NewKeeper", ["BondDenom"], whyDogfood⟩]

/-- the hook-firing methods of the keeper a row is about (`none` = the keeper's package was not scanned) -/
def triggersOf (k : String) : Option (List String) := hookTriggers.lookup k

/-- the methods through which each keeper fires its hooks (directly or through its own methods) -/
theorem C16_tie_hook_triggers :
    hookTriggers = [
      ("DelegationKeeper", ["DelegateAssetToOperator", "DelegateTo", "UndelegateAssetFromOperator", "UndelegateFrom", "delegateTo"]),
      ("OperatorKeeper", ["InitiateOperatorKeyRemovalForChainID", "OptInWithConsKey", "OptOut", "SetOperatorConsKeyForChainID",
        "setOperatorConsKeyForChainID"]),
      ("EpochsKeeper", ["BeginBlocker"]),
      ("StakingKeeper", ["ApplyValidatorChanges", "EndBlock", "InitGenesis"])] := by decide

/-- a row is harmless: none of the methods its receiver can call is the whole keeper (`*`) or reaches `.Hooks().…` -/
def CopyRow.harmless (r : CopyRow) : Bool :=
  r.methods.all (fun m => m != "*" &&
    match triggersOf r.keeper with
    | some ts => !ts.contains m
    | none => false)

/-- **No hookless copy is asked to fire hooks.** The by-value hand-overs of hooked keepers that precede the keeper's
SetHooks are exactly the reviewed rows, each receiver can call exactly the reviewed methods on its copy, and none of
these is the whole keeper (`*`) or a method that reaches `.Hooks().…`. -/
theorem C16_tie_no_hookless_copy_calls_hooks :
    hooklessCopies = reviewedCopies.map CopyRow.key ∧
    hooklessCopyMethods = reviewedCopies.map (fun r => (r.key, r.methods)) ∧
    (∀ r ∈ reviewedCopies, r.harmless = true) := by
  decide

/-- `harmless` spelled out: a method of a harmless row is not `*` and not a trigger of the row's keeper -/
theorem C16_tie_harmless_spec (r : CopyRow) (h : r.harmless = true) (m : String) (hm : m ∈ r.methods) :
    m ≠ "*" ∧ ∃ ts, triggersOf r.keeper = some ts ∧ m ∉ ts := by
  unfold CopyRow.harmless at h
  have := (List.all_eq_true.1 h) m hm
  simp only [Bool.and_eq_true, bne_iff_ne, ne_eq] at this
  refine ⟨this.1, ?_⟩
  cases ht : triggersOf r.keeper with
  | none => rw [ht] at this; exact absurd this.2 (by simp)
  | some ts =>
    rw [ht] at this
    exact ⟨ts, rfl, by simpa using this.2⟩

/-- F-16b itself: the delegation keeper handed to the precompiles is not a hookless copy — which is what
`hooksWired .precompile = true` (Model/ConsKeys.lean) transcribes — and the only hookless copy of the delegation
keeper (x/dogfood's) cannot start an undelegation. -/
theorem C16_tie_precompiles_get_wired_delegation_keeper :
    "DelegationKeeper -> evmkeeper.AvailablePrecompiles" ∉ hooklessCopies ∧
    (reviewedCopies.filter (fun r => r.keeper == "DelegationKeeper")).map CopyRow.receiver = ["stakingkeeper.NewKeeper"] ∧
    (∀ e : Entry, hooksWired e = true) := by
  refine ⟨by decide, by decide, fun e => rfl⟩

/-- the pre-fix list (app.go before the fix: the copy for the precompiles precedes SetHooks, and its parameter is the
concrete keeper handed on to delegationprecompile.NewPrecompile — regenerated as `["*"]`) is rejected by the same check -/
example :
    let preFixRow : CopyRow := ⟨"DelegationKeeper", "evmkeeper.AvailablePrecompiles", ["*"], "F-16b"⟩
    preFixRow.key ∉ reviewedCopies.map CopyRow.key ∧ preFixRow.harmless = false := by decide

end ExoVerif.ConsKeys
