import ExoVerif.Props.C13
import ExoVerif.Generated.Facts
/-! C13 tie: constants and code shapes of the admission path, regenerated from the Go sources. -/
namespace ExoVerif.Oracle

/-- app/ante/utils/oracle.go: TxSizeLimit is the 1000 of `anteHandle`. -/
theorem C13_tie_size_limit : ExoVerif.Gen.oracleTxSizeLimit = 1000 := by decide

/-- msg_server_create_price.go: maxFutureOffset is the 5 s of `checkTimestamp`. -/
theorem C13_tie_future_offset : ExoVerif.Gen.oracleMaxFutureOffsetSec = 5 := by decide

/-- The model's `anteHandle` ignores `sigValid` exactly because the oracle branch of
SigVerificationDecorator discards the result of VerifySignature. When the code is repaired this
fact flips, this theorem breaks, and `C13_full` must be re-proved for the repaired model. -/
theorem C13_tie_signature_result_discarded : ExoVerif.Gen.oracleSigResultUsed = false := by decide

theorem C13_tie_shapes :
    ExoVerif.Gen.oracleNonceShape.length = 2 ∧ ExoVerif.Gen.oracleTimestampShape.length = 2 := by decide

end ExoVerif.Oracle
