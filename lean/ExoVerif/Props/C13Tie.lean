import ExoVerif.Props.C13
import ExoVerif.Generated.Facts
/-! C13 tie: constants and code shapes of the admission path, regenerated from the Go sources. -/
namespace ExoVerif.Oracle

/-- app/ante/utils/oracle.go: TxSizeLimit is the 1000 of `anteHandle`. -/
theorem C13_tie_size_limit : ExoVerif.Gen.oracleTxSizeLimit = 1000 := by decide

/-- msg_server_create_price.go: maxFutureOffset is the 5 s of `checkTimestamp`. -/
theorem C13_tie_future_offset : ExoVerif.Gen.oracleMaxFutureOffsetSec = 5 := by decide

/-- The model's `anteHandle` refuses `sigValid = false` because, in the oracle branch of
SigVerificationDecorator, every `VerifySignature` call is the negated condition of an `if` that
returns an error — and that condition is exactly the one transcribed (skipped only when
simulating). If the result is dropped again, or the guard is weakened, this breaks. -/
theorem C13_tie_signature_checked :
    ExoVerif.Gen.oracleSigResultUsed = true ∧
    ExoVerif.Gen.oracleSigGuardCond = "!simulate && !pubKey.VerifySignature(bytesToSign, data.Signature)" := by decide

/-- Both oracle ante branches tie the number of SignerInfos / enumerated signatures to the number
of signers (the `tx.infos.length ≠ tx.signers.length` test of `anteHandle`); if either check is
removed or weakened (F-10c) this breaks. -/
theorem C13_tie_signer_count_checked : ExoVerif.Gen.oracleSignerCountChecked = true := by decide

/-- The signature loop of the oracle branch has the shape `sigLoop` transcribes: exactly one loop, over
the `sigs` obtained from `GetSignaturesV2` (whose number is tied to the signers by
`C13_tie_signer_count_checked`); the only ways out of its body are returns of an error; the
VerifySignature guard stands at the top level of the body (every iteration reaches it); `next` is
called after the loop. A `return next(…)` / `break` / `continue` inside the body (seed C10-f: only
the first slot verified) changes a literal. -/
theorem C13_tie_sig_loop :
    ExoVerif.Gen.oracleSigLoopCount = 1 ∧
    ExoVerif.Gen.oracleSigLoopHeader = "for i, sig := range sigs" ∧
    ExoVerif.Gen.oracleSigLoopSigsSource = "sigTx.GetSignaturesV2()" ∧
    ExoVerif.Gen.oracleSigLoopExits = ["return-error", "return-error", "return-error"] ∧
    ExoVerif.Gen.oracleSigLoopGuardTopLevel = true ∧
    ExoVerif.Gen.oracleSigLoopFollowedBy = "return next(ctx, tx, simulate)" := by decide

/-- The size comparison of the oracle branch of ConsumeTxSizeGasDecorator, regenerated: with
`len(ctx.TxBytes())` the model's `tx.size` and `anteutils.TxSizeLimit` the regenerated constant, the Go
condition is true exactly when the model refuses the tx for its size — for every tx, whatever the
number of its messages. A limit scaled by `len(tx.GetMsgs())` (seed C13-f) or any other operand makes
the condition fail to regenerate. -/
theorem C13_tie_size_comparison (s : State) (tx : Tx) :
    ExoVerif.Gen.oracleTxTooLarge (tx.size : Int) ((ExoVerif.Gen.oracleTxSizeLimit : Nat) : Int) = true ↔
      anteHandle s tx = .error "size" := by
  rw [C13_size_error_iff]
  unfold ExoVerif.Gen.oracleTxTooLarge ExoVerif.Gen.oracleTxSizeLimit
  simp only [decide_eq_true_eq]
  omega

/-- … and the branch consists of that guard (returning ErrTxTooLarge) followed by `next` only. -/
theorem C13_tie_size_branch :
    ExoVerif.Gen.oracleTxSizeGuardCond = "len(ctx.TxBytes()) > anteutils.TxSizeLimit" ∧
    ExoVerif.Gen.oracleTxSizeBranchTail = "return next(ctx, tx, simulate)" := by decide

/-- checkTimestamp, regenerated: with the block time given in nanoseconds (`sec·10⁹ + frac`,
`0 ≤ frac < 10⁹`) and a proposal timestamp of whole seconds (the layout has second precision), the
Go condition `now.Add(maxFutureOffset).Before(t)` is exactly the model's `blockTime + 5 < ts` on the
*floor* of the block time — for every sub-second part. Rounding or truncating `now` differently
makes the kernel fail to regenerate or this equality fail. -/
theorem C13_tie_timestamp (sec frac ts : Int) (h0 : 0 ≤ frac) (h1 : frac < 1000000000) :
    ExoVerif.Gen.oracleTimestampTooFarAhead (sec * 1000000000 + frac)
      (ExoVerif.Gen.oracleMaxFutureOffsetSec * 1000000000) (ts * 1000000000) = decide (sec + 5 < ts) := by
  unfold ExoVerif.Gen.oracleTimestampTooFarAhead ExoVerif.Gen.oracleMaxFutureOffsetSec
  simp only [decide_eq_decide]
  omega

theorem C13_tie_shapes :
    ExoVerif.Gen.oracleNonceShape.length = 2 ∧ ExoVerif.Gen.oracleTimestampShape.length = 2 := by decide

/-- filter.go: addPSource hands the calculator only the copy built entry by entry through `detIDs.Add`
(never the source as sent) — the `filterDetIDs` of the model (`C13_repeated_detid_counted_once`). -/
theorem C13_tie_filter_source_shape : ExoVerif.Gen.oracleFilterSourceShape.length = 4 := by decide

end ExoVerif.Oracle
