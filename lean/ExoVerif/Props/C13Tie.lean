import ExoVerif.Props.C13
import ExoVerif.Generated.Facts
/-! C13 tie: constants and code shapes of the admission path, regenerated from the Go sources. -/
namespace ExoVerif.Oracle

/-- app/ante/utils/oracle.go: TxSizeLimit is the 1000 of `anteHandle`. -/
theorem C13_tie_size_limit : ExoVerif.Gen.oracleTxSizeLimit = 1000 := by decide

/-- msg_server_create_price.go: maxFutureOffset is the 5 s of `checkTimestamp`. -/
theorem C13_tie_future_offset : ExoVerif.Gen.oracleMaxFutureOffsetSec = 5 := by decide

/-- The model's `anteHandle` refuses `sigValid = false` because, in the oracle branch of
SigVerificationDecorator, every `VerifySignature` call is the negated condition of an `if` that
returns an error — and that condition is exactly the one transcribed (skipped only when
simulating). If the result is dropped again, or the guard is weakened, this breaks. -/
theorem C13_tie_signature_checked :
    ExoVerif.Gen.oracleSigResultUsed = true ∧
    ExoVerif.Gen.oracleSigGuardCond = "!simulate && !pubKey.VerifySignature(bytesToSign, data.Signature)" := by decide

theorem C13_tie_shapes :
    ExoVerif.Gen.oracleNonceShape.length = 2 ∧ ExoVerif.Gen.oracleTimestampShape.length = 2 := by decide

end ExoVerif.Oracle
